"""Per-property registration: what is claimed, at which level, decided how."""

TRUST = ('Trusted: Coq 8.16.1 kernel; no axioms (Print Assumptions must be closed); the hand-written Gallina '
         'model is tied to /repo/src by co-execution on every run (exhaustive on finite domains and small scopes, '
         'structured random beyond); extraction (ExtrOcamlBasic only) + OCaml driver, cross-checked by vm_compute; '
         'the Python harness and CPython 3.12.1. ')

CHECKS = {
    'C01': dict(
        ref='5.1',
        text='Theorems in coq/Properties/C01.v: for all strings over the allowed characters compare_strings of the Gallina '
             'model equals the key order of Spec/Dpkg.v (non-digit runs ranked tilde < end < letters < others, digit runs by '
             'value), proved by induction on fuel with no bound on lengths or digit-run sizes; compare_versions on any two '
             'accepted strings is the lexicographic order of (epoch, upstream key, revision key) and never raises. The '
             'statement-by-statement transcription of dpkg verrevcmp/dpkg_version_compare (Spec/Dpkg.v) is proved to compute '
             'the same order for all strings (decimal-value lemmas, digit/non-digit loop invariants), so compare_versions = '
             'sgn(dpkg_version_compare) is a theorem; the transcription is additionally compared with the dpkg binary. The model is '
             'co-executed with version.py on the whole 68x68 rank table, all pairs of strings of length <=2/3 over a 9-character '
             'representative alphabet and structured random pairs.',
        note=TRUST + 'Spec: transcription of dpkg lib/dpkg/version.c (validated against /usr/bin/dpkg when present). '
             'Modelled, not verified: str.isdigit/int() tables (swept on all code points each run).',
        technique='Rocq proof (induction) over a Gallina model + exhaustive/differential co-execution against the Python code and dpkg',
    ),
    'C02': dict(
        ref='5.2',
        text='Theorems in coq/Properties/C02.v, for all versions whose components hold allowed characters (which every '
             'parsed version satisfies, proved): three-way result in {-1,0,1}, antisymmetry, reflexivity, transitivity incl. '
             'through order-equal versions and strictness, the operator table for < <= > >= and << <= < = >= > >>, ValueError '
             'for unknown operators, trichotomy, == implies order-equal and equal hash, and: a list with no adjacent inversion '
             'is non-decreasing at every pair. Derived from the proved key order by a small algebra of total-preorder '
             'comparisons (lexicographic pairs, padded lexicographic lists). The model is co-executed with version.py on '
             'operators/constraints, and the laws are evaluated on the implementation on pairs, triples and sorted() lists.',
        note=TRUST + 'Environment premise (not an axiom): Python sorted()/max()/min() return a permutation with no adjacent '
             'pair inverted under __lt__ when __lt__ is a strict weak order (checked on every run on generated lists).',
        technique='Rocq proof over a Gallina model + differential co-execution and law checking against the Python code',
    ),
    'C03': dict(
        ref='5.3',
        text='Theorems in coq/Properties/C03.v for all strings: accepted only if policy-valid (Spec/Policy.v) after trimming; '
             'policy-valid strings whose revision (or upstream when there is none) ends in an alphanumeric are accepted; '
             'rejection is ValueError and nothing else; the decomposition is dpkg\'s split (first colon, last hyphen, '
             'defaults 0 and "0"); compare_versions and eval_constraint accept exactly the strings from_string accepts and reject the '
             'others with ValueError. The recogniser model is co-executed with Version.from_string and with the compiled pattern '
             'object on all strings of length <=5/6 over a 13-character representative alphabet, every code point at four '
             'positions (thorough) and grammar-driven accepted/rejected strings.',
        note=TRUST + 'Outside the model: CPython\'s 4300-digit limit of int(str) for epochs.',
        technique='Rocq proof over a Gallina model + small-scope exhaustive co-execution against the compiled regex and from_string',
    ),
    'C04': dict(
        ref='5.4',
        text='Theorems in coq/Properties/C04.v for every accepted string: parsing the printed form gives the same '
             '(epoch, upstream, revision); printing is idempotent; the printed form is the normalised epoch, the upstream and '
             'the revision, which is omitted only when it is "0", the upstream has no hyphen and ends in an alphanumeric; '
             'decimal printing of the epoch has no leading zeros and reads back. Model co-executed with version.py on '
             'grammar-driven strings, all zero-epoch x hyphenated-upstream x zero-revision combinations and all strings of '
             'length <=6/7 over 0 1 a - : . ~.',
        note=TRUST,
        technique='Rocq proof over a Gallina model + differential co-execution against the Python code',
    ),
    'C05': dict(
        ref='5.5',
        text='Theorems in coq/Properties/C05.v for every text: the parser is total; the reported (number, value) pairs, in '
             'output order, account for the numbered source lines in source order (relation acc, by induction over the line '
             'list with the state of the paragraph machine generalised): each source line is reported at most once with its '
             'own number and a value that is the line without trailing blanks / the line verbatim / the text after the first '
             'colon trimmed, and an unreported line is blank or a declaration with an empty value; numbers lie in 1..#lines and '
             'increase strictly over the whole result; they are contiguous inside every field; a reported field never ends in a '
             'blank line; source lines contain no LF/CR and LF-joined lines are read back unchanged; the parser carries the numbers of '
             'the lines it is handed and never reads them (any renumbering commutes with parsing; lines numbered from k+1 give the '
             'groups of the text, k higher). The model is co-executed '
             'with deb822.py on all sequences of <=5/6 lines over 8 line kinds, random line sequences with mixed terminators, '
             'the two classifier patterns on every position class, and the six clauses are evaluated on the implementation.',
        note=TRUST + 'The interleaving characterisation of source lines is proved for LF-joined lines; CRLF/CR handling is '
             'co-executed. Regex classifiers are modelled by direct recognisers (small-scope exhaustive comparison).',
        technique='Rocq proof (induction over the line list, state invariant) + exhaustive small-scope co-execution against the Python code',
    ),
    'C06': dict(
        ref='5.6',
        text='Theorems in coq/Properties/C06.v for every document of the grammar Spec/Grammar822.v (any number of paragraphs '
             'and fields; names [A-Za-z][A-Za-z0-9-]*; any blanks/tabs after the colon; any trimmed first-line value without '
             'LF/CR, possibly empty; indented non-blank continuation lines; k>=1 empty lines between paragraphs, any number '
             'after the last): the line-tracking parser returns exactly the paragraphs in order, each with exactly its '
             'fields in order, names lower-cased (licence->license), first-line values trimmed, continuation lines in order, '
             'each line with its number in the document; names and values are independent of the separator lengths and of '
             'the final line end. The header-style parser (splitter regex scanner + the modelled email fragment + merge loop) '
             'cuts the document into exactly its paragraphs for any separator lengths and reads each paragraph (with or '
             'without final LF) as exactly its fields in order, names lower-cased, value = first-line value and continuation '
             'lines joined by LF and trimmed, provided the lower-cased names of a paragraph are pairwise different and none is '
             'content-type (recorded finding F17). All by induction over lines/fields/paragraphs, no bound on sizes. NOT '
             'modelled: reading from a file (open, UTF-8 decoding) - exercised by execution only. The model is co-executed '
             'with deb822.py/debcon.py and email.message_from_string on generated grammar documents (random layouts), '
             'header-ish texts, all strings of length <=7/8 over 6 characters through the splitter, and the executable '
             'statement compares both parsers with the generating document on every case.',
        note=TRUST + 'email.message_from_string is environment code: modelled (Model/Email.v), validated by co-execution, not '
             'verified. File reading is not modelled.',
        technique='Rocq proof (induction over the document grammar) over a Gallina model + differential co-execution against the Python code and the stdlib email parser',
    ),
    'C07': dict(
        ref='5.7',
        text='Theorems in coq/Properties/C07.v for every text: the line-tracking parser returns (its exception branch is '
             'unreachable because a declaration line always splits into a non-empty name); BaseParagraph.from_fields never '
             'reaches its assertion for any list of fields - a duplicated name is renamed to a suffixed name that is fresh '
             '(pigeonhole over the injective decimal suffixes), reserved names are ordinary unknown fields - hence '
             'DebianCopyright.from_text succeeds and its dictionary form, rendering and validity are values. Every raising '
             'Python operation of the modelled code is a Raise branch of the model; the model is co-executed with '
             'copyright.py / debcon.py / deb822.py (all observables, exception classes included) on near-miss control files, '
             'all sequences of <=5/6 lines over 8 line kinds, MIME-looking and raw Unicode texts, and every entry point is '
             'called twice on the implementation (no exception, equal results).',
        note=TRUST + 'The header-style parser goes through a model of the standard email package (environment, validated by '
             'co-execution); interpreter limits (recursion on deeply nested MIME containers) are outside the model.',
        technique='Rocq proof (state invariant, pigeonhole for fresh names) + differential co-execution against the Python code',
    ),
    'C08': dict(
        ref='5.8',
        text='Theorems in coq/Properties/C08.v: cutting a text into paragraphs loses no word (separators hold white space '
             'only); cutting any text into lines, and the lines into header lines, one dropped empty separator and body, '
             'conserves every character; every paragraph that cannot be read as fields (no field, a parser defect, a leading '
             '"From " line, a MIME container) is returned whole under "unknown"; for a paragraph read as fields, the words '
             'after the colon of every declaration line and the words of every continuation line are exactly the words of the '
             'parsed values (invariant of the header state machine over line lists of any length), every parsed name is a '
             'key (lower-cased), every word of every value - merged or not, single- or multi-line - is found under its key '
             '(invariant of the merge loop over item lists of any length), the words of the body under "unknown"; for a '
             'repeated name every distinct single-line value is kept under the first occurrence, LF-separated, in order of '
             'first appearance, a value already merged is skipped without replacing the merged value. Partial only in this: '
             'a header line starting with "From " (the mailbox envelope corner of the standard parser) is excluded by '
             'hypothesis in the paragraph theorem. The model is co-executed with email.message_from_string / '
             'get_paragraph_data / get_paragraphs_data / Debian822(text) on header-ish, control-file, well-formed and raw '
             'Unicode texts, all sequences of <=5/6 repeated-name fields, and the executable statement checks word coverage '
             'and the merge equation on the implementation.',
        note=TRUST + 'email.message_from_string is environment code: modelled (Model/Email.v), validated by co-execution, not verified.',
        technique='Rocq proof (state-machine and loop invariants) + differential co-execution against the Python code and the stdlib email parser',
    ),
    'C09': dict(
        ref='5.9',
        text='Theorems in coq/Properties/C09.v, on the quantifier of the property (well-formed documents: no repeated names, no recovery): classification by names (Format/Format-Specification, else Files, '
             'else License, else catch-all); for every document of the deb822 grammar of C06 whose paragraphs classify as '
             'header/files/license the copyright object has exactly one paragraph per document paragraph, in order, of that '
             'type, and no recovery rewrite applies; for a paragraph without repeated names every field with a value is kept '
             'under its own name with its line range, the known names of the paragraph type typed by their converter applied '
             'to the text found, all other names as extra data; the copyright statement converter is characterised for EVERY '
             'value (whitespace runs collapse, first word is the year range iff it passes the year-range test, rest is the '
             'holder); file patterns are the whitespace-separated words; license = trimmed first line + decoded continuation '
             'lines (decoding itself: C20); no files paragraph => not valid (strict or not); one header + >=1 files paragraph, '
             'all valid => valid; a files paragraph with files, copyright and license name is valid. Outside this property: '
             'paragraphs WITH repeated names or recovery rewrites (C11/C12); the year-range test itself is a '
             'definition of the model (str.isdigit table swept each run). The complete model is co-executed with copyright.py on '
             'generated DEP-5 documents (random field order, layouts, both spellings, extra fields, corrupted variants), '
             'all strings of length <=4/5 over 9 characters through is_year_range, statement texts, and the executable '
             'statement compares the object with the generating document on every case.',
        note=TRUST + 'Modelled, not verified: str.isdigit/str.split/string.punctuation tables.',
        technique='Rocq proof over a Gallina model + differential co-execution against the Python code',
    ),
    'C10': dict(
        ref='5.10',
        text='Theorems in coq/Properties/C10.v: for EVERY text and the FINAL copyright object (after renaming of '
             'duplicates, merging of unknown paragraphs and folding of free text into an empty license) the ranges recorded for '
             'fields with a non-empty value, read paragraph after paragraph in the order of line_numbers_by_field, are strictly '
             'increasing and disjoint (end of one < start of the next), lie within 1..#lines with start <= end, and each starts on '
             'the first content line of a field with a value and ends on the last line of such a field (C10_final_object, by '
             'invariants carried through merge_unknown and fold_license with no bound on the number of paragraphs); every range '
             'recorded when a paragraph is built is (first line with content, last line) of one of its fields with a non-empty '
             'value; for a field with increasing line numbers both ends are numbers of its own lines, no line of the field lies '
             'after end and no line with content before start; line numbers increase strictly over all fields of all paragraphs '
             '(C05); k blank lines at the top shift every line number of the parsed groups by exactly k and change nothing else, '
             'and - for every text in which each paragraph has a field with a value - shift every recorded range of the WHOLE '
             'object by exactly k, through renaming, merged unknown paragraphs and folded licenses; a merged paragraph spans '
             'the merged ones (smallest start, largest end, both attained); a folded license runs from its License field, or the '
             'start of the unknown paragraph, to the end of the unknown paragraph. and for EVERY text and the FINAL object every word of '
             'the value of a field stands on a numbered source line inside the range recorded for that field '
             '(C10_words_in_range: typed values, renamed extras, merged unknown paragraphs, folded licenses); and for EVERY '
             'text k blank lines at the top leave paragraph types and dictionary forms as they are and shift the range of '
             'every field with a non-empty value by exactly k (C10_shift_every_text: a relational invariant through merge '
             'and fold; paragraphs in which no field has a value record no true range and whatever is recorded for them '
             'belongs to no value). Tie to the code: co-execution of the complete model (ranges included) '
             'with copyright.py on texts biased to the recovery paths, each also with 1/2/5 blank lines '
             'prepended, and the executable statement (bounds, non-blank ends, words inside the range, disjoint and '
             'increasing, shift, file route, observation purity).',
        note=TRUST,
        technique='Rocq proof (invariants carried through merge and fold, by induction) + differential co-execution and statement checking against the Python code',
    ),
    'C11': dict(
        ref='5.11',
        text='Theorems in coq/Properties/C11.v: for EVERY text the copyright object is built (no exception) and the words '
             '(str.split(); a lone full stop, the blank-line marker, is not counted) of all values of its dictionary form '
             'are a permutation of the words of the input (per source line: after the colon of a declaration line, the '
             'whole line otherwise): nothing lost, nothing invented. Proved stage by stage, each by induction with no '
             'bound: lines -> field groups (every branch of the state machine, trimmed trailing blank lines hold no '
             'word); fields -> paragraph (every value stored once under a fresh key, duplicates renamed not dropped; '
             'known/extra keys distinct so the dictionary form overwrites nothing); every field converter followed by its '
             'renderer keeps the words (single line, line list, whitespace list, formatted text, copyright statements, '
             'license); extra data re-encoded as formatted text; merge of catch-all runs keeps every value of every '
             'merged paragraph in order; fold moves all values of the unknown paragraph into the license text of the '
             'empty license paragraph. The model is co-executed with copyright.py on texts biased to renaming, merging '
             'and folding alone and combined, and the executable statement counts words on the implementation.',
        note=TRUST + 'Modelled, not verified: the str.split/str.splitlines/str.strip whitespace tables (swept against CPython on all code points each run).',
        technique='Rocq proof (induction over lines, fields, paragraphs) over a Gallina model + differential co-execution against the Python code',
    ),
    'C12': dict(
        ref='5.12',
        text='Theorems in coq/Properties/C12.v: for every document of the deb822 grammar extended with blank (empty '
             'or whitespace-only) lines inside a field that are followed by a continuation line, the line-tracking parser '
             'returns exactly the paragraphs and fields, the blank line recorded as an empty line of its field (no paragraph '
             'break); for two such documents that differ only in that some " ." marker lines of the first are blank lines in '
             'the second, both parse into the same paragraphs and fields with the same names and line numbers, the texts '
             'differing only at the replaced lines (" ." vs the empty text), hence the same words in each field; the '
             'whole copyright objects have the same number of paragraphs, of the same types, with typed fields and extra data of '
             'the same keys and the same words (for documents whose paragraphs classify as header/files/license and have no '
             'repeated field name - the well-formed documents the property quantifies over). Also the look-ahead rule for every parser state, '
             'protection from trailing-blank trimming, and equal decoding in formatted fields. NOT proved: paragraphs with '
             'repeated names and the recovery rewrites of the copyright object; decided by co-execution of the complete models '
             'with deb822.py and copyright.py on generated DEP-5 and control documents with every admissible subset of their '
             'markers blanked (all subsets for <=6 markers) and by the executable statement.',
        note=TRUST,
        technique='Rocq proof (induction over the extended document grammar) + differential co-execution and statement checking against the Python code',
    ),
    'C13': dict(
        ref='5.13',
        text='Theorems in coq/Properties/C13.v: THE GRAMMAR THEOREM (C13_dep5_grammar) - for EVERY document of the DEP-5 grammar '
             '(Proofs/GrammarSpec.v dep5_doc: header / Files / License paragraphs of well-formed fields under pairwise different '
             'names, each typed field holding a value of its class - one line for single-line fields, any continuation lines for line '
             'lists, white-space lists and copyright statements, for formatted text and license texts the blank-line marker, ordinary '
             'and verbatim lines without trailing blanks and not ending in a marker - plus any extra fields with continuation lines) '
             'the object built from its text renders to a text that parses back to an object with the same paragraph types and the '
             'same dictionary forms, and that renders to the same text again (render.parse.render = render), with as many paragraphs. '
             'It rests on: per class, the rendered value of a grammar value is renderable (trimmed non-empty first line, indented '
             'non-blank continuation lines without trailing blanks) and stable (C13_class_values, Proofs/ClassFacts.v); rendered names '
             'parse back to the keys and select the same paragraph type; the document theorem for objects meeting spec_good, whose '
             'hypothesis is also a computable test proved sound (spec_goodb) that the extracted model evaluates on every generated '
             'document on every run (true on all of them). Rebuilding a paragraph of the grammar from its own dictionary form '
             'reproduces that dictionary form when the continuation lines of its extra fields are indented with a space '
             '(C13_grammar_from_dict; general from_dict/to_dict theorem over any number of fields). RECORDED FINDING F24: with a '
             'TAB-indented continuation line in an extra field from_dict(to_dict()) does not reproduce to_dict() (the check prints '
             'KNOWN-FINDING for exactly these inputs). Also proved: parse.render.parse = parse for every field class under stated '
             'value conditions; an extra field re-parses to the text it was rendered from (defect F13 of the pinned tree excluded); no '
             'encoded formatted value contains an empty line; renderings without empty lines split back into the same paragraphs; a '
             'paragraph with a value is never rendered as an empty one. Tie to the code: co-execution of the complete model '
             '(rendering included) with copyright.py on generated DEP-5 documents and on their renderings (second cycle), '
             'and the executable statement on every generated document.',
        note=TRUST,
        technique='Rocq proof (induction over the document grammar, per-class lemmas) over a Gallina model + differential co-execution against the Python code',
    ),
    'C14': dict(
        ref='5.14',
        text='Theorems in coq/Properties/C14.v: every whole field - comma-separated groups of "|"-separated '
             'alternatives, each alternative under every layout and surrounded by any white space, line breaks included - '
             'parses to exactly its groups and alternatives in order (induction over groups and alternatives, no bound), and '
             'the reported names are exactly those mentioned; every well-formed alternative (name, optional operator and version, '
             'optional architecture list; Spec/DepsGrammar.v) rendered under every white-space layout parses to exactly that '
             'name, operator, version and architectures - proved through the scanner model of the relationship pattern, the '
             'operator tokenisation and the white-space splitting, for tokens and layouts of any length; its string form is '
             'the canonical single-spaced spelling, which parses back to an equal object; names are exactly those mentioned; a '
             'version clause without operator, with nothing but an operator, or with two operators raises ValueError; the string '
             'form of a whole field (", " and " | " separators) parses back to an equal object. Also co-execution of the model with deps.py on rendered abstract fields with '
             'random layouts, their corruptions, all strings of length <=4/5 over a 17-character alphabet through the compiled '
             'pattern, all strings of length <=6/7 through split_on_ops, and by the executable statement.',
        note=TRUST,
        technique='Rocq proof over a scanner model + small-scope exhaustive co-execution against the compiled regex and parser',
    ),
    'C15': dict(
        ref='5.15',
        text='Theorems in coq/Properties/C15.v for all relationship trees, names and candidates: simple relationships answer '
             'True/None; versioned ones None for another name, False without candidate, otherwise the stated operator table '
             'applied to compare(candidate, required) - which is dpkg order (C01 theorem) - and ValueError for an unknown '
             'operator; alternatives/conjunctions/relationship sets are exactly or_tv/and_tv/sets_tv of Spec/Matching.v over '
             'their members\' answers, for lists of any length (induction). The model is co-executed with deps.py / '
             'package.match_relationships on all result vectors up to width 5/6, all operators on every side of each '
             'required version, and random trees; each clause is also evaluated on the implementation with the extracted dpkg '
             'reference as oracle.',
        note=TRUST + 'Architecture restrictions (NotImplementedError) are modelled and excluded as in the property.',
        technique='Rocq proof (induction over member lists) + exhaustive small-scope co-execution against the Python code',
    ),
    'C16': dict(
        ref='5.16',
        text='Theorems in coq/Properties/C16.v (partial) about a scanner model that follows the clear-sign pattern group by '
             'group: for every text the result of remove_signature is a contiguous part of the input (never None); without '
             'envelope, or with an envelope whose signed part cannot be read, the input is returned unchanged; for every '
             'well-formed message (armor line, optional Hash header, empty line, any number of text lines, a matching signature '
             'block without inner block) the result is exactly the lines of the signed text without the final line end, also after '
             'any lines that do not start with five dashes; is_signed ignores white space around the text, and any number of blank '
             'lines before a message that reads gives the same signed text. The '
             'scanner is co-executed with the compiled pattern unsign.pgp_signed (match, cleartext group), is_signed and '
             'remove_signature on generated well-formed LF/CRLF messages and malformed variants. NOT proved: polynomial '
             'running time of CPython\'s regex engine; it is measured on every run (LF/CRLF, well-formed, damaged CRC/END line, '
             'many armor headers, long Hash values; sizes doubling to 1024/4096 lines; a ratio above 8 or a call above 5 s is '
             'a violation; every call runs in a worker process with a hard timeout).',
        note=TRUST + 'The pattern is modelled by a hand-written scanner (validated by co-execution); running time is an '
             'observation about the interpreter, not a theorem.',
        technique='Rocq proof over a scanner model (partial) + differential co-execution against the compiled regex + timing measurement',
    ),
    'C17': dict(
        ref='5.17',
        text='Theorems in coq/Properties/C17.v: for every name, version string, architecture and directory prefix (no '
             'underscore or slash inside the parts) the five file-name shapes (.deb/.udeb, .dsc, _copyright/_changelog, '
             '.orig/.debian .tar.gz/.xz/.bz2/.lzma) parse back to exactly that name, the parsed version, that architecture '
             'and the original path; every rejection is ValueError; acceptance implies 2 or 3 underscore-separated parts and a '
             'valid version. The model of list.sort used by find_latest_version (initial run + binary insertion, exact for '
             'lists under 64 elements) is proved to return a permutation that is non-decreasing in every class order the '
             'comparison is compatible with - even though tuple "<" is not a strict weak order on order-equal versions - so '
             'for packages of one name the selected one is an input no other input exceeds in dpkg order; mixed names raise '
             'ValueError; the per-name variant returns, for any order of the input files, one entry per name present, each an '
             'input of that name that no other input of that name exceeds (the sort is name-major, so groupby forms one group '
             'per name - proved from the sort specification). The model is co-executed with package.py on generated names, all strings of length <=5/6 over a small '
             'alphabet, and lists in all orders (exact equality of the selected archive).',
        note=TRUST + 'Environment: list.sort is modelled for fewer than 64 elements (count_run + binarysort of CPython 3.12); '
             'os.path.basename/splitext and itertools.groupby are modelled and co-executed.',
        technique='Rocq proof (sort invariant, string lemmas) + differential co-execution against the Python code',
    ),
    'C18': dict(
        ref='5.18',
        text='Theorems in coq/Properties/C18.v about the loop of parse_contents over decoded lines: any table of well-formed '
             'rows (paths with embedded spaces, 1..n packages with any qualifiers, any padding) parses to the fold of its '
             '(path, bare name) pairs; looked up, each path gives exactly the bare names of its rows in order and each package '
             'exactly the paths of the rows naming it in file order; the two mappings are inverse with multiplicity; narrative '
             'before the FILE/LOCATION row is ignored when declared; a missing declared header and a present undeclared header '
             'raise. All by induction over the row list. The model is co-executed with contents.parse_contents on generated '
             'tables written to temporary plain and gzip files and on malformed line lists, and the statement (expected '
             'mappings, inverse, header rules, gzip = plain) is evaluated on the implementation.',
        note=TRUST + 'Not modelled (exercised by execution only): opening the file, gzip, UTF-8 decoding.',
        technique='Rocq proof (induction over rows) + differential co-execution against the Python code on generated files',
    ),
    'C19': dict(
        ref='5.19',
        text='Theorems in coq/Properties/C19.v: for any lower-casing function, any value type and any finite operation '
             'sequence (get/set/delete/in/len/iter/to_dict), the observations of the Debian822 model, KeyError included, '
             'are those of a plain dictionary driven with lower-cased keys (induction over the history); all item-based '
             'construction routes build the dictionary of the lower-cased items; name capitalisation is case-independent and '
             'idempotent on ASCII names; typed conversion parses exactly the relationship fields (equal to parse_depends of '
             'the raw value), turns Installed-Size into an integer and leaves other values unchanged; rendering a paragraph of '
             'uniquely named fields ([a-z][a-z0-9-]* keys, single-line trimmed values) and reading the rendering back gives '
             'the same mapping (corollary of the C06 grammar theorem); a maintainer value "Name <address>" in the modelled '
             'grammar splits into exactly that name and address and prints back unchanged. The model is co-executed '
             'with debcon.Debian822 on random histories of length 0-40 after all five construction routes, all op sequences '
             'of length <=4/5 over two casings, every known control field name in four casings, typed paragraphs, rendered '
             'paragraphs read back and maintainer values.',
        note=TRUST + 'Rendering read-back and the maintainer split go through the modelled email fragment and a guarded '
             'model of email.utils.parseaddr (environment models, co-executed); multi-line values in the read-back and '
             'str.lower / str.capitalize on non-ASCII names are outside the theorems.',
        technique='Rocq proof (simulation by induction over operation histories) + differential co-execution against the Python code',
    ),
    'C20': dict(
        ref='5.20',
        text='Theorems in coq/Properties/C20.v, proved for all texts by induction over the line list of the Gallina '
             'model of the codec (safety of every encoded line, decode-after-encode, one-pass fixpoint on policy '
             'values, synopsis/short name on the first line); the model is co-executed with debcon.py/copyright.py '
             'on all strings up to length 5 (quick) or 6 over a class-representative alphabet plus structured '
             'random texts, and the executable statement of each clause is evaluated on the implementation.',
        note=TRUST + 'Modelled, not verified: str.strip/split/splitlines (compared with the interpreter on every '
             'run, Unicode class tables on all code points).',
        technique='Rocq proof over a Gallina model + differential co-execution against the Python code',
    ),
}

NOT_BUILT = 'check not built yet in this session; the design is in DESIGN.md section 5 (listed here so that nothing is claimed without machinery)'
