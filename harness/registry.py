"""Per-property registration: what is claimed, at which level, decided how."""

TRUST = ('Trusted: Coq 8.16.1 kernel; no axioms (Print Assumptions must be closed); the hand-written Gallina '
         'model is tied to /repo/src by co-execution on every run (exhaustive on finite domains and small scopes, '
         'structured random beyond); extraction (ExtrOcamlBasic only) + OCaml driver, cross-checked by vm_compute; '
         'the Python harness and CPython 3.12.1. ')

CHECKS = {
    'C20': dict(
        ref='5.20',
        text='Theorems in coq/Properties/C20.v, proved for all texts by induction over the line list of the Gallina '
             'model of the codec (safety of every encoded line, decode-after-encode, one-pass fixpoint on policy '
             'values, synopsis/short name on the first line); the model is co-executed with debcon.py/copyright.py '
             'on all strings up to length 5 (quick) or 6 over a class-representative alphabet plus structured '
             'random texts, and the executable statement of each clause is evaluated on the implementation.',
        note=TRUST + 'Modelled, not verified: str.strip/split/splitlines (compared with the interpreter on every '
             'run, Unicode class tables on all code points).',
        technique='Rocq proof over a Gallina model + differential co-execution against the Python code',
    ),
}

NOT_BUILT = 'check not built yet in this session; the design is in DESIGN.md section 5 (listed here so that nothing is claimed without machinery)'
