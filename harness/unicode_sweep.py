"""Compare the model's Unicode class tables with the running interpreter on all
0x110000 code points (surrogates included where the predicate is defined)."""
import re


def py_ranges(pred):
    out, start = [], None
    for c in range(0x110000):
        if pred(chr(c)):
            if start is None:
                start = c
        elif start is not None:
            out.append([start, c - 1])
            start = None
    if start is not None:
        out.append([start, 0x10ffff])
    return out


_d = re.compile(r'\d')
_s = re.compile(r'\s')

CLASSES = {
    'is_space': lambda ch: ch.isspace() and (ch.strip() == '') and bool(_s.match(ch)) and ('a' + ch + 'b').split() == ['a', 'b'],
    'is_linebreak': lambda ch: len(('a' + ch + 'b').splitlines()) == 2,
    'is_nd': lambda ch: ch.isdecimal() and bool(_d.match(ch)),
    'is_pydigit': lambda ch: ch.isdigit(),
}
# the disjunction must agree too: a code point where the interpreter's notions differ is reported
CLASSES_ANY = {
    'is_space': lambda ch: ch.isspace() or (ch.strip() == '') or bool(_s.match(ch)),
    'is_nd': lambda ch: ch.isdecimal() or bool(_d.match(ch)),
}


def sweep(ctx, names):
    reqs = [('class_ranges', [n]) for n in names]
    got = ctx.model.run(reqs)
    for n, m in zip(names, got):
        want = py_ranges(CLASSES[n])
        st = ctx.stream('unicode:' + n)
        st['cases'] += 0x110000
        ctx.evaluations += 0x110000
        ctx.exhaustive.append('unicode class %s on all 0x110000 code points' % n)
        if n in CLASSES_ANY and py_ranges(CLASSES_ANY[n]) != want:
            ctx.violation('environment', 'interpreter notions of %s differ among themselves' % n, n,
                          found_input=False)
        if m != want:
            st['disagreements'] += 1
            diff = [r for r in want if r not in m] + [r for r in m if r not in want]
            ctx.violation('environment', 'Unicode class %s of this interpreter differs from the model table at %s'
                          % (n, diff[:5]), n, expected=m, observed=want, found_input=False)
