"""Generators shared by the text-level properties.  Every random choice comes
from the rng passed in (one PRNG per check, seeded from VERIF_SEED)."""
import itertools

WORDS = ['a', 'foo', 'bar.', 'GPL-2+', 'x:y', '(c)', '2019', 'é', '漢字', '-', '--', '.', '..', '.x',
         '*', 'b/c', 'A', 'zz', '1', '~', '+', 'Ünï', '"q"', '#', '{}', '{0}', '%s', '\\n', '[a]', '<b>', 'a=b', 'e\u0301', 'K', '\u2126', '=?utf-9?q?x?=', '=?utf-8?b?a?=', '=?ascii?q?=FF?=', '#x', '#', '//x', '//example.org/a', 'http://x/y', '/usr', 'a%3ab', '%3a', 'b:any', '²', '①', '٢٠١٩', '2019²', '፩']
TERMS = ['\n'] * 12 + ['\r\n', '\r', '\n', '\n']
ODD_BREAKS = ['\x0b', '\x0c', '\x1c', '\x1d', '\x1e', '\x85', '\u2028', '\u2029']
ODD_SPACES = ['\x1f', '\xa0', '\u1680', '\u2000', '\u2009', '\u202f', '\u205f', '\u3000']


def all_strings(alphabet, maxlen):
    for n in range(maxlen + 1):
        for t in itertools.product(alphabet, repeat=n):
            yield ''.join(t)


def words_line(rng, lo=1, hi=4):
    if hi == 4 and rng.random() < .02:
        return long_line(rng)
    return ' '.join(rng.choice(WORDS) for _ in range(rng.randint(lo, hi)))


def long_line(rng):
    """a line beyond every usual display width (80, 100, 120, 255 characters), with and without blanks to fold at"""
    k = rng.random()
    if k < .6:
        return ' '.join(rng.choice(WORDS) for _ in range(rng.randint(25, 90)))
    if k < .8:
        return ''.join(rng.choice('abcXYZ019-+.') for _ in range(rng.randint(80, 300)))
    return 'x' * rng.choice([79, 80, 81, 255, 256, 1000]) + ' ' + rng.choice(WORDS)


def value_line(rng):
    """One line of a multi-line value, of every shape the codec distinguishes."""
    k = rng.random()
    if k < 0.40:
        return words_line(rng)
    if k < 0.50:
        return ''
    if k < 0.56:
        return rng.choice([' ', '  ', '\t', ' \t '])
    if k < 0.66:
        return ' ' + words_line(rng)
    if k < 0.74:
        return '  ' + words_line(rng)
    if k < 0.79:
        return '\t' + words_line(rng)
    if k < 0.84:
        return rng.choice(['.', '.x', '. y', ' .', ' .x', '  .', '..'])
    if k < 0.90:
        return words_line(rng) + rng.choice([' ', '  ', '\t'])
    if k < 0.94:
        return rng.choice(['---', '(', '"', '***', ':', ';'])
    if k < 0.97:
        return rng.choice(ODD_SPACES) + words_line(rng)
    return words_line(rng) + rng.choice(ODD_SPACES)


def multiline_text(rng, maxlines=8, odd=0.05):
    n = rng.randint(0, maxlines)
    out = []
    for i in range(n):
        out.append(value_line(rng))
        if i < n - 1 or rng.random() < 0.3:
            out.append(rng.choice(ODD_BREAKS) if rng.random() < odd else rng.choice(TERMS))
    return ''.join(out)


def unicode_text(rng, maxlen=30):
    """Raw any-Unicode stream (no surrogates)."""
    n = rng.randint(0, maxlen)
    cs = []
    for _ in range(n):
        k = rng.random()
        if k < 0.5:
            cs.append(chr(rng.randint(32, 126)))
        elif k < 0.7:
            cs.append(rng.choice('\n\n\n\r\t  :.-'))
        elif k < 0.8:
            cs.append(rng.choice(ODD_BREAKS + ODD_SPACES))
        else:
            c = rng.randint(0, 0x10ffff)
            if 0xd800 <= c <= 0xdfff:
                c = 0x4e00
            cs.append(chr(c))
    return ''.join(cs)


# ---------------------------------------------------------------- control-file texts

FIELD_NAMES = ['Format', 'Files', 'Copyright', 'License', 'Licence', 'Comment', 'Source', 'Upstream-Name',
               'Upstream-Contact', 'Disclaimer', 'Files-Excluded', 'Package', 'Version', 'Depends', 'Description',
               'X-Foo', 'Foo', 'foo-1', 'License-1', 'Files-2', 'Unknown', 'Unknown-1', 'Extra-Data',
               'Line-Numbers-By-Field', 'Format-Specification', 'Content-Type', 'A0-', 'LICENSE', 'files', 'İx', 'Kelvin',
               'Licence-Text', 'X-Licence', 'Licences', 'SubLicence', 'Note-', 'X--Comment']
NEAR_DECL = ['1abc: x', 'X_Foo: y', ' Some: bar', 'foo bar: baz', ':x', 'é: 1', 'a b', 'From foo', '-a: 1', 'a.b: c']


def decl_line(rng, name=None):
    name = name or rng.choice(FIELD_NAMES)
    k = rng.random()
    if k < 0.18:
        return name + ':' + rng.choice(['', ' ', '  ', '\t'])
    sep = rng.choice([': ', ':', ':  ', ' : ', ':\t'])
    return name + sep + words_line(rng) + rng.choice(['', '', ' ', ' \t'])


def cont_line(rng):
    k = rng.random()
    if k < .2:
        return ' .'
    if k < .3:
        return rng.choice([' .x', '  .', '\t.', ' . '])
    if k < .45:
        return rng.choice(['  ', '\t', ' \t']) + words_line(rng)
    return ' ' + words_line(rng) + rng.choice(['', '', ' '])


def control_line(rng):
    k = rng.random()
    if k < .34:
        return decl_line(rng)
    if k < .62:
        return cont_line(rng)
    if k < .78:
        return ''
    if k < .84:
        return rng.choice([' ', '  ', '\t', ' \t '])
    if k < .92:
        return words_line(rng)            # junk
    if k < .96:
        return rng.choice(NEAR_DECL)
    if k < .98:
        return rng.choice(ODD_SPACES + ODD_BREAKS) + words_line(rng)
    return words_line(rng) + rng.choice(ODD_BREAKS) + words_line(rng)


INVISIBLE = ['\ufeff', '\u200b', '\u2060', '\ufffe', '\x00', '\u200e', '\xad']


def control_text(rng, maxlines=14, mixed_terms=0.15):
    if rng.random() < .03:
        # an encoding signature or another invisible character in front of the first line
        return rng.choice(INVISIBLE) + control_text(rng, maxlines, mixed_terms)
    n = rng.randint(0, maxlines)
    mixed = rng.random() < mixed_terms
    term = rng.choice(['\n', '\n', '\n', '\r\n', '\r'])
    out = []
    for i in range(n):
        out.append(control_line(rng))
        if i < n - 1 or rng.random() < .7:
            out.append(rng.choice(['\n', '\r\n', '\r']) if mixed else term)
    return ''.join(out)


def corrupt_doc(rng, text):
    """one to three edits of a well-formed document: delete/duplicate/swap a line, insert a
    blank, damage a delimiter"""
    ls = text.split('\n')
    for _ in range(rng.randint(1, 3)):
        if not ls:
            break
        i = rng.randrange(len(ls))
        k = rng.random()
        if k < .2:
            del ls[i]
        elif k < .4:
            ls.insert(i, ls[i])
        elif k < .55 and len(ls) > 1:
            j = rng.randrange(len(ls))
            ls[i], ls[j] = ls[j], ls[i]
        elif k < .7:
            ls.insert(i, rng.choice(['', ' ', '\t']))
        elif k < .85:
            ls[i] = ls[i].replace(':', rng.choice(['', ' ', ';', '::']), 1)
        else:
            ls[i] = ls[i].lstrip() if ls[i][:1] in ' \t' else ' ' + ls[i]
    return '\n'.join(ls)


def big_text(rng, nlines, period=2, phase=0, term='\n'):
    """a large text of about nlines lines in which structure is dense and periodic, so that whatever
    block, page or buffer size an implementation uses, some boundary falls on each kind of line:
    paragraphs of short fields with continuation lines and blank-line markers every `period` lines,
    separated by one to three blank (or white-space-only) lines"""
    out = []
    i = 0
    while len(out) < nlines:
        if phase:
            out.append('Comment: c%d' % i)
            phase -= 1
            continue
        out.append(rng.choice(['License', 'Comment', 'X-Note', 'Files']) + ': v%d' % i)
        for j in range(rng.randint(1, 30)):
            out.append(' .' if j % period == period - 1 else ' line %d %s' % (j, rng.choice(WORDS)))
        if out[-1] == ' .':
            out.append(' end')
        if rng.random() < .4:
            out += rng.choice([[''], ['', ''], ['', ' '], ['', '', ''], [' ', '']])
        i += 1
    return term.join(out) + term


def aligned_text(rng, total, feature, align=4096, head='', unit=None, gaps=True):
    """A large ASCII text in which one kind of feature is placed exactly on every multiple of `align` characters (and
    so on every multiple of any larger power of two: 8 KiB, 64 KiB, 1 MiB - whatever block, buffer or page size a reader
    may use), by padding the line before it.  Features:
      'crlf-straddle'   CR at offset k*align-1, LF at k*align (lines end in CR LF)
      'line-start'      a line ends (LF) at k*align-1: the next line starts the block
      'blank-start'     the same, and the line that starts the block is empty, followed by a continuation line
      'sep-straddle'    a paragraph separator of two empty lines lies across k*align (one LF before, the rest after)
      'sep-straddle2'   a separator of three empty lines lies across k*align: two LFs before it, two after
      'sep:n:j'         the end of a line and the n-1 empty lines after it: n LFs, j of them before k*align
      'marker-start'    the line that starts the block is a " ." marker followed by a continuation line
    `unit(i)` returns the lines of the i-th paragraph (default: a Comment field with a few continuation lines); the
    last of them is the one padded."""
    term = '\r\n' if feature == 'crlf-straddle' else '\n'
    out = [head]
    pos = len(head)
    i = 0
    while pos < total:
        lines = unit(i) if unit else ['Comment: c%d' % i] + [' line %d %s' % (j, rng.choice(['a', 'foo', 'x y'])) for j in range(rng.randint(1, 5))]
        i += 1
        for l in lines[:-1]:
            out.append(l + term)
            pos += len(l) + len(term)
        last = lines[-1]
        # where must the terminator of the padded line end?
        nxt = (pos // align + 1) * align
        if feature == 'crlf-straddle':
            end = nxt + 1            # LF at nxt: the line and its CR occupy up to nxt-1
        elif feature == 'sep-straddle':
            end = nxt                # the first LF at nxt-1; the empty lines follow
        elif feature == 'sep-straddle2':
            end = nxt - 1            # the line's LF at nxt-2, the first empty line's LF at nxt-1, two more follow
        elif feature.startswith('sep:'):
            end = nxt - int(feature.split(':')[2]) + 1
        else:
            end = nxt                # LF at nxt-1
        room = end - pos - len(term) - len(last)
        if room < 0:
            end += align
            room += align
        out.append(last + 'x' * room + term)
        pos = end
        if feature == 'blank-start':
            out.append(term + ' after the blank' + term)
            pos += len(term) * 2 + len(' after the blank')
        elif feature == 'marker-start':
            out.append(' .' + term + ' after the marker' + term)
            pos += len(term) * 2 + len(' .') + len(' after the marker')
        elif feature == 'sep-straddle':
            out.append(term + term)
            pos += 2 * len(term)
        elif feature == 'sep-straddle2':
            out.append(term * 3)
            pos += 3 * len(term)
        elif feature.startswith('sep:'):
            more = int(feature.split(':')[1]) - 1
            out.append(term * more)
            pos += more * len(term)
        elif gaps and rng.random() < .5:
            out.append(term)
            pos += len(term)
    return ''.join(out)
