"""Abstract relationship fields, random layouts, corruptions (C14/C15)."""
OPS = ['<<', '<=', '=', '>=', '>>', '<', '>']
NAMES = ['python', 'libc6', 'g++', 'lib-x.y', 'a', 'foo:any', 'libstdc++6', 'python3.11', 'x-y+z', 'b:native', 'ab',
         'gcc:amd64', 'python3:arm64', 'libfoo:kfreebsd-amd64', 'x:i386']
ARCHS = ['i386', '!i386', 'linux-any', 'any-amd64', '!hurd-i386', 'amd64']
WS = [' ', '  ', '\t', '\n', ' \n ', '\n ', '']
VERS = ['1.0', '2:1.0~rc1-2', '0', '1-1', '1.2.3+b1', '7~', '1:0', '3.0-0ubuntu1', '10', '1.0-1~bpo',
        # spellings a normaliser would rewrite: the relationship holds the version as spelled
        '0:1.2', '01:1.2', '1.2-0', '00:1-00', '1.02', '1.2-00', '0:0']


def alt(rng):
    a = {'name': rng.choice(NAMES), 'ver': None, 'archs': []}
    if rng.random() < 0.55:
        a['ver'] = (rng.choice(OPS), rng.choice(VERS))
    if rng.random() < 0.3:
        a['archs'] = [rng.choice(ARCHS) for _ in range(rng.randint(1, 3))]
    return a


def field(rng, maxg=5, maxa=4):
    return [[alt(rng) for _ in range(rng.randint(1, maxa) if rng.random() < .4 else 1)]
            for _ in range(rng.randint(0, maxg))]


LONG_WS = 0.02       # probability of a long run of blanks (column-aligned control files): 16, 17, 32, 33, 100 characters


def ws(rng, nonempty=False):
    w = rng.choice(WS)
    if rng.random() < LONG_WS:
        w = rng.choice([' ', '\t', ' \n ']) * rng.choice([16, 17, 32, 33, 100])
    if nonempty and not w:
        w = ' '
    return w


def sp(rng):
    if rng.random() < LONG_WS:
        return ' ' * rng.choice([16, 17, 32, 33, 100])
    return rng.choice(['', ' ', '  ', ' \t', ' \n'])


def render_alt(rng, a, canonical=False):
    if canonical:
        s = a['name']
        if a['ver']:
            s += ' (%s %s)' % a['ver']
        if a['archs']:
            s += ' [%s]' % ' '.join(a['archs'])
        return s
    s = a['name']
    if a['ver']:
        s += sp(rng) + '(' + ws(rng) + a['ver'][0] + ws(rng) + a['ver'][1] + ws(rng) + ')'
    if a['archs']:
        gap = ws(rng) if a['ver'] else sp(rng)
        s += gap + '[' + ws(rng) + ws(rng, True).join(a['archs']) + ws(rng) + ']'
    return s


def render(rng, f, canonical=False):
    if canonical:
        return ', '.join(' | '.join(render_alt(rng, a, True) for a in g) for g in f)
    gs = []
    for g in f:
        gs.append((ws(rng) + '|' + ws(rng)).join(render_alt(rng, a) for a in g))
    out = (ws(rng) + ',' + ws(rng)).join(gs)
    if rng.random() < .3:
        out = ws(rng) + out + ws(rng)
    if rng.random() < .1 and f:
        out += ws(rng) + ','
    return out


def tree(f):
    """Expected structure as nested tagged lists."""
    def t(a):
        if a['ver']:
            return ['V', a['name'], a['ver'][0], a['ver'][1], list(a['archs'])]
        return ['R', a['name'], list(a['archs'])]
    return ['A', [t(g[0]) if len(g) == 1 else ['O', [t(a) for a in g]] for g in f]]


def names(f):
    return sorted(set(a['name'] for g in f for a in g))


def corrupt(rng, s):
    if not s:
        return s + rng.choice('([|,)')
    i = rng.randint(0, len(s))
    k = rng.random()
    if k < 0.4:
        return s[:i] + rng.choice('()[]|,<>= \t') + s[i:]
    if k < 0.7 and len(s) > 1:
        return s[:i - 1] + s[i:] if i else s[1:]
    return s[:i] + s[i:][::-1]


BAD_CLAUSES = ['a (1.0)', 'a (>=)', 'a (>= 1 << 2)', 'a ( 1.0 )', 'a (<<)', 'a (= 1 = 2)', 'a (>=1>=)', 'b | a (2)',
               'x, a (>> )', 'a (1 2)', 'a (> 1 >)']
