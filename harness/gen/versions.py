"""Version-string generators (grammar-driven, shared prefixes, digit runs with
leading zeros and of up to 60 digits, tildes at every depth, hyphenated
upstreams, explicit zero epochs/revisions) and a rejected-strings stream."""
import itertools
import string

LETTERS = string.ascii_letters
DIGITS = string.digits
ALLOWED = sorted(set(LETTERS + DIGITS + '.+-~'))       # 67 characters
REP9 = ['~', 'A', 'z', '+', '-', '.', '0', '1', '9']


def digit_run(rng):
    k = rng.random()
    if k < 0.5:
        return str(rng.randint(0, 20))
    if k < 0.75:
        return '0' * rng.randint(1, 4) + str(rng.randint(0, 300))
    if k < 0.9:
        return str(rng.randint(0, 10 ** 6))
    return ''.join(rng.choice(DIGITS) for _ in range(rng.randint(15, 60)))


def nondigit_run(rng, hyphen):
    pool = '~~..++' + ('--' if hyphen else '') + 'abzABZmn'
    return ''.join(rng.choice(pool) for _ in range(rng.randint(1, 3)))


def component(rng, hyphen, start_digit):
    """A run-structured upstream or revision; ends with an alphanumeric."""
    out = []
    if start_digit or rng.random() < 0.6:
        out.append(digit_run(rng))
    for _ in range(rng.randint(0, 4)):
        out.append(nondigit_run(rng, hyphen))
        if rng.random() < 0.8:
            out.append(digit_run(rng))
    s = ''.join(out)
    if not s or not s[-1].isalnum():
        s += rng.choice('a1Z0')
    return s


def version(rng):
    ep = ''
    k = rng.random()
    if k < 0.15:
        ep = '0:'
    elif k < 0.25:
        ep = '0' * rng.randint(1, 3) + ':'
    elif k < 0.45:
        ep = str(rng.randint(1, 3)) + ':'
    elif k < 0.5:
        ep = '0' * rng.randint(0, 2) + str(rng.randint(1, 12)) + ':'
    elif k < 0.56:
        # large epochs (beyond the small-integer cache of the interpreter, beyond machine words)
        ep = rng.choice(['', '0']) + str(rng.choice([256, 257, 258, 300, 1000, 65536, 2 ** 31, 2 ** 63, 2 ** 64 + 1, 10 ** 30])) + ':'
    has_rev = rng.random() < 0.6
    up = component(rng, hyphen=has_rev and rng.random() < 0.5, start_digit=True)
    if not has_rev:
        return ep + up
    k = rng.random()
    if k < 0.2:
        rev = '0'
    elif k < 0.3:
        rev = '00'
    else:
        rev = component(rng, hyphen=False, start_digit=False)
        if rng.random() < 0.1:
            rev += '~'
    return ep + up + '-' + rev


def variants(rng, v):
    """Order-equal or near-order-equal spellings of v."""
    out = [v]
    # zero-pad one digit run
    idx = [i for i, c in enumerate(v) if c.isdigit() and (i == 0 or not v[i - 1].isdigit())]
    if idx:
        i = rng.choice(idx)
        out.append(v[:i] + '0' * rng.randint(1, 3) + v[i:])
    if ':' not in v:
        out.append('0:' + v)
        out.append('1:' + v)
    if '-' not in v:
        out.append(v + '-0')
        out.append(v + '-00')
        out.append(v + '-1')
    if v[-1].isalnum() and '-' in v:
        out.append(v + '~')
    out.append(v + 'a')
    out.append(v + '.0')
    # the same spelling with the case of one letter swapped (upper-case letters sort before lower-case ones)
    li = [i for i, c in enumerate(v) if c.isalpha() and c.isascii()]
    if li:
        i = rng.choice(li)
        out.append(v[:i] + v[i].swapcase() + v[i + 1:])
    return [x for x in out if x]


def pair(rng):
    a = version(rng)
    k = rng.random()
    if k < 0.35:
        return a, version(rng)
    if k < 0.7:
        vs = variants(rng, a)
        return rng.choice(vs), rng.choice(vs)
    # shared prefix, diverging tail
    cut = rng.randint(1, len(a))
    pre = a[:cut]
    t1 = ''.join(rng.choice('~.+a1Z09') for _ in range(rng.randint(0, 3)))
    t2 = ''.join(rng.choice('~.+a1Z09') for _ in range(rng.randint(0, 3)))
    fix = lambda s: s if s[-1].isalnum() else s + rng.choice('a0')
    return fix(pre + t1), fix(pre + t2)


def component_pair(rng):
    """pairs of single components for compare_strings"""
    a = component(rng, hyphen=rng.random() < .5, start_digit=rng.random() < .7)
    k = rng.random()
    if k < 0.3:
        return a, component(rng, hyphen=rng.random() < .5, start_digit=rng.random() < .7)
    cut = rng.randint(0, len(a))
    pre = a[:cut]
    t = lambda: ''.join(rng.choice('~.+-aZmn0019') for _ in range(rng.randint(0, 4)))
    return pre + t(), pre + t()


def rejected_edits(rng, v):
    """single edits of an accepted string, most of them rejected"""
    out = []
    i = rng.randint(0, len(v))
    for ch in [':', '-', '_', ' ', '\n', '٢', '!', '~', '.', 'é', '/']:
        out.append(v[:i] + ch + v[i:])
    if len(v) > 1:
        out.append(v[:i - 1] + v[i:] if i else v[1:])
    out.append(v[::-1])
    out.append(':' + v)
    out.append(v + ':')
    out.append(v + '-')
    out.append('-' + v)
    out.append('a' + v)
    return out


def all_strings(alphabet, maxlen):
    for n in range(maxlen + 1):
        for t in itertools.product(alphabet, repeat=n):
            yield ''.join(t)
