"""Abstract DEP-5 documents: rendering and the typed values they spell (C09-C13)."""
from harness.gen import texts as T

FORMAT = 'https://www.debian.org/doc/packaging-manuals/copyright-format/1.0/'
HOLDERS = ['Jane Doe', 'ACME Inc.', 'The  Foo   Authors', 'J. R. <j@r.org>', 'Ünï Cödé', 'a', 'Free Software Foundation, Inc.',
           'Jane Doe <jane@x.org> (release manager)', 'A <a@b.c>, B <b@c.d>', '(c) 2012 Foo', 'Copyright (c) 2012 Foo', '2003 The Authors', '3 Guys Software',
           # display names as mail programs quote them
           '"Doe, Jane" <jane@x.org>', '"J \\"Q\\" Doe" <j@q.org>', 'Jane (home) <j@home.net>', '=?utf-8?q?J=C3=BCrgen?= <j@x.de>', "O'Neil <o@n.ie>", 'a\\b <a@b>']
YEARS = ['2019', '2001-2019', '1999,2001', '2001-2005,', '(2010)', '2010-', '1995-1996,1998',
         # year lists of any length are one word as long as they hold no blank
         ','.join(str(y) for y in range(1980, 1987)), ','.join(str(y) for y in range(1970, 2024)), '1990-1995,1997-2001,2003,2005-2011,2013,2015-2022',
         '1' * 31, '1' * 32, '1' * 33, '2' * 64, '1999' + ',2000' * 60]
NONYEARS = ['Copyright', '(c)', 'c2019', '2019a', 'by', '1999\u20132001', '\u00a92015', '\u00ab2007\u00bb', '2008\u2026']
SHORT = ['GPL-2+', 'MIT', 'Apache-2.0', 'GPL-2+ or MIT', 'BSD-3-clause', 'public-domain', 'LGPL-2.1+ with exception']
TOKENS = ['*', 'src/*', 'debian/*', 'foo.c', 'a/b/c.h', '*.txt', 'doc/?.md', 'attic/main.c,', 'a,b', ',', 'x;', '[ab].c', 'dir\\*', '"q"']
EXTRA_NAMES = ['X-Foo', 'Origin', 'Bar', 'X-Comment-2', 'Notes', 'Extra-Data', 'Line-Numbers-By-Field', 'X-Licence', 'Sublicence']
WORDS = [w for w in T.WORDS if not w.startswith('.')]


def words(rng, lo=1, hi=5):
    return ' '.join(rng.choice(WORDS) for _ in range(rng.randint(lo, hi)))


LONG_LINES = 0.06      # probability that an ordinary text line is a long one (60 to 100 characters, sometimes 300)


def long_words(rng):
    """words up to a width around every usual folding column (72, 76, 78, 79, 80), or far beyond"""
    want = rng.randint(58, 100) if rng.random() < .85 else rng.randint(150, 320)
    out = rng.choice(WORDS)
    while len(out) < want:
        out += ' ' + rng.choice(WORDS)
    return out[:want].rstrip() if rng.random() < .5 else out


def text_lines(rng, maxn=5, first_normal=True):
    """list of ('N', s) | ('B',) | ('V', s); does not end with a blank marker"""
    out = []
    for i in range(rng.randint(0, maxn)):
        k = rng.random()
        if rng.random() < LONG_LINES and (i > 0 or first_normal):
            out.append(('N', long_words(rng)))
        elif i == 0 and first_normal:
            out.append(('N', words(rng)))
        elif k > .97:
            # a verbatim line that is nothing but a full stop (not the blank-line marker: it is indented further)
            out.append(('V', rng.choice(['.', ' .', '. .'])))
        elif k < .6:
            out.append(('N', words(rng)))
        elif k < .8:
            out.append(('B',))
        else:
            out.append(('V', rng.choice(['', ' ', '   ']) + words(rng)))
    while out and out[-1][0] == 'B':
        out.pop()
    return out


TAB_TEXT = False        # ordinary text lines of formatted values indented with a tab instead of a space (legal deb822)


def render_tl(tl):
    ind = '\t' if TAB_TEXT else ' '
    return [ind + x[1] if x[0] == 'N' else ' .' if x[0] == 'B' else '  ' + x[1] for x in tl]


def decode_tl(tl):
    return [x[1] if x[0] == 'N' else '' if x[0] == 'B' else ' ' + x[1] for x in tl]


def statement(rng):
    k = rng.random()
    if k < .6:
        return (rng.choice(YEARS), rng.choice(HOLDERS))
    if k < .8:
        return (None, rng.choice(NONYEARS) + ' ' + rng.choice(HOLDERS))
    if k < .9:
        return (None, rng.choice(HOLDERS))
    return (rng.choice(YEARS), '')


def st_text(st):
    y, h = st
    return (y + ' ' + h).strip() if y else h


def _year_like(w):
    import string
    return bool(w) and all(c in string.digits + string.punctuation + ' ' for c in w) and any(c in string.digits for c in w)


def st_expected(st):
    """the statement as the property reads it: white space collapsed; the FIRST word is the year range when it is made
    of digits and punctuation with at least one digit, the rest is the holder"""
    ws = st_text(st).split()
    if ws and _year_like(ws[0]):
        return [ws[0], ' '.join(ws[1:])]
    return ['', ' '.join(ws)]


TAB_EXTRAS = 0.0       # probability that a continuation line of an extra field is indented with a tab (set by C13: finding F24)
TAB_INDENT = '\t'


# names the format declares for another type of paragraph: in this one they are extra fields like any other
FOREIGN = {'files': ['Upstream-Name', 'Upstream-Contact', 'Source', 'Disclaimer', 'Files-Excluded'],
           'license': ['Copyright', 'Upstream-Name', 'Upstream-Contact', 'Source', 'Disclaimer', 'Files-Excluded'],
           'header': ['Files']}


def extras(rng, kind=None):
    out = []
    if kind and rng.random() < .1:
        n = rng.choice(FOREIGN[kind])
        conts = [' ' + words(rng) for _ in range(rng.randint(0, 2))]
        out.append((n, words(rng, 1, 4), conts))
    for n in rng.sample(EXTRA_NAMES, rng.randint(0, 2) if rng.random() < .3 else 0):
        conts = [(TAB_INDENT if rng.random() < TAB_EXTRAS else ' ') + words(rng) for _ in range(rng.randint(0, 2) if rng.random() < .4 else 0)]
        out.append((n, words(rng), conts))
    return out


FIRST_MARKER = 0.0      # probability that a license text starts with a blank-line marker or a verbatim line (set by C09)


def license_field(rng, with_text=True):
    tl = text_lines(rng) if with_text and rng.random() < .8 else []
    if tl and len(tl) > 1 and rng.random() < FIRST_MARKER:
        tl = [rng.choice([('B',), ('V', ' ' + words(rng))])] + tl[1:]
    return (rng.choice(SHORT), tl)


def files_para(rng):
    return {'kind': 'files', 'files': [rng.choice(TOKENS) for _ in range(rng.randint(1, 4))],
            'copyright': [statement(rng) for _ in range(rng.randint(1, 4))],
            'license': license_field(rng, rng.random() < .6),
            'comment': text_lines(rng, 3, first_normal=True) if rng.random() < .3 else None,
            'extras': extras(rng, 'files')}


def license_para(rng):
    lic = license_field(rng)
    return {'kind': 'license', 'license': lic,
            'comment': text_lines(rng, 3) if rng.random() < .2 else None, 'extras': extras(rng, 'license')}


def header_para(rng):
    p = {'kind': 'header', 'format': FORMAT if rng.random() < .8 else 'http://dep.debian.net/deps/dep5',
         'upstream_name': words(rng, 1, 2) if rng.random() < .6 else None,
         'upstream_contact': [rng.choice(HOLDERS) for _ in range(rng.randint(1, 3))] if rng.random() < .5 else None,
         'source': text_lines(rng, 2) or None if rng.random() < .5 else None,
         'disclaimer': (text_lines(rng, 3) or None) if rng.random() < .15 else None, 'copyright': [statement(rng)] if rng.random() < .2 else None,
         'license': license_field(rng, False) if rng.random() < .2 else None,
         'comment': text_lines(rng, 3) if rng.random() < .3 else None,
         'files_excluded': [rng.choice(TOKENS) for _ in range(rng.randint(1, 3))] if rng.random() < .2 else None,
         'extras': extras(rng, 'header')}
    for k in ('source', 'comment'):
        if p[k] == []:
            p[k] = None
    return p


def document(rng, maxp=5, with_files=None):
    ps = [header_para(rng)]
    for _ in range(rng.randint(0, maxp)):
        ps.append(files_para(rng) if rng.random() < .6 else license_para(rng))
    if with_files is True and not any(p['kind'] == 'files' for p in ps):
        ps.append(files_para(rng))
    if with_files is False:
        ps = [p for p in ps if p['kind'] != 'files']
    # the same license, name and text, in a stand-alone License paragraph and in a Files paragraph or the header
    lics = [p for p in ps if p['kind'] == 'license' and p['license'][1]]
    users = [p for p in ps if p['kind'] in ('files', 'header') and p.get('license')]
    if lics and users and rng.random() < .25:
        src = rng.choice(lics)
        for u in rng.sample(users, rng.randint(1, len(users))):
            u['license'] = (src['license'][0], list(src['license'][1]))
    return ps


def multiline(first, conts):
    return [first] + conts


def render_para(rng, p, lic_spelling=None):
    """list of (Name, [lines of value: first-line text, continuation lines...]) in random order"""
    fs = []
    lic = lic_spelling or rng.choice(['License', 'License', 'Licence'])

    def text_field(name, tl):
        ls = render_tl(tl)
        fs.append((name, [ls[0][1:]] + ls[1:]))
    if p['kind'] == 'header':
        fs.append(('Format', [p['format']]))
        if p['upstream_name'] is not None:
            fs.append(('Upstream-Name', [p['upstream_name']]))
        if p['upstream_contact'] is not None:
            fs.append(('Upstream-Contact', [p['upstream_contact'][0]] + [' ' + x for x in p['upstream_contact'][1:]]))
        if p['source']:
            text_field('Source', p['source'])
        if p['disclaimer']:
            text_field('Disclaimer', p['disclaimer'])
        if p['files_excluded'] is not None:
            fs.append(('Files-Excluded', [p['files_excluded'][0]] + [' ' + x for x in p['files_excluded'][1:]]))
    if p['kind'] == 'files':
        if rng.random() < .5:
            fs.append(('Files', [' '.join(p['files'])]))
        else:
            fs.append(('Files', [p['files'][0]] + [' ' + x for x in p['files'][1:]]))
    if p.get('copyright'):
        sts = [st_text(s) for s in p['copyright']]
        fs.append(('Copyright', [sts[0]] + [' ' + x for x in sts[1:]]))
    if p.get('license'):
        short, tl = p['license']
        fs.append((lic, [short] + render_tl(tl)))
    if p.get('comment'):
        text_field('Comment', p['comment'])
    for n, first, conts in p['extras']:
        fs.append((n, [first] + conts))
    if p['kind'] == 'header':
        rest = fs[1:]
        rng.shuffle(rest)
        fs = ([fs[0]] + rest) if rng.random() < .7 else sorted([fs[0]] + rest, key=lambda _: rng.random())
    else:
        rng.shuffle(fs)
    return fs


def render(rng, doc):
    paras = []
    for p in doc:
        lines = []
        for name, vl in render_para(rng, p):
            sep = rng.choice([': ', ': ', ':', ':  '])
            lines.append(name + (sep + vl[0] if vl[0] else ':'))
            lines.extend(vl[1:])
        paras.append('\n'.join(lines))
    sep = lambda: '\n' * rng.randint(2, 4)
    out = ''
    for i, t in enumerate(paras):
        out += t + (sep() if i < len(paras) - 1 else '')
    return out + '\n' * rng.randint(0, 2)


def lic_expected(lic):
    if not lic:
        return ['', '']
    short, tl = lic
    if not tl:
        return [short, '']
    d = decode_tl(tl)
    # the first line of the text is trimmed, not decoded: a marker there stays a full stop
    d[0] = render_tl(tl[:1])[0].strip()
    return [short, '\n'.join(d).lstrip()]


def text_expected(tl):
    if not tl:
        return ''
    d = decode_tl(tl)
    return '\n'.join([d[0].strip()] + d[1:])


def expected(p):
    """(type name, {field: typed value}, {extra name: raw value})"""
    ex = {n.lower().replace('-', '_'): '\n'.join([f] + c) for n, f, c in p['extras']}
    if p['kind'] == 'header':
        return ('CopyrightHeaderParagraph', {
            'format': p['format'], 'upstream_name': p['upstream_name'] or '',
            'upstream_contact': list(p['upstream_contact'] or []),
            'source': text_expected(p['source']), 'disclaimer': text_expected(p['disclaimer']),
            'copyright': [st_expected(s) for s in (p['copyright'] or [])],
            'license': lic_expected(p['license']), 'comment': text_expected(p['comment']),
            'files_excluded': list(p['files_excluded'] or [])}, ex)
    if p['kind'] == 'files':
        return ('CopyrightFilesParagraph', {
            'files': list(p['files']), 'copyright': [st_expected(s) for s in p['copyright']],
            'license': lic_expected(p['license']), 'comment': text_expected(p['comment'])}, ex)
    return ('CopyrightLicenseParagraph', {'license': lic_expected(p['license']), 'comment': text_expected(p['comment'])}, ex)
