"""Abstract deb822 documents and their renderings (C06, C12, C19)."""
from harness.gen import texts as T

NAME_HEAD = 'abcdefghijklmnopqrstuvwxyzABCDEFGHIJKLMNOPQRSTUVWXYZ'
NAME_TAIL = NAME_HEAD + '0123456789--'
VALUE_WORDS = T.WORDS + ['a: b', 'http://x.y/z?q=1', ':', '::', 'key: value', '.', '.hidden', '日本', 'naïve', '[x]', '<a@b.c>', '=', '"', "'"]


def field_name(rng):
    k = rng.random()
    if k < .5:
        return rng.choice(['Package', 'Version', 'Depends', 'Description', 'Maintainer', 'Source', 'Files', 'License',
                           'Copyright', 'Format', 'Comment', 'X-Foo', 'Homepage', 'Section', 'Architecture',
                           'From', 'From-Source', 'Fromage', 'Content-Length', 'Received', 'Subject'])
    n = rng.choice(NAME_HEAD) + ''.join(rng.choice(NAME_TAIL) for _ in range(rng.randint(0, 8)))
    return n


def value_text(rng, lo=1, hi=4):
    return ' '.join(rng.choice(VALUE_WORDS) for _ in range(rng.randint(lo, hi)))


def field(rng):
    conts = []
    for _ in range(rng.randint(0, 3) if rng.random() < .4 else 0):
        k = rng.random()
        if k < .2:
            conts.append(' .')
        else:
            conts.append(rng.choice([' ', '  ', '\t', ' \t']) + value_text(rng))
    first = value_text(rng) if (rng.random() < .9 or not conts) else ''
    return [field_name(rng), first, conts]


def key_of(name):
    n = name.lower()
    return 'license' if n == 'licence' else n


def paragraph(rng, maxf=6):
    fs, seen = [], set()
    for _ in range(rng.randint(1, maxf)):
        f = field(rng)
        k = key_of(f[0])
        if k in seen:
            continue
        seen.add(k)
        fs.append(f)
    return fs


def document(rng, maxp=4):
    return [paragraph(rng) for _ in range(rng.randint(1, maxp))]


def render(rng, doc, seps=None, trailing=None, colon=None):
    out = []
    for i, p in enumerate(doc):
        for name, first, conts in p:
            c = colon if colon is not None else rng.choice([': ', ': ', ':', ':  ', ':\t'])
            if not first:
                c = rng.choice([':', ': '])
            out.append(name + (c + first if first else c.rstrip(' \t') if rng.random() < .5 else c))
            out.extend(conts)
        if i < len(doc) - 1:
            k = seps[i] if seps else rng.randint(1, 4)
            out.extend([''] * k)
            if rng.random() < .2:
                out.extend(rng.choice([' ', '\t', '  \t']) for _ in range(rng.randint(1, 2)))
    t = trailing if trailing is not None else rng.randint(0, 3)
    return '\n'.join(out) + '\n' * t


def is_mime_container(doc):
    for p in doc:
        for name, first, conts in p:
            if name.lower() == 'content-type':
                main = first.partition(';')[0].strip().lower()
                if main.count('/') == 1 and main.split('/')[0] in ('multipart', 'message'):
                    return True
    return False


def expected_debcon(doc):
    return [[[key_of(n) if False else n.lower(), '\n'.join([f] + c).strip()] for n, f, c in p] for p in doc]


def expected_deb822(doc, text):
    """names, lines and numbers as laid out"""
    import re
    src = re.split(r'\n', text)
    out, i = [], 0
    for p in doc:
        g = []
        for name, first, conts in p:
            while not src[i].strip():
                i += 1
            lines = [[i + 1, first]] + [[i + 2 + j, c.rstrip()] for j, c in enumerate(conts)]
            i += 1 + len(conts)
            while lines and not lines[-1][1].strip():
                lines.pop()
            g.append([key_of(name), lines])
        out.append(g)
    return out


def dense_document(rng, nparas):
    """many one- or two-field paragraphs with short values, to be rendered with separators of two to four blank
    lines: whatever block or buffer size a reader uses, some boundary falls inside a separator, inside a
    name, on a colon and on a continuation line"""
    doc = []
    for i in range(nparas):
        k = rng.random()
        if k < .7:
            doc.append([[rng.choice(['A', 'Bc', 'Package']), rng.choice(['b', 'é', 'x y', '1']), []]])
        elif k < .9:
            doc.append([['P', 'v%d' % i, []], ['Q', 'w', [' c', ' .', ' d'][:rng.randint(0, 3)]]])
        else:
            doc.append(paragraph(rng, 3))
    seps = [rng.randint(2, 4) for _ in doc]
    return doc, seps
