"""Shared machinery of the checks: build, theorem re-check, model driver client,
comparison, violation/known-finding reporting, evidence.

Run with /venv/bin/python; the library under test is imported from /repo/src as
it is when the check starts.  Nothing derived from /repo is cached."""
import fcntl
import hashlib
import json
import os
import random
import re
import shutil
import subprocess
import sys
import tempfile
import time

VERIF = os.path.dirname(os.path.dirname(os.path.abspath(__file__)))
REPO = os.environ.get('VERIF_REPO', '/repo')
COQ = os.path.join(VERIF, 'coq')
OCAML = os.path.join(VERIF, 'ocaml')
DRIVER = os.path.join(OCAML, 'driver')
if os.path.realpath(REPO) == os.path.realpath('/repo'):
    EVIDENCE = os.path.join(VERIF, 'evidence')
    REPLAYS = os.path.join(VERIF, 'replays')
else:
    # a check pointed at another copy of the library (evaluation of seeded changes) must not overwrite the
    # evidence of /repo itself
    _alt = os.path.join(tempfile.gettempdir(), 'verif_alt_%s' % hashlib.sha1(os.path.realpath(REPO).encode()).hexdigest()[:10])
    EVIDENCE = os.path.join(_alt, 'evidence')
    REPLAYS = os.path.join(_alt, 'replays')

os.environ.setdefault('PYTHONHASHSEED', '0')
sys.dont_write_bytecode = True
sys.path.insert(0, os.path.join(REPO, 'src'))
for _k in [k for k in sys.modules if k.startswith('debian_inspector')]:
    del sys.modules[_k]

ALLOWED_AXIOMS = set()  # every property theorem must be closed under the global context


# --------------------------------------------------------------------------
# protocol values

class Exn(tuple):
    """('EXN', class name)"""
    def __new__(cls, name):
        return tuple.__new__(cls, ('EXN', name))

    def __repr__(self):
        return 'Exn(%s)' % self[1]


def enc(v, out):
    if isinstance(v, bool):
        out.append('T' if v else 'F')
    elif v is None:
        out.append('N')
    elif isinstance(v, str):
        out.append('S')
        out.append(str(len(v)))
        out.extend(str(ord(c)) for c in v)
    elif isinstance(v, int):
        out.append('I')
        out.append(str(v))
    elif isinstance(v, (list, tuple)):
        out.append('L')
        out.append(str(len(v)))
        for x in v:
            enc(x, out)
    else:
        raise TypeError('cannot encode %r' % (v,))


def encode_request(fname, args):
    out = [fname]
    for a in args:
        enc(a, out)
    return ' '.join(out)


def dec(toks, i):
    t = toks[i]
    if t == 'S':
        n = int(toks[i + 1])
        return ''.join(chr(int(c)) for c in toks[i + 2:i + 2 + n]), i + 2 + n
    if t == 'I':
        return int(toks[i + 1]), i + 2
    if t == 'N':
        return None, i + 1
    if t == 'T':
        return True, i + 1
    if t == 'F':
        return False, i + 1
    if t == 'L':
        n = int(toks[i + 1])
        i += 2
        out = []
        for _ in range(n):
            v, i = dec(toks, i)
            out.append(v)
        return out, i
    if t == 'E':
        return Exn(toks[i + 1]), i + 2
    raise ValueError('bad reply token %r' % t)


def decode_reply(line):
    if line.startswith('!'):
        return Exn('DRIVER:' + line.strip())
    toks = line.split(' ')
    v, i = dec(toks, 0)
    return v


def canon(v):
    """Canonical form of an implementation-side value: tuples -> lists."""
    if isinstance(v, (tuple, list)) and not isinstance(v, Exn):
        return [canon(x) for x in v]
    return v


def call(f, *args, **kw):
    """Call the implementation; an exception becomes Exn(class name)."""
    try:
        return canon(f(*args, **kw))
    except Exception as e:  # noqa  (RecursionError included: no answer for this input is an answer to compare)
        return Exn(type(e).__name__)


# --------------------------------------------------------------------------
# build

def sh(cmd, cwd=None, timeout=1800):
    return subprocess.run(cmd, shell=True, cwd=cwd, timeout=timeout,
                          stdout=subprocess.PIPE, stderr=subprocess.STDOUT, text=True)


def build(verbose=False):
    """(Re)build the Coq development and the extracted driver under a lock."""
    os.makedirs(REPLAYS, exist_ok=True)
    os.makedirs(EVIDENCE, exist_ok=True)
    lock = open(os.path.join(COQ, '.build.lock'), 'w')
    fcntl.flock(lock, fcntl.LOCK_EX)
    try:
        if not os.path.exists(os.path.join(COQ, 'Makefile')):
            r = sh('coq_makefile -f _CoqProject -o Makefile', cwd=COQ)
            if r.returncode:
                raise SystemExit('coq_makefile failed:\n' + r.stdout)
        r = sh('timeout 3000 make -j16', cwd=COQ, timeout=3100)
        if r.returncode:
            return False, r.stdout[-4000:]
        ml = os.path.join(OCAML, 'model.ml')
        srcs = [ml, os.path.join(OCAML, 'driver.ml')]
        if (not os.path.exists(DRIVER)
                or any(os.path.getmtime(s) > os.path.getmtime(DRIVER) for s in srcs)):
            r = sh('ocamlfind ocamlopt -w -a model.mli model.ml driver.ml -o driver.tmp'
                   ' && mv driver.tmp driver', cwd=OCAML)
            if r.returncode:
                return False, r.stdout[-4000:]
        return True, ''
    finally:
        fcntl.flock(lock, fcntl.LOCK_UN)
        lock.close()


FORBIDDEN = re.compile(
    r'\b(Admitted|admit|Axiom|Axioms|Parameter|Parameters|Conjecture|Conjectures|'
    r'Hypothesis|Hypotheses|Variable|Variables|Abort|give_up|bypass_check|'
    r'Unset\s+Guard|Unset\s+Positivity|Unset\s+Universe|type-in-type|impredicative-set|'
    r'Admit\s+Obligations|native_compute)\b')


def strip_comments(src):
    out = []
    depth = 0
    i = 0
    while i < len(src):
        if src.startswith('(*', i):
            depth += 1
            i += 2
        elif src.startswith('*)', i) and depth:
            depth -= 1
            i += 2
        else:
            if not depth:
                out.append(src[i])
            i += 1
    return ''.join(out)


def scan_forbidden():
    """No Admitted/Axiom/... anywhere in the development (Variable/Hypothesis are
    allowed only inside a Section)."""
    bad = []
    for root, _d, files in os.walk(COQ):
        for f in files:
            if not f.endswith('.v'):
                continue
            p = os.path.join(root, f)
            src = strip_comments(open(p).read())
            depth = 0
            for ln, line in enumerate(src.split('\n'), 1):
                if re.match(r'\s*Section\b', line):
                    depth += 1
                for m in FORBIDDEN.finditer(line):
                    w = m.group(1)
                    if w.startswith(('Variable', 'Hypothes')) and depth > 0:
                        continue
                    bad.append('%s:%d: %s' % (os.path.relpath(p, VERIF), ln, w))
                if re.match(r'\s*End\b', line) and depth > 0:
                    depth -= 1
    return bad


def check_theorems(pid):
    """Re-compile Properties/<pid>.v against the built development, parse what
    Print Assumptions reports under each theorem.  Returns a dict."""
    vfile = os.path.join(COQ, 'Properties', pid + '.v')
    res = {'file': os.path.relpath(vfile, VERIF), 'theorems': [], 'ok': False,
           'axioms': [], 'errors': []}
    if not os.path.exists(vfile):
        res['errors'].append('missing ' + vfile)
        return res
    src = open(vfile).read()
    res['sha256'] = hashlib.sha256(src.encode()).hexdigest()
    code = strip_comments(src)
    thms = re.findall(r'^\s*(?:Theorem|Corollary)\s+(\w+)', code, re.M)
    prints = re.findall(r'Print\s+Assumptions\s+(\w+)\s*\.', code)
    res['theorems'] = thms
    for t in thms:
        if t not in prints:
            res['errors'].append('no Print Assumptions for ' + t)
    tmpd = tempfile.mkdtemp(prefix='verif_thm_')
    try:
        # compile a copy so that concurrent checks never race on the .vo
        dst = os.path.join(tmpd, pid + '_recheck.v')
        shutil.copy(vfile, dst)
        cmd = ('timeout 900 coqc -q -Q Model DI -Q Spec DI -Q Proofs DI -Q Properties DI '
               '-Q Findings DI -Q %s DIrecheck %s' % (tmpd, dst))
        t0 = time.time()
        r = sh(cmd, cwd=COQ, timeout=1000)
        res['coqc_s'] = round(time.time() - t0, 2)
        res['checker_cmd'] = 'make -C coq (full .vo build) && coqc Properties/%s.v' % pid
        if r.returncode:
            res['errors'].append('coqc failed: ' + r.stdout[-3000:])
            return res
        out = r.stdout
        closed = len(re.findall(r'Closed under the global context', out))
        ax = re.findall(r'^Axioms:\s*\n((?:.+\n?)*)', out, re.M)
        if ax:
            for blk in ax:
                for line in blk.split('\n'):
                    m = re.match(r'^(\S+)\s*:', line)
                    if m and m.group(1) not in ALLOWED_AXIOMS:
                        res['axioms'].append(m.group(1))
        res['closed'] = closed
        if closed != len(prints):
            res['errors'].append('Print Assumptions: %d closed of %d' % (closed, len(prints)))
        if res['axioms']:
            res['errors'].append('axioms: ' + ', '.join(sorted(set(res['axioms']))))
    finally:
        shutil.rmtree(tmpd, ignore_errors=True)
    res['ok'] = not res['errors'] and bool(thms)
    return res


def coqchk(pid):
    """Thorough tier: re-check the compiled property file and everything it depends on with the
    independent checker and report the axioms of the whole context."""
    cmd = ('timeout 3000 coqchk -silent -o -Q Model DI -Q Spec DI -Q Proofs DI -Q Properties DI DI.%s' % pid)
    t0 = time.time()
    r = sh(cmd, cwd=COQ, timeout=3100)
    out = r.stdout
    res = {'cmd': 'coqchk -silent -o ... DI.%s' % pid, 'seconds': round(time.time() - t0, 1), 'ok': False, 'axioms': None}
    m = re.search(r'\* Axioms:\s*(.*?)\n\s*\n', out, re.S)
    if r.returncode == 0 and m:
        res['axioms'] = ' '.join(m.group(1).split())
        res['ok'] = res['axioms'] == '<none>' and 'type-in-type: <none>' in out and 'unsafe (co)fixpoints: <none>' in out \
            and 'positivity is assumed: <none>' in out
    else:
        res['error'] = out[-2000:]
    return res


# --------------------------------------------------------------------------
# model client

class Abandon:
    """Before every few calls of an adapter, start the same library function on an earlier input, take the first item of
    what it returns and drop the rest: a result that is a lazy iterator may legitimately be left unfinished by a caller,
    and the next, unrelated call must not see anything of it."""

    def __init__(self, every=4):
        self.every = every
        self.k = 0
        self.prev = None

    def before(self, f, t):
        self.k += 1
        if self.prev is not None and self.k % self.every == 0:
            try:
                it = iter(f(self.prev))
                next(it, None)
                del it
            except Exception:  # noqa
                pass
        if isinstance(t, str) and t.strip() and (self.prev is None or '\n\n' in t or self.k % 50 == 0):
            self.prev = t


class Model:
    def __init__(self, scratch):
        self.scratch = scratch
        self.n = 0
        self.calls = 0

    def _run_part(self, part, tag):
        fin = os.path.join(self.scratch, 'req%s.txt' % tag)
        with open(fin, 'w') as f:
            for fname, args in part:
                f.write(encode_request(fname, args))
                f.write('\n')
        with open(fin) as f:
            r = subprocess.run(['/bin/sh', '-c', 'ulimit -s unlimited 2>/dev/null; exec "$0"', DRIVER],
                               stdin=f, stdout=subprocess.PIPE, text=True, timeout=3600)
        os.unlink(fin)
        lines = r.stdout.split('\n')
        if lines and lines[-1] == '':
            lines.pop()
        if len(lines) != len(part):
            raise RuntimeError('driver returned %d replies for %d requests (rc=%s)'
                               % (len(lines), len(part), r.returncode))
        return [decode_reply(l) for l in lines]

    def run(self, requests, chunk=200000):
        """requests: list of (fname, args) -> list of decoded replies.  Large batches are shared out over several driver
        processes (the extracted model is a pure function of each request, so the replies do not depend on the split)."""
        out = []
        workers = max(1, min(8, (os.cpu_count() or 2) // 2))
        for k in range(0, len(requests), chunk):
            part = requests[k:k + chunk]
            self.n += 1
            size = sum(len(repr(a)) for _, a in part[:2000]) * max(1, len(part) // 2000)
            if workers > 1 and len(part) >= 200 and size > 200000:
                from concurrent.futures import ThreadPoolExecutor
                step = (len(part) + workers - 1) // workers
                pieces = [part[i:i + step] for i in range(0, len(part), step)]
                with ThreadPoolExecutor(len(pieces)) as ex:
                    res = list(ex.map(lambda iv: self._run_part(iv[1], '%d_%d' % (self.n, iv[0])), enumerate(pieces)))
                for r in res:
                    out.extend(r)
            else:
                out.extend(self._run_part(part, '%d' % self.n))
            self.calls += len(part)
        return out

    def coq_crosscheck(self, requests, replies_raw=None, sample=60):
        """Re-evaluate a sample of requests inside Coq with vm_compute and compare with
        what the extracted driver answered (extraction is cross-checked, not only trusted)."""
        if not requests:
            return 0, None
        rnd = random.Random(12345)
        idx = list(range(len(requests)))
        rnd.shuffle(idx)
        # a budget on the total size keeps the Coq side to a few seconds: literals are parsed and the
        # list-of-code-points strings evaluated by vm_compute
        part, budget = [], 30000
        for i in idx:
            size = len(encode_request(*requests[i]))
            if size > budget and len(part) >= 5:
                continue
            part.append(requests[i])
            budget -= size
            if len(part) >= sample or budget <= 0:
                break
        fin = os.path.join(self.scratch, 'xreq.txt')
        with open(fin, 'w') as f:
            for fname, args in part:
                f.write(encode_request(fname, args) + '\n')
        with open(fin) as f:
            r = subprocess.run([DRIVER], stdin=f, stdout=subprocess.PIPE, text=True, timeout=600)
        outs = r.stdout.split('\n')[:len(part)]

        def coq_val(v):
            if isinstance(v, bool):
                return '(VBool %s)' % ('true' if v else 'false')
            if v is None:
                return 'VNone'
            if isinstance(v, str):
                return '(VStr [%s])' % '; '.join(str(ord(c)) for c in v)
            if isinstance(v, int):
                return '(VInt (%d)%%Z)' % v
            return '(VList [%s])' % '; '.join(coq_val(x) for x in v)

        def coq_str(s):
            return '[%s]' % '; '.join(str(ord(c)) for c in s)

        lines = ['From Coq Require Import NArith ZArith List.',
                 'From DI Require Import Result PyStr Val Dispatch.',
                 'Import ListNotations. Open Scope N_scope.',
                 'Definition cases : list (str * list val * str) := [']
        items = []
        for (fname, args), o in zip(part, outs):
            if o.startswith('!'):
                continue
            items.append('  (%s, [%s], %s)' % (coq_str(fname), '; '.join(coq_val(a) for a in args), coq_str(o)))
        if not items:
            return 0, None
        lines.append(';\n'.join(items))
        lines.append('].')
        lines.append("Goal forallb (fun c => match c with (f, a, o) => str_eqb (run f a) o end) cases = true.")
        lines.append('Proof. vm_compute. reflexivity. Qed.')
        d = tempfile.mkdtemp(prefix='verif_x_')
        try:
            vf = os.path.join(d, 'xcases.v')
            open(vf, 'w').write('\n'.join(lines) + '\n')
            r = sh('ulimit -s unlimited 2>/dev/null; timeout 600 coqc -q -Q Model DI -Q Spec DI -Q Proofs DI -Q %s X %s' % (d, vf), cwd=COQ, timeout=700)
            if r.returncode:
                return len(items), r.stdout[-2000:]
            return len(items), None
        finally:
            shutil.rmtree(d, ignore_errors=True)


# --------------------------------------------------------------------------
# check context

class Ctx:
    def __init__(self, pid, tier, seed):
        self.pid = pid
        self.tier = tier
        self.seed = seed
        self.rng = random.Random('%s/%s' % (pid, seed))
        self.scratch = tempfile.mkdtemp(prefix='verif_%s_' % pid)
        self.model = Model(self.scratch)
        self.t0 = time.time()
        self.streams = {}          # name -> {cases, distinct, ...}
        self.violations = []       # dicts
        self.known_hits = {}       # finding id -> count
        self.samples = []
        self.notes = []
        self.all_requests = []
        self._again = []
        self.distinct = set()
        self.evaluations = 0
        self.findings = load_known_findings(pid)
        self.exhaustive = []

    def quick(self):
        return self.tier == 'quick'

    def n(self, quick, thorough):
        return quick if self.tier == 'quick' else thorough

    def stream(self, name):
        return self.streams.setdefault(name, {'cases': 0, 'disagreements': 0, 'prop_failures': 0})

    def sample(self, s):
        if len(self.samples) < 12:
            self.samples.append(s)

    # ---- correspondence: implementation vs model
    def compare(self, name, requests, impl, norm=None, keep_for_xcheck=True):
        """requests: list of (fname, args).  impl(fname, args) -> value.
        Returns list of (request, impl value, model value) that disagree."""
        st = self.stream(name)
        if not requests:
            return []
        mvals = self.model.run(requests)
        bad = []
        step_again = max(1, len(requests) // 240)
        for k, (req, mv) in enumerate(zip(requests, mvals)):
            iv = impl(*req)
            if k % step_again == 0 and k // step_again < 240:
                self._again.append((name, req, impl, norm, repr(norm(iv) if norm else iv)))
            if norm:
                iv, mv = norm(iv), norm(mv)
            st['cases'] += 1
            self.evaluations += 1
            key = hash((req[0], repr(req[1])))
            self.distinct.add(key)
            if isinstance(iv, Exn):
                st.setdefault('exn', {}).setdefault(iv[1], 0)
                st['exn'][iv[1]] += 1
            if iv != mv:
                st['disagreements'] += 1
                bad.append((req, iv, mv))
        if requests:
            self.sample({'stream': name, 'request': [requests[0][0], requests[0][1]],
                         'model': _jsonable(mvals[0])})
        if keep_for_xcheck:
            step = max(1, len(requests) // 40)
            self.all_requests.extend(requests[::step][:40])
        # remember a sample of what the implementation answered: asked again at the end of the run, in another order,
        # the answers must be the same (a result that depends on earlier calls - a cache, a shared mutable default -
        # is not a function of its input)
        return bad

    def ask_again(self):
        """re-evaluate the remembered requests in reverse order; returns the first that answers differently"""
        st = self.stream('repeat:same-input-same-answer')
        for name, req, impl, norm, first in reversed(self._again):
            st['cases'] += 1
            try:
                iv = impl(*req)
                got = repr(norm(iv) if norm else iv)
            except Exception:  # noqa
                # library exceptions are values (Exn) inside impl; an exception here comes from an adapter that
                # replays precomputed answers and cannot be asked twice
                st['not_repeatable'] = st.get('not_repeatable', 0) + 1
                continue
            if got != first:
                st['disagreements'] += 1
                return name, req, first, got
        return None

    @staticmethod
    def environment_names_read():
        """names of the environment variables the library's source reads (os.environ.get / [] / in, os.getenv), found in
        its syntax trees; a name given through a module-level constant is resolved; returns (names, unresolved count)"""
        import ast
        import glob
        names, unresolved = set(), 0
        for fn in sorted(glob.glob(os.path.join(REPO, 'src', 'debian_inspector', '**', '*.py'), recursive=True)):
            try:
                tree = ast.parse(open(fn, encoding='utf-8').read())
            except (SyntaxError, OSError, UnicodeDecodeError):
                continue
            consts = {}
            for node in ast.walk(tree):
                if isinstance(node, ast.Assign) and isinstance(node.value, ast.Constant) and isinstance(node.value.value, str):
                    for t in node.targets:
                        if isinstance(t, ast.Name):
                            consts[t.id] = node.value.value

            def is_environ(e):
                return (isinstance(e, ast.Attribute) and e.attr in ('environ', 'environb')) or (isinstance(e, ast.Name) and e.id in ('environ', 'environb'))

            def take(arg):
                nonlocal unresolved
                if isinstance(arg, ast.Constant) and isinstance(arg.value, (str, bytes)):
                    names.add(arg.value if isinstance(arg.value, str) else arg.value.decode('latin-1'))
                elif isinstance(arg, ast.Name) and arg.id in consts:
                    names.add(consts[arg.id])
                else:
                    unresolved += 1
            for node in ast.walk(tree):
                if isinstance(node, ast.Call):
                    f = node.func
                    if isinstance(f, ast.Attribute) and f.attr in ('get', 'pop', 'setdefault', '__getitem__', '__contains__') and is_environ(f.value) and node.args:
                        take(node.args[0])
                    elif ((isinstance(f, ast.Attribute) and f.attr in ('getenv', 'getenvb')) or (isinstance(f, ast.Name) and f.id in ('getenv', 'getenvb'))) and node.args:
                        take(node.args[0])
                elif isinstance(node, ast.Subscript) and is_environ(node.value):
                    take(node.slice)
                elif isinstance(node, ast.Compare) and any(isinstance(o, (ast.In, ast.NotIn)) for o in node.ops) and any(is_environ(c) for c in node.comparators):
                    take(node.left)
        return sorted(names), unresolved

    def other_environments(self):
        """re-evaluate the remembered requests in fresh interpreters started under other environments: another hash
        seed (set and dict-of-set ordering), -O (assert statements removed), -W error (warnings raised as exceptions), the C locale without UTF-8 mode (another
        default encoding), another working directory and time zone.  The library documents no dependence on any of
        these, so the answers must be those of this process.  Returns (variant, request, first, got) or None."""
        def named(f):
            m, q = getattr(f, '__module__', None), getattr(f, '__qualname__', '')
            return (m, q) if m and q and '<' not in q else None
        items, firsts, reqs = [], [], []
        for name, req, impl, norm, first in self._again:
            a = named(impl)
            b = named(norm) if norm else ('', '')
            if not a or b is None:
                continue
            try:
                json.dumps(req[1])
            except (TypeError, ValueError):
                continue
            items.append([a[0], a[1], b[0], b[1], req[0], req[1]])
            firsts.append(first)
            reqs.append(req)
        st = self.stream('repeat:other-environments')
        if not items:
            return None
        fin = os.path.join(self.scratch, 'env_sample.json')
        json.dump(items, open(fin, 'w'))
        base = dict(os.environ)
        variants = [('PYTHONHASHSEED=4242', {'PYTHONHASHSEED': '4242'}, [], None),
                    ('PYTHONHASHSEED=7', {'PYTHONHASHSEED': '7'}, [], None),
                    ('python -O', {}, ['-O'], None),
                    ('python -W error', {}, ['-W', 'error'], None),
                    ('python -bb (comparing str with bytes is an error)', {}, ['-bb'], None),
                    ('PYTHONINTMAXSTRDIGITS=640', {'PYTHONINTMAXSTRDIGITS': '640'}, [], None),
                    ('os.linesep = CRLF before the library is imported (another platform)', {'VERIF_PROBE_LINESEP': 'crlf'}, [], None),
                    ('debug logging turned on for every logger', {'VERIF_PROBE_LOGGING': 'debug'}, [], None),
                    ('four threads asking at once', {'VERIF_PROBE_THREADS': '4'}, [], None),
                    ('the clock reads the year 1999', {'VERIF_PROBE_CLOCK': '1999'}, [], None),
                    ('the clock reads the year 2150', {'VERIF_PROBE_CLOCK': '2150'}, [], None),
                    ('LC_ALL=C without UTF-8 mode', {'LC_ALL': 'C', 'LANG': 'C', 'PYTHONUTF8': '0', 'PYTHONCOERCECLOCALE': '0', 'PYTHONIOENCODING': ''}, [], None),
                    ('working directory / and TZ=Pacific/Kiritimati', {'TZ': 'Pacific/Kiritimati'}, [], '/')]
        # every environment variable the source reads, set to values an unrelated program or build may have left there
        # (the library documents no dependence on its environment)
        env_names, unresolved = self.environment_names_read()
        st['environment_variables_read_by_the_source'] = env_names
        if unresolved:
            st['environment_reads_with_a_computed_name'] = unresolved
        for n in env_names:
            if n.startswith(('VERIF_', 'PYTHON')) or n in ('LC_ALL', 'LANG', 'TZ'):
                continue
            for val in ('0', 'amd64', 'false'):
                variants.append(('%s=%s' % (n, val), {n: val}, [], None))
        st['variants'] = [v[0] for v in variants]
        probe = os.path.join(os.path.dirname(os.path.abspath(__file__)), 'env_probe.py')
        for vname, env, flags, cwd in variants:
            e = dict(base)
            e.update(env)
            e = {k: v for k, v in e.items() if v != ''}
            fout = os.path.join(self.scratch, 'env_out.json')
            r = subprocess.run([sys.executable] + flags + [probe, fin, fout], env=e, cwd=cwd, stdout=subprocess.PIPE, stderr=subprocess.STDOUT, text=True, timeout=1800)
            if r.returncode != 0:
                st['probe_failed'] = st.get('probe_failed', 0) + 1
                self.notes.append('environment probe %s could not run: %s' % (vname, r.stdout[-300:]))
                continue
            got = json.load(open(fout))
            for req, first, g in zip(reqs, firsts, got):
                st['cases'] += 1
                if g.startswith('probe-error'):
                    st['not_repeatable'] = st.get('not_repeatable', 0) + 1
                    continue
                if g != first:
                    st['disagreements'] += 1
                    return vname, req, first, g
        return None

    # ---- executable statement of the property on the implementation
    def prop(self, name, inputs, pred):
        """pred(x) -> None if the property holds on x, else a description."""
        st = self.stream(name)
        fails = []
        for x in inputs:
            st['cases'] += 1
            self.evaluations += 1
            self.distinct.add(hash((name, repr(x))))
            try:
                why = pred(x)
            except RecursionError:
                why = 'executable statement raised RecursionError (no answer at all for this input)'
            except Exception as e:  # noqa
                why = 'executable statement raised %s: %s' % (type(e).__name__, e)
            if why:
                st['prop_failures'] += 1
                fails.append((x, why))
        return fails

    # ---- reporting
    def violation(self, kind, what, inp, expected=None, observed=None, extra=None, found_input=True):
        """Record a violation unless a known finding's classifier claims the input."""
        for f in self.findings:
            if f.get('status') == 'known' and f['_classify'](inp, kind):
                self.known_hits[f['id']] = self.known_hits.get(f['id'], 0) + 1
                return False
        self.violations.append({'kind': kind, 'what': what, 'input': _jsonable(inp),
                                'expected': _jsonable(expected), 'observed': _jsonable(observed),
                                'extra': _jsonable(extra), 'failing_input_found': found_input})
        return True

    def finish(self, thm, extra_cov=None, assumptions=None, trusted=None):
        wall = time.time() - self.t0
        shutil.rmtree(self.scratch, ignore_errors=True)
        pid = self.pid
        for f in self.findings:
            if f.get('status') == 'known' and self.known_hits.get(f['id']):
                print('KNOWN-FINDING: property=%s %s (%d inputs of this class on this run)'
                      % (pid, f['description'], self.known_hits[f['id']]))
            elif f.get('status') == 'known' and f.get('always_print'):
                print('KNOWN-FINDING: property=%s %s' % (pid, f['description']))
        nviol = len(self.violations)
        cov = {
            'obligations': len(thm.get('theorems', [])),
            'discharged': len(thm.get('theorems', [])) if thm.get('ok') else 0,
            'checker_cmd': thm.get('checker_cmd', 'coqc'),
            'trusted_base': trusted or [],
            'theorems': thm.get('theorems', []),
            'print_assumptions': 'Closed under the global context x%d' % thm.get('closed', 0),
            'properties_file_sha256': thm.get('sha256'),
            'evaluations': self.evaluations,
            'distinct_nontrivial': len(self.distinct),
            'rule': 'distinct = distinct (entry point, input) pairs over all streams; the exhaustive '
                    'streams are listed under exhaustive_streams',
            'samples': self.samples,
            'streams': self.streams,
            'exhaustive_streams': self.exhaustive,
            'model_calls': self.model.calls,
            'known_findings_hit': self.known_hits,
            'notes': self.notes,
        }
        if extra_cov:
            cov.update(extra_cov)
        ev = {
            'property_id': pid, 'tier': self.tier, 'seed': self.seed, 'level': 'proof',
            'coverage': cov, 'assumptions': assumptions or [], 'wall_s': round(wall, 2),
            'violations': nviol,
        }
        os.makedirs(EVIDENCE, exist_ok=True)
        tmp = os.path.join(EVIDENCE, '.%s.json.%d' % (pid, os.getpid()))
        with open(tmp, 'w') as f:
            json.dump(ev, f, indent=1, sort_keys=True, default=str)
        os.replace(tmp, os.path.join(EVIDENCE, pid + '.json'))
        if nviol:
            os.makedirs(REPLAYS, exist_ok=True)
            shown = 0
            for i, v in enumerate(self.violations[:5]):
                path = os.path.join(REPLAYS, '%s-%d.json' % (pid, i))
                with open(path, 'w') as f:
                    json.dump({'property': pid, 'seed': self.seed, 'tier': self.tier, **v}, f,
                              indent=1, default=str)
                tail = '' if v['failing_input_found'] else ' no-failing-input-found'
                print('VIOLATION property=%s replay=%s%s' % (pid, path, tail))
                w = v['what']
                print('  %s: %s' % (v['kind'], w if len(w) < 600 else w[:300] + ' ... ' + w[-200:]))
                shown += 1
            if nviol > shown:
                print('  (+%d more violations of %s not written)' % (nviol - shown, pid))
            return 1
        print('OK property=%s tier=%s theorems=%d evaluations=%d wall=%.1fs'
              % (pid, self.tier, len(thm.get('theorems', [])), self.evaluations, wall))
        return 0


def _jsonable(v):
    if isinstance(v, Exn):
        return {'exception': v[1]}
    if isinstance(v, (list, tuple)):
        return [_jsonable(x) for x in v]
    if isinstance(v, dict):
        return {str(k): _jsonable(x) for k, x in v.items()}
    if isinstance(v, (str, int, float, bool)) or v is None:
        return v
    return repr(v)


def load_known_findings(pid):
    path = os.path.join(VERIF, 'known_findings.json')
    if not os.path.exists(path):
        return []
    from harness.props import findings as F
    out = []
    for f in json.load(open(path)):
        if f.get('property') != pid:
            continue
        f = dict(f)
        f['_classify'] = getattr(F, f['classifier']) if f.get('classifier') else (lambda i, k: False)
        out.append(f)
    return out
