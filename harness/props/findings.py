"""Classifiers of known findings: each decides from the failing input alone whether
it belongs to the recorded finding (never by property id alone)."""
import re

_F17 = re.compile(r'^content-type[ \t]*:[ \t]*(multipart|message)/[^/;\s]*\s*(;|$)', re.I | re.M)


def f17_mime_container(inp, kind):
    """C06/F17: a well-formed paragraph holding a field Content-Type whose value has main type
    multipart or message; the header-style parser hands it to the MIME machinery of the standard
    email package and returns the paragraph whole under 'unknown'."""
    text = inp[0] if isinstance(inp, (list, tuple)) and inp and isinstance(inp[0], str) else inp
    if not isinstance(text, str):
        return False
    for m in _F17.finditer(text):
        main = m.group(0).partition(':')[2].partition(';')[0].strip().lower()
        if main.count('/') == 1:
            return True
    return False
