"""Classifiers of known findings: each decides from the failing input alone whether
it belongs to the recorded finding (never by property id alone)."""
import re

_F17 = re.compile(r'^content-type[ \t]*:[ \t]*(multipart|message)/[^/;\s]*\s*(;|$)', re.I | re.M)


def f17_mime_container(inp, kind):
    """C06/F17: a well-formed paragraph holding a field Content-Type whose value has main type
    multipart or message; the header-style parser hands it to the MIME machinery of the standard
    email package and returns the paragraph whole under 'unknown'."""
    text = inp[0] if isinstance(inp, (list, tuple)) and inp and isinstance(inp[0], str) else inp
    if not isinstance(text, str):
        return False
    for m in _F17.finditer(text):
        main = m.group(0).partition(':')[2].partition(';')[0].strip().lower()
        if main.count('/') == 1:
            return True
    return False


def f24_tab_extra(inp, kind):
    """C13/F24: the text holds a TAB-indented continuation line, the statement fails on its from_dict clause, and
    it no longer fails once the tabs that indent continuation lines are replaced by a space - so the failure is the
    recorded one and nothing else."""
    if kind != 'property' or not isinstance(inp, str) or '\n\t' not in inp:
        return False
    from harness.props import C13
    why = C13.p_fixpoint(inp)
    if not why or not why.startswith('from_dict(to_dict())'):
        return False
    import re
    return C13.p_fixpoint(re.sub(r'\n\t+', '\n ', inp)) is None
