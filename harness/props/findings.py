"""Classifiers of known findings: each decides from the failing input alone whether
it belongs to the recorded finding (never by property id alone)."""
