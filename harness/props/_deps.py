"""Implementation adapters for deps.py / package.match_relationships."""
from harness.common import call, Exn
from debian_inspector import deps, package
from debian_inspector.version import Version


def rel_tree(r):
    if isinstance(r, deps.VersionedRelationship):
        return ['V', r.name, r.operator, r.version, list(r.architectures)]
    if isinstance(r, deps.Relationship):
        return ['R', r.name, list(r.architectures)]
    if isinstance(r, deps.OrRelationships):
        return ['O', [rel_tree(x) for x in r.relationships]]
    if isinstance(r, deps.AndRelationships):
        return ['A', [rel_tree(x) for x in r.relationships]]
    raise TypeError(type(r))


def build(t):
    if t[0] == 'R':
        return deps.Relationship(name=t[1], architectures=tuple(t[2]))
    if t[0] == 'V':
        return deps.VersionedRelationship(name=t[1], operator=t[2], version=t[3], architectures=tuple(t[4]))
    if t[0] == 'O':
        return deps.OrRelationships.from_relationships(*[build(x) for x in t[1]])
    return deps.AndRelationships.from_relationships(*[build(x) for x in t[1]])


def has_archs(t):
    if t[0] == 'R':
        return bool(t[2])
    if t[0] == 'V':
        return bool(t[4])
    return any(has_archs(x) for x in t[1])


def cand(c):
    if isinstance(c, list):
        return Version(epoch=c[0], upstream=c[1], revision=c[2])
    return c


def impl(fname, args):
    if fname == 'rel_expr_match':
        def f(s):
            m = deps.parse_package_relationship_expression(s)
            if not m:
                return None
            return [m.group('name'), m.group('version'), m.group('architectures')]
        return call(f, *args)
    if fname == 'split_on_ops':
        return call(deps.split_on_ops, *args)
    if fname == 'parse_relationship':
        return call(lambda s: rel_tree(_quiet(deps.parse_relationship, s)), *args)
    if fname == 'parse_depends':
        def f(s):
            r = _quiet(deps.parse_depends, s)
            st = str(r)
            try:
                r2 = deps.parse_depends(st)
                again = [rel_tree(r2), str(r2)]
            except Exception as e:  # noqa
                again = Exn(type(e).__name__)
            return [rel_tree(r), st, sorted(r.names), again]
        v = call(f, *args)
        return v
    if fname == 'rel_matches':
        def f(t, n, c):
            r = build(t)
            ans = r.matches(n, cand(c))
            if not has_archs(t):
                # a tree without architecture restrictions answers for the name and the version alone: naming the
                # candidate's architecture as well changes nothing
                for how, a in (('architecture="amd64"', r.matches(n, cand(c), architecture='amd64')), ('"i386" as third argument', r.matches(n, cand(c), 'i386')),
                               ('architecture="all"', build(t).matches(n, cand(c), architecture='all'))):
                    if a is not ans:
                        return ['differs', 'matches(name, version) answers %r, with %s it answers %r' % (ans, how, a)]
            return ans
        return call(f, *args)
    if fname == 'match_relationships':
        def f(n, c, sets):
            class A:  # a stand-in for DebArchive: only .name and .version are read
                name = n
                version = cand(c)
            ans = package.match_relationships(A, [build(t) for t in sets])
            # the relationship sets may come as any iterable: a tuple, an iterator, a generator read once
            for how, it in (('a tuple', tuple(build(t) for t in sets)), ('an iterator', iter([build(t) for t in sets])), ('a generator', (build(t) for t in sets))):
                a = package.match_relationships(A, it)
                if a is not ans:
                    return ['differs', 'given a list the answer is %r, given %s it is %r' % (ans, how, a)]
            return ans
        return call(f, *args)
    raise KeyError(fname)


def _quiet(f, *a):
    """parse_relationship prints diagnostics before re-raising; keep stdout clean."""
    import contextlib
    import io
    with contextlib.redirect_stdout(io.StringIO()):
        return f(*a)


def norm_names(v):
    """names is a set on the implementation side: compare sorted and de-duplicated"""
    if isinstance(v, list) and len(v) == 4 and isinstance(v[2], list):
        v = list(v)
        v[2] = sorted(set(v[2]))
    return v
