"""Adapters for debcon.py and the email fragment."""
import email
from harness.common import call, Abandon
from debian_inspector import debcon


def msg_obs(t):
    m = email.message_from_string(t)
    main = m.get_content_maintype()
    container = main in ('multipart', 'message')
    items = [[k, v] for k, v in m.items()]
    if container:
        return [items, None, m.get_unixfrom() is not None, True, None]
    p = m.get_payload()
    return [items, bool(m.defects), m.get_unixfrom() is not None, False, p if isinstance(p, str) else ['LIST']]


def norm_msg(v):
    if isinstance(v, list) and len(v) == 5 and v[3] is True:
        return [v[0], None, v[2], True, None]
    return v


def d2l(d):
    return [[k, v] for k, v in d.items()]


_AB1, _AB2 = Abandon(), Abandon()


def impl(fname, args):
    if fname == 'split_in_paragraphs':
        _AB1.before(debcon.split_in_paragraphs, args[0])
    if fname == 'get_paragraphs_data':
        _AB2.before(debcon.get_paragraphs_data, args[0])
    if fname == 'parse_message':
        return call(msg_obs, *args)
    if fname == 'split_in_paragraphs':
        return call(lambda t: list(debcon.split_in_paragraphs(t)), *args)
    if fname == 'get_paragraph_data':
        return call(lambda t: d2l(debcon.get_paragraph_data(t)), *args)
    if fname == 'get_paragraphs_data':
        return call(lambda t: [d2l(d) for d in debcon.get_paragraphs_data(t)], *args)
    raise KeyError(fname)
