"""Adapters for copyright.py."""
from attr import fields_dict
from harness.common import call, Exn
from debian_inspector import copyright as dc, debcon


def s(v):
    return v if isinstance(v, str) else ''


def typed(v):
    if isinstance(v, debcon.SingleLineField):
        return s(v.value)
    if isinstance(v, (debcon.LineSeparatedField, debcon.AnyWhiteSpaceSeparatedField)):
        return list(v.values or [])
    if isinstance(v, debcon.FormattedTextField):
        return s(v.text)
    if isinstance(v, dc.CopyrightField):
        return [[s(st.year_range), s(st.holder)] for st in v.statements]
    if isinstance(v, dc.LicenseField):
        return [s(v.name), s(v.text)]
    raise TypeError(type(v))


def d2l(d):
    return [[k, s(v)] for k, v in d.items()]


def para_obs(p):
    names = [n for n in fields_dict(type(p)) if n not in ('extra_data', 'line_numbers_by_field')]
    td = p.to_dict()
    return [type(p).__name__, d2l(td),
            [[k, [a, b]] for k, (a, b) in p.line_numbers_by_field.items()],
            p.dumps(),
            [[n, typed(getattr(p, n))] for n in names],
            d2l(getattr(p, 'extra_data', {})),
            d2l(type(p).from_dict(dict(td)).to_dict()),
            list(p.get_first_last_line_numbers())]


def doc_obs(t):
    c = dc.DebianCopyright.from_text(t)
    return [[para_obs(p) for p in c.paragraphs], c.dumps(), bool(c.is_valid()), bool(c.is_valid(strict=True))]


def impl(fname, args):
    if fname == 'copyright_from_text':
        return call(doc_obs, *args)
    if fname == 'normalize_control_field_name':
        return call(debcon.normalize_control_field_name, *args)
    if fname == 'is_year_range':
        return call(lambda x: bool(dc.is_year_range(x)), *args)
    if fname == 'statement':
        def f(v):
            st = dc.CopyrightStatementField.from_value(v)
            return [s(st.year_range), s(st.holder), st.dumps()]
        return call(f, *args)
    raise KeyError(fname)


def _snap(c):
    return repr(([type(p).__name__ for p in c.paragraphs], c.to_dict(with_lines=True), c.dumps(),
                 [sorted((k, tuple(v)) for k, v in p.line_numbers_by_field.items()) for p in c.paragraphs]))


def p_observe(t):
    """looking at a copyright object - validity, rendering, dictionary form, copies, comparisons, per-paragraph
    queries, in any order, and whatever the caller does with what is returned - leaves the object as it was built"""
    import copy
    try:
        c = dc.DebianCopyright.from_text(t)
        snap = _snap(c)
        looks = [('is_valid()', lambda: c.is_valid()), ('is_valid(strict=True)', lambda: c.is_valid(strict=True)),
                 ('dumps()', lambda: c.dumps()), ('to_dict() then clearing the result', lambda: [x.clear() for x in c.to_dict()['paragraphs']]),
                 ('to_dict(with_lines=True) then clearing the result', lambda: c.to_dict(with_lines=True).clear()),
                 ('repr/str', lambda: (repr(c), str(c))), ('deepcopy', lambda: copy.deepcopy(c).paragraphs.clear()),
                 ('copy of the paragraph list reversed', lambda: list(c.paragraphs).reverse()),
                 ('comparison', lambda: (c == c, c == copy.deepcopy(c), c != 1)),
                 ('per-paragraph queries', lambda: [(p.is_empty(), p.has_extra_data(), p.dumps(), p.to_dict().clear(), p.to_dict(with_lines=True),
                                                    p.get_first_last_line_numbers(), [p.get_field_line_numbers(n) for n in list(p.line_numbers_by_field)],
                                                    p.is_valid() if hasattr(p, 'is_valid') else None, p.is_valid(strict=True) if hasattr(p, 'is_valid') else None,
                                                    repr(p), p == copy.deepcopy(p)) for p in c.paragraphs]),
                 ('per-paragraph to_dict with every combination of flags', lambda: [p.to_dict(with_extra_data=a, with_lines=b) for p in c.paragraphs for a in (False, True) for b in (True, False)]),
                 ('get_paragraphs_by_type', lambda: [getattr(c, n)() for n in dir(c) if n.startswith('get_') and n.endswith('paragraphs')])]
        # what an object asked one question only answers
        ref = {'is_valid()': dc.DebianCopyright.from_text(t).is_valid(), 'is_valid(strict=True)': dc.DebianCopyright.from_text(t).is_valid(strict=True),
               'dumps()': dc.DebianCopyright.from_text(t).dumps()}
        for name, look in looks[1:2] + looks[:1] + looks + looks[::-1]:
            try:
                ans = look()
            except Exception as e:  # noqa
                if name in ('is_valid()', 'is_valid(strict=True)', 'dumps()'):
                    return '%s raises %s' % (name, type(e).__name__)
                ans = None
            if name in ref and (bool(ans) != bool(ref[name]) if name != 'dumps()' else ans != ref[name]):
                return '%s answers %r on an object that was asked other questions before, %r on a new one' % (name, ans, ref[name])
            now = _snap(c)
            if now != snap:
                return 'after %s the object reports %s, as built it reported %s' % (name, now[:600], snap[:600])
        # validity follows the paragraphs the object holds now
        c3 = dc.DebianCopyright.from_text(t)
        c3.is_valid(), c3.is_valid(strict=True)
        for keep in (lambda p: not isinstance(p, dc.CopyrightFilesParagraph), lambda p: not isinstance(p, dc.CopyrightHeaderParagraph), lambda p: False):
            left = [p for p in c3.paragraphs if keep(p)]
            c3.paragraphs = left
            for strict in (False, True):
                # (no Files paragraph is left from the first step on: the object is not valid, whatever it answered before)
                got = c3.is_valid(strict=strict)
                if got:
                    return 'after its Files paragraphs were taken out, the object still answers is_valid(strict=%r) = %r' % (strict, got)
        c2 = dc.DebianCopyright.from_text(t)
        if _snap(c2) != snap:
            return 'a second object built from the same text differs from the first'
    except Exception as e:  # noqa
        return 'raises %s' % type(e).__name__
    return None


def large_copyright_texts(rng, quick=True):
    """copyright texts beyond 64 KiB (and one beyond 1 MiB) in which a line end, a CR LF pair, an empty line inside a
    value or a paragraph separator lies exactly on every multiple of 4096 characters - hence on every multiple of any
    larger block a reader may use; every line holds a word of its own"""
    from harness.gen import texts as G

    def unit(i):
        return ['Files: f%d.c' % i, 'Copyright: 2019 holder%d' % i, 'License: L%d' % i, ' text%d first' % i, ' more%d' % i, ' last%d of it' % i]
    out = []
    for feat, size in [('line-start', 140000), ('crlf-straddle', 140000), ('blank-start', 140000), ('sep-straddle', 140000), ('marker-start', 140000),
                       ('line-start', 1150000)] + ([] if quick else [('crlf-straddle', 2300000), ('sep:3:2', 2300000)]):
        t = G.aligned_text(rng, size, feat, head='Format: https://www.debian.org/doc/packaging-manuals/copyright-format/1.0/' + ('\r\n\r\n' if feat == 'crlf-straddle' else '\n\n'),
                           unit=unit, gaps=feat in ('line-start', 'crlf-straddle'))
        out.append(t)
        out.append(t.rstrip('\r\n'))       # the same without a final line end
    head = 'Format: https://www.debian.org/doc/packaging-manuals/copyright-format/1.0/\n\n'
    longline = ' '.join('w%d' % i for i in range(33000))       # about 210 KB in one line: whole blocks of 64 KiB inside it
    out.append(head + 'Files: *\nCopyright: 2019 x\nLicense: MIT\n first\n ' + longline + '\n last\n')
    pad = 'Files: a\nCopyright: 2019 y\nLicense: X\n' + '\n'.join(' filler line %d' % i for i in range(3000))
    pad = pad[:65536 - len(head) - 40]
    out.append(head + pad + '\n the last line lies across the mark of sixty-four kilobytes and has no line end')
    return out


def p_routes_agree(x):
    """DebianCopyright.from_file on a UTF-8 file holding the text gives the object from_text gives"""
    import os
    path, t = x
    with open(path, 'w', encoding='utf-8', newline='') as f:
        f.write(t)
    try:
        a = dc.DebianCopyright.from_file(path)
        b = dc.DebianCopyright.from_text(t)
        sa, sb = _snap(a), _snap(b)
        from debian_inspector import deb822
        c = dc.DebianCopyright.from_fields_groups(deb822.get_paragraphs_as_field_groups(t))
        if _snap(c) != sb:
            return 'the object built from the field groups of the text differs from the object built from the text'
        import pathlib
        if _snap(dc.DebianCopyright.from_file(pathlib.Path(path))) != sb:
            return 'the object read through a pathlib.Path differs from the object built from the text'
        if len(t) < 20000:
            # the same path read again after the caller emptied the first object; then the file rewritten with another
            # document of the same size and the same modification time
            a.paragraphs.clear()
            if _snap(dc.DebianCopyright.from_file(path)) != sb:
                return 'a second read of the same file, after the caller emptied the first object, differs from the first'
            t2 = t.replace('a', '\0').replace('e', 'a').replace('\0', 'e')
            if t2 != t and len(t2.encode('utf-8')) == len(t.encode('utf-8')):
                mt = os.stat(path).st_mtime_ns
                with open(path, 'w', encoding='utf-8', newline='') as f:
                    f.write(t2)
                os.utime(path, ns=(mt, mt))
                if _snap(dc.DebianCopyright.from_file(path)) != _snap(dc.DebianCopyright.from_text(t2)):
                    return 'the file rewritten with another document of the same size (same modification time) is read as %s' % _snap(dc.DebianCopyright.from_file(path))[:300]
        hd = [p for p in b.paragraphs if isinstance(p, dc.CopyrightHeaderParagraph)]
        if b.get_header() is not (hd[0] if hd else None):
            return 'get_header() does not return the first header paragraph'

    except Exception as e:  # noqa
        return 'raises %s' % type(e).__name__
    finally:
        os.unlink(path)
    if sa != sb:
        k = next(i for i in range(min(len(sa), len(sb)) + 1) if sa[i:i + 1] != sb[i:i + 1])
        return 'the object read from a file differs from the object built from the text (%d characters): ...%s against ...%s' % (len(t), sa[max(0, k - 60):k + 80], sb[max(0, k - 60):k + 80])
    return None
