"""Adapters for copyright.py."""
from attr import fields_dict
from harness.common import call, Exn
from debian_inspector import copyright as dc, debcon


def s(v):
    return v if isinstance(v, str) else ''


def typed(v):
    if isinstance(v, debcon.SingleLineField):
        return s(v.value)
    if isinstance(v, (debcon.LineSeparatedField, debcon.AnyWhiteSpaceSeparatedField)):
        return list(v.values or [])
    if isinstance(v, debcon.FormattedTextField):
        return s(v.text)
    if isinstance(v, dc.CopyrightField):
        return [[s(st.year_range), s(st.holder)] for st in v.statements]
    if isinstance(v, dc.LicenseField):
        return [s(v.name), s(v.text)]
    raise TypeError(type(v))


def d2l(d):
    return [[k, s(v)] for k, v in d.items()]


def para_obs(p):
    names = [n for n in fields_dict(type(p)) if n not in ('extra_data', 'line_numbers_by_field')]
    td = p.to_dict()
    return [type(p).__name__, d2l(td),
            [[k, [a, b]] for k, (a, b) in p.line_numbers_by_field.items()],
            p.dumps(),
            [[n, typed(getattr(p, n))] for n in names],
            d2l(getattr(p, 'extra_data', {})),
            d2l(type(p).from_dict(dict(td)).to_dict()),
            list(p.get_first_last_line_numbers())]


def doc_obs(t):
    c = dc.DebianCopyright.from_text(t)
    return [[para_obs(p) for p in c.paragraphs], c.dumps(), bool(c.is_valid()), bool(c.is_valid(strict=True))]


def impl(fname, args):
    if fname == 'copyright_from_text':
        return call(doc_obs, *args)
    if fname == 'normalize_control_field_name':
        return call(debcon.normalize_control_field_name, *args)
    if fname == 'is_year_range':
        return call(lambda x: bool(dc.is_year_range(x)), *args)
    if fname == 'statement':
        def f(v):
            st = dc.CopyrightStatementField.from_value(v)
            return [s(st.year_range), s(st.holder), st.dumps()]
        return call(f, *args)
    raise KeyError(fname)


def _snap(c):
    return repr(([type(p).__name__ for p in c.paragraphs], c.to_dict(with_lines=True), c.dumps(),
                 [sorted((k, tuple(v)) for k, v in p.line_numbers_by_field.items()) for p in c.paragraphs]))


def p_observe(t):
    """looking at a copyright object - validity, rendering, dictionary form, copies, comparisons, per-paragraph
    queries, in any order, and whatever the caller does with what is returned - leaves the object as it was built"""
    import copy
    try:
        c = dc.DebianCopyright.from_text(t)
        snap = _snap(c)
        looks = [('is_valid()', lambda: c.is_valid()), ('is_valid(strict=True)', lambda: c.is_valid(strict=True)),
                 ('dumps()', lambda: c.dumps()), ('to_dict() then clearing the result', lambda: [x.clear() for x in c.to_dict()['paragraphs']]),
                 ('to_dict(with_lines=True) then clearing the result', lambda: c.to_dict(with_lines=True).clear()),
                 ('repr/str', lambda: (repr(c), str(c))), ('deepcopy', lambda: copy.deepcopy(c).paragraphs.clear()),
                 ('copy of the paragraph list reversed', lambda: list(c.paragraphs).reverse()),
                 ('comparison', lambda: (c == c, c == copy.deepcopy(c), c != 1)),
                 ('per-paragraph queries', lambda: [(p.is_empty(), p.has_extra_data(), p.dumps(), p.to_dict().clear(), p.to_dict(with_lines=True),
                                                    p.get_first_last_line_numbers(), [p.get_field_line_numbers(n) for n in list(p.line_numbers_by_field)],
                                                    p.is_valid() if hasattr(p, 'is_valid') else None, p.is_valid(strict=True) if hasattr(p, 'is_valid') else None,
                                                    repr(p), p == copy.deepcopy(p)) for p in c.paragraphs]),
                 ('get_paragraphs_by_type', lambda: [getattr(c, n)() for n in dir(c) if n.startswith('get_') and n.endswith('paragraphs')])]
        for name, look in looks + looks[::-1]:
            try:
                look()
            except Exception as e:  # noqa
                if name in ('is_valid()', 'is_valid(strict=True)', 'dumps()'):
                    return '%s raises %s' % (name, type(e).__name__)
            now = _snap(c)
            if now != snap:
                return 'after %s the object reports %s, as built it reported %s' % (name, now[:600], snap[:600])
        c2 = dc.DebianCopyright.from_text(t)
        if _snap(c2) != snap:
            return 'a second object built from the same text differs from the first'
    except Exception as e:  # noqa
        return 'raises %s' % type(e).__name__
    return None
