"""Adapters for copyright.py."""
from attr import fields_dict
from harness.common import call, Exn
from debian_inspector import copyright as dc, debcon


def s(v):
    return v if isinstance(v, str) else ''


def typed(v):
    if isinstance(v, debcon.SingleLineField):
        return s(v.value)
    if isinstance(v, (debcon.LineSeparatedField, debcon.AnyWhiteSpaceSeparatedField)):
        return list(v.values or [])
    if isinstance(v, debcon.FormattedTextField):
        return s(v.text)
    if isinstance(v, dc.CopyrightField):
        return [[s(st.year_range), s(st.holder)] for st in v.statements]
    if isinstance(v, dc.LicenseField):
        return [s(v.name), s(v.text)]
    raise TypeError(type(v))


def d2l(d):
    return [[k, s(v)] for k, v in d.items()]


def para_obs(p):
    names = [n for n in fields_dict(type(p)) if n not in ('extra_data', 'line_numbers_by_field')]
    td = p.to_dict()
    return [type(p).__name__, d2l(td),
            [[k, [a, b]] for k, (a, b) in p.line_numbers_by_field.items()],
            p.dumps(),
            [[n, typed(getattr(p, n))] for n in names],
            d2l(getattr(p, 'extra_data', {})),
            d2l(type(p).from_dict(dict(td)).to_dict()),
            list(p.get_first_last_line_numbers())]


def doc_obs(t):
    c = dc.DebianCopyright.from_text(t)
    return [[para_obs(p) for p in c.paragraphs], c.dumps(), bool(c.is_valid()), bool(c.is_valid(strict=True))]


def impl(fname, args):
    if fname == 'copyright_from_text':
        return call(doc_obs, *args)
    if fname == 'normalize_control_field_name':
        return call(debcon.normalize_control_field_name, *args)
    if fname == 'is_year_range':
        return call(lambda x: bool(dc.is_year_range(x)), *args)
    if fname == 'statement':
        def f(v):
            st = dc.CopyrightStatementField.from_value(v)
            return [s(st.year_range), s(st.holder), st.dumps()]
        return call(f, *args)
    raise KeyError(fname)
