"""C01 - version ordering is exactly dpkg's ordering."""
from harness.common import Exn
from harness.gen import versions as V
from harness.props import _ver
from harness import unicode_sweep

impl = _ver.impl


def any_exception(v):
    return Exn('raises') if isinstance(v, Exn) else v


def _by_sort(x, y, key):
    """-1, 0, 1 from where sorted() and max() put two values (a stable sort keeps order-equal values in place)"""
    fwd = sorted([x, y], key=key)
    back = sorted([y, x], key=key)
    if fwd[0] is x and back[0] is y:
        return 0
    if fwd[0] is x and back[0] is x:
        return -1
    if fwd[0] is y and back[0] is y:
        return 1
    return 'inconsistent'


def run(ctx):
    rng = ctx.rng
    unicode_sweep.sweep(ctx, ['is_pydigit', 'is_nd', 'is_space'])
    # 1. the whole rank table: 68 x 68 single characters (67 allowed + end of string)
    singles = [''] + V.ALLOWED
    matrix = [(a, b) for a in singles for b in singles]
    ctx.exhaustive.append('compare_strings on all %d pairs of single allowed characters (incl. end)' % len(matrix))
    # 2. small scope over the 9-character representative alphabet
    L = ctx.n(2, 3)
    small = list(V.all_strings(V.REP9, L))
    spairs = [(a, b) for a in small for b in small]
    ctx.exhaustive.append('compare_strings on all %d pairs of strings of length <= %d over %r' % (len(spairs), L, V.REP9))
    if ctx.quick():
        s3 = list(V.all_strings(V.REP9, 3))
        spairs += [(rng.choice(s3), rng.choice(s3)) for _ in range(30000)]
    # 3. structured random components
    cpairs = [V.component_pair(rng) for _ in range(ctx.n(20000, 300000))]
    # characters outside the table: TypeError / ValueError paths
    odd = []
    for _ in range(ctx.n(2000, 20000)):
        a, b = V.component_pair(rng)
        i = rng.randint(0, len(a))
        ch = rng.choice('_:!/ é²٢')
        odd.append((a[:i] + ch + a[i:], b if rng.random() < .5 else b[:i] + ch + b[i:]))
    # digit runs beyond CPython's 4300-digit limit for int(str): the comparison itself has no such limit
    big = ['0' * 4301 + '7', '9' * 4301, '7', 'a' + '5' * 4301 + 'b']
    cpairs += [(a, b) for a in big for b in big]
    # digit runs around every usual fixed width (19, 20, 32, 64, 128, 256 digits): one digit longer but numerically next
    wide = [x for n in (18, 19, 20, 31, 32, 33, 63, 64, 65, 127, 128, 129, 255, 256, 257) for x in ('9' * n, '1' + '0' * n, '0' * 3 + '9' * n)]
    cpairs += [(a, b) for a in wide for b in wide]
    allc = matrix + spairs + cpairs
    bad = ctx.compare('corr:compare_strings', [('compare_strings', [a, b]) for a, b in allc], impl)
    # characters outside the table are outside the property: whether the comparison raises is compared, the class of the exception is not
    bad += ctx.compare('corr:compare_strings:outside-the-table', [('compare_strings', [a, b]) for a, b in odd], impl, norm=any_exception)

    # 4. whole versions
    vpairs = _ver.version_pairs(ctx, ctx.n(20000, 300000))
    vpairs += [(a, b) for a in _ver.BOUNDARY for b in _ver.BOUNDARY]
    vpairs += _ver.BIG_PAIRS
    bad += ctx.compare('corr:compare_versions', [('compare_versions', [a, b]) for a, b in vpairs], impl)
    bad += ctx.compare('corr:Version.compare', [('version_ops', [a, b]) for a, b in vpairs[:ctx.n(5000, 50000)]], impl)

    # 5. executable statement: implementation == dpkg reference (transcribed verrevcmp, extracted)
    comp_ok = [(a, b) for a, b in allc if all(c in V.ALLOWED for c in a + b)]
    spec = ctx.model.run([('verrevcmp_sgn', [a, b]) for a, b in comp_ok])
    keyo = ctx.model.run([('key_compare', [a, b]) for a, b in comp_ok])
    st = ctx.stream('prop:compare_strings==verrevcmp')
    fails = []
    from debian_inspector import version as dv
    for (a, b), s, k in zip(comp_ok, spec, keyo):
        st['cases'] += 1
        ctx.evaluations += 1
        try:
            r = dv.compare_strings(a, b)
        except Exception as e:  # noqa
            r = Exn(type(e).__name__)
        if r != s:
            st['prop_failures'] += 1
            fails.append(((a, b), 'compare_strings(%r, %r) = %r but dpkg verrevcmp orders them %r' % (a, b, r, s)))
        if s != k:
            ctx.violation('spec', 'transcribed verrevcmp and key order disagree on (%r, %r): %r vs %r' % (a, b, s, k),
                          [a, b], found_input=False)
    vv = [(a, b) for a, b in vpairs if _ver.valid(a) and _ver.valid(b)]
    spec = ctx.model.run([('dpkg_compare_sgn', [a, b]) for a, b in vv])
    st = ctx.stream('prop:compare_versions==dpkg')
    st['valid_pairs'] = len(vv)
    for (a, b), s in zip(vv, spec):
        st['cases'] += 1
        ctx.evaluations += 1
        try:
            r = dv.compare_versions(a, b)
        except Exception as e:  # noqa
            r = Exn(type(e).__name__)
        if r != s:
            st['prop_failures'] += 1
            fails.append(((a, b), 'compare_versions(%r, %r) = %r but dpkg orders them %r' % (a, b, r, s)))
        # the same answer through every entry point: objects, strings, Version.compare
        for how, f in (('compare_versions(Version, Version)', lambda: dv.compare_versions(dv.Version.from_string(a), dv.Version.from_string(b))),
                       ('Version.compare(Version)', lambda: dv.Version.from_string(a).compare(dv.Version.from_string(b))),
                       ('Version.compare(str)', lambda: dv.Version.from_string(a).compare(b)),
                       ('compare_version_objects', lambda: dv.compare_version_objects(dv.Version.from_string(a), dv.Version.from_string(b))),
                       # the ordering as the operators and the sort keys give it
                       ('(a > b) - (a < b) on Version objects', lambda: (dv.Version.from_string(a) > dv.Version.from_string(b)) - (dv.Version.from_string(a) < dv.Version.from_string(b))),
                       ('(a >= b) - (a <= b) on Version objects', lambda: (dv.Version.from_string(a) >= dv.Version.from_string(b)) - (dv.Version.from_string(a) <= dv.Version.from_string(b))),
                       ('compare_versions_key', lambda: (dv.compare_versions_key(a) > dv.compare_versions_key(b)) - (dv.compare_versions_key(a) < dv.compare_versions_key(b))),
                       ('sorted() of the two Version objects', lambda: _by_sort(dv.Version.from_string(a), dv.Version.from_string(b), None)),
                       ('sorted() with compare_versions_key', lambda: _by_sort(a, b, dv.compare_versions_key))):
            ctx.evaluations += 1
            try:
                r2 = f()
            except Exception as e:  # noqa
                r2 = Exn(type(e).__name__)
            if r2 != s:
                st['prop_failures'] += 1
                fails.append(((a, b), '%s on (%r, %r) = %r but dpkg orders them %r' % (how, a, b, r2, s)))
    # one long-lived version compared with many short-lived ones, one after the other
    st2 = ctx.stream('prop:one-version-against-many')
    pivots = [a for a, _ in vv[:ctx.n(200, 2000)]]
    others = [b for _, b in vv[:400]]
    for a in pivots:
        pivot = dv.Version.from_string(a)
        for b in others[:60]:
            st2['cases'] += 1
            want = dv.compare_versions(a, b)
            got = pivot.compare(dv.Version.from_string(b))
            got2 = dv.compare_version_objects(pivot, dv.Version.from_string(b))
            if got != want or got2 != want:
                st2['prop_failures'] += 1
                fails.append(((a, b), 'a long-lived Version(%r) compared with a new Version(%r) answers %r / %r; compare_versions on the strings answers %r' % (a, b, got, got2, want)))
                break
    hist = {}
    for a, b in vv:
        hist[min(len(a) + len(b), 200) // 20 * 20] = hist.get(min(len(a) + len(b), 200) // 20 * 20, 0) + 1
    st['size_histogram'] = hist

    # 6. the dpkg binary as a second opinion on the transcribed spec (validation, not an obligation)
    if _ver.dpkg_available():
        n = ctx.n(300, 5000)
        sample = [(a, b) for a, b in vv if _ver.dpkg_accepts(a) and _ver.dpkg_accepts(b)][:n]
        spec = ctx.model.run([('dpkg_compare_sgn', [a, b]) for a, b in sample])
        st = ctx.stream('validate:spec-vs-dpkg-binary')
        for (a, b), s in zip(sample, spec):
            st['cases'] += 1
            d = _ver.dpkg_cmp(a, b)
            if d != s:
                st['disagreements'] += 1
                ctx.violation('spec', 'Spec.dpkg_version_compare(%r, %r) = %r but the dpkg binary says %r' % (a, b, s, d),
                              [a, b], found_input=False)
    else:
        ctx.notes.append('dpkg binary not on PATH: spec not cross-validated on this run')

    fails.sort(key=lambda f: len(f[0][0]) + len(f[0][1]))
    for x, why in fails[:10]:
        ctx.violation('property', 'C01 fails on the implementation: ' + why, list(x))
    if bad and not fails:
        bad.sort(key=lambda b: len(repr(b[0])))
        (fn, args), iv, mv = bad[0]
        ctx.violation('correspondence', 'model and implementation differ on %s%r: impl %r, model %r (no pair of valid '
                      'versions ordered differently from dpkg was found)' % (fn, args, iv, mv), [fn, args],
                      expected=mv, observed=iv, found_input=False)
