"""C03 - version strings: accepted language and dpkg-style decomposition."""
from harness.common import Exn
from harness.gen import versions as V
from harness.props import _ver
from harness import unicode_sweep

from debian_inspector import version as dv
from debian_inspector.version import Version

impl = _ver.impl
ALNUM = set('abcdefghijklmnopqrstuvwxyzABCDEFGHIJKLMNOPQRSTUVWXYZ0123456789')
REP = ['0', '9', 'a', 'Z', '.', '+', '-', '~', ':', ' ', '\n', '٢', '_']


def policy_split(t):
    """Debian policy / dpkg: epoch before the first colon, revision after the last hyphen."""
    if ':' in t:
        e, _, rest = t.partition(':')
    else:
        e, rest = None, t
    if '-' in rest:
        u, _, r = rest.rpartition('-')
    else:
        u, r = rest, None
    return e, u, r


def policy_valid(t):
    e, u, r = policy_split(t)
    if e is not None and (not e or any(c not in '0123456789' for c in e)):
        return False
    if not u or u[0] not in '0123456789':
        return False
    if any(c not in ALNUM and c not in '.+-~' for c in u):
        return False
    if r is not None and (not r or any(c not in ALNUM and c not in '.+~' for c in r)):
        return False
    return True


def p_accept(s):
    t = s.strip()
    try:
        v = Version.from_string(s)
    except ValueError:
        e, u, r = policy_split(t) if t else (None, '', None)
        if t and policy_valid(t) and u[-1] in ALNUM and (r is None or r[-1] in ALNUM):
            return 'policy-valid %r with alphanumeric ends is rejected' % s
        return None
    except Exception as ex:  # noqa
        return 'from_string(%r) raises %s, not ValueError' % (s, type(ex).__name__)
    if not policy_valid(t):
        return '%r is accepted but is not valid under Debian policy' % s
    e, u, r = policy_split(t)
    want = (int(e) if e is not None else 0, u, r if r is not None else '0')
    if v.tuple() != want or type(v.epoch) is not int:
        return '%r decomposes to %r, dpkg splits it as %r' % (s, v.tuple(), want)
    return None


def p_other_objects(s):
    """what from_string answers does not depend on other Version objects made, printed, hashed or compared before:
    objects built field by field whose printed form is the same text (split at another hyphen, no revision, revision
    "0", epoch given or not), nor on earlier calls with the same or a nearby string"""
    t = s.strip()
    e, u, r = policy_split(t) if t else (None, '', None)
    body = t.partition(':')[2] if ':' in t else t
    others = [(0 if e is None else e, body, None), (0 if e is None else e, body, '0'), (0, t, None), (None, t, '0')]
    for i, ch in enumerate(body):
        if ch == '-':
            others.append((int(e) if (e or '').isdigit() else 0, body[:i], body[i + 1:]))
    for ep, up, rv in others:
        try:
            o = Version(epoch=ep, upstream=up, revision=rv)
            str(o), repr(o), hash(o), o == o, o.tuple()
            format(o)
            o.compare(o)
        except Exception:  # noqa
            pass
    # file names that hold the string as their version part, valid or not, parsed by the package module in between
    from debian_inspector import package
    for fn, cls in (('foo_%s.orig.tar.gz' % t, package.CodeArchive), ('foo_%s (copy).orig.tar.gz' % t, package.CodeArchive),
                    ('foo_%s_all.deb' % t, package.DebArchive), ('foo_x%s.dsc' % t, package.CodeMetadata)):
        try:
            cls.from_filename(fn)
        except Exception:  # noqa
            pass
    for near in (t + '-0', t + '-1', '0:' + t, t.lower(), t.upper()):
        try:
            str(Version.from_string(near))
        except Exception:  # noqa
            pass
    return p_accept(s)


def p_entry_points(s):
    """every way in that takes a version as a string accepts exactly the strings from_string accepts, and rejects the
    others with ValueError: comparing, evaluating a constraint, matching a relationship"""
    from debian_inspector import deps
    try:
        Version.from_string(s)
        ok = True
    except ValueError:
        ok = False
    one = Version.from_string('1')
    ways = [('compare_versions(s, "1")', lambda: dv.compare_versions(s, '1')), ('compare_versions("1", s)', lambda: dv.compare_versions('1', s)),
            ('compare_versions(s, s)', lambda: dv.compare_versions(s, s)),
            ('eval_constraint(s, ">=", "1")', lambda: dv.eval_constraint(s, '>=', '1')), ('eval_constraint("1", "<<", s)', lambda: dv.eval_constraint('1', '<<', s)),
            ('Version.compare(s)', lambda: one.compare(s)),
            ('a relationship (>= s) matched against "1"', lambda: deps.VersionedRelationship(name='p', operator='>=', version=s).matches('p', '1'))]
    if s:
        ways.append(('a relationship (>= 1) matched against s', lambda: deps.VersionedRelationship(name='p', operator='>=', version='1').matches('p', s)))
    for rep in (1, 2):      # twice: what an earlier call keeps must not change the answer
        for how, f in ways:
            try:
                f()
                got = True
            except ValueError:
                got = False
            except Exception as ex:  # noqa
                return '%s with s = %r raises %s, not ValueError' % (how, s, type(ex).__name__)
            if got != ok:
                return '%s %s s = %r, which from_string %s' % (how, 'accepts' if got else 'rejects', s, 'accepts' if ok else 'rejects')
    return None


def run(ctx):
    rng = ctx.rng
    unicode_sweep.sweep(ctx, ['is_space'])
    L = ctx.n(5, 6)
    small = list(V.all_strings(REP, L))
    ctx.exhaustive.append('all %d strings of length <= %d over %r through from_string and the compiled pattern'
                          % (len(small), L, REP))
    acc = [V.version(rng) for _ in range(ctx.n(10000, 150000))]
    rej = []
    for v in acc[:ctx.n(1500, 20000)]:
        rej += V.rejected_edits(rng, v)
    ws = []
    spaces = [chr(c) for c in (9, 10, 11, 12, 13, 28, 29, 30, 31, 32, 133, 160, 5760, 8192, 8202, 8232, 8233, 8239, 8287, 12288)]
    for v in acc[:ctx.n(500, 5000)]:
        ws.append(rng.choice(spaces) + v + rng.choice(spaces))
        ws.append(v + rng.choice(spaces) * 2)
    # every code point at three position classes: first, inside, after an epoch colon
    cps = [chr(c) for c in range(0x110000) if not 0xd800 <= c <= 0xdfff]
    if ctx.quick():
        cps = [chr(c) for c in range(0x3000)] + [chr(rng.randint(0x3000, 0x10ffff)) for _ in range(4000)]
        cps = [c for c in cps if not 0xd800 <= ord(c) <= 0xdfff]
    else:
        ctx.exhaustive.append('every code point at 4 positions of a version string')
    pos = [c + '1' for c in cps] + ['1' + c + '1' for c in cps] + ['1:' + c for c in cps] + ['1-' + c for c in cps]
    # strings that look like syntax of something else (format fields, % formats, regex / shell metacharacters):
    # they must be rejected with ValueError like any other invalid string, or accepted when they are policy-valid
    look = ['{}', '{0}', '{1}', '{a}', '{0.real}', '{!r}', '{:d}', '{{}}', '{0[0]}', '%s', '%d', '%(a)s', '%%', '%', '\\d', '\\', '\\1', '$', '^1',
            '1|2', '(1)', '[1]', '1*', '1?', '1;2', '`1`', '$(1)', '${1}', "1'", '1"', '1#2', '1&2', '1 2', '1\x002', 'None', 'nan', '1e5', '0x10', '1_0', '+1', '-1']
    syn = list(look)
    for v in acc[:ctx.n(200, 2000)]:
        t = rng.choice(look)
        k = rng.randint(0, len(v))
        syn += [v + t, t + v, v[:k] + t + v[k:], t + ':' + v, v + '-' + t]
    allc = small + acc + rej + ws + pos + syn
    bad = ctx.compare('corr:from_string', [('from_string', [s]) for s in allc], impl)
    # the compiled pattern object itself ($ also matches before one final newline)
    pat = small + acc[:2000] + rej
    def impl_pat(fn, args):
        s = args[0]
        return bool(dv._is_valid_version(s + '\n')) and bool(dv._is_valid_version(s)) if not s.endswith('\n') else None
    pat = [s for s in pat if not s.endswith('\n')]
    bad += ctx.compare('corr:_is_valid_version', [('valid_version', [s]) for s in pat], impl_pat)

    # the entry points that take two version strings, on accepted and rejected strings alike (C03_compare_versions_accepts_the_same)
    ep = (small[::13] + acc[::7] + rej[::5] + ws[::5] + syn[::3])[:ctx.n(8000, 80000)]
    bad += ctx.compare('corr:compare_versions:any-strings', [('compare_versions', [s, rng.choice(['1', '1.0-1', 'x', s])]) for s in ep] +
                       [('compare_versions', [rng.choice(['1', '2:0', '']), s]) for s in ep[::2]], impl)
    bad += ctx.compare('corr:eval_constraint:any-strings', [('eval_constraint', [s, rng.choice(['>=', '<<', '=', '<', '>', '<=', '>>']), rng.choice(['1', s])]) for s in ep[::2]], impl)
    fails = ctx.prop('prop:accept/reject/decompose', allc, p_accept)
    # digit runs and component counts beyond every limit of the interpreter (implementation side only)
    fails += ctx.prop('prop:accept/reject/decompose:long', _ver.BIG + _ver.LONG + ['1.' + '9' * n + rest for n in (4300, 4301, 20000) for rest in ('', 'a', '-1', '-' + '7' * 4301)], p_accept)
    fails += ctx.prop('prop:independent-of-other-objects', (small[::7] + acc + rej[::3] + syn)[:ctx.n(20000, 200000)], p_other_objects)
    fails += ctx.prop('prop:every-entry-point-accepts-the-same-strings', (small[::11] + acc[::5] + rej[::3] + ws[::3] + syn + pos[::40])[:ctx.n(15000, 150000)], p_entry_points)
    st = ctx.stream('prop:accept/reject/decompose')
    st['accepted'] = sum(1 for s in allc if _ver.valid(s))
    fails.sort(key=lambda f: len(f[0]))
    for x, why in fails[:10]:
        ctx.violation('property', 'C03 fails on the implementation: ' + why, x)
    if bad and not fails:
        bad.sort(key=lambda b: len(repr(b[0])))
        (fn, args), iv, mv = bad[0]
        ctx.violation('correspondence', 'model and implementation differ on %s%r: impl %r, model %r' % (fn, args, iv, mv),
                      [fn, args], expected=mv, observed=iv, found_input=False)
