"""C18 - Contents index: the two returned mappings are complete and mutually inverse."""
import gzip
import os
from harness.common import call, Exn

from debian_inspector import contents

PNAMES = ['bash', 'libc6', 'g++', 'coreutils', 'a', 'python3.11', 'x-y', 'zsh']
QUALS = ['', 'utils/', 'non-free/utils/', 'admin/', 'universe/net/', 'non-free/', 'universe/', 'contrib/', 'contrib/net/', 'non-free/']
SEGS = ['usr', 'bin', 'share', 'doc', 'a b', 'lib x', 'Level  One.map', 'a   b', 'tab\there', 'x \t y', 'etc', 'f.txt', 'README', 'été', 'x,y', 'FILE', 'LOCATION', '0']


def table(rng, maxrows=12):
    rows = []
    for _ in range(rng.randint(0, maxrows)):
        path = '/'.join(rng.choice(SEGS) for _ in range(rng.randint(1, 4))).strip()
        if rng.random() < .15 and rows:
            path = rng.choice(rows)[0]
        pk = [(rng.choice(QUALS), rng.choice(PNAMES)) for _ in range(rng.randint(1, 6) if rng.random() < .4 else 1)]
        if rows and rng.random() < .3:
            pk = list(rng.choice(rows)[1])      # the same packages column as an earlier row, character for character
        rows.append((path, pk))
    return rows


def render(rng, rows, header, narrative, crlf=False, long_narrative=0):
    lines = []
    if header:
        if narrative:
            lines += ['This file maps each file available in the Debian system to', 'the package from which it originates.',
                      '', 'some FILE  here', 'LOCATION'][:rng.randint(0, 5)]
            # a narrative of any length: the table starts after the FILE LOCATION row wherever that row is
            lines += ['narrative line %d of the header' % i for i in range(long_narrative)]
        lines.append('FILE' + ' ' * rng.randint(1, 40) + 'LOCATION')
    for path, pk in rows:
        lines.append(path + ' ' * rng.randint(1, 40) + ','.join(q + n for q, n in pk))
    nl = '\r\n' if crlf else '\n'
    return nl.join(lines) + (nl if lines and rng.random() < .9 else '')


def expected(rows):
    by_path, by_pkg = {}, {}
    for path, pk in rows:
        for _q, n in pk:
            by_path.setdefault(path, []).append(n)
            by_pkg.setdefault(n, []).append(path)
    return by_path, by_pkg


def to_lists(r):
    a, b = r
    return [[[k, list(v)] for k, v in a.items()], [[k, list(v)] for k, v in b.items()]]


_VALS = {}


def any_exception(v):
    return Exn('raises') if isinstance(v, Exn) else v


def impl_lines(fname, args):
    """parse_contents on the lines of a file: the answer computed while the file existed, or - when asked again or in
    another interpreter - a fresh file written and parsed"""
    key = repr(args)
    if key in _VALS:
        return _VALS.pop(key)
    import tempfile
    header, lines = args
    with tempfile.NamedTemporaryFile('w', encoding='utf-8', newline='', suffix='-Contents', delete=False) as f:
        f.write('\n'.join(lines) + ('\n' if lines else ''))
    try:
        return call(lambda: to_lists(contents.parse_contents(f.name, has_header=header)))
    finally:
        os.unlink(f.name)


class Files:
    def __init__(self, ctx):
        self.dir = ctx.scratch
        self.n = 0

    def write(self, text, gz):
        self.n += 1
        p = os.path.join(self.dir, 'Contents-%d%s' % (self.n, '.gz' if gz else ''))
        if gz == 'members':
            # a gzip file of several members (written by appending, by concatenating files, or by a block compressor)
            data = text.encode('utf-8')
            cuts = sorted(set([0, len(data) // 3, len(data) // 2 + 1, len(data)]))
            with open(p, 'wb') as f:
                for a, b in zip(cuts, cuts[1:]):
                    f.write(gzip.compress(data[a:b]))
        elif gz:
            with gzip.open(p, 'wb') as f:
                f.write(text.encode('utf-8'))
        else:
            with open(p, 'w', encoding='utf-8', newline='') as f:
                f.write(text)
        return p


def run(ctx):
    rng = ctx.rng
    files = Files(ctx)
    fails = []
    reqs = []
    impl_vals = {}
    st = ctx.stream('prop:tables')
    n = ctx.n(1500, 20000)
    hist = {}
    for i in range(n):
        rows = table(rng)
        header = rng.random() < .5
        narrative = header and rng.random() < .6
        crlf = rng.random() < .1
        long_narrative = rng.choice([31, 98, 99, 100, 101, 127, 128, 250, 255, 256, 1000, 4096, 5000]) if narrative and rng.random() < .08 else 0
        if i % 400 == 399:
            rows = table(rng, maxrows=6000)     # a table beyond every usual buffer size
        text = render(rng, rows, header, narrative, crlf, long_narrative)
        hist[min(len(rows), 13)] = hist.get(min(len(rows), 13), 0) + 1
        pp, pg, pm = files.write(text, False), files.write(text, True), files.write(text, 'members')
        try:
            rp = call(lambda: to_lists(contents.parse_contents(pp, has_header=header)))
            rg = call(lambda: to_lists(contents.parse_contents(pg, has_header=header)))
            rm = call(lambda: to_lists(contents.parse_contents(pm, has_header=header)))
            if i % 4 == 0:
                # a plain file of the same name without ".gz" lying next to the compressed one, holding another table
                side = pg[:-3]
                with open(side, 'w', encoding='utf-8') as f2:
                    f2.write(('FILE LOCATION\n' if header else '') + 'usr/bin/stale   admin/stale-package\n')
                try:
                    rs = call(lambda: to_lists(contents.parse_contents(pg, has_header=header)))
                finally:
                    os.unlink(side)
                if rs != rg:
                    rg = rs
            if rm != rp and rg == rp:
                rg = rm
            os.unlink(pm)
            # the same path again: what a caller did to the first result (looked up a missing key, added, cleared) is not
            # in the second; then the file rewritten with other rows of the same size within the same second
            again = None
            if i % 3 == 0 and not isinstance(rp, Exn):
                r1 = contents.parse_contents(pp, has_header=header)
                r1[0]['no/such/path'], r1[1]['no-such-package']
                r1[0]['usr/added'] = ['x']
                for k in list(r1[1])[:1]:
                    r1[1][k].append('appended')
                r2 = to_lists(contents.parse_contents(pp, has_header=header))
                if r2 != rp:
                    again = 'a second parse of the same file, after the caller changed the first result, gives %s; the first gave %s' % (repr(r2)[:1500], repr(rp)[:1500])
                mt = os.stat(pp).st_mtime_ns
                swapped = text.replace('usr', '\0').replace('bin', 'usr').replace('\0', 'bin').replace('bash', '\0').replace('zsh', 'ksh').replace('\0', 'dash')
                if swapped != text and len(swapped) == len(text) and again is None:
                    with open(pp, 'w', encoding='utf-8', newline='') as f:
                        f.write(swapped)
                    os.utime(pp, ns=(mt, mt))
                    r3 = call(lambda: to_lists(contents.parse_contents(pp, has_header=header)))
                    pq = files.write(swapped, False)
                    r4 = call(lambda: to_lists(contents.parse_contents(pq, has_header=header)))
                    os.unlink(pq)
                    if r3 != r4:
                        again = 'the file rewritten with other rows of the same size parses to %s; the same rows in a new file to %s' % (repr(r3)[:1500], repr(r4)[:1500])
                    with open(pp, 'w', encoding='utf-8', newline='') as f:
                        f.write(text)
            # the declared/undeclared header cases
            wrong = call(lambda: to_lists(contents.parse_contents(pp, has_header=not header)))
        finally:
            for q in (pp, pg, pm):
                if os.path.exists(q):
                    os.unlink(q)
        st['cases'] += 1
        ctx.evaluations += 1
        ctx.distinct.add(hash(text))
        bp, bk = expected(rows)
        want = [[[k, v] for k, v in bp.items()], [[k, v] for k, v in bk.items()]]
        why = None
        if rp != want:
            why = 'parse_contents gives %s, the table is %s' % (repr(rp)[:2000], repr(want)[:2000])
        elif rg != rp:
            why = 'gzip and plain differ: %s vs %s' % (repr(rg)[:2000], repr(rp)[:2000])
        elif again:
            why = again
        elif not isinstance(wrong, Exn) and (header or any(p == 'FILE' for p, _ in rows) is False) and header:
            why = 'a header that is present but not declared is accepted'
        elif not header and not isinstance(wrong, Exn):
            why = 'a declared header that is missing is accepted'
        else:
            # inverse: multiplicities agree
            for p, names in bp.items():
                for nm in set(names):
                    if names.count(nm) != bk[nm].count(p):
                        why = 'mappings are not inverse at (%r, %r)' % (p, nm)
        if why:
            st['prop_failures'] += 1
            fails.append(((text, header), why))
        lines = text.replace('\r\n', '\n').split('\n')
        if lines and lines[-1] == '':
            lines.pop()
        reqs.append(('parse_contents_lines', [header, lines]))
        impl_vals[len(reqs) - 1] = rp
        reqs.append(('parse_contents_lines', [not header, lines]))
        impl_vals[len(reqs) - 1] = wrong
    st['rows_histogram'] = hist
    # tables beyond 1 MiB in which a row ends exactly before every multiple of 4096 characters (so before every
    # multiple of 64 KiB and 1 MiB): plain and gzip, with and without header
    from harness.gen import texts as GT
    for header in (False, True):
        body = GT.aligned_text(rng, 2200000, 'line-start', gaps=False, head='FILE   LOCATION\n' if header else '',
                               unit=lambda i: ['usr/share/doc/f%d     utils/pkg%d' % (i, i % 7), 'usr/bin/g %d  admin/tool%d,net/x%d' % (i, i % 5, i % 3)])
        rows = []
        for L in body.split('\n')[(1 if header else 0):]:
            if L:
                left, _, right = L.rpartition(' ')
                rows.append((left.strip(), [('', n.rpartition('/')[2]) for n in right.split(',')]))
        pp, pg = files.write(body, False), files.write(body, True)
        try:
            rp = call(lambda: to_lists(contents.parse_contents(pp, has_header=header)))
            rg = call(lambda: to_lists(contents.parse_contents(pg, has_header=header)))
        finally:
            os.unlink(pp)
            os.unlink(pg)
        st['cases'] += 1
        bp, bk = expected(rows)
        want = [[[k, v] for k, v in bp.items()], [[k, v] for k, v in bk.items()]]
        if rp != want or rg != want:
            st['prop_failures'] += 1
            which = 'plain' if rp != want else 'gzip'
            got = rp if rp != want else rg
            diff = next((a for a, b in zip(got[0], want[0]) if a != b), None) if not isinstance(got, Exn) else got
            fails.append(((body, header), 'a table of %d rows (%d characters) read from a %s file differs from the table, first at %s'
                          % (len(rows), len(body), which, repr(diff)[:300])))
    # an index reached through a symbolic link named Contents-*.gz whose target has another name (by-hash layouts), and the
    # plain file likewise; rows beyond 64 KiB (thousands of packages in one row, a column padded with 70000 blanks)
    rows = table(rng, maxrows=40)
    rows.append(('usr/share/doc/very-common-file', [(rng.choice(QUALS), 'pkg%d' % i) for i in range(9000)]))
    rows.append(('usr/bin/after-the-long-row', [('', 'bash')]))
    text = render(rng, rows, True, False)
    text += 'usr/lib/padded' + ' ' * 70000 + 'utils/zsh\nusr/lib/last  admin/a\n'
    rows += [('usr/lib/padded', [('', 'zsh')]), ('usr/lib/last', [('', 'a')])]
    bp, bk = expected(rows)
    want = [[[k, v] for k, v in bp.items()], [[k, v] for k, v in bk.items()]]
    hashdir = os.path.join(files.dir, 'by-hash')
    os.makedirs(hashdir, exist_ok=True)
    made = []
    try:
        for gz in (True, False):
            target = files.write(text, gz)
            t2 = os.path.join(hashdir, '0123abcd%d' % gz)
            os.rename(target, t2)
            link = os.path.join(files.dir, 'Contents-amd64' + ('.gz' if gz else ''))
            os.symlink(t2, link)
            made += [t2, link]
            r = call(lambda: to_lists(contents.parse_contents(link, has_header=True)))
            st['cases'] += 1
            if r != want:
                st['prop_failures'] += 1
                diff = next((a for a, b in zip(r[0], want[0]) if a != b), None) if not isinstance(r, Exn) else r
                fails.append(((text[:2000], True), 'a table with rows beyond 64 KiB read through a symbolic link (%s) differs from the table, first at %s' % ('gzip' if gz else 'plain', repr(diff)[:300])))
    finally:
        for q in made:
            if os.path.lexists(q):
                os.unlink(q)
        os.rmdir(hashdir)
    # malformed / odd lines for the correspondence only
    for i in range(ctx.n(800, 10000)):
        lines = []
        for _ in range(rng.randint(0, 8)):
            k = rng.random()
            if k < .5:
                lines.append(rng.choice(SEGS) + ' ' * rng.randint(0, 3) + rng.choice(QUALS) + rng.choice(PNAMES))
            elif k < .6:
                lines.append('')
            elif k < .7:
                lines.append('FILE LOCATION')
            elif k < .8:
                lines.append(' FILE   LOCATION  ')
            else:
                lines.append(rng.choice(['x', ' ', 'a  b  c', ',', 'p a/,b/c/', '/ /', 'FILE', 'LOCATION', 'FILE  LOCATION x']))
        text = '\n'.join(lines) + '\n' if lines else ''
        for header in (True, False):
            pp = files.write(text, False)
            try:
                r = call(lambda: to_lists(contents.parse_contents(pp, has_header=header)))
            finally:
                os.unlink(pp)
            reqs.append(('parse_contents_lines', [header, lines]))
            impl_vals[len(reqs) - 1] = r
    _VALS.clear()
    for i, r in enumerate(reqs):
        _VALS.setdefault(repr(r[1]), impl_vals[i])
    # the property says of the header errors only that they raise: the class of the exception is not compared
    bad = ctx.compare('corr:parse_contents', reqs, impl_lines, norm=any_exception)
    _VALS.clear()
    ctx.notes.append('gzip/plain equality and file decoding are checked by execution only (not modelled)')

    fails.sort(key=lambda f: len(f[0][0]))
    for x, why in fails[:10]:
        ctx.violation('property', 'C18 fails on the implementation: ' + why, list(x))
    if bad and not fails:
        bad.sort(key=lambda b: len(repr(b[0])))
        (fn, args), iv, mv = bad[0]
        ctx.violation('correspondence', 'model and implementation differ on %s%r: impl %r, model %r' % (fn, args, iv, mv),
                      [fn, args], expected=mv, observed=iv, found_input=False)
