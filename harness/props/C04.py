"""C04 - printing a version and parsing it back gives the same version."""
import re
from harness.gen import versions as V
from harness.props import _ver

from debian_inspector.version import Version

impl = _ver.impl


def _printed(v):
    import contextlib
    import io
    buf = io.StringIO()
    with contextlib.redirect_stdout(buf):
        print(v, end='')
    return buf.getvalue()


def p_roundtrip(s):
    try:
        v = Version.from_string(s)
    except ValueError:
        return None
    try:
        p = str(v)
    except Exception as e:  # noqa
        return '%.40r... (%d characters) is accepted but printing it raises %s' % (s, len(s), type(e).__name__)
    try:
        v2 = Version.from_string(p)
    except ValueError:
        return 'printed form %r of %r is not accepted' % (p, s)
    if not (v2 == v) or v2.tuple() != v.tuple():
        return '%r prints as %r which parses to %r, not %r' % (s, p, v2.tuple(), v.tuple())
    if str(v2) != p:
        return 'printing is not idempotent: %r then %r' % (p, str(v2))
    # every way of printing gives the same text
    import copy
    import pickle
    ways = {'format(v)': format(v), 'f-string': f'{v}', '{}.format': '{}'.format(v), '{!s}': '{!s}'.format(v), '%s': '%s' % (v,), '%s %% v (not wrapped in a tuple)': '%s' % v, 'join': ''.join([str(v)]), 'print': _printed(v),
            'str of a copy': str(copy.copy(v)), 'str of a deep copy': str(copy.deepcopy(v)),
            'str after pickling': str(pickle.loads(pickle.dumps(v))), 'second str': str(v)}
    for how, txt in ways.items():
        if txt != p:
            return '%s of %r gives %r, str() gives %r' % (how, s, txt, p)
    # a version derived from a printed one prints its own parts
    try:
        import attr
        for ch in ({'revision': '2'}, {'upstream': '9.9'}) + (({'epoch': v.epoch + 1},) if v.epoch < 10 ** 9 else ()):
            w = attr.evolve(v, **ch)
            fresh = Version(epoch=w.epoch, upstream=w.upstream, revision=w.revision)
            if str(w) != str(fresh) or Version.from_string(str(w)) != w:
                return 'attr.evolve(%r, %r) prints %r; a version built from the same parts prints %r' % (s, ch, str(w), str(fresh))
    except (TypeError, attr.exceptions.NotAnAttrsClassError):
        pass
    v3 = pickle.loads(pickle.dumps(v))
    if not (v3 == v) or hash(v3) != hash(v) or v3.tuple() != v.tuple() or v3.compare(v) != 0:
        return 'a pickled and reloaded %r is not the same version' % s
    # the printed form differs from the trimmed input at most by the epoch and an omitted -0
    t = s.strip()
    e, _, rest = t.partition(':') if ':' in t else ('', '', t)
    body = p.partition(':')[2] if ':' in p else p
    ep = p.partition(':')[0] if ':' in p else ''
    if (e.lstrip('0') or '0') != (ep.lstrip('0') or '0') or (ep and (ep.startswith('0'))):
        return 'epoch not normalised: %r -> %r' % (s, p)
    if body != rest:
        if not (rest == body + '-0' and '-' not in body):
            return 'printed body %r differs from input body %r by more than an omitted -0' % (body, rest)
    return None


def run(ctx):
    rng = ctx.rng
    acc = [V.version(rng) for _ in range(ctx.n(15000, 200000))]
    enrich = []
    for ep in ('', '0:', '00:', '1:', '010:'):
        for up in ('1', '1-2', '1-0', '1-0-0', '1.0-a-b', '0-0', '1~-1', '1-2-3'):
            for rev in ('', '-0', '-00', '-1', '-0a', '-~'):
                enrich.append(ep + up + rev)
    ctx.exhaustive.append('%d combinations of zero epochs x hyphenated upstreams x zero revisions' % len(enrich))
    small = list(V.all_strings(['0', '1', 'a', '-', ':', '.', '~'], ctx.n(6, 7)))
    ctx.exhaustive.append('all %d strings of length <= %d over 0 1 a - : . ~' % (len(small), ctx.n(6, 7)))
    allc = acc + enrich + small
    bad = ctx.compare('corr:version_roundtrip', [('version_roundtrip', [s]) for s in allc], impl)
    # epochs around every limit an interpreter puts on converting between integers and digits (4300 by default, 640 at
    # the least): whatever from_string accepts must print (the model has no such limit: these go to the implementation only)
    wide = ['%s:%s' % (d * n, rest) for n in (19, 20, 639, 640, 641, 4299, 4300, 4301, 5000, 20000) for d in '91' for rest in ('1.0', '1.0-1', '1-2-0')]
    wide += ['0' * n + '7:1.0' for n in (640, 4300, 4301)]
    fails = ctx.prop('prop:roundtrip', allc + wide, p_roundtrip)
    fails += _ver.pickled_to_another_process(ctx, [s for s in acc[:ctx.n(400, 4000)] if _ver.valid(s)])
    ctx.stream('prop:roundtrip')['accepted'] = sum(1 for s in allc if _ver.valid(s))
    fails.sort(key=lambda f: len(f[0]))
    for x, why in fails[:10]:
        ctx.violation('property', 'C04 fails on the implementation: ' + why, x)
    if bad and not fails:
        bad.sort(key=lambda b: len(repr(b[0])))
        (fn, args), iv, mv = bad[0]
        ctx.violation('correspondence', 'model and implementation differ on %s%r: impl %r, model %r' % (fn, args, iv, mv),
                      [fn, args], expected=mv, observed=iv, found_input=False)
