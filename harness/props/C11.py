"""C11 - building a copyright object loses no content and invents none."""
from collections import Counter
from harness.gen import texts as G
from harness.gen import dep5 as G5
from harness.props import _copy, _d822
from harness.props.C05 import DECL
from harness.props.C07 import near_miss_text
from harness.props.C10 import recovery_text

from debian_inspector import copyright as dc


def in_words(t):
    c = Counter()
    for L in _d822.source_lines(t):
        if DECL.match(L):
            c.update(w for w in L.partition(':')[2].split() if w != '.')
        else:
            c.update(w for w in L.split() if w != '.')
    return c


def out_words(c):
    out = Counter()
    for p in c.to_dict()['paragraphs']:
        for v in p.values():
            if isinstance(v, str):
                out.update(w for w in v.split() if w != '.')
    return out


def p_conserve(t):
    try:
        c = dc.DebianCopyright.from_text(t)
    except Exception as e:  # noqa
        return 'raises %s' % type(e).__name__
    a, b = in_words(t), out_words(c)
    if a != b:
        lost = a - b
        inv = b - a
        return 'words lost %r, words invented %r' % (dict(lost), dict(inv))
    return None


def combo_text(rng):
    """0-3 duplicate names, 0-3 runs of 1-3 junk paragraphs, 0-2 empty license paragraphs followed by free text"""
    parts = []
    for _ in range(rng.randint(1, 7)):
        k = rng.random()
        if k < .3:
            n = rng.choice(['License', 'Files', 'Comment', 'Foo', 'Unknown'])
            parts.append('\n'.join(G.decl_line(rng, rng.choice([n, n, n + '-1', n.lower()])) for _ in range(rng.randint(2, 4))))
        elif k < .55:
            parts.append('\n\n'.join(G.words_line(rng) for _ in range(rng.randint(1, 3))))
        elif k < .7:
            parts.append('License:\n\n' + rng.choice([G.words_line(rng), 'Unknown-Foo: ' + G.words_line(rng), 'Unknown: a\nUnknown: b',
                                                       G.words_line(rng) + '\n\n' + G.words_line(rng)]))
        elif k < .85:
            parts.append('Files: *\nCopyright: 2019 ' + G.words_line(rng) + '\nLicense: MIT\n ' + G.words_line(rng) + '\n .x\n .\n  v')
        else:
            parts.append(G.control_text(rng, 5).strip('\n'))
    return '\n\n'.join(parts) + '\n'


def run(ctx):
    rng = ctx.rng
    texts = [combo_text(rng) for _ in range(ctx.n(7000, 90000))]
    texts += [recovery_text(rng) for _ in range(ctx.n(3000, 40000))]
    texts += [G.control_text(rng) for _ in range(ctx.n(5000, 60000))]
    texts += [near_miss_text(rng) for _ in range(ctx.n(2000, 30000))]
    texts += [G5.render(rng, G5.document(rng)) for _ in range(ctx.n(1000, 15000))]
    texts += ['License: a\n b\n .x\n', 'Format: f\n\nLicense:\n\nUnknown-Foo: bar baz\n\nFiles: *\n',
              'Format: f\n\nLicense:\n\nUnknown: a\nUnknown: b\n\nFiles: *\n']
    # the same texts inside a clear-sign envelope: the copyright object is built from the text as given, envelope included
    def signed(t):
        return '-----BEGIN PGP SIGNED MESSAGE-----\nHash: SHA512\n\n' + t.rstrip('\n') + '\n-----BEGIN PGP SIGNATURE-----\nVersion: GnuPG v1\n\niQEzBAEBCgAdFiEE\n=abcd\n-----END PGP SIGNATURE-----\n'
    texts += [signed(t) for t in texts[:ctx.n(300, 3000)] if t.strip() and '\r' not in t]
    fails = ctx.prop('prop:conservation', texts, p_conserve)
    # a one-line text that happens to name an existing file is a text
    import os
    cwd = os.getcwd()
    try:
        os.chdir(ctx.scratch)
        os.makedirs(os.path.join(ctx.scratch, 'debian'), exist_ok=True)
        names = ['copyright', 'COPYING', 'debian/copyright', 'LICENSE']
        for fn in names:
            with open(os.path.join(ctx.scratch, fn), 'w') as f:
                f.write('Format: x\n\nFiles: *\nCopyright: 2019 from-the-file\nLicense: MIT\n')
        fails += ctx.prop('prop:conservation:texts-that-name-files', names + [os.path.join(ctx.scratch, fn) for fn in names] + ['./' + fn for fn in names], p_conserve)
    finally:
        os.chdir(cwd)
        for fn in names:
            try:
                os.unlink(os.path.join(ctx.scratch, fn))
            except OSError:
                pass
        try:
            os.rmdir(os.path.join(ctx.scratch, 'debian'))
        except OSError:
            pass
    # the file route: texts that end in every way a file ends, and large ones with a line end on every block boundary
    import os
    fpath = os.path.join(ctx.scratch, 'copyright')
    small = [t for t in texts[:ctx.n(600, 6000)] if t.strip()]
    small += [t.rstrip('\n') for t in small[:200]] + [t.rstrip() + 'z' for t in small[:100]] + [t.replace('\n', '\r\n') for t in small[:100]]
    large = _copy.large_copyright_texts(rng, ctx.quick())
    ff = ctx.prop('prop:file-route', [(fpath, t) for t in small + large], _copy.p_routes_agree)
    fails += ctx.prop('prop:conservation:large', large, p_conserve)
    fails += [(f[0][1], f[1]) for f in ff]
    fails += ctx.prop('prop:observing-changes-nothing', texts[::max(1, len(texts) // ctx.n(900, 9000))], _copy.p_observe)
    bad = ctx.compare('corr:copyright', [('copyright_from_text', [t]) for t in texts], _copy.impl)
    fails.sort(key=lambda f: len(f[0]))
    for x, why in fails[:20]:
        ctx.violation('property', 'C11 fails on the implementation: ' + why, x)
    if bad and not ctx.violations:
        bad.sort(key=lambda b: len(repr(b[0])))
        (fn, args), iv, mv = bad[0]
        ctx.violation('correspondence', 'model and implementation differ on %s%r: impl %r, model %r' % (fn, args, iv, mv),
                      [fn, args], expected=mv, observed=iv, found_input=False)
