"""C19 - control paragraph is a case-insensitive mapping; typed fields are faithful."""
import io
import itertools
from harness.common import call, Exn
from harness.gen import docs as D
from harness.gen import deps as GD
from harness.props import _deps, _copy

from debian_inspector import debcon, deps

KEYS = ['Package', 'package', 'PACKAGE', 'pAcKaGe', 'Version', 'version', 'X-Foo', 'x-foo', 'X-FOO', 'a', 'A', 'Installed-Size', 'unknown']
VALS = ['1', 'two words', '', 'x: y', 'v2', 'multi\n line']
CONTROL_NAMES = ['Package', 'Source', 'Version', 'Section', 'Priority', 'Architecture', 'Essential', 'Depends', 'Pre-Depends',
                 'Recommends', 'Suggests', 'Enhances', 'Breaks', 'Conflicts', 'Provides', 'Replaces', 'Installed-Size',
                 'Maintainer', 'Description', 'Homepage', 'Built-Using', 'Build-Depends', 'Build-Depends-Indep', 'Build-Depends-Arch',
                 'Build-Conflicts', 'Build-Conflicts-Indep', 'Build-Conflicts-Arch', 'Standards-Version', 'MD5sum', 'SHA1', 'SHA256',
                 'Checksums-Sha1', 'Checksums-Sha256', 'Files', 'X-MD5sum-Foo', 'Multi-Arch', 'Vcs-Git', 'Original-Maintainer']


def casings(n):
    return [n, n.lower(), n.upper(), ''.join(c.upper() if i % 2 else c.lower() for i, c in enumerate(n))]


def build(route, init):
    if route == 'mapping':
        return debcon.Debian822(dict(init))
    if route == 'pairs':
        return debcon.Debian822([tuple(kv) for kv in init])
    if route == 'strings':
        return debcon.Debian822(list(init))
    if route == 'text':
        return debcon.Debian822(init)
    if route == 'file':
        return debcon.Debian822(io.StringIO(init))
    raise KeyError(route)


def run_ops(obj, ops):
    out = []
    for o in ops:
        try:
            if o[0] == 'get':
                # every way of reading one field agrees with obj[k]
                try:
                    r, present = obj[o[1]], True
                except KeyError:
                    r, present = None, False
                ways = [('get(k, "dflt")', obj.get(o[1], 'dflt'), r if present else 'dflt'), ('get(k)', obj.get(o[1]), r if present else None),
                        ('k in obj', o[1] in obj, present), ('k.lower() in keys()', o[1].lower() in obj.keys(), present),
                        ('dict(items())[k.lower()]', dict(obj.items()).get(o[1].lower(), 'dflt'), r if present else 'dflt')]
                diff = [(how, got, want) for how, got, want in ways if got != want or type(got) is not type(want)]
                if diff:
                    out.append(['differs', 'obj[%r] %s, but %s gives %r' % (o[1], 'is %r' % (r,) if present else 'raises KeyError', diff[0][0], diff[0][1])])
                elif present:
                    out.append(r)
                else:
                    raise KeyError(o[1])
            elif o[0] == 'set':
                obj[o[1]] = o[2]
                out.append(None)
            elif o[0] == 'del':
                del obj[o[1]]
                out.append(None)
            elif o[0] == 'in':
                out.append(o[1] in obj)
            elif o[0] == 'len':
                out.append(len(obj))
            elif o[0] == 'iter':
                out.append(list(iter(obj)))
            elif o[0] == 'todict':
                out.append([[k, v] for k, v in obj.to_dict().items()])
            elif o[0] == 'update_pairs':
                obj.update([tuple(kv) for kv in o[1]])
                out.append(None)
            elif o[0] == 'update_map':
                obj.update(dict(o[1]))
                out.append(None)
            elif o[0] == 'update_kw':
                obj.update(**{o[1]: o[2]})
                out.append(None)
            elif o[0] == 'setdefault':
                out.append(obj.setdefault(o[1], o[2]))
            elif o[0] == 'pop':
                out.append(obj.pop(o[1]))
            elif o[0] == 'popdefault':
                out.append(obj.pop(o[1], 'dflt'))
            elif o[0] == 'getdefault':
                out.append(obj.get(o[1], o[2]))
            elif o[0] == 'clear':
                obj.clear()
                out.append(None)
            elif o[0] == 'observe':
                # operations that only look at the object: whatever they return, what is observed next is unchanged
                import copy
                import io as _io
                {'dumps': lambda: obj.dumps(), 'repr': lambda: repr(obj), 'str': lambda: str(obj), 'bool': lambda: bool(obj),
                 'eq': lambda: (obj == obj, obj == {}, obj != 1), 'keys': lambda: (list(obj.keys()), list(obj.values()), list(obj.items())),
                 'getdefault': lambda: obj.get('no-such-key', 1), 'copy': lambda: copy.deepcopy(obj),
                 'dump': lambda: (obj.dump(_io.BytesIO()), obj.dump()),
                 'todict': lambda: obj.to_dict().clear()}[o[1]]()
                out.append(None)
        except KeyError:
            out.append(Exn('KeyError'))
    return out


def impl(fname, args):
    if fname == 'debian822_history':
        route, init, ops = args
        return call(lambda: run_ops(build(route if route != 'text2' else 'file', init), ops))
    if fname == 'parse_control_fields':
        def f(items):
            r = debcon.parse_control_fields(dict((k, v) for k, v in items) if len(set(k for k, _ in items)) == len(items) else _Items(items))
            out = []
            for k, v in r.items():
                if isinstance(v, deps.AbstractRelationship):
                    out.append([k, [_deps.rel_tree(v)]])
                else:
                    out.append([k, v])
            return out
        return call(lambda i: _deps._quiet(f, i), *args)
    if fname == 'dumps822':
        return call(lambda items: debcon.Debian822([tuple(kv) for kv in items]).dumps() if items else debcon.Debian822().dumps(), *args)
    if fname == 'maintainer':
        def f(v):
            m = debcon.MaintainerField.from_value(v)
            m2 = _copy.dc.MaintainerField.from_value(v)
            assert (m.name, m.email_address, m.dumps()) == (m2.name, m2.email_address, m2.dumps())
            return [m.name, m.email_address, m.dumps()]
        return call(f, *args)
    raise KeyError(fname)


class _Items:
    """a mapping-like with repeated names, to exercise overwriting in parse_control_fields"""
    def __init__(self, items):
        self._i = items

    def items(self):
        return [tuple(kv) for kv in self._i]


def p_history(x):
    """indistinguishable from a plain dict keyed by the lower-cased names"""
    route, init, ops = x
    obj = build(route, init)
    if route in ('mapping', 'pairs'):
        ref = {}
        for k, v in init:
            ref[k.lower()] = v
    elif route == 'strings':
        ref = {}
        for s in init:
            k, _, v = s.partition(': ')
            ref[k.lower()] = v
    else:
        ref = dict(debcon.get_paragraph_data(init)) if init else {}
    got = run_ops(obj, ops)
    want = []
    for o in ops:
        try:
            if o[0] == 'get':
                want.append(ref[o[1].lower()])
            elif o[0] == 'set':
                ref[o[1].lower()] = o[2]
                want.append(None)
            elif o[0] == 'del':
                del ref[o[1].lower()]
                want.append(None)
            elif o[0] == 'in':
                want.append(o[1].lower() in ref)
            elif o[0] == 'len':
                want.append(len(ref))
            elif o[0] == 'iter':
                want.append(list(ref))
            elif o[0] == 'todict':
                want.append([[k, v] for k, v in ref.items()])
            elif o[0] == 'update_pairs':
                for k_, v_ in o[1]:
                    ref[k_.lower()] = v_
                want.append(None)
            elif o[0] == 'update_map':
                for k_, v_ in o[1]:
                    ref[k_.lower()] = v_
                want.append(None)
            elif o[0] == 'update_kw':
                ref[o[1].lower()] = o[2]
                want.append(None)
            elif o[0] == 'setdefault':
                want.append(ref.setdefault(o[1].lower(), o[2]))
            elif o[0] == 'pop':
                want.append(ref.pop(o[1].lower()))
            elif o[0] == 'popdefault':
                want.append(ref.pop(o[1].lower(), 'dflt'))
            elif o[0] == 'getdefault':
                want.append(ref.get(o[1].lower(), o[2]))
            elif o[0] == 'clear':
                ref.clear()
                want.append(None)
            elif o[0] == 'observe':
                want.append(None)
        except KeyError:
            want.append(Exn('KeyError'))
    # the object compares as the mapping it is: equal to a plain dict of its items (in any order), unequal to one that differs
    if route in ('mapping', 'pairs', 'strings') or True:
        now = dict(ref)
        try:
            rev = dict(reversed(list(now.items())))
            if not (obj == now) or (obj != now) or not (obj == rev) or not (now == obj):
                return 'after %r the object holds %r but does not compare equal to that dict' % (ops, now)
            other = dict(now)
            other['zz-not-there'] = '1'
            if obj == other or not (obj != other):
                return 'after %r the object compares equal to a dict with one more key' % (ops,)
            same = debcon.Debian822(list(rev.items()))
            if now and (not (obj == same) or obj != same):
                return 'two objects holding %r (fields set in another order) compare unequal' % (now,)
        except Exception as e:  # noqa
            return 'comparing the object with a dict raises %s' % type(e).__name__
    if got != want:
        i = next(i for i, (a, b) in enumerate(zip(got, want)) if a != b)
        return 'after %r (route %s, init %r) operation %r observes %r, a dict observes %r' % (ops[:i], route, init, ops[i], got[i], want[i])
    return None


def p_independent(x):
    """a paragraph built from a mapping, from pairs or from another paragraph is its own object: operations on one
    are never observed through the other"""
    _route, init, ops = x
    d = {k: v for k, v in init}
    for how in ('mapping', 'paragraph'):
        try:
            src = dict(d) if how == 'mapping' else debcon.Debian822(dict(d))
            snap_src = dict(src.items())
            obj = debcon.Debian822(src)
            snap_obj = obj.to_dict()
            run_ops(obj, ops)
            if dict(src.items()) != snap_src:
                return 'operations %r on a paragraph built from a %s change the %s it was built from' % (ops, how, how)
            obj2 = debcon.Debian822(src)
            if obj2.to_dict() != snap_obj:
                return 'a second paragraph built from the same %s differs after operations on the first' % how
            seen = obj2.to_dict()
            if how == 'mapping':
                src['zz-new'] = '1'
                src.pop(next(iter(src)))
            else:
                run_ops(src, ops + [['set', 'zz-new', '1']])
            if obj2.to_dict() != seen:
                return 'changing the %s afterwards changes the paragraph built from it' % how
        except Exception as e:  # noqa
            return 'raises %s (%s)' % (type(e).__name__, how)
    return None


def p_normalize(n):
    outs = set(debcon.normalize_control_field_name(c) for c in casings(n))
    if len(outs) != 1:
        return 'normalisation of %r depends on the input case: %r' % (n, outs)
    o = outs.pop()
    if debcon.normalize_control_field_name(o) != o:
        return 'normalisation is not idempotent on %r' % n
    want = '-'.join({'md5sum': 'MD5sum', 'sha1': 'SHA1', 'sha256': 'SHA256'}.get(w.lower(), w[:1].upper() + w[1:].lower()) for w in n.split('-'))
    if o != want:
        return 'normalize(%r) = %r, conventional capitalisation %r' % (n, o, want)
    return None


def p_typed(items):
    m = dict(items)
    try:
        out = _deps._quiet(debcon.parse_control_fields, m)
    except ValueError:
        return None
    for k, v in m.items():
        n = debcon.normalize_control_field_name(k)
        got = out[n]
        if n in debcon.DEPS_FIELDS:
            if got != deps.parse_depends(v) or not isinstance(got, deps.AndRelationships):
                return 'field %r not parsed as a relationship equal to parse_depends(%r)' % (k, v)
        elif n == 'Installed-Size':
            if got != int(v) or type(got) is not int:
                return 'Installed-Size %r became %r' % (v, got)
        elif got is not v and got != v:
            return 'field %r changed from %r to %r' % (k, v, got)
    # the set of relationship fields is an argument: with another set exactly those names are parsed
    for custom in (frozenset(['Depends']), frozenset(debcon.DEPS_FIELDS) | {'X-Extra-Deps', 'Homepage'}, frozenset()):
        try:
            out2 = _deps._quiet(debcon.parse_control_fields, m, custom)
        except Exception:  # noqa  (a value that is not a relationship, named as one)
            continue
        for k, v in m.items():
            n = debcon.normalize_control_field_name(k)
            is_rel = isinstance(out2[n], deps.AbstractRelationship)
            if is_rel != (n in custom):
                return 'with deps_fields=%r the field %r is %s as a relationship' % (sorted(custom), k, 'parsed' if is_rel else 'not parsed')
    if len(out) != len(set(debcon.normalize_control_field_name(k) for k in m)):
        return 'typed mapping has the wrong keys: %r' % list(out)
    return None


def p_roundtrip(items):
    d = debcon.Debian822([tuple(kv) for kv in items])
    text = d.dumps()
    back = debcon.Debian822(text)
    first_line = text.split('\n')[0]
    if first_line and '/' not in first_line and len(first_line) < 200 and '\0' not in first_line:
        # a file that happens to be named like a one-line text: the text is still a text
        import os
        import tempfile
        cwd = os.getcwd()
        with tempfile.TemporaryDirectory() as td:
            try:
                os.chdir(td)
                with open(os.path.join(td, first_line), 'w') as fh:
                    fh.write('Package: from-the-file\n')
                one = debcon.Debian822(first_line).to_dict()
            except OSError:
                one = None
            finally:
                os.chdir(cwd)
        if one is not None and one != debcon.Debian822(first_line).to_dict():
            return 'Debian822(%r) gives %r when a file of that name exists in the working directory' % (first_line, one)
    if back.to_dict() != d.to_dict():
        return 'dumps/read back gives %r, not %r (text %r)' % (back.to_dict(), d.to_dict(), text)
    back2 = debcon.Debian822(io.StringIO(text))
    if back2.to_dict() != d.to_dict():
        return 'reading the rendering from a file object differs'
    # load_control_file(path) is parse_control_fields of the paragraph in the file
    import os
    import tempfile
    fd, path = tempfile.mkstemp(suffix='.control')
    try:
        with os.fdopen(fd, 'w', encoding='utf-8') as fh:
            fh.write(text)

        def quiet(f, *a):
            try:
                return _deps._quiet(f, *a)
            except Exception as e:  # noqa
                return Exn(type(e).__name__)
        a = quiet(debcon.load_control_file, path)
        b = quiet(debcon.parse_control_fields, debcon.Debian822(text))
        if not isinstance(a, Exn) and not isinstance(b, Exn):
            a, b = list(a.items()), list(b.items())
        if a != b:
            return 'load_control_file gives %r, parse_control_fields of the same paragraph %r' % (a, b)
    finally:
        os.unlink(path)
    return None


def p_maintainer(x):
    n, a = x
    v = '%s <%s>' % (n, a)
    for cls in (debcon.MaintainerField, _copy.dc.MaintainerField):
        m = cls.from_value(v)
        if (m.name, m.email_address) != (n, a) or m.dumps() != v:
            return '%s.MaintainerField: %r splits into (%r, %r) and prints %r' % (cls.__module__.rpartition('.')[2], v, m.name, m.email_address, m.dumps())
    return None


def run(ctx):
    rng = ctx.rng
    hist = []
    lens = {}
    for _ in range(ctx.n(6000, 80000)):
        route = rng.choice(['mapping', 'pairs', 'strings', 'text', 'file'])
        pool = rng.sample(KEYS, rng.randint(1, 6))
        n0 = rng.randint(0, 4)
        if route == 'mapping':
            init = list({k: rng.choice(VALS) for k in (rng.choice(pool) for _ in range(n0))}.items())
            init = [list(kv) for kv in init]
        elif route == 'pairs':
            init = [[rng.choice(pool), rng.choice(VALS)] for _ in range(n0)]
        elif route == 'strings':
            init = ['%s: %s' % (rng.choice(pool), rng.choice(VALS[:5])) if rng.random() < .9 else rng.choice(['novalue', 'a:b', ': x'])
                    for _ in range(n0)]
        else:
            init = '\n'.join('%s: %s' % (rng.choice(pool), rng.choice(VALS[:5])) for _ in range(n0))
        ops = []
        for _ in range(rng.randint(0, 40)):
            k = rng.random()
            key = rng.choice(pool)
            if k < .25:
                ops.append(['set', key, rng.choice(VALS)])
            elif k < .4:
                ops.append(['get', key])
            elif k < .45:
                ops.append(['getdefault', key, rng.choice(['dflt', '', 'x'])])
            elif k < .6:
                ops.append(['del', key])
            elif k < .75:
                ops.append(['in', key])
            elif k < .85:
                ops.append(['len'])
            elif k < .93:
                ops.append(['iter'])
            else:
                ops.append(['todict'])
        lens[len(ops) // 10 * 10] = lens.get(len(ops) // 10 * 10, 0) + 1
        hist.append((route, init, ops))
    # all op sequences of length <= 4 over two casings of one key and one other key
    atoms = [['set', 'A', '1'], ['set', 'a', '2'], ['del', 'A'], ['del', 'a'], ['get', 'a'], ['in', 'A'], ['set', 'b', '3'], ['iter'], ['len']]
    small = [('pairs', [], [list(o) for o in s]) for n in range(1, ctx.n(4, 5) + 1) for s in itertools.product(atoms, repeat=n)]
    ctx.exhaustive.append('all %d operation sequences of length <= %d over %d atomic operations on keys A/a/b' % (len(small), ctx.n(4, 5), len(atoms)))
    fails = ctx.prop('prop:history', hist + small + [('file', '', [['len'], ['todict']]), ('text', '', [['len']])], p_history)
    ctx.stream('prop:history')['history_length_histogram'] = lens
    # the same histories with looking-only operations (render, repr, compare, copy, list the keys) mixed in
    OBS = ['dumps', 'repr', 'str', 'bool', 'eq', 'keys', 'getdefault', 'copy', 'dump', 'todict']
    hist_obs = []
    for route, init, ops in hist[:ctx.n(2500, 30000)]:
        ops2 = []
        for o in ops:
            ops2.append(o)
            if rng.random() < .2:
                # the other ways of writing into a mapping
                kk = rng.choice(['Version', 'version', 'Priority', 'X_y', 'depends', 'Depends'])
                ops2.append(rng.choice([['update_pairs', [[kk, 'p1'], [kk.upper(), 'p2']]], ['update_map', [[kk, 'm1']]], ['update_kw', kk, 'k1'],
                                        ['setdefault', kk, 'd1'], ['pop', kk], ['popdefault', kk], ['clear']]))
                ops2.append(rng.choice([['todict'], ['len'], ['iter'], ['in', kk], ['get', kk], ['getdefault', kk, 'dflt']]))
            if rng.random() < .3:
                ops2.append(['observe', rng.choice(OBS)])
                ops2.append(rng.choice([['todict'], ['len'], ['iter']]))
        if route in ('text', 'file') and rng.random() < .3:
            init = init + '\n\ntrailing words after an empty line'
        hist_obs.append((route, init, ops2 + [['observe', rng.choice(OBS)], ['todict']]))
    fails += ctx.prop('prop:history-with-observations', hist_obs, p_history)
    # names on which str.lower() and str.casefold() (or upper-then-lower) disagree: the mapping folds with lower() everywhere
    UK = ['X-Stra\u00dfe', 'X-STRASSE', 'x-strasse', '\u0391\u03a3', '\u03b1\u03c2', '\u03b1\u03c3', '\u017fet', 'Set', 'set', '\ufb01x', 'FIX', 'fix',
          '\u0130x', 'ix', 'i\u0307x', 'K', '\u212a', 'k']
    hist_uni = []
    for _ in range(ctx.n(1500, 15000)):
        pool = rng.sample(UK, rng.randint(2, 6))
        init = [[rng.choice(pool), rng.choice(VALS[:5])] for _ in range(rng.randint(0, 3))]
        ops = []
        for _ in range(rng.randint(1, 20)):
            key = rng.choice(pool)
            ops.append(rng.choice([['set', key, rng.choice(VALS[:5])], ['get', key], ['del', key], ['in', key], ['len'], ['iter'], ['todict'],
                                   ['setdefault', key, 'd'], ['pop', key]]))
        hist_uni.append((rng.choice(['pairs', 'mapping']), init if True else init, ops))
    hist_uni = [(r, (list({k: v for k, v in i}.items()) if r == 'mapping' else i), o) for r, i, o in hist_uni]
    hist_uni = [(r, [list(kv) for kv in i], o) for r, i, o in hist_uni]
    fails += ctx.prop('prop:history-unicode-names', hist_uni, p_history)
    fails += ctx.prop('prop:independent-objects', [h for h in hist if h[0] in ('mapping', 'pairs')][:ctx.n(2500, 30000)] +
                      [('pairs', [['A', '1'], ['b', '2']], [list(o) for o in s_]) for n_ in range(1, 3) for s_ in itertools.product(atoms, repeat=n_)],
                      p_independent)
    names = CONTROL_NAMES + ['a', 'a-b-c', 'x--y', 'md5sum-sha1', 'SHA256-x', 'foo-MD5SUM', '-', 'A1-b2', 'X-3dfx-Support',
                             'Original_maintainer', 'a1b-c2d', 'x.y-z', "o'neil-x", 'sha1sum', '3com-driver']
    ctx.exhaustive.append('every known control field name in four casings through normalize_control_field_name')
    fails += ctx.prop('prop:normalize', names, p_normalize)
    typed = []
    DEPS = sorted(debcon.DEPS_FIELDS)
    NEAR = [d + sfx for d in DEPS for sfx in ('-Package', '-Note', 's', '-')] + ['X-' + d for d in DEPS] + [d[:-1] for d in DEPS] + \
        ['Build-Depends-Package', 'Build-Conflicts-Reason', 'Build-Essential', 'XB-Depends', 'Depends-On', 'Pre-Depend', 'Recommend']
    NEAR = [n for n in NEAR if debcon.normalize_control_field_name(n) not in debcon.DEPS_FIELDS and n != 'Installed-Size']
    NEAR = list({debcon.normalize_control_field_name(n): n for n in NEAR if debcon.normalize_control_field_name(n) not in CONTROL_NAMES}.values())
    for _ in range(ctx.n(2500, 30000)):
        items = []
        for n in rng.sample(NEAR, rng.randint(0, 2)):
            items.append([rng.choice(casings(n)), rng.choice(['free text, not a relationship', 'libfoo (>= 1.0), bar', 'a | b', '(', 'x (1.0)'])])
        for n in rng.sample(CONTROL_NAMES, rng.randint(1, 7)):
            n2 = rng.choice(casings(n))
            nn = debcon.normalize_control_field_name(n2)
            if nn in debcon.DEPS_FIELDS:
                v = GD.render(rng, GD.field(rng, 3, 3), canonical=rng.random() < .5)
            elif nn == 'Installed-Size':
                v = rng.choice(['123', '0', ' 42 ', '007', '+5', 'x', '', '1.5'])
            else:
                v = D.value_text(rng)
            items.append([n2, v])
        typed.append(items)
    fails += ctx.prop('prop:typed-fields', typed, p_typed)
    rts = []
    for _ in range(ctx.n(2500, 30000)):
        ns = rng.sample(CONTROL_NAMES[:30], rng.randint(1, 6))
        rts.append([[rng.choice(casings(n)), ' '.join(D.value_text(rng).split()) or 'v'] for n in ns])
    # long relationship values (a rendering that folds long lines would not read back to the same mapping)
    pk = ['libc6 (>= 2.17)', 'zlib1g', 'python3:any (>= 3.5~)', 'libfoo-dev | libbar-dev', 'debhelper (>= 9)', 'gcc [amd64]', 'perl', 'libssl1.1 (>= 1.1.0)']
    for _ in range(ctx.n(300, 3000)):
        long_v = ', '.join(rng.choice(pk) for _ in range(rng.randint(6, 14)))
        rts.append([[rng.choice(['Depends', 'Build-Depends', 'Recommends', 'Description', 'X-Long']), long_v], ['Package', 'x']])
    # a paragraph of thousands of fields
    rts.append([['X-Field-%d' % i, 'value %d' % i] for i in range(4000)] + [['Package', 'x'], ['Depends', 'a (>= 1), b | c']])
    fails += ctx.prop('prop:dumps-roundtrip', rts, p_roundtrip)
    mnt = [(rng.choice(['Jane Doe', 'X', 'Debian QA Group', 'a b c', "O'Neil", 'j+k', 'Joe Z. Doe', 'Jos\xe9 M\xfcller', 'A. B. C.', 'Dr. X']), rng.choice(['a@b.c', 'jane.doe@example.org', 'x_y@z-q.net', 'a+b@c.d']))
           for _ in range(ctx.n(300, 3000))]
    fails += ctx.prop('prop:maintainer', mnt, p_maintainer)

    def model_ops(ops):
        out = []
        for o in ops:
            if o[0] == 'observe':
                continue
            out.append([o[0], o[1], 'dflt'] if o[0] == 'popdefault' else o)
        return out
    hreqs = [('debian822_history', [r if r != 'file' else 'text2', i, o]) for r, i, o in hist + small]
    # the histories with update / setdefault / pop / clear (looking-only operations left out: the model has no such operation)
    hreqs += [('debian822_history', [r if r != 'file' else 'text2', i, model_ops(o)]) for r, i, o in hist_obs[:ctx.n(1500, 20000)]]
    bad = ctx.compare('corr:history', hreqs, impl)
    bad += ctx.compare('corr:normalize', [('normalize_control_field_name', [c]) for n in names for c in casings(n)], _copy.impl)
    bad += ctx.compare('corr:parse_control_fields', [('parse_control_fields', [t]) for t in typed], impl)
    bad += ctx.compare('corr:dumps', [('dumps822', [[[k.lower(), v] for k, v in t]]) for t in rts], impl)
    mv = ['%s <%s>' % x for x in mnt] + ['Jane Doe', 'a@b.c', '<a@b.c>', 'Jane <a@b>', '"Q" <a@b.c>', 'J (c) <a@b.c>', 'a, b <c@d.e>', ' Jane Doe <a@b.c> ']
    reqs = [('maintainer', [v]) for v in mv]
    mvals = ctx.model.run(reqs)
    stm = ctx.stream('corr:maintainer')
    for (fn, args), m in zip(reqs, mvals):
        stm['cases'] += 1
        if m == 'OUT-OF-MODEL':
            stm['out_of_model'] = stm.get('out_of_model', 0) + 1
            continue
        iv = impl(fn, args)
        if iv != m:
            bad.append(((fn, args), iv, m))
    fails.sort(key=lambda f: len(repr(f[0])))
    for x, why in fails[:10]:
        ctx.violation('property', 'C19 fails on the implementation: ' + why, x)
    if bad and not ctx.violations:
        bad.sort(key=lambda b: len(repr(b[0])))
        (fn, args), iv, mv_ = bad[0]
        ctx.violation('correspondence', 'model and implementation differ on %s%r: impl %r, model %r' % (fn, args, iv, mv_),
                      [fn, args], expected=mv_, observed=iv, found_input=False)
