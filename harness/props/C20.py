"""C20 - continuation-line encoding of multi-line text is safe and invertible."""
from harness.common import call, Exn
from harness.gen import texts as G
from harness import unicode_sweep

from debian_inspector import debcon, copyright as dcopy


def _t(v):
    return v if isinstance(v, str) else ''   # None / [] -> ''


def impl(fname, args):
    if fname == 'as_formatted_text':
        return call(debcon.as_formatted_text, args[0])
    if fname == 'from_formatted_text':
        return call(lambda v: _t(debcon.from_formatted_text(v)), args[0])
    if fname == 'as_formatted_lines':
        return call(debcon.as_formatted_lines, list(args[0]))
    if fname == 'from_formatted_lines':
        return call(lambda ls: _t(debcon.from_formatted_lines(ls)), list(args[0]))
    if fname == 'ftf_roundtrip':
        def f(v):
            o = debcon.FormattedTextField.from_value(v)
            return [_t(o.text), o.dumps()]
        return call(f, args[0])
    if fname == 'desc_roundtrip':
        def f(v):
            o = debcon.DescriptionField.from_value(v)
            return [_t(o.synopsis), _t(o.text), o.dumps()]
        return call(f, args[0])
    if fname == 'lic_roundtrip':
        def f(v):
            o = dcopy.LicenseField.from_value(v)
            return [_t(o.name), _t(o.text), o.dumps()]
        return call(f, args[0])
    if fname == 'desc_dumps':
        return call(lambda s, t: debcon.DescriptionField(s, t).dumps(), *args)
    if fname == 'lic_dumps':
        return call(lambda s, t: dcopy.LicenseField(s, t).dumps(), *args)
    if fname in ('strip', 'lstrip', 'rstrip'):
        return call(getattr(str, fname), args[0])
    if fname == 'split_ws':
        return call(str.split, args[0])
    if fname == 'splitlines':
        return call(str.splitlines, args[0])
    if fname == 'splitlines_keep':
        return call(lambda s: s.splitlines(True), args[0])
    raise KeyError(fname)


# ---- executable statement of the property on the implementation

def is_blank(l):
    return not l.strip()


def p_safe(t):
    e = debcon.as_formatted_text(t)
    if not isinstance(e, str):
        return 'encoder returned %r' % (e,)
    if not t:
        return None
    lines = e.split('\n')
    # no other line boundary may survive inside an encoded line
    for i, l in enumerate(lines):
        if len(l.splitlines()) > 1 or l.endswith(tuple('\r\x0b\x0c\x1c\x1d\x1e\x85\u2028\u2029')):
            return 'encoded line %d %r still contains a line boundary' % (i, l)
        if i == 0:
            continue
        if not l.startswith(' '):
            return 'encoded line %d %r is not indented' % (i, l)
        if is_blank(l):
            return 'encoded line %d %r is empty or whitespace-only' % (i, l)
    return None


def in_decode_encode_domain(t):
    """texts of the property: no line starting with a full stop or a tab, no trailing blank
    line; printable characters and tab only (white space is U+0020 / U+0009), LF/CRLF/CR ends."""
    if not t:
        return True
    for c in t:
        if c.isspace() and c not in ' \t\n\r':
            return False
        if c in '\x0b\x0c\x1c\x1d\x1e\x85\u2028\u2029':
            return False
    ls = t.splitlines()
    if not ls or is_blank(ls[-1]):
        return False
    for l in ls:
        if l.startswith(('.', '\t')):
            return False
        # a space-indented line whose content starts with a full stop is a marker-like line
        if l.startswith(' ') and l.lstrip(' ').startswith('.') and not l.startswith('  '):
            return False
    return True


def expected_decode_encode(t):
    ls = t.splitlines()
    return '\n'.join([ls[0].strip()] + [l.rstrip() for l in ls[1:]])


def p_decode_encode(t):
    if not in_decode_encode_domain(t):
        return None
    got = debcon.from_formatted_text(debcon.as_formatted_text(t))
    if not t:
        return None if not got else 'decode(encode(%r)) = %r' % (t, got)
    want = expected_decode_encode(t)
    if got != want:
        return 'decode(encode(t)) = %r, expected %r' % (got, want)
    return None


def is_policy_value(v):
    """first line anything without line break; later lines: ' x..', '  x..' or ' .', the last not ' .';
    no ' .x' lines; printable + tab."""
    if not v:
        return True
    ls = v.split('\n')
    for c in v:
        if c.isspace() and c not in ' \t\n':
            return False
    if len(''.join(ls).splitlines()) > 1:
        return False
    for l in ls[1:]:
        if not l.startswith(' ') or is_blank(l):
            return False
        if l.startswith('\t') or l[1:2] == '\t':
            return False
        if l.rstrip() != ' .' and l.startswith(' .'):
            return False
    if len(ls) > 1 and ls[-1].rstrip() == ' .':
        return False
    if is_blank(ls[0]) and len(ls) == 1:
        return False
    return True


def p_fixpoint(v):
    if not is_policy_value(v):
        return None
    v1 = debcon.as_formatted_text(debcon.from_formatted_text(v))
    v2 = debcon.as_formatted_text(debcon.from_formatted_text(v1))
    if v1 != v2:
        return 'encode(decode(.)) is not a fixpoint after one pass: %r then %r' % (v1, v2)
    return None


def p_first_line(v):
    d = debcon.DescriptionField.from_value(v)
    out = d.dumps()
    # the synopsis is the trimmed first line of the value, nothing else is changed inside it
    want = v.splitlines()[0].strip() if v and v.splitlines() else ''
    if (d.synopsis or '') != want:
        return 'synopsis %r is not the trimmed first line %r' % (d.synopsis, want)
    lic0 = dcopy.LicenseField.from_value(v)
    if (lic0.name or '') != want:
        return 'license short name %r is not the trimmed first line %r' % (lic0.name, want)
    if (out.split('\n')[0] if out else '') != (d.synopsis or ''):
        return 'Description first line %r is not the synopsis %r' % (out.split('\n')[0], d.synopsis)
    lic = dcopy.LicenseField.from_value(v)
    out = lic.dumps()
    if lic.name and (out.split('\n')[0] if out else '') != lic.name:
        return 'License first line %r is not the short name %r' % (out.split('\n')[0], lic.name)
    return None


def p_field_cycles(v):
    """the field classes built on the codec: on a policy-conformant value, parse - render - parse - render is stable from
    the first rendering on, and the second object equals the first (for the License field when the value has a short name)"""
    if not is_policy_value(v):
        return None
    for cls in (debcon.FormattedTextField, debcon.DescriptionField, dcopy.LicenseField):
        if cls is dcopy.LicenseField and is_blank(v.split('\n')[0]):
            continue
        o = cls.from_value(v)
        d1 = o.dumps()
        o2 = cls.from_value(d1)
        d2 = o2.dumps()
        if d1 != d2:
            return '%s: the rendering %r of %r is rendered %r after another parse' % (cls.__name__, d1, v, d2)
        if o2 != o:
            return '%s: %r parsed from %r, %r parsed from its rendering' % (cls.__name__, o, v, o2)
    return None


def p_assigned(x):
    """a field object renders what it holds NOW: after its text, short name or synopsis is assigned (as the library itself
    does when it folds free text into an empty License field), the rendering is that of an object built with the new parts;
    rendering twice gives the same"""
    v, w = x
    for cls, head, body in ((dcopy.LicenseField, 'name', 'text'), (debcon.DescriptionField, 'synopsis', 'text'), (debcon.FormattedTextField, None, 'text')):
        try:
            a, b = cls.from_value(v), cls.from_value(w)
            first = a.dumps()
            if a.dumps() != first or str(a.dumps()) != first:
                return '%s: two renderings of one object differ' % cls.__name__
            want = b.dumps()
            setattr(a, body, getattr(b, body))
            if head:
                setattr(a, head, getattr(b, head))
            got = a.dumps()
        except Exception as e:  # noqa
            return '%s raises %s' % (cls.__name__, type(e).__name__)
        if got != want:
            return '%s: after its parts were assigned those of %r the object renders %r; an object built from that value renders %r' % (cls.__name__, w, got, want)
    return None


def p_fields_safe(x):
    """what the description and license fields render holds no empty or whitespace-only line after the first"""
    a, b = x
    for cls, mk in ((debcon.DescriptionField, lambda: debcon.DescriptionField(a, b)), (dcopy.LicenseField, lambda: dcopy.LicenseField(name=a, text=b))):
        try:
            out = mk().dumps()
        except Exception as e:  # noqa
            return '%s(%r, %r).dumps() raises %s' % (cls.__name__, a, b, type(e).__name__)
        for l in out.split('\n')[1:]:
            if not l.strip():
                return '%s(%r, %r) renders %r: a line after the first is empty or white space only' % (cls.__name__, a, b, out)
    return None


def p_decode_pure(v):
    """from_formatted_lines leaves the list it is handed as it was, and decodes it the same a second time"""
    lines = v.splitlines()
    if not lines:
        return None
    keep = list(lines)
    a = debcon.from_formatted_lines(lines)
    if lines != keep:
        return 'from_formatted_lines changed the list it was handed: %r became %r' % (keep, lines)
    b = debcon.from_formatted_lines(lines)
    if a != b:
        return 'decoding the same lines twice gives %r then %r' % (a, b)
    return None


def p_line_iterables(t):
    """as_formatted_lines takes the lines as any iterable"""
    lines = t.splitlines()
    want = debcon.as_formatted_lines(list(lines))
    for how, arg in (('a tuple', tuple(lines)), ('an iterator', iter(list(lines))), ('a generator', (l for l in lines))):
        if not lines:
            continue
        got = debcon.as_formatted_lines(arg)
        if got != want:
            return 'as_formatted_lines(%s of the lines of %r) = %r, of the list %r' % (how, t, got, want)
    return None


def p_instance(v):
    """a field object handed to from_value of its own class stands for itself: same name / synopsis, same text, same
    rendering (the copyright classes accept an instance where a value is expected)"""
    for cls in (dcopy.LicenseField, dcopy.CopyrightStatementField, dcopy.CopyrightField, dcopy.MaintainerField):
        try:
            a = cls.from_value(v)
            if a is None:
                continue
            b = cls.from_value(a)
        except Exception as e:  # noqa
            return '%s.from_value raises %s' % (cls.__name__, type(e).__name__)
        if b != a or b.dumps() != a.dumps() or cls.from_value(b).dumps() != a.dumps():
            return '%s.from_value(instance) is not the instance: %r vs %r' % (cls.__name__, b, a)
    return None


ALPHABET = ['a', ' ', '.', '\n', '\t', '\r', '\x0c', '\xa0']


def policy_value(rng):
    n = rng.randint(0, 6)
    ls = [G.words_line(rng)]
    for _ in range(n):
        k = rng.random()
        if k < 0.5:
            ls.append(' ' + G.words_line(rng).lstrip('.'))
        elif k < 0.75:
            ls.append('  ' + rng.choice(['', ' ', '   ']) + G.words_line(rng))
        else:
            ls.append(' .')
    while len(ls) > 1 and ls[-1] == ' .':
        ls.pop()
    return '\n'.join(ls)


def run(ctx):
    unicode_sweep.sweep(ctx, ['is_space', 'is_linebreak'])
    rng = ctx.rng
    # small-scope exhaustive over the class-representative alphabet
    L = ctx.n(5, 6)
    small = list(G.all_strings(ALPHABET, L))
    ctx.exhaustive.append('all %d strings of length <= %d over %r through encoder, decoder and field classes'
                          % (len(small), L, ALPHABET))
    rnd = [G.multiline_text(rng) for _ in range(ctx.n(4000, 60000))]
    rnd += [G.unicode_text(rng) for _ in range(ctx.n(1000, 20000))]
    pol = [policy_value(rng) for _ in range(ctx.n(2000, 30000))]
    texts = small + rnd + pol

    bad = []
    for fn in ('as_formatted_text', 'from_formatted_text', 'ftf_roundtrip', 'desc_roundtrip', 'lic_roundtrip'):
        bad += ctx.compare('corr:' + fn, [(fn, [t]) for t in texts], impl)
    pairs = [(G.words_line(rng) if rng.random() < .8 else '', G.multiline_text(rng)) for _ in range(ctx.n(1500, 20000))]
    pairs += [(a, b) for a in ('', 'a', ' ') for b in small[:ctx.n(3000, 40000)]]
    for fn in ('desc_dumps', 'lic_dumps'):
        bad += ctx.compare('corr:' + fn, [(fn, [a, b]) for a, b in pairs], impl)
    for fn in ('strip', 'split_ws', 'splitlines', 'splitlines_keep'):
        bad += ctx.compare('corr:pystr:' + fn, [(fn, [t]) for t in small + rnd[:2000]], impl)

    fails = []
    fails += [('safe', x, w) for x, w in ctx.prop('prop:safe', texts, p_safe)]
    fails += [('decode_encode', x, w) for x, w in ctx.prop('prop:decode_encode', texts, p_decode_encode)]
    fails += [('fixpoint', x, w) for x, w in ctx.prop('prop:fixpoint', texts, p_fixpoint)]
    fails += [('first_line', x, w) for x, w in ctx.prop('prop:first_line', texts, p_first_line)]
    fails += [('instance', x, w) for x, w in ctx.prop('prop:from_value(instance)', texts[::3], p_instance)]
    fails += [('field_cycles', x, w) for x, w in ctx.prop('prop:field-cycles', texts, p_field_cycles)]
    fails += [('line_iterables', x, w) for x, w in ctx.prop('prop:lines-as-any-iterable', texts[::5], p_line_iterables)]
    fails += [('fields_safe', x, w) for x, w in ctx.prop('prop:field-renderings-hold-no-blank-line', pairs + [(a, '\n' + b) for a, b in pairs[:500]] + [(a, ' \n\n' + b) for a, b in pairs[:300]], p_fields_safe)]
    fails += [('decode_pure', x, w) for x, w in ctx.prop('prop:decoding-leaves-its-argument', texts[::4], p_decode_pure)]
    pairs_a = [(texts[i], texts[(i * 7 + 3) % len(texts)]) for i in range(0, len(texts), max(1, len(texts) // ctx.n(4000, 40000)))]
    fails += [('assigned', x, w) for x, w in ctx.prop('prop:rendering-follows-assignment', pairs_a, p_assigned)]
    # texts beyond 1 MiB in which an empty line (or a line end) sits exactly on every multiple of 4096 characters
    def para(i):
        return ['paragraph %d of a long text' % i, 'with a second line', 'and a third']
    large = [G.aligned_text(rng, 1150000, f, head='Short name\n', unit=para) for f in ('blank-start', 'line-start', 'sep-straddle')]
    large += [t.replace('\n', '\r\n') for t in large[:1]]
    for nm, pr in (('safe', p_safe), ('decode_encode', p_decode_encode), ('fixpoint', p_fixpoint), ('first_line', p_first_line)):
        fails += [(nm, x, w) for x, w in ctx.prop('prop:%s:large' % nm, large, pr)]
    ctx.stream('prop:decode_encode')['in_domain'] = sum(1 for t in texts if in_decode_encode_domain(t))
    ctx.stream('prop:fixpoint')['in_domain'] = sum(1 for t in texts if is_policy_value(t))

    fails.sort(key=lambda f: len(repr(f[1])))
    for clause, x, why in fails[:20]:
        ctx.violation('property', 'C20 clause %s fails on the implementation: %s' % (clause, why), x)
    if bad and not ctx.violations:
        # model and implementation differ; look for an input where the statement itself fails
        bad.sort(key=lambda b: len(repr(b[0])))
        cands = []
        for (fn, args), iv, mv in bad[:200]:
            for a in args:
                if isinstance(a, str):
                    cands += [a, a + '\nx', 'x\n' + a]
        found = False
        for p in (p_safe, p_decode_encode, p_fixpoint, p_first_line):
            for x, why in ctx.prop('search', cands, p):
                found = ctx.violation('property', 'C20 fails on the implementation: ' + why, x) or found
                break
        (fn, args), iv, mv = bad[0]
        if not found:
            ctx.violation('correspondence', 'model and implementation differ on %s%r: impl %r, model %r'
                          % (fn, args, iv, mv), [fn, args], expected=mv, observed=iv, found_input=False)
