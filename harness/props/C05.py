"""C05 - the line-tracking deb822 parser accounts for every source line exactly."""
import re
from harness.common import Exn
from harness.gen import texts as G
from harness.props import _d822
from harness import unicode_sweep

from debian_inspector import deb822

impl = _d822.impl
DECL = re.compile(r'^[A-Za-zİıſK][A-Za-z0-9\-İıſK]*:')


def norm_name(n):
    n = n.strip().lower()
    return 'license' if n == 'licence' else n


def p_lines(t):
    src = _d822.source_lines(t)
    try:
        gs = _d822.groups_t(deb822.get_paragraphs_as_field_groups(t))
    except Exception as e:  # noqa
        return 'raises %s' % type(e).__name__
    flat = [(n, v, f[0], gi, fi, li) for gi, g in enumerate(gs) for fi, f in enumerate(g) for li, (n, v) in enumerate(f[1])]
    nums = [x[0] for x in flat]
    if any(not (1 <= n <= len(src)) for n in nums):
        return 'line number out of range 1..%d: %r' % (len(src), nums)
    if any(a >= b for a, b in zip(nums, nums[1:])):
        return 'line numbers not strictly increasing: %r' % nums
    for g in gs:
        if not g:
            return 'empty group'
        for name, lines in g:
            if not lines:
                continue    # a declaration with neither value nor continuation reports no line
            if all(not v.strip() for _, v in lines):
                return 'field %r reports only empty lines %r: a declaration with neither value nor continuation holds no line' % (name, lines)
            ns = [n for n, _ in lines]
            if ns != list(range(ns[0], ns[0] + len(ns))):
                return 'lines of field %r not contiguous: %r' % (name, ns)
            if name == 'unknown' and not DECL.match(src[lines[0][0] - 1]):
                if len(lines) != 1 or len(g) != 1 or lines[0][1] != src[lines[0][0] - 1]:
                    return 'unknown line not reported verbatim as its own paragraph: %r' % (lines,)
                continue
            L = src[lines[0][0] - 1]
            if not DECL.match(L):
                return 'first line %d of field %r is not a declaration: %r' % (lines[0][0], name, L)
            nm, _, val = L.partition(':')
            if name != norm_name(nm) or lines[0][1] != val.strip():
                return 'declaration %r reported as (%r, %r)' % (L, name, lines[0][1])
            for n, v in lines[1:]:
                if v != src[n - 1].rstrip():
                    return 'continuation line %d %r reported as %r' % (n, src[n - 1], v)
                if src[n - 1].strip() and src[n - 1][:1] not in (' ', '\t'):
                    return 'line %d %r does not start with a blank or a tab, yet it is reported as a continuation of %r' % (n, src[n - 1], name)
            if not lines[-1][1].strip() and len(lines) > 1:
                return 'field %r ends in a blank line' % name
    reported = set(nums)
    for i, L in enumerate(src, 1):
        if i in reported:
            continue
        if not L.strip():
            continue   # blank: between paragraphs or trailing a field (checked below)
        if DECL.match(L) and not L.partition(':')[2].strip():
            # a declaration with neither value nor continuation: its field must be wholly absent
            continue
        return 'source line %d %r is neither blank nor an empty declaration, yet not reported' % (i, L)
    # a dropped blank line lies between groups or trails a field: the next reported line, if any,
    # does not continue the same field
    for gi, g in enumerate(gs):
        for name, lines in g:
            if not lines:
                continue
            first, last = lines[0][0], lines[-1][0]
            for i in range(first, last + 1):
                if i not in reported:
                    return 'line %d inside field %r (%d..%d) is not reported' % (i, name, first, last)
    # an empty declaration is dropped only if it has no continuation
    for i, L in enumerate(src, 1):
        if i not in reported and L.strip() and DECL.match(L):
            nxt = src[i] if i < len(src) else ''
            if nxt[:1] in (' ', '\t') and nxt.strip() and (i + 1) in reported:
                # the continuation is reported: it must not belong to this dropped field... it does
                owner = [f for g in gs for f in g if any(n == i + 1 for n, _ in f[1])]
                if owner and owner[0][1][0][0] == i + 1 and owner[0][0] != 'unknown':
                    return 'declaration line %d dropped although line %d continues it' % (i, i + 1)
    return None


def p_from_lines(t):
    """the parser handed the numbered lines of a text (the step under the text route) reports what the text route
    reports, leaves the caller's lines as they were, and reports the same when handed the same lines again; the fields
    it returns hold their own line objects, so that trimming or editing a returned line does not reach the caller's"""
    try:
        want = _d822.groups_t(deb822.get_paragraphs_as_field_groups(t))
        lines = deb822.NumberedLine.lines_from_text(t)
        snap = [(l.number, l.value) for l in lines]
        ids = set(id(l) for l in lines)
        g1 = list(deb822.get_paragraphs_as_field_groups_from_lines(lines))
        r1 = _d822.groups_t(g1)
        for g in g1:
            for f in g:
                if f.lines and (f.start_line != f.lines[0].number or f.end_line != f.lines[-1].number or f.text != '\n'.join(l.value for l in f.lines)):
                    return 'field %r reports start %r, end %r and text %r; its lines are %r' % (f.name, f.start_line, f.end_line, f.text, [(l.number, l.value) for l in f.lines])
        if [(l.number, l.value) for l in lines] != snap:
            k = [i for i, l in enumerate(lines) if (l.number, l.value) != snap[i]][0] if len(lines) == len(snap) else -1
            return 'parsing a list of numbered lines changes the list: line %r is now %r' % (snap[k] if k >= 0 else None, (lines[k].number, lines[k].value) if k >= 0 else len(lines))
        r2 = _d822.groups_t(deb822.get_paragraphs_as_field_groups_from_lines(lines))
        r3 = _d822.groups_t(deb822.get_paragraphs_as_field_groups_from_lines(tuple(lines)))
        k = (7, 1000, len(lines) + 3, 1)[len(t) % 4]
        r4 = _d822.groups_offset(t, k)
        r5 = None
        if '\r' not in t and t.strip():
            # the file route (a UTF-8 file holding the text; a file is read with universal newlines)
            import os
            import tempfile
            fd, path = tempfile.mkstemp(suffix='-copyright')
            try:
                with os.fdopen(fd, 'w', encoding='utf-8', newline='') as fh:
                    fh.write(t)
                r5 = _d822.groups_t(deb822.get_paragraphs_as_field_groups_from_file(path))
            finally:
                os.unlink(path)
    except Exception as e:  # noqa
        return 'raises %s' % type(e).__name__
    if r1 != want:
        return 'the lines of the text parse to %r, the text to %r' % (r1, want)
    # a caller changing what it got (objects and lists alike) does not change what the next call returns
    try:
        first = list(deb822.get_paragraphs_as_field_groups(t))
        for g in first:
            for f in g:
                for l in f.lines:
                    l.value, l.number = 'changed', 0
                f.lines.append(deb822.NumberedLine(number=99, value='added'))
                f.name = 'renamed'
            g.append(deb822.Deb822Field(name='extra', lines=[]))
        first.append([])
        again = _d822.groups_t(deb822.get_paragraphs_as_field_groups(t))
    except Exception as e:  # noqa
        return 'raises %s' % type(e).__name__
    if again != want:
        return 'after a caller changed an earlier result in place, the text parses to %r, before to %r' % (again, want)
    if r5 is not None and r5 != want:
        return 'read from a file the text parses to %r, as a text to %r' % (r5, want)
    if r4 != r1:
        return 'the same lines numbered from %d parse to %r, numbered from 1 to %r' % (k + 1, r4, r1)
    if r2 != r1 or r3 != r1:
        return 'the same numbered lines parse to %r the first time and %r (list), %r (tuple) the second' % (r1, r2, r3)
    return None


def p_abandoned(x):
    """a caller may stop reading a lazily produced result after its first paragraph; the next, unrelated call answers as
    if that had not happened"""
    t1, t2 = x
    from debian_inspector import debcon
    for name, f in (('get_paragraphs_as_field_groups', lambda t: _d822.groups_t(deb822.get_paragraphs_as_field_groups(t))),
                    ('get_paragraphs_data', lambda t: [list(d.items()) for d in debcon.get_paragraphs_data(t)]),
                    ('split_in_paragraphs', lambda t: list(debcon.split_in_paragraphs(t)))):
        raw = {'get_paragraphs_as_field_groups': deb822.get_paragraphs_as_field_groups, 'get_paragraphs_data': debcon.get_paragraphs_data,
               'split_in_paragraphs': debcon.split_in_paragraphs}[name]
        try:
            clean = f(t2)
            it = iter(raw(t1))
            next(it, None)
            del it
            after = f(t2)
            again = f(t2)
        except Exception as e:  # noqa
            return '%s raises %s' % (name, type(e).__name__)
        if after != clean or again != clean:
            return '%s(%r) answers %r after a result for %r was left unfinished, %r otherwise' % (name, t2, after, t1, clean)
    return None


def run(ctx):
    rng = ctx.rng
    unicode_sweep.sweep(ctx, ['is_space'])
    # the two classifier patterns: every code point at each position class
    cps = [chr(c) for c in range(0x110000) if not 0xd800 <= c <= 0xdfff]
    if ctx.quick():
        cps = [chr(c) for c in range(0x3100)] + [chr(rng.randint(0x3100, 0x10ffff)) for _ in range(3000)]
        cps = [c for c in cps if not 0xd800 <= ord(c) <= 0xdfff]
    else:
        ctx.exhaustive.append('every code point at each position class of the two line classifiers')
    pos = [c + ':' for c in cps] + ['a' + c + ':' for c in cps] + [' ' + c for c in cps] + [c + 'x' for c in cps] + [' \t' + c + 'y' for c in cps]
    bad = ctx.compare('corr:is_decl', [('is_decl', [s]) for s in pos], impl)
    bad += ctx.compare('corr:is_cont', [('is_cont', [s]) for s in pos], impl)
    A = ['a', 'Z', '0', '-', ':', ' ', '\t', '.', 'İ', 'K', '\xa0', '\x0c']
    L = ctx.n(4, 5)
    small = list(G.all_strings(A, L))
    ctx.exhaustive.append('all %d strings of length <= %d over %r through both classifiers' % (len(small), L, A))
    bad += ctx.compare('corr:is_decl:small', [('is_decl', [s]) for s in small], impl)
    bad += ctx.compare('corr:is_cont:small', [('is_cont', [s]) for s in small], impl)
    # whole texts
    texts = [G.control_text(rng) for _ in range(ctx.n(12000, 150000))]
    texts += [G.unicode_text(rng, 40) for _ in range(ctx.n(1500, 20000))]
    # texts inside a clear-sign envelope: every line is accounted for under its own number, the envelope included
    texts += ['-----BEGIN PGP SIGNED MESSAGE-----\nHash: SHA512\n\n' + t.rstrip('\n') + '\n-----BEGIN PGP SIGNATURE-----\n\niQEzBAEBCgAdFiEE\n=abcd\n-----END PGP SIGNATURE-----\n'
              for t in texts[:ctx.n(300, 3000)] if t.strip() and '\r' not in t]
    lines_small = ['a: b', 'a:', ' c', ' .', '', ' ', 'junk', 'B: d']
    L2 = ctx.n(5, 6)
    seqs = []
    import itertools
    for n in range(L2 + 1):
        for s in itertools.product(lines_small, repeat=n):
            seqs.append('\n'.join(s))
    ctx.exhaustive.append('all %d sequences of up to %d lines over the 8 line kinds %r' % (len(seqs), L2, lines_small))
    texts += seqs
    texts += [s + '\n' for s in seqs[:3000]] + [s.replace('\n', '\r\n') for s in seqs[:3000]] + [s.replace('\n', '\r') + '\r' for s in seqs[:2000]]
    bad += ctx.compare('corr:groups', [('groups', [t]) for t in texts], impl)
    bad += ctx.compare('corr:groups_offset', [('groups_offset', [t, (7, 1000, 3, 1)[len(t) % 4]]) for t in texts[:ctx.n(6000, 60000)]], impl)
    bad += ctx.compare('corr:text_lines', [('text_lines', [t]) for t in texts[:20000]], impl)
    fails = ctx.prop('prop:lines', texts, p_lines)
    fails += ctx.prop('prop:from-numbered-lines', texts[:ctx.n(8000, 80000)] + seqs[::3], p_from_lines)
    two = [t for t in texts[:6000] if '\n\n' in t and len(t) < 400]
    fails += ctx.prop('prop:unfinished-results', [(rng.choice(two), rng.choice(texts[:6000])) for _ in range(ctx.n(2000, 20000))] +
                      [('a: 1\nb: 2\n\nc: 3\n', ''), ('a: 1\n\nb: 2\n', 'x: y\n'), ('junk\n\na: 1\n', 'z: 1\n\nw: 2\n')], p_abandoned)
    # large texts (beyond 4096 and 65536 lines) with dense periodic structure: the executable statement only
    big = [G.big_text(rng, n, period, phase, term) for n, period, phase, term in
           [(9000, 2, 0, '\n'), (9000, 2, 1, '\n'), (9000, 3, 0, '\n'), (9000, 3, 1, '\n'), (6000, 2, 0, '\r\n'), (70000, 2, 0, '\n'), (70000, 2, 1, '\n')]]
    # beyond 1 MiB, with one kind of line end, blank line, separator or marker placed exactly on every multiple of 4096
    # characters (hence on every multiple of 64 KiB and 1 MiB as well)
    big += [G.aligned_text(rng, 2200000 if f in ('crlf-straddle', 'line-start') else 1100000, f) for f in ('crlf-straddle', 'line-start', 'blank-start', 'sep-straddle', 'marker-start')]
    # texts whose first 10 to 70 KB end their lines one way and the rest another way (LF then CR LF, LF then lone CR, ...)
    for first, later, n in (('\n', '\r\n', 400), ('\n', '\r', 400), ('\r\n', '\n', 400), ('\r', '\n', 400), ('\n', '\r\n', 3000), ('\n', '\r', 3000)):
        head = G.big_text(rng, n, 2, 0, first)
        tail = G.big_text(rng, 300, 2, 0, later)
        big.append(head + first + tail)
    fails += ctx.prop('prop:lines:large', big, p_lines)
    kinds = {}
    for t in texts[:5000]:
        for l in _d822.source_lines(t):
            k = 'blank' if not l.strip() else 'decl' if DECL.match(l) else 'cont' if l[:1] in ' \t' else 'junk'
            kinds[k] = kinds.get(k, 0) + 1
    ctx.stream('prop:lines')['line_kinds_first_5000_texts'] = kinds
    fails.sort(key=lambda f: len(f[0]))
    for x, why in fails[:10]:
        ctx.violation('property', 'C05 fails on the implementation: ' + why, x)
    if bad and not fails:
        bad.sort(key=lambda b: len(repr(b[0])))
        (fn, args), iv, mv = bad[0]
        # search: line-level shrinks of the disagreeing text
        found = False
        if fn == 'groups':
            t = args[0]
            ls = _d822.source_lines(t)
            cands = [t] + ['\n'.join(ls[:i] + ls[i + 1:]) for i in range(len(ls))]
            for x, why in ctx.prop('search', cands, p_lines):
                found = ctx.violation('property', 'C05 fails on the implementation: ' + why, x) or found
                break
        if not found:
            ctx.violation('correspondence', 'model and implementation differ on %s%r: impl %r, model %r' % (fn, args, iv, mv),
                          [fn, args], expected=mv, observed=iv, found_input=False)
