"""C13 - rendering a copyright object is a faithful fixpoint."""
from harness.gen import dep5 as G5
from harness.props import _copy

from debian_inspector import copyright as dc, debcon


def p_fixpoint(text):
    try:
        c = dc.DebianCopyright.from_text(text)
        d1 = c.dumps()
        c2 = dc.DebianCopyright.from_text(d1)
        d2 = c2.dumps()
    except Exception as e:  # noqa
        return 'raises %s' % type(e).__name__
    t1 = [type(p).__name__ for p in c.paragraphs]
    t2 = [type(p).__name__ for p in c2.paragraphs]
    if t1 != t2:
        return 'paragraph types %r become %r after render-parse' % (t1, t2)
    if c2.to_dict() != c.to_dict():
        a, b = c.to_dict()['paragraphs'], c2.to_dict()['paragraphs']
        diff = [(x, y) for x, y in zip(a, b) if x != y]
        return 'dictionary form changes after render-parse: %r' % (diff[:1],)
    if d2 != d1:
        return 'rendering is not a fixpoint: %r then %r' % (d1, d2)
    for p in c.paragraphs:
        r = p.dumps()
        if '\n\n' in r or any(not l.strip() for l in r.split('\n')[1:]):
            return 'rendering of a paragraph contains an empty line: %r' % r
        td = p.to_dict()
        try:
            back = type(p).from_dict(dict(td)).to_dict()
        except Exception as e:  # noqa
            return 'from_dict(to_dict()) raises %s' % type(e).__name__
        if back != td:
            return 'from_dict(to_dict()) gives %r, not %r' % (back, td)
    n = len(list(debcon.split_in_paragraphs(d1)))
    if n != len(c.paragraphs):
        return 'rendering splits into %d paragraphs, the object has %d' % (n, len(c.paragraphs))
    return None


def run(ctx):
    rng = ctx.rng
    texts = [G5.render(rng, G5.document(rng)) for _ in range(ctx.n(3000, 60000))]
    # extra fields whose continuation lines are indented with a tab (legal deb822): the recorded finding F24
    G5.TAB_EXTRAS = 0.5
    texts += [G5.render(rng, G5.document(rng)) for _ in range(ctx.n(300, 3000))]
    G5.TAB_EXTRAS = 0.0
    # ordinary text lines of licenses, comments and the like indented with a tab
    G5.TAB_TEXT = True
    texts += [G5.render(rng, G5.document(rng)) for _ in range(ctx.n(300, 3000))]
    G5.TAB_TEXT = False
    texts += ['Files: *\nCopyright: x\nLicense: y\nFoo: a\n b\n', 'Format: f\nX-A: a\n b\n .\n  c\n\nFiles: *\nCopyright: 2019 x\nLicense: MIT\n t\n']
    fails = ctx.prop('prop:render-fixpoint', texts, p_fixpoint)
    # large documents: many small paragraphs with a line end, a separator or a marker on every block boundary; and
    # single paragraphs beyond 1 MiB (a license text of 30000 lines, a Files paragraph of 90000 copyright lines whose
    # rendering is wider than its source)
    # (without the texts that hold truly empty lines inside a value: those are documents of C12, not of the DEP-5 grammar)
    large = [t for t in _copy.large_copyright_texts(rng, ctx.quick())[::2] if '\n\n after the blank' not in t and '\r\n\r\n after the blank' not in t]
    head = 'Format: https://www.debian.org/doc/packaging-manuals/copyright-format/1.0/\n\n'
    lic = '\n'.join([' line %d of a long license text with some words' % i if i % 7 else ' .' for i in range(30000)])
    large.append(head + 'Files: *\nCopyright: 2019 x\nLicense: GPL-2+\n\nLicense: GPL-2+\n' + lic + '\n end\n')
    cop = '\n'.join(' %d Holder number %d' % (1990 + i % 30, i) for i in range(90000))
    large.append(head + 'Files: src/*\nCopyright: 1989 first\n' + cop + '\nLicense: MIT\n\nFiles: doc/*\nCopyright: 2001 y\nLicense: MIT\n')
    # a Files paragraph just under 1 MiB whose rendering (continuation lines indented to the column of the value) is larger
    n = 0
    cl = []
    while n < 1000000:
        cl.append(' %d H%d' % (1990 + len(cl) % 30, len(cl)))
        n += len(cl[-1]) + 1
    large.append(head + 'Files: src/*\nCopyright: 1989 first\n' + '\n'.join(cl) + '\nLicense: MIT\n')
    for n in (499, 500, 501, 1001, 1500):
        large.append(head + '\n\n'.join('Files: f%d\nCopyright: 2019 h%d\nLicense: L%d\n text %d' % (i, i, i, i) if i % 3 else 'License: L%d\n text of %d' % (i, i) for i in range(n)) + '\n')
    fails += ctx.prop('prop:render-fixpoint:large', large, p_fixpoint)

    def p_types(x):
        text, want = x
        c = dc.DebianCopyright.from_text(text)
        got = [type(p).__name__ for p in c.paragraphs]
        c2 = dc.DebianCopyright.from_text(c.dumps())
        got2 = [type(p).__name__ for p in c2.paragraphs]
        if got != want or got2 != want:
            return 'a document of %d characters with paragraphs %r is read as %r and, rendered, as %r' % (len(text), want, got, got2)
        return None
    H, F, L = 'CopyrightHeaderParagraph', 'CopyrightFilesParagraph', 'CopyrightLicenseParagraph'
    fails += [(f[0][0][:3000], f[1]) for f in ctx.prop('prop:render-fixpoint:large:paragraph-types', [(large[-8], [H, F, L]), (large[-7], [H, F, F]), (large[-6], [H, F])] + [(t, [H] + [F if i % 3 else L for i in range(n)]) for t, n in zip(large[-5:], (499, 500, 501, 1001, 1500))], p_types)]
    fails += ctx.prop('prop:observing-changes-nothing', texts[:ctx.n(700, 8000)], _copy.p_observe)
    bad = ctx.compare('corr:copyright', [('copyright_from_text', [t]) for t in texts], _copy.impl)
    second = []
    for t in texts[:ctx.n(1200, 30000)]:
        try:
            second.append(dc.DebianCopyright.from_text(t).dumps())
        except Exception:  # noqa
            pass
    bad += ctx.compare('corr:copyright:second-cycle', [('copyright_from_text', [t]) for t in second], _copy.impl)
    # the hypothesis of the document theorem (C13_text_render_fixpoint) is a computable test: the model evaluates it on every
    # generated document.  Where it answers true the statement is PROVED for that document (and the co-execution above ties the
    # model to the code); where it answers false the document lies outside the proved class and only the executable statement
    # and the co-execution speak for it.
    sample = texts[:ctx.n(1000, 60000)]
    ans = ctx.model.run([('c13_test', [t]) for t in sample])
    st = ctx.stream('model:theorem-hypothesis-on-generated-documents')
    st['cases'] = len(sample)
    st['hypothesis_true'] = sum(1 for a in ans if a is True)
    st['hypothesis_false'] = sum(1 for a in ans if a is False)
    st['not_evaluated'] = sum(1 for a in ans if a not in (True, False))
    outside = [t for t, a in zip(sample, ans) if a is not True]
    if outside:
        st['shortest_document_outside_the_proved_class'] = min(outside, key=len)[:400]
    ctx.notes.append('document theorem: its computable hypothesis holds on %d of %d generated DEP-5 documents (those are covered by the proof)'
                     % (st['hypothesis_true'], len(sample)))
    fails.sort(key=lambda f: len(f[0]))
    reported = 0
    for x, why in fails:
        # inputs of the recorded finding F24 are claimed by its classifier and do not count
        if ctx.violation('property', 'C13 fails on the implementation: ' + why, x):
            reported += 1
            if reported >= 10:
                break
    if bad and not ctx.violations:
        bad.sort(key=lambda b: len(repr(b[0])))
        (fn, args), iv, mv = bad[0]
        ctx.violation('correspondence', 'model and implementation differ on %s%r: impl %r, model %r' % (fn, args, iv, mv),
                      [fn, args], expected=mv, observed=iv, found_input=False)
