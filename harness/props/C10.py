"""C10 - copyright field line ranges locate exactly the field's content."""
import re
from harness.common import call, Exn
from harness.gen import texts as G
from harness.gen import dep5 as G5
from harness.props import _copy, _d822
from harness.props.C07 import near_miss_text

from debian_inspector import copyright as dc


def recovery_text(rng):
    """biased to the recovery paths: value-less declarations followed by blank lines, free text
    between and after paragraphs, empty license followed by free text"""
    parts = []
    for _ in range(rng.randint(1, 6)):
        k = rng.random()
        if k < .3:
            parts.append('Files: *\nCopyright: 2019 x\nLicense: GPL\n text')
        elif k < .45:
            parts.append('License:' + rng.choice(['', ' ']) + '\n' * rng.randint(1, 3) + ' ' + G.words_line(rng) + '\n more')
        elif k < .6:
            parts.append('License:')
        elif k < .8:
            parts.append('\n'.join(G.words_line(rng) for _ in range(rng.randint(1, 3))))
        elif k < .9:
            parts.append('Format: x\nComment:\n\n c1\n\n c2')
        else:
            parts.append(rng.choice(['Foo:', 'Unknown: u', 'Unknown-Foo: bar baz', 'Comment:\n .\n x']))
    return ('\n' * rng.randint(1, 3)).join('\n\n'.join([p]) for p in parts) + rng.choice(['', '\n'])


def live_ranges(c):
    out = []
    for p in c.paragraphs:
        d = p.to_dict()
        for name, v in d.items():
            if isinstance(v, str) and v.strip() and name not in p.line_numbers_by_field:
                raise AssertionError('field %r has the value %r and no range' % (name, v[:60]))
        for name, rng_ in p.line_numbers_by_field.items():
            v = d.get(name)
            if isinstance(v, str) and v.strip():
                out.append((name, v, tuple(rng_)))
    return out


def words_no_marker(s):
    return [w for w in s.split() if w != '.']


def p_ranges(t):
    try:
        c = dc.DebianCopyright.from_text(t)
        src = _d822.source_lines(t)
        live = live_ranges(c)
    except Exception as e:  # noqa
        return 'raises %s' % type(e).__name__
    prev_end = 0
    for name, v, (s, e) in live:
        if not (isinstance(s, int) and isinstance(e, int) and 1 <= s <= e <= len(src)):
            return 'field %r has range (%r, %r) outside 1..%d' % (name, s, e, len(src))
        if not src[s - 1].strip() or not src[e - 1].strip():
            return 'range (%d, %d) of field %r starts or ends on a blank line' % (s, e, name)
        pool = set()
        for i in range(s, e + 1):
            L = src[i - 1]
            pool.update(L.split())
            if ':' in L:
                pool.update(L.partition(':')[2].split())
        for w in words_no_marker(v):
            if w not in pool:
                return 'word %r of field %r is not in lines %d..%d' % (w, name, s, e)
        if s <= prev_end:
            return 'range (%d, %d) of field %r overlaps or precedes the previous range ending at %d' % (s, e, name, prev_end)
        prev_end = e
    # end is the LAST line holding the field's content: the line after it, when it belongs to no other reported
    # field, is not an indented non-blank line (that would be one more continuation line of this field - a " ."
    # marker line included)
    covered = set()
    for _, _, (s, e) in live:
        covered.update(range(s, e + 1))
    for name, v, (s, e) in live:
        if e < len(src) and (e + 1) not in covered:
            nxt = src[e]
            if nxt[:1] in (' ', '\t') and nxt.strip():
                return 'range (%d, %d) of field %r ends before line %d %r, which continues the field' % (s, e, name, e + 1, nxt)
    return None


def p_shift(t):
    try:
        c0 = dc.DebianCopyright.from_text(t)
        base = (c0.to_dict(), [type(p).__name__ for p in c0.paragraphs])
        live0 = live_ranges(c0)
        for k in (1, 2, 5):
            c = dc.DebianCopyright.from_text('\n' * k + t)
            if (c.to_dict(), [type(p).__name__ for p in c.paragraphs]) != base:
                return 'inserting %d blank lines at the top changes the content' % k
            live = live_ranges(c)
            want = [(n, v, (s + k, e + k)) for n, v, (s, e) in live0]
            if live != want:
                return 'inserting %d blank lines shifts ranges to %r, expected %r' % (k, [x[2] for x in live], [x[2] for x in want])
    except Exception as e:  # noqa
        return 'raises %s' % type(e).__name__
    return None


def p_offset_lines(t):
    """the ranges of a block of numbered lines taken from further down a larger file (numbered from k+1) are those of the
    text, k higher"""
    from debian_inspector import deb822
    try:
        base = dc.DebianCopyright.from_text(t)
        k = (3, 1000, 17)[len(t) % 3]
        lines = [deb822.NumberedLine(number=l.number + k, value=l.value) for l in deb822.NumberedLine.lines_from_text(t)]
        c = dc.DebianCopyright.from_fields_groups(deb822.get_paragraphs_as_field_groups_from_lines(lines))
        # (the ranges of fields that hold a value: a field without one has no lines and is given a default range)
        ra = [(n, v, (a + k, b + k)) for n, v, (a, b) in live_ranges(base)]
        rb = live_ranges(c)
    except Exception as e:  # noqa
        return 'raises %s' % type(e).__name__
    if ra != rb or base.to_dict() != c.to_dict():
        return 'lines numbered from %d give ranges %r; the text gives (shifted) %r' % (k + 1, rb, ra)
    return None


def p_file_route(x):
    """the same ranges whether the text is passed in or read from a UTF-8 file"""
    path, t = x
    import os
    with open(path, 'w', encoding='utf-8', newline='') as f:
        f.write(t)
    try:
        a = dc.DebianCopyright.from_file(path)
        b = dc.DebianCopyright.from_text(t)
        ra = [(type(p).__name__, sorted((k, tuple(v)) for k, v in p.line_numbers_by_field.items())) for p in a.paragraphs]
        rb = [(type(p).__name__, sorted((k, tuple(v)) for k, v in p.line_numbers_by_field.items())) for p in b.paragraphs]
    except Exception as e:  # noqa
        return 'raises %s' % type(e).__name__
    finally:
        os.unlink(path)
    if ra != rb:
        return 'ranges read from a file %r differ from those of the text %r' % (ra, rb)
    return None


def run(ctx):
    rng = ctx.rng
    texts = [recovery_text(rng) for _ in range(ctx.n(6000, 80000))]
    texts += [G.control_text(rng) for _ in range(ctx.n(5000, 60000))]
    texts += [near_miss_text(rng) for _ in range(ctx.n(3000, 40000))]
    texts += [G5.render(rng, G5.document(rng)) for _ in range(ctx.n(1500, 20000))]
    texts += ['Files: *\nCopyright: x\nLicense: GPL\n\nsome free text\n\nmore free\n',
              'Format: f\n\nLicense:\n\nsome free\ntext here\n\nFiles: *\nCopyright: x\nLicense: y\n',
              'Files: *\nCopyright: x\nLicense:\n\n text\n more', 'Foo:\n\n\n\njunk text\n']
    # the same texts inside a clear-sign envelope: the line numbers are those of the text as given
    def signed(t):
        return '-----BEGIN PGP SIGNED MESSAGE-----\nHash: SHA512\n\n' + t.rstrip('\n') + '\n-----BEGIN PGP SIGNATURE-----\n\niQEzBAEBCgAdFiEE\n=abcd\n-----END PGP SIGNATURE-----\n'
    texts += [signed(t) for t in texts[:ctx.n(300, 3000)] if t.strip() and '\r' not in t]
    fails = ctx.prop('prop:ranges', texts, p_ranges)
    fails += ctx.prop('prop:observing-changes-nothing', texts[::max(1, len(texts) // ctx.n(900, 9000))], _copy.p_observe)
    fails += ctx.prop('prop:shift', texts[:ctx.n(6000, 80000)], p_shift)
    fails += ctx.prop('prop:lines-numbered-from-anywhere', texts[:ctx.n(3000, 40000)], p_offset_lines)
    import os
    fpath = os.path.join(ctx.scratch, 'copyright.txt')
    ftexts = [('\n' * rng.choice([0, 0, 1, 2]) + t) for t in texts[:ctx.n(500, 5000)]]
    ff = ctx.prop('prop:file-route', [(fpath, t) for t in ftexts if t.strip()], p_file_route)
    fails += [(f[0][1], f[1]) for f in ff]
    large = _copy.large_copyright_texts(rng, ctx.quick())
    fails += ctx.prop('prop:ranges:large', large, p_ranges)
    fails += [(f[0][1], f[1]) for f in ctx.prop('prop:file-route:large', [(fpath, t) for t in large], _copy.p_routes_agree)]
    ctx.notes.append('file route (open, UTF-8 decoding, newline translation) is exercised by execution only, not modelled')
    bad = ctx.compare('corr:copyright', [('copyright_from_text', [t]) for t in texts], _copy.impl)
    bad += ctx.compare('corr:copyright:shifted', [('copyright_from_text', ['\n' * rng.choice([1, 2, 5]) + t]) for t in texts[:ctx.n(3000, 40000)]], _copy.impl)
    fails.sort(key=lambda f: len(f[0]))
    for x, why in fails[:20]:
        ctx.violation('property', 'C10 fails on the implementation: ' + why, x)
    if bad and not ctx.violations:
        bad.sort(key=lambda b: len(repr(b[0])))
        (fn, args), iv, mv = bad[0]
        ctx.violation('correspondence', 'model and implementation differ on %s%r: impl %r, model %r' % (fn, args, iv, mv),
                      [fn, args], expected=mv, observed=iv, found_input=False)
