"""C16 - PGP clear-sign removal returns the signed body or the input, and quickly."""
import multiprocessing as mp
import os
import time
from harness.common import call, Exn
from harness.gen import texts as G

from debian_inspector import unsign, debcon

B64 = 'ABCDEFGHIJKLMNOPQRSTUVWXYZabcdefghijklmnopqrstuvwxyz0123456789+/'
BODY_LINES = ['Format: 3.0 (quilt)', 'Source: zlib', '', '- -----dash escaped', ' continuation', 'Files:', ' abc 12 x.tar.gz', 'a: b: c',
              '-', '--', '----', 'x-----', 'Hash: SHA1', 'é ü', '=abcd', 'AAAA', ' ', '\t']


def b64line(rng, n=None):
    n = n or (rng.choice([64, 65, 75, 76, 76]) if rng.random() < .3 else rng.randint(1, 76))      # RFC 4880: up to 76 characters per line
    return ''.join(rng.choice(B64) for _ in range(n))


def sig_block(rng, nl, magic='SIGNATURE', headers=None, empty=True, lines=None, crc=None, end=None):
    out = ['-----BEGIN PGP %s-----' % magic]
    out += headers if headers is not None else rng.choice([[], [], ['Version: GnuPG v1'], ['Comment: a: b', 'Version: 2'],
                                                           # armor header keys and values of every shape: colons in the key, no blank, blanks only
                                                           ['Comment:signed at 12:30: by the key'], ['X-Key:0xC96C: release key', 'Version: 2'],
                                                           ['urn:uuid: 1234'], ['a:b: c: d'], ['Comment: http://x.y/z'], ['K:  v'],
                                                           ['Comment: é'], ['Comment : spaced key'], ['Charset: UTF-8', 'MessageID: a:b']])
    if empty:
        out.append('')
    out += lines if lines is not None else [b64line(rng) for _ in range(rng.randint(1, 4))] + ([b64line(rng, 3) + '='] if rng.random() < .3 else [])
    out.append(crc if crc is not None else '=' + b64line(rng, 4))
    out.append(end if end is not None else '-----END PGP %s-----' % magic)
    return out


def wellformed(rng, nbody=None):
    nl = rng.choice(['\n', '\n', '\r\n'])
    body = [rng.choice(BODY_LINES) for _ in range(nbody if nbody is not None else rng.randint(0, 8))]
    body = [b for b in body if not b.startswith('-----')] or ['']      # the empty text is one empty line
    head = ['-----BEGIN PGP SIGNED MESSAGE-----']
    if rng.random() < .7:
        head.append('Hash: ' + rng.choice(['SHA512', 'SHA1', 'SHA256,MD5', 'SHA1,RIPEMD160,SHA224,SHA256,SHA384,SHA512']))
    head.append('')
    text = nl.join(head + body + sig_block(rng, nl)) + rng.choice([nl, nl, ''])
    return text, nl.join(body), nl


def nested(rng):
    """a message whose signed body is itself a complete clear-signed message, dash-escaped as it should be or not"""
    inner, _, nl = wellformed(rng)
    inner = inner.replace('\r\n', '\n').rstrip('\n')
    if rng.random() < .5:
        inner = '\n'.join('- ' + l if l.startswith('-') else l for l in inner.split('\n'))
    head = ['-----BEGIN PGP SIGNED MESSAGE-----'] + (['Hash: SHA256'] if rng.random() < .7 else []) + ['']
    pre = [rng.choice(BODY_LINES[:2])] if rng.random() < .3 else []
    post = [rng.choice(BODY_LINES[:2])] if rng.random() < .3 else []
    return '\n'.join(head + pre + [inner] + post + sig_block(rng, '\n')) + rng.choice(['\n', ''])


def malformed(rng):
    if rng.random() < .08:
        return nested(rng)
    text, body, nl = wellformed(rng)
    if rng.random() < .05:
        # an envelope without a signed message: the signature block directly after the first line (or after the headers)
        head = ['-----BEGIN PGP SIGNED MESSAGE-----' + rng.choice(['', '', ' ', '\t'])] + rng.choice([[], [''], ['Hash: SHA1'], ['Hash: SHA1', '']])
        return nl.join(head + sig_block(rng, nl)) + rng.choice([nl, ''])
    ls = text.split(nl)
    k = rng.random()
    i = rng.randrange(len(ls))
    if rng.random() < .06:
        # a line that is not an armor header where the headers stand
        j = ls.index('-----BEGIN PGP SIGNATURE-----')
        ls.insert(j + 1, rng.choice(['K: ', ': v', 'novalue', 'K:v', ' K: v', 'K : ']))
        return nl.join(ls)
    if k < .25:
        del ls[i]
    elif k < .4:
        ls.insert(i, ls[i])
    elif k < .6:
        ls[i] = ls[i][:max(0, len(ls[i]) - 1)] + rng.choice(['!', ' ', '-', ''])
    elif k < .7:
        ls.insert(i, nl.join(sig_block(rng, nl, magic=rng.choice(['SIGNATURE', 'PUBLIC KEY BLOCK', 'MESSAGE, PART 1']))))
    elif k < .8:
        t2, _, _ = wellformed(rng)
        return text + t2
    elif k < .9:
        ls[i] = rng.choice(['-----BEGIN PGP SIGNATURE-----', '-----END PGP SIGNATURE-----', '-----BEGIN PGP SIGNED MESSAGE-----', '=AAAA', '-----'])
    else:
        return rng.choice(['  \n', '']) + text + rng.choice(['  ', '\n\n', 'x'])
    return nl.join(ls)


def obs_search(t):
    m = unsign.pgp_signed(t)
    if not m:
        return None
    c = m.groupdict().get('cleartext')
    return [] if c is None else [c]


def impl(fname, args):
    if fname == 'pgp_search':
        return call(obs_search, *args)
    if fname == 'is_signed':
        return call(lambda t: bool(unsign.is_signed(t)), *args)
    if fname == 'remove_signature':
        return call(unsign.remove_signature, *args)
    raise KeyError(fname)


_BY = {}


def impl_lookup(fname, args):
    """the answers computed in the guarded worker process; asked again (or in another interpreter) the call is made directly"""
    key = (fname, args[0])
    return _BY.pop(key) if key in _BY else impl(fname, args)


def _worker(job):
    fname, t = job
    return impl(fname, [t])


def _worker_cpu(job):
    """CPU seconds of one call (insensitive to the load of the machine)"""
    fname, t = job
    t0 = time.process_time()
    impl(fname, [t])
    return time.process_time() - t0


def guarded(jobs, timeout, worker=None):
    """run impl calls in a worker process with a hard timeout; returns (results, culprit or None)"""
    ctxm = mp.get_context('fork')
    worker = worker or _worker

    def attempt(js, to):
        pool = ctxm.Pool(1)
        try:
            r = pool.map_async(worker, js, chunksize=64)
            return r.get(to)
        except mp.TimeoutError:
            return None
        finally:
            pool.terminate()
    if len(jobs) <= 1:
        res = attempt(jobs, timeout)
        return (res, None) if res is not None else (None, jobs[0])
    # chunks of 2000 calls, each with a generous share of the limit (normally a chunk takes 2-3 s)
    CH = 2000
    per_chunk = max(60.0, timeout * CH / max(len(jobs), 1) * 4)
    out = []
    for k in range(0, len(jobs), CH):
        chunk = jobs[k:k + CH]
        res = attempt(chunk, per_chunk)
        if res is not None:
            out.extend(res)
            continue
        lo, hi = 0, len(chunk)
        while hi - lo > 1:
            mid = (lo + hi) // 2
            if attempt(chunk[lo:mid], max(20.0, per_chunk * (mid - lo) / CH)) is None:
                hi = mid
            else:
                lo = mid
        return None, chunk[lo]
    return out, None


def timing(ctx):
    """LF and CRLF, well-formed and damaged, sizes doubling: no ratio of consecutive CPU times above 8, no call above
    5 CPU seconds (CPU time of the worker process, so that a loaded machine does not raise an alarm; a hard wall-clock
    limit of 60 s per call catches catastrophic cases); a suspicious measurement is repeated and the minimum taken"""
    out = {}
    sizes = [16, 32, 64, 128, 256, 512, 1024, 2048, 4096] if not ctx.quick() else [16, 32, 64, 128, 256, 512, 1024]
    for nl_name, nl in (('LF', '\n'), ('CRLF', '\r\n')):
        for kind in ('wellformed', 'damaged-crc', 'damaged-end', 'many-headers', 'long-hash'):
            prev = None
            for n in sizes:
                body = ['line %d: some text here' % i for i in range(n)]
                headers = ['Comment: a: b %d' % i for i in range(n)] if kind == 'many-headers' else []
                sig = ['-----BEGIN PGP SIGNATURE-----'] + headers + ['', 'AAAA', '=AAAA' if kind not in ('damaged-crc', 'many-headers') else '=AAA!',
                                                                  '-----END PGP SIGNATURE-----' if kind != 'damaged-end' else '-----END PGP SIGNATUR-----']
                hashv = 'SHA1' if kind != 'long-hash' else ','.join(['SHA1', 'RIPEMD160', 'SHA224', 'SHA256'][i % 4] for i in range(max(2, n // 8)))
                if kind == 'long-hash':
                    body = body[:8]
                    sig = sig[:-2] + sig[-1:]      # no CRC line: the signature block does not match
                t = nl.join(['-----BEGIN PGP SIGNED MESSAGE-----', 'Hash: ' + hashv, ''] + body + sig) + nl
                if kind == 'damaged-end':
                    t += '-----END PGP SIGNATURE-----'
                res, culprit = guarded([('remove_signature', t)], 60.0, _worker_cpu)
                if culprit is not None:
                    out['%s/%s/%d' % (nl_name, kind, n)] = '>60 s wall'
                    return out, (t, 'remove_signature takes more than 60 s on a %s %s message of %d lines' % (nl_name, kind, n))
                dt = res[0]
                if dt > 5.0 or (prev is not None and prev > 0.05 and dt / prev > 8):
                    for _ in range(2):      # repeat a suspicious measurement, keep the minimum
                        r2, c2 = guarded([('remove_signature', t)], 60.0, _worker_cpu)
                        if c2 is None:
                            dt = min(dt, r2[0])
                out['%s/%s/%d' % (nl_name, kind, n)] = round(dt, 4)
                if dt > 5.0:
                    return out, (t, 'remove_signature takes more than 5 CPU seconds on a %s %s message of %d lines' % (nl_name, kind, n))
                if prev is not None and prev > 0.05 and dt / prev > 8:
                    return out, (t, 'CPU time grows by %.1fx when the %s %s message doubles to %d lines' % (dt / prev, nl_name, kind, n))
                prev = dt
    return out, None


SIGB = ['-----BEGIN PGP SIGNATURE-----', '', 'iQEzBAEBCgAdFiEE', '=abcd', '-----END PGP SIGNATURE-----']


def run(ctx):
    rng = ctx.rng
    wf = [wellformed(rng) for _ in range(ctx.n(4000, 50000))]
    mal = [malformed(rng) for _ in range(ctx.n(6000, 80000))]
    plain = [G.control_text(rng) for _ in range(ctx.n(1500, 20000))] + ['', '\n', 'sometext\n', '-----BEGIN PGP SIGNED MESSAGE-----',
             '-----END PGP SIGNATURE-----', '-----BEGIN PGP SIGNED MESSAGE-----\n-----END PGP SIGNATURE-----']
    nest = [nested(rng) for _ in range(ctx.n(300, 3000))]
    texts = [w[0] for w in wf] + mal + plain + nest
    jobs = [(fn, t) for t in texts for fn in ('pgp_search', 'is_signed', 'remove_signature')]
    res, culprit = guarded(jobs, ctx.n(400.0, 3000.0))
    if culprit is not None:
        ctx.violation('property', 'C16 fails on the implementation: %s does not return within the time limit (input of %d characters)'
                      % (culprit[0], len(culprit[1])), culprit[1])
        return
    by = dict(zip(jobs, res))
    _BY.clear()
    _BY.update(by)
    bad = ctx.compare('corr:unsign', [(fn, [t]) for fn, t in jobs], impl_lookup)
    _BY.clear()
    # a few texts of every class of envelope, all of them asked again at the end and in the other environments:
    # armor that reads but holds no signed message, an envelope whose armor does not read, a message that reads
    cls = {'armor without a signed message': [t for t in texts if by[('pgp_search', t)] == [] and by[('is_signed', t)]],
           'envelope that does not read': [t for t in texts if by[('pgp_search', t)] is None and by[('is_signed', t)]],
           'message that reads': [t for t in texts if by[('pgp_search', t)] not in (None, []) and by[('is_signed', t)]]}
    begin = '-----BEGIN PGP SIGNED MESSAGE-----'
    sigb = '\n'.join(sig_block(rng, '\n', headers=[]))
    cls['armor without a signed message'] = [begin + '\n' + sigb + '\n', begin + '\n\n' + sigb, (begin + '\n' + sigb + '\n').replace('\n', '\r\n'),
                                             begin + ' \nHash: SHA512\n\nbody\n' + sigb + '\n'] + cls['armor without a signed message']
    ctx.stream('prop:statement')['envelope_classes'] = {k: len(v) for k, v in cls.items()}
    for k, v in cls.items():
        bad += ctx.compare('corr:unsign:' + k, [(fn, [t]) for t in v[:70] for fn in ('remove_signature', 'is_signed', 'pgp_search')], impl)

    fails = []
    st = ctx.stream('prop:statement')
    for t in texts:
        st['cases'] += 1
        ctx.evaluations += 1
        r = by[('remove_signature', t)]
        s = by[('is_signed', t)]
        if not isinstance(r, str):
            fails.append((t, 'remove_signature returns %r' % (r,)))
        elif r not in t:
            fails.append((t, 'result %r is not a contiguous part of the input' % r))
        elif not s and r != t:
            fails.append((t, 'no clear-sign envelope but the text is changed to %r' % r))
    for text, body, nl in wf:
        r = by[('remove_signature', text)]
        ok = (r == body) if nl == '\n' else (r in (body, body + '\r'))
        if not ok:
            fails.append((text, 'well-formed message: body %r, returned %r' % (body, r)))
    # a signed message inside a signed message: one envelope is removed, the outermost one (or nothing)
    for t in nest:
        r = by[('remove_signature', t)]
        outer = t[t.index('\n\n') + 2:t.rindex('\n-----BEGIN PGP SIGNATURE-----')]
        if r not in (outer, t):
            fails.append((t, 'nested message: the body of the outer envelope is %r, returned %r' % (outer, r)))
    # messages beyond 1 MiB (LF and CRLF): the signed body, exactly
    for nl in ('\n', '\r\n'):
        body = nl.join('Line %d: some text of the signed control file, seventy characters or so' % i for i in range(17000))
        t = nl.join(['-----BEGIN PGP SIGNED MESSAGE-----', 'Hash: SHA512', '', body] + sig_block(rng, nl, headers=[])) + nl
        res, culprit = guarded([('remove_signature', t)], 120.0)
        st['cases'] += 1
        if culprit is not None:
            fails.append((t, 'remove_signature does not return within 120 s on a well-formed message of %d characters' % len(t)))
        elif not ((res[0] == body) if nl == '\n' else (res[0] in (body, body + '\r'))):
            r0 = res[0] if isinstance(res[0], str) else repr(res[0])
            fails.append((t, 'well-formed message of %d characters (%s line ends): the body is not what is returned (returned %d characters starting %r)'
                          % (len(t), 'CRLF' if nl != '\n' else 'LF', len(r0), r0[:60])))
    # white space around a well-formed message (blank lines before it, after it), of any amount: still the signed body
    for text, body, nl in wf[:ctx.n(60, 400)]:
        for n in (1, 3, 100, 980, 1000, 1023, 1024, 1025, 1500, 5000, 70000):
            for pre, post in ((n, 0), (0, n), (n, n)):
                ws = rng.choice(['\n', ' ', nl, '\t', ' \n'])
                t = (ws * pre)[:pre] + text + (ws * post)[:post]
                if pre and t[pre - 1] != '\n':
                    t = t[:pre - 1] + '\n' + t[pre:]
                r = call(unsign.remove_signature, t)
                sgn = call(lambda x: bool(unsign.is_signed(x)), t)
                st['cases'] += 1
                ctx.evaluations += 1
                ok = (r == body) if nl == '\n' else (r in (body, body + '\r'))
                if not ok or sgn is not True:
                    fails.append((t, 'well-formed message with %d white-space characters before it and %d after: is_signed %r, body %r, returned %.80r'
                                  % (pre, post, sgn, body, r)))
    # the same texts with other white space around them, asked one after the other: each answer is about its own input
    for t in (mal[:ctx.n(600, 6000)] + [w[0] for w in wf[:100]]):
        variants = [t, '\n' + t, ' \n' + t + '\n\n', t.strip(), '\n\n' + t.strip() + ' ']
        for v in variants:
            r = call(unsign.remove_signature, v)
            sg = call(lambda x: bool(unsign.is_signed(x)), v)
            st['cases'] += 1
            ctx.evaluations += 1
            if not isinstance(r, str) or r not in v:
                fails.append((v, 'asked after the same text with other white space around it: result %.80r is not a contiguous part of the input' % (r,)))
                break
            if sg is False and r != v:
                fails.append((v, 'asked after the same text with other white space around it: no envelope, but the text is changed'))
                break
        # and what is returned for one spelling is what a lone question returns (answers computed at the start of the run)
        if ('remove_signature', t) in by and call(unsign.remove_signature, t) != by[('remove_signature', t)]:
            fails.append((t, 'remove_signature answers %.80r now and %.80r when asked first' % (call(unsign.remove_signature, t), by[('remove_signature', t)])))
    # texts of one length, each built by a single allocation after the one before it was dropped, plain and signed in turn
    # (a loop over the files of a directory does this), in a fresh interpreter whose small heap puts the new text where
    # the old one lay
    import subprocess
    import sys
    from harness import common as _c
    code = (
        "import sys\n"
        "from debian_inspector import unsign\n"
        "SIGB = ['-----BEGIN PGP SIGNATURE-----', '', 'iQEzBAEBCgAdFiEE', '=abcd', '-----END PGP SIGNATURE-----']\n"
        "head = '-----BEGIN PGP SIGNED MESSAGE-----\\n\\n'\n"
        "tail = '\\n' + '\\n'.join(SIGB) + '\\n'\n"
        "filler = 'y' * (len(head) + len(tail))\n"
        "def build(k):\n"
        "    body = 'b%07d' % k\n"
        "    if k % 2:\n"
        "        return ''.join([head, body, tail])\n"
        "    return ''.join(['Comment: x\\n', body, '\\n', filler[:len(head) + len(tail) - 12]])\n"
        "same = 0; last = None; wrong = None\n"
        "for k in range(int(sys.argv[1])):\n"
        "    t = build(k)\n"
        "    same += id(t) == last; last = id(t)\n"
        "    sg = bool(unsign.is_signed(t))\n"
        "    ok = (unsign.remove_signature(t) == 'b%07d' % k) if k % 2 else (unsign.remove_signature(t) == t)\n"
        "    if sg is not bool(k % 2) or not ok:\n"
        "        wrong = (k, sg, ok, t); break\n"
        "    del t\n"
        "print(repr((same, wrong)))\n")
    env = dict(os.environ)
    env['PYTHONPATH'] = os.path.join(_c.REPO, 'src')
    r = subprocess.run([sys.executable, '-c', code, str(ctx.n(3000, 30000))], env=env, stdout=subprocess.PIPE, stderr=subprocess.PIPE, text=True, timeout=600)
    st['cases'] += ctx.n(3000, 30000)
    if r.returncode != 0:
        fails.append(('texts of one length in succession', 'the interpreter running them ended with %s' % r.stderr.strip()[-200:]))
    else:
        import ast
        same_place, wrong = ast.literal_eval(r.stdout.strip())
        st['texts_allocated_where_the_one_before_lay'] = same_place
        if wrong:
            k, sg, ok, t = wrong
            fails.append((t, 'text number %d of many texts of one length, each made after the one before it was dropped: is_signed %r, the text returned is %s' % (k, sg, 'right' if ok else 'wrong')))
    # through the paragraph parser: the flag means "remove the signature, then parse", whatever stands before the envelope
    pp = [w[0] for w in wf[:ctx.n(500, 5000)]]
    pp += [pre + t for t in pp[:200] for pre in ('\n', '\n\n', ' \n', '\r\n')] + nest[:100] + mal[:300]
    for text in pp:
        a = call(debcon.get_paragraph_data, text, remove_pgp_signature=True)
        u = call(unsign.remove_signature, text)
        b = call(debcon.get_paragraph_data, u) if isinstance(u, str) else u
        st['cases'] += 1
        if a != b:
            fails.append((text, 'get_paragraph_data(remove_pgp_signature=True) gives %r, parsing the unsigned text gives %r' % (a, b)))
    st['prop_failures'] = len(fails)
    st['wellformed'] = len(wf)
    st['is_signed_true'] = sum(1 for t in texts if by[('is_signed', t)])
    st['matched'] = sum(1 for t in texts if by[('pgp_search', t)] is not None)
    tm, slow = timing(ctx)
    ctx.stream('measure:running-time')['seconds'] = tm
    ctx.stream('measure:running-time')['cases'] = len(tm)
    ctx.notes.append('polynomial running time of the regex engine is measured (doubling sizes, CPU-time ratio <= 8, each call <= 5 CPU s), not proved')
    if slow:
        fails.append(slow)
    fails.sort(key=lambda f: len(f[0]))
    for x, why in fails[:10]:
        ctx.violation('property', 'C16 fails on the implementation: ' + why, x)
    if bad and not ctx.violations:
        bad.sort(key=lambda b: len(repr(b[0])))
        (fn, args), iv, mv = bad[0]
        ctx.violation('correspondence', 'model and implementation differ on %s%r: impl %r, model %r' % (fn, args, iv, mv),
                      [fn, args], expected=mv, observed=iv, found_input=False)
