"""C02 - version comparison is one coherent total preorder."""
import itertools
from harness.common import Exn
from harness.gen import versions as V
from harness.props import _ver

from debian_inspector import version as dv
from debian_inspector.version import Version

impl = _ver.impl
OPS = ['<<', '<=', '=', '>=', '>>', '<', '>']
BAD_OPS = ['==', '!=', '', '=<', ' <']
TABLE = {'<<': lambda r: r < 0, '<=': lambda r: r <= 0, '<': lambda r: r <= 0, '=': lambda r: r == 0,
         '>=': lambda r: r >= 0, '>': lambda r: r >= 0, '>>': lambda r: r > 0}


def sgn_ok(r):
    return r in (-1, 0, 1) and not isinstance(r, bool)


def p_pair(ab):
    a, b = ab
    va, vb = Version.from_string(a), Version.from_string(b)
    r, r2 = va.compare(vb), vb.compare(va)
    if not sgn_ok(r) or r != -r2:
        return 'compare(%r,%r)=%r but compare(%r,%r)=%r' % (a, b, r, b, a, r2)
    if va.compare(va) != 0:
        return 'compare(%r, itself) != 0' % a
    if dv.compare_versions(a, b) != r or dv.compare_versions(va, b) != r or dv.compare_versions(a, vb) != r:
        return 'compare_versions on strings/objects differs from Version.compare for (%r,%r)' % (a, b)
    got = [va < vb, va <= vb, va > vb, va >= vb]
    want = [r < 0, r <= 0, r > 0, r >= 0]
    if got != want or any(type(x) is not bool for x in got):
        return 'operators < <= > >= give %r for (%r,%r) whose three-way result is %r' % (got, a, b, r)
    for op in OPS:
        for x, y in ((va, vb), (a, b)):
            e = dv.eval_constraint(x, op, y)
            if e is not TABLE[op](r):
                return 'eval_constraint(%r, %r, %r) = %r with three-way result %r' % (a, op, b, e, r)
    for op in BAD_OPS:
        try:
            dv.eval_constraint(va, op, vb)
            return 'unknown operator %r accepted' % op
        except ValueError:
            pass
    if sum([va < vb, vb < va, r == 0]) != 1:
        return 'not exactly one of before/after/order-equal for (%r,%r)' % (a, b)
    if (va == vb) != (va.tuple() == vb.tuple()) or (va != vb) == (va == vb):
        return '==/!= inconsistent for (%r,%r)' % (a, b)
    if va == vb and (r != 0 or hash(va) != hash(vb)):
        return '%r == %r but compare=%r or hashes differ' % (a, b, r)
    # whatever a version compares == to hashes like it (a plain string or tuple is either not equal to a version, or usable
    # in its place as a set member and dictionary key)
    for other in (a, a.strip(), str(va), va.tuple(), tuple(va.tuple())):
        try:
            if (va == other or other == va) and (hash(va) != hash(other) or other not in {va} or va not in {other}):
                return '%r == %r (a %s) holds but they do not hash alike / are not found in each other\'s sets' % (va, other, type(other).__name__)
        except TypeError:
            pass
    # the answer depends on the three parts a version holds, however the object came to hold them: derived from
    # another (already compared) version with attr.evolve, copied, built from the parts
    import attr
    import copy
    ways = [('attr.evolve of the other version', lambda: attr.evolve(vb, epoch=va.epoch, upstream=va.upstream, revision=va.revision)),
            ('attr.evolve of the same version', lambda: attr.evolve(va, revision=va.revision)),
            ('a deep copy', lambda: copy.deepcopy(va)),
            ('a version built from the parts', lambda: Version(epoch=va.epoch, upstream=va.upstream, revision=va.revision))]
    for how, mk in ways:
        try:
            w = mk()
        except Exception:  # noqa  (a class that cannot be evolved: nothing to compare)
            continue
        got = [w.compare(vb), vb.compare(w), w < vb, w <= vb, w > vb, w >= vb, w == va, hash(w) == hash(va), w.compare(va)]
        want = [r, -r, r < 0, r <= 0, r > 0, r >= 0, True, True, 0]
        if got != want:
            return '%s holding the parts of %r answers %r against %r; %r itself answers %r' % (how, a, got, b, a, want)
    return None


def p_triple(t):
    a, b, c = (Version.from_string(x) for x in t)
    ab, bc, ac = a.compare(b), b.compare(c), a.compare(c)
    if ab <= 0 and bc <= 0 and not ac <= 0:
        return 'transitivity fails: %r <= %r <= %r but compare(a,c)=%r' % (t[0], t[1], t[2], ac)
    if ab == 0 and bc == 0 and ac != 0:
        return 'order-equality not transitive on %r' % (t,)
    if ab <= 0 and bc <= 0 and (ab < 0 or bc < 0) and not ac < 0:
        return 'strict transitivity fails on %r: %r %r %r' % (t, ab, bc, ac)
    return None


def p_sorted(lst):
    vs = [Version.from_string(x) for x in lst]
    for how, out in (('sorted(versions)', sorted(vs)),
                     ('sorted(strings, key=compare_versions_key)',
                      [Version.from_string(x) for x in sorted(lst, key=dv.compare_versions_key)]),
                     ('sorted(key=Version.from_string)', [Version.from_string(x) for x in sorted(lst, key=Version.from_string)])):
        if sorted(map(lambda v: v.tuple(), out)) != sorted(map(lambda v: v.tuple(), vs)):
            return '%s is not a permutation of its input %r' % (how, lst)
        for i in range(len(out) - 1):
            if out[i].compare(out[i + 1]) > 0:
                return '%s of %r is not non-decreasing at %d: %s > %s' % (how, lst, i, out[i], out[i + 1])
    if vs:
        mx, mn = max(vs), min(vs)
        if any(v.compare(mx) > 0 for v in vs) or any(v.compare(mn) < 0 for v in vs):
            return 'max/min of %r is not an extremum' % (lst,)
    s = set(vs)
    if len(s) != len(set(v.tuple() for v in vs)):
        return 'set of versions has the wrong size for %r' % (lst,)
    cs = sorted(lst, key=dv.compare_strings_key) if all(':' not in x for x in lst) else None
    return None


def run(ctx):
    rng = ctx.rng
    pool = list(_ver.BOUNDARY)
    base = [V.version(rng) for _ in range(ctx.n(60, 300))]
    for v in base:
        pool += [x for x in V.variants(rng, v) if _ver.valid(x)]
    pool = [p for p in dict.fromkeys(pool) if _ver.valid(p)]
    pairs = [(a, b) for a in _ver.BOUNDARY for b in _ver.BOUNDARY]
    pairs += [(rng.choice(pool), rng.choice(pool)) for _ in range(ctx.n(6000, 80000))]
    pairs += [p for p in _ver.version_pairs(ctx, ctx.n(6000, 80000)) if _ver.valid(p[0]) and _ver.valid(p[1])]
    pairs += _ver.BIG_PAIRS
    ctx.exhaustive.append('all %d ordered pairs of the %d boundary versions' % (len(_ver.BOUNDARY) ** 2, len(_ver.BOUNDARY)))

    bad = ctx.compare('corr:version_ops', [('version_ops', [a, b]) for a, b in pairs], impl)
    ec = [(a, op, b) for a, b in pairs[:ctx.n(3000, 30000)] for op in OPS + BAD_OPS[:2]]
    bad += ctx.compare('corr:eval_constraint', [('eval_constraint', list(x)) for x in ec], impl)

    fails = ctx.prop('prop:pair-laws', pairs + [(a, b) for a in _ver.BIG for b in _ver.BIG], p_pair)
    triples = [tuple(t) for t in itertools.product(_ver.BOUNDARY[:ctx.n(14, 28)], repeat=3)]
    ctx.exhaustive.append('all %d ordered triples of the first boundary versions' % len(triples))
    for _ in range(ctx.n(8000, 150000)):
        a = rng.choice(pool)
        near = [x for x in V.variants(rng, a) if _ver.valid(x)] + [rng.choice(pool)]
        triples.append((a, rng.choice(near), rng.choice(near)))
    triples += [tuple(t) for t in itertools.product(_ver.BIG[:6], repeat=3)]
    fails += ctx.prop('prop:triple-laws', triples, p_triple)
    lists = []
    for _ in range(ctx.n(600, 8000)):
        n = rng.randint(0, 40)
        src = pool if rng.random() < .7 else [x for v in rng.sample(pool, min(4, len(pool))) for x in V.variants(rng, v) if _ver.valid(x)]
        lists.append([rng.choice(src) for _ in range(n)] if src else [])
    for p in itertools.permutations(['1.0', '1.00', '0:1.0', '1.0-0', '1.0~a', '1.0a'], 4):
        lists.append(list(p))
    for p in itertools.permutations(_ver.BIG[:4] + _ver.EPOCHS[:3], 3):
        lists.append(list(p))
    fails += ctx.prop('prop:sorted', lists, p_sorted)

    fails += _ver.pickled_to_another_process(ctx, pool[:ctx.n(400, 4000)])

    fails.sort(key=lambda f: len(repr(f[0])))
    for x, why in fails[:10]:
        ctx.violation('property', 'C02 fails on the implementation: ' + why, x)
    if bad and not fails:
        bad.sort(key=lambda b: len(repr(b[0])))
        (fn, args), iv, mv = bad[0]
        ctx.violation('correspondence', 'model and implementation differ on %s%r: impl %r, model %r' % (fn, args, iv, mv),
                      [fn, args], expected=mv, observed=iv, found_input=False)
