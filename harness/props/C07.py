"""C07 - lenient parsing is total: no input text makes it raise."""
from harness.common import call, Exn
from harness.gen import texts as G
from harness.gen import docs as D
from harness.props import _copy, _debcon, _d822
from harness.props.C06 import emailish_text

from debian_inspector import copyright as dc, debcon, deb822

NEAR = ['License', 'License-1', 'License_1', 'Files-2', 'Extra-Data', 'Line-Numbers-By-Field', 'Unknown', 'Unknown-1', 'Format',
        'Format-Specification', 'Content-Type', 'Files', 'Copyright', 'Comment', 'license', 'LICENSE-1', 'License-1-2', 'Unknown-Foo',
        # the other declared fields of the paragraph types (each has its own field class)
        'Upstream-Contact', 'Upstream-Name', 'Source', 'Disclaimer', 'Files-Excluded', 'Upstream-Contact', 'Source']


def near_miss_text(rng):
    out = []
    for _ in range(rng.randint(1, 10)):
        k = rng.random()
        if k < .55:
            out.append(G.decl_line(rng, rng.choice(NEAR)))
        elif k < .7:
            out.append(G.cont_line(rng))
        elif k < .85:
            out.append('')
        elif k < .93:
            out.append(G.words_line(rng))
        else:
            out.append(rng.choice(['From x', 'Content-Type: multipart/mixed; boundary="x"', '--x', '--x--', 'Content-Type: message/rfc822']))
    return '\n'.join(out) + rng.choice(['', '\n'])


def entry_points(t):
    c = dc.DebianCopyright.from_text(t)
    a = (c.to_dict(), c.to_dict(with_lines=True), c.dumps(), c.is_valid(), c.is_valid(strict=True))
    # the per-paragraph queries are lenient entry points too
    per = [(p.to_dict(with_lines=True), p.dumps(), p.is_empty(), p.has_extra_data(), tuple(p.get_first_last_line_numbers()),
            [p.get_field_line_numbers(n) for n in list(p.line_numbers_by_field)]) for p in c.paragraphs]
    # observing an object (validity, rendering, dictionary form) in any order leaves it as it was
    kinds = [type(p).__name__ for p in c.paragraphs]
    a2 = (c.to_dict(), c.to_dict(with_lines=True), c.dumps(), c.is_valid(), c.is_valid(strict=True))
    c2 = dc.DebianCopyright.from_text(t)
    a3 = (c2.is_valid(strict=True), c2.is_valid(), c2.dumps(), c2.to_dict(with_lines=True), c2.to_dict())
    if a2 != a or a3 != a[::-1] or kinds != [type(p).__name__ for p in c2.paragraphs]:
        raise AssertionError('observing the object (is_valid, dumps, to_dict) changes what it reports next')
    b = list(debcon.get_paragraphs_data(t))
    d = debcon.get_paragraph_data(t)
    d = (d, debcon.get_paragraph_data(t, remove_pgp_signature=True), debcon.get_paragraph_data(t, remove_pgp_signature=False),
         debcon.Debian822(t).to_dict() if t.strip() else None)
    e = _d822.groups_t(deb822.get_paragraphs_as_field_groups(t))
    return repr((a, per, b, d, e))


def p_total(t):
    try:
        r1 = entry_points(t)
        r2 = entry_points(t)
    except RecursionError:
        if 'content-type' in t.lower():
            return None     # interpreter limit on nested MIME containers: outside the model (DESIGN 8.2)
        return 'raises RecursionError on a text of %d characters, %d lines' % (len(t), t.count('\n') + 1)
    except Exception as e:  # noqa
        return 'raises %s: %s' % (type(e).__name__, str(e)[:80])
    if r1 != r2:
        return 'two calls on the same text return different results'
    return None


def run(ctx):
    rng = ctx.rng
    texts = [near_miss_text(rng) for _ in range(ctx.n(4500, 60000))]
    texts += [G.control_text(rng) for _ in range(ctx.n(3000, 50000))]
    texts += [emailish_text(rng) for _ in range(ctx.n(2500, 30000))]
    texts += [G.unicode_text(rng, 60) for _ in range(ctx.n(1500, 20000))]
    texts += [G.corrupt_doc(rng, D.render(rng, D.document(rng))) for _ in range(ctx.n(1500, 20000))]
    texts += ['License-1: a\nLicense: b\nLicense: c\n', 'Files: x\nFiles-1: y\nFiles: z', 'Files: a\nExtra-Data: x\n',
              'Files: a\nLine-Numbers-By-Field: x\n', 'Content-Type: multipart/mixed; boundary="x"\n\n--x\n\nbody\n--x--\n',
              'Content-Type: message/rfc822\n\na: b\n', '', '\n', ' ', 'a', ':', 'License:\n\nUnknown:', 'Foo:\n\nBar:\n',
              'Files: *\nCopyright: 2019 x\nLicense: GPL\n text\n\n\nLicense:\n\n\nFoo:\n\n\nFoo:\n\n\nLicense:']
    import itertools
    kinds = ['License: a', 'License-1: b', 'License:', ' c', '', 'junk', 'Files: *', 'Unknown: u']
    seqs = ['\n'.join(s) for n in range(ctx.n(5, 6) + 1) for s in itertools.product(kinds, repeat=n)]
    ctx.exhaustive.append('all %d sequences of up to %d lines over %r' % (len(seqs), ctx.n(5, 6), kinds))
    texts += seqs
    # every declared field of every paragraph type with an empty line inside its value (recovered as part of the value), in
    # paragraphs of each type
    DECL = ['Format', 'Upstream-Name', 'Upstream-Contact', 'Source', 'Disclaimer', 'Copyright', 'License', 'Comment', 'Files-Excluded', 'Files']
    for lead in ('Format: f', 'Files: *', 'License: MIT', 'Foo: x', ''):
        for name in DECL:
            for first in ('John Doe <john@example.org>', '', '2019 x', '*'):
                for cont in (' Jane Roe <jane@example.org>', '  https://example.org/contact', ' .', '\tx'):
                    texts.append((lead + '\n' if lead else '') + '%s: %s\n\n%s\nSource: s\n\nFiles: *\nCopyright: 2020 J\nLicense: MIT\n' % (name, first, cont))
    # envelope fragments: a signature block with nothing signed before it, a BEGIN line alone, armor inside a value
    sigb = '-----BEGIN PGP SIGNATURE-----\nVersion: GnuPG v1\n\niQEzBAEBCgAdFiEE\n=abcd\n-----END PGP SIGNATURE-----'
    texts += [sigb, sigb + '\n', '-----BEGIN PGP SIGNED MESSAGE-----\n' + sigb, '-----BEGIN PGP SIGNED MESSAGE-----\nHash: SHA1\n\n' + sigb + '\n',
              'a: b\n' + sigb, '-----BEGIN PGP SIGNED MESSAGE-----', '-----BEGIN PGP SIGNED MESSAGE-----\n\nFiles: *\n' + sigb, sigb.replace('\n', '\r\n')]
    # one-line texts that name something that exists (a directory, a file), absolute or relative to the working directory
    import os
    texts += ['.', '..', '/', 'tests', 'debian', 'src', 'harness', os.getcwd(), os.path.abspath(__file__), '/tmp', '/etc/hostname', 'setup.sh', 'README.md', 'coq']
    fails = ctx.prop('prop:total', texts, p_total)
    # texts of thousands of paragraphs, well-formed and not (value-less licenses followed by free text, junk, duplicates)
    bigs = []
    for n in (1200, 3000, 9000):
        parts = []
        for i in range(n):
            k = i % 6
            parts.append(['Files: f%d\nCopyright: 2019 h%d\nLicense: L%d\n text %d' % (i, i, i, i), 'License:', 'free text %d here' % i, 'License: X%d\n t' % i,
                          'Foo-%d: bar\nFoo-%d: baz' % (i, i), 'Unknown: u%d' % i][k])
        bigs.append('Format: x\n\n' + '\n\n'.join(parts) + '\n')
        bigs.append('\n\n'.join('License:\n\nwords %d' % i for i in range(n)))
    fails += ctx.prop('prop:total:large', bigs, p_total)
    bad = ctx.compare('corr:copyright', [('copyright_from_text', [t]) for t in texts if len(t) < 4000], _copy.impl)
    bad += ctx.compare('corr:get_paragraphs_data', [('get_paragraphs_data', [t]) for t in texts[:ctx.n(15000, 200000)]], _debcon.impl)
    bad += ctx.compare('corr:groups', [('groups', [t]) for t in texts[:ctx.n(15000, 200000)]], _d822.impl)
    fails.sort(key=lambda f: len(f[0]))
    for x, why in fails[:20]:
        ctx.violation('property', 'C07 fails on the implementation: ' + why, x)
    if bad and not ctx.violations:
        bad.sort(key=lambda b: len(repr(b[0])))
        (fn, args), iv, mv = bad[0]
        ctx.violation('correspondence', 'model and implementation differ on %s%r: impl %r, model %r' % (fn, args, iv, mv),
                      [fn, args], expected=mv, observed=iv, found_input=False)
