"""C06 - well-formed deb822 documents parse to exactly their paragraphs and fields."""
import os
from harness.common import call, Exn
from harness.gen import docs as D
from harness.gen import texts as G
from harness.props import _debcon, _d822

from debian_inspector import debcon, deb822

EMAILISH = ['From foo', ':x', 'Content-Type: multipart/mixed', 'Content-Type: message/rfc822', 'Content-Type: text/plain; charset=x',
            'CONTENT-TYPE: Message/x', 'content-type: MULTIPART/x; boundary=b', 'Content-Type: multipart', 'Content-Type: a/b/c',
            'From: me', 'a b: c', 'é: 1', 'x:', 'x: ', ' cont', '\tcont', 'key:value:more', 'From ', 'From', '--b', '--b--']


def emailish_text(rng):
    n = rng.randint(0, 9)
    out = []
    term = rng.choice(['\n', '\n', '\n', '\r\n', '\r'])
    for i in range(n):
        out.append(rng.choice(EMAILISH) if rng.random() < .5 else G.control_line(rng))
        out.append(term if rng.random() < .9 else rng.choice(['\n', '\r\n', '\r']))
    if out and rng.random() < .3:
        out.pop()
    return ''.join(out)


def run(ctx):
    rng = ctx.rng
    docs = [D.document(rng) for _ in range(ctx.n(5000, 60000))]
    # corpus: documents of the recorded finding F17 (MIME container content types) run first
    docs = [[[['Content-Type', 'multipart/mixed', []], ['A', 'b', []]]],
            [[['Package', 'x', []]], [['content-type', 'Message/rfc822; x=y', [' more']], ['B', 'c', []]]],
            # ASCII text that an encoding detector may take for UTF-7 / HZ: the file route must read it as the text does
            [[['A', 'a+AOk-b', []], ['B', '~{abcd~}', [' ~{x~} +AOk-']]]],
            [[['Description', 'x +ZeVnLIqe- y', [' +AGEAYgBj-', ' ~{<:Ky2;S{#,NpJ)l6HK!#~}']]], [['C', '~~ ~{', []]]]] + docs
    # large documents (beyond 64 KiB and 4096 lines) with dense separators: run through the text and the file routes,
    # not handed to the model
    big = []
    for n in ([30000, 45000, 60000] if ctx.quick() else [30000, 45000, 60000, 100000, 150000, 200000]):
        doc, seps = D.dense_document(rng, n)
        big.append((doc, D.render(rng, doc, seps=seps, trailing=1)))
    # beyond 1 MiB, a paragraph separator (or a line end) exactly across every multiple of 4096 characters
    for feat in ('sep:2:1', 'sep:3:1', 'sep:3:2', 'sep:4:1', 'sep:4:2', 'sep:4:3'):
        doc = []

        def unit(i):
            p = [['Package', 'p%d' % i, []], ['Description', 'd %d' % i, [' more %d' % i]]]
            doc.append(p)
            return ['Package: p%d' % i, 'Description: d %d' % i, ' more %d' % i]
        text = G.aligned_text(rng, 1150000 if feat in ('sep:3:2', 'sep:4:2') else 140000, feat, unit=unit, gaps=False)
        # the generator pads the last line of every paragraph and separates paragraphs as the feature says
        lines = [l for l in text.split('\n')]
        k = 0
        for i, L in enumerate(lines):
            if L.startswith(' more '):
                doc[k][1][2] = [L]
                k += 1
        big.append((doc, text))
    for d in docs[4:]:
        if rng.random() < .01:
            d[0] = [f for f in d[0] if f[0].lower() != 'content-type'] + \
                [['Content-Type', rng.choice(['multipart/mixed; boundary=x', 'message/rfc822', 'MULTIPART/alternative', 'text/plain', 'multipart']), []]]
    fails = []
    st = ctx.stream('prop:documents')
    texts_for_corr = []
    mime = 0
    for doc, text in [(d, None) for d in docs] + big:
        is_big = text is not None
        if not is_big:
            text = D.render(rng, doc)
            texts_for_corr.append(text)
        st['cases'] += 1
        ctx.evaluations += 1
        ctx.distinct.add(hash(text))
        want_c = D.expected_debcon(doc)
        want_d = D.expected_deb822(doc, text)
        why = None
        try:
            got_d = _d822.groups_t(deb822.get_paragraphs_as_field_groups(text))
            got_c = [_debcon.d2l(x) for x in debcon.get_paragraphs_data(text)]
        except Exception as e:  # noqa
            got_d = got_c = None
            why = 'raises %s' % type(e).__name__
        if why is None and got_d != want_d:
            why = 'line-tracking parser gives %r, the document is %r' % (got_d, want_d)
        container = D.is_mime_container(doc)
        mime += container
        if why is None and got_c != want_c:
            why = 'header-style parser gives %r, the document is %r' % (got_c, want_c)
        if why is None and not is_big:
            # independence of separator length and trailing newline
            t2 = D.render(rng, doc)
            try:
                if [_debcon.d2l(x) for x in debcon.get_paragraphs_data(t2)] != got_c:
                    why = 'header-style result depends on layout: %r vs %r' % (text, t2)
                d2 = _d822.groups_t(deb822.get_paragraphs_as_field_groups(t2))
                if [[[n, [v for _, v in ls]] for n, ls in g] for g in d2] != [[[n, [v for _, v in ls]] for n, ls in g] for g in got_d]:
                    why = 'line-tracking result depends on layout: %r vs %r' % (text, t2)
            except Exception as e:  # noqa
                why = 'raises %s on another layout' % type(e).__name__
        if why:
            st['prop_failures'] += 1
            fails.append(((text, 'F17' if container else ''), why[:2000]))
    st['mime_container_documents'] = mime
    st['large_documents_bytes'] = [len(t.encode('utf-8')) for _, t in big]
    # the file routes (UTF-8 files outside /repo and /verif, removed at once)
    fst = ctx.stream('prop:file-route')
    for text in [t for _, t in big] + texts_for_corr[:ctx.n(400, 5000)]:
        p = os.path.join(ctx.scratch, 'doc.txt')
        with open(p, 'w', encoding='utf-8', newline='') as f:
            f.write(text)
        err = None
        try:
            try:
                a = [_debcon.d2l(x) for x in debcon.get_paragraphs_data_from_file(p)]
                b = _d822.groups_t(deb822.get_paragraphs_as_field_groups_from_file(p))
            except Exception as e:  # noqa
                a = b = None
                err = 'reading from a UTF-8 file raises %s' % type(e).__name__
            if err is None and fst['cases'] % 7 == 0 and any(ord(ch) > 127 for ch in text[:20000]):
                import locale
                from unittest import mock
                for enc in ('ISO-8859-1', 'cp1252', 'ISO-8859-15'):
                    try:
                        with mock.patch.object(locale, 'getpreferredencoding', lambda do_setlocale=True, _e=enc: _e), \
                                mock.patch.object(locale, 'getencoding', lambda _e=enc: _e, create=True):
                            a8 = [_debcon.d2l(x) for x in debcon.get_paragraphs_data_from_file(p)]
                            b8 = _d822.groups_t(deb822.get_paragraphs_as_field_groups_from_file(p))
                    except Exception as e:  # noqa
                        err = 'reading a UTF-8 file while the preferred encoding of the locale is %s raises %s' % (enc, type(e).__name__)
                        break
                    if a8 != a or b8 != b:
                        err = 'a UTF-8 file is read differently when the preferred encoding of the locale is %s' % enc
                        break
            if err is None and fst['cases'] % 5 == 0:
                # the same through a pathlib.Path (from another working directory), and with the result read only after
                # the file was rewritten: what is returned is about the file as it was when the function was called
                import pathlib
                cwd = os.getcwd()
                try:
                    os.chdir('/')
                    a1 = [_debcon.d2l(x) for x in debcon.get_paragraphs_data_from_file(pathlib.Path(p))]
                    b1 = _d822.groups_t(deb822.get_paragraphs_as_field_groups_from_file(pathlib.Path(p)))
                    ra = debcon.get_paragraphs_data_from_file(p)
                    rb = deb822.get_paragraphs_as_field_groups_from_file(p)
                    with open(p, 'w', encoding='utf-8') as f2:
                        f2.write('Other: file\n')
                    a2 = [_debcon.d2l(x) for x in ra]
                    b2 = _d822.groups_t(rb)
                    if a1 != a or b1 != b:
                        err = 'reading the file through a pathlib.Path differs from reading it through its name'
                    elif a2 != a or b2 != b:
                        err = 'a result read after the file was rewritten differs from the file as it was when the function was called'
                except Exception as e:  # noqa
                    err = 'reading through a pathlib.Path / after the file was rewritten raises %s' % type(e).__name__
                finally:
                    os.chdir(cwd)
            try:
                a0 = [_debcon.d2l(x) for x in debcon.get_paragraphs_data(text)]
                b0 = _d822.groups_t(deb822.get_paragraphs_as_field_groups(text))
            except Exception as e:  # noqa
                a0 = b0 = None
                err = err or 'parsing the text raises %s' % type(e).__name__
        finally:
            os.unlink(p)
        fst['cases'] += 1
        ctx.evaluations += 1
        if err or a != a0 or b != b0:
            fst['prop_failures'] += 1
            fails.append(((text, ''), err or 'reading from a UTF-8 file differs from parsing the text'))
    from harness.props.C05 import p_abandoned
    from harness.props.C08 import p_fresh
    # each paragraph is returned with exactly its fields whatever a caller did to an earlier result
    for x, why in ctx.prop('prop:fresh-results', [t for t in texts_for_corr if t.strip()][:ctx.n(3000, 30000)], p_fresh):
        fails.append(((x, ''), why))
    multi = [t for t in texts_for_corr[:4000] if '\n\n' in t] or ['a: 1\n\nb: 2\n']
    for x, why in ctx.prop('prop:unfinished-results', [(rng.choice(multi), rng.choice(texts_for_corr[:4000])) for _ in range(ctx.n(1500, 15000))], p_abandoned):
        fails.append(((x[1], 'after an unfinished result for ' + repr(x[0])), why))
    ctx.notes.append('file route (open, UTF-8 decoding, newline translation) is exercised by execution only, not modelled')

    # correspondence: email fragment, splitter, both parsers
    em = [emailish_text(rng) for _ in range(ctx.n(15000, 200000))] + texts_for_corr[:3000]
    bad = ctx.compare('corr:email.message_from_string', [('parse_message', [t]) for t in em if t], _debcon.impl, norm=_debcon.norm_msg)
    seps = [G.control_text(rng) for _ in range(ctx.n(4000, 50000))]
    A = ['a', '\n', ' ', '\t', '\r', ':']
    small = list(G.all_strings(A, ctx.n(7, 8)))
    ctx.exhaustive.append('all %d strings of length <= %d over %r through the paragraph splitter' % (len(small), ctx.n(7, 8), A))
    bad += ctx.compare('corr:split_in_paragraphs', [('split_in_paragraphs', [t]) for t in small + seps + texts_for_corr[:3000]], _debcon.impl)
    bad += ctx.compare('corr:get_paragraphs_data', [('get_paragraphs_data', [t]) for t in texts_for_corr + em[:20000] + seps], _debcon.impl)
    bad += ctx.compare('corr:groups', [('groups', [t]) for t in texts_for_corr], _d822.impl)

    fails.sort(key=lambda f: len(f[0][0]))
    for x, why in fails:
        ctx.violation('property', 'C06 fails on the implementation: ' + why, list(x))
    if bad and not ctx.violations:
        bad.sort(key=lambda b: len(repr(b[0])))
        (fn, args), iv, mv = bad[0]
        ctx.violation('correspondence', 'model and implementation differ on %s%r: impl %r, model %r' % (fn, args, iv, mv),
                      [fn, args], expected=mv, observed=iv, found_input=False)
