"""C15 - relationship matching is three-valued, compositional and follows dpkg order."""
import itertools
from harness.common import Exn, call
from harness.gen import versions as V
from harness.gen import deps as G
from harness.props import _deps, _ver

from debian_inspector import deps, package, version as dv
from debian_inspector.version import Version

impl = _deps.impl
OPS = ['<<', '<=', '=', '>=', '>>', '<', '>']
BAD_OPS = ['==', '!=', '<>', '=>', '~']
TABLE = {'<<': lambda r: r < 0, '<=': lambda r: r <= 0, '<': lambda r: r <= 0, '=': lambda r: r == 0,
         '>=': lambda r: r >= 0, '>': lambda r: r >= 0, '>>': lambda r: r > 0}
NAME = 'pkg'


def member(tv, lo='1.0', hi='2.0'):
    """a relationship that answers tv for candidate ('pkg', '1.5')"""
    if tv is True:
        return ['R', NAME, []]
    if tv == 'Tv':
        return ['V', NAME, '>=', lo, []]
    if tv is False:
        return ['V', NAME, '>>', hi, []]
    return ['R', 'other', []]


def or_tv(rs):
    if any(r is True for r in rs):
        return True
    if any(r is False for r in rs):
        return False
    return None


def and_tv(rs):
    known = [r for r in rs if r is not None]
    if not known:
        return None
    return all(known)


def sets_tv(rs):
    acc = None
    for r in rs:
        if r is True:
            acc = True
        elif r is False:
            return False
    return acc


def p_vector(vec):
    members = [member(t) for t in vec]
    want = [True if t == 'Tv' else t for t in vec]
    for cand in ('1.5', Version.from_string('1.5')):
        got = [_deps.build(m).matches(NAME, cand) for m in members]
        if got != want or any(g is not None and type(g) is not bool for g in got):
            return 'members answer %r, expected %r' % (got, want)
        o = _deps.build(['O', members]).matches(NAME, cand)
        if o is not or_tv(want):
            return 'alternatives over %r answer %r, expected %r' % (want, o, or_tv(want))
        a = _deps.build(['A', members]).matches(NAME, cand)
        if a is not and_tv(want):
            return 'conjunction over %r answers %r, expected %r' % (want, a, and_tv(want))
        m = _deps.impl('match_relationships', [NAME, cand if isinstance(cand, str) else [0, '1.5', '0'], members])
        if m is not sets_tv(want):
            return 'match_relationships over %r answers %r, expected %r' % (want, m, sets_tv(want))
    return None


def mk_p_versioned(sgn_of):
    def p(x):
        op, req, cand = x
        rel = deps.VersionedRelationship(name=NAME, operator=op, version=req)
        if rel.matches('other', cand) is not None:
            return 'a relationship on another name answers %r' % (rel.matches('other', cand),)
        if deps.Relationship(name=NAME).matches(NAME, cand) is not True or deps.Relationship(name=NAME).matches('zz', cand) is not None:
            return 'simple relationship wrong for candidate %r' % (cand,)
        try:
            got = rel.matches(NAME, cand)
        except ValueError:
            got = Exn('ValueError')
        except Exception as e:  # noqa
            return 'matches raises %s' % type(e).__name__
        if not cand:
            want = False
        elif op not in TABLE:
            want = Exn('ValueError')
        else:
            want = TABLE[op](sgn_of[(cand, req)])
        if got != want or (not isinstance(got, Exn) and type(got) is not bool):
            return '%r (%s %s) against candidate %r answers %r, expected %r' % (NAME, op, req, cand, got, want)
        return None
    return p


REL_NAMES = ['pkg', 'pkg:any', 'pkg:amd64', 'pkg:native', 'pkg3', 'pkg-dev', 'PKG', 'lib.pkg', 'pkg+', 'pk', 'g++', 'p:k:g']


def p_unknown_operator(x):
    """an operator outside the table raises ValueError when it is evaluated - same name and a candidate version; for another
    name the answer is None and without a candidate version it is False, as for any versioned relationship; the
    combinators pass these answers on"""
    op, cand = x
    rel = deps.VersionedRelationship(name=NAME, operator=op, version='1.0')
    try:
        if rel.matches('other', cand) is not None:
            return 'operator %r: another name answers %r' % (op, rel.matches('other', cand))
        if rel.matches(NAME) is not False or rel.matches(NAME, None) is not False or rel.matches(NAME, '') is not False:
            return 'operator %r: no candidate version answers %r' % (op, rel.matches(NAME))
        tree = deps.AndRelationships.from_relationships(deps.Relationship(name='python3'), deps.OrRelationships.from_relationships(rel, deps.Relationship(name='libbar')), deps.Relationship(name='zlib1g'))
        if tree.matches('python3', cand) is not True or tree.matches('bash', cand) is not None or tree.matches('libbar', cand) is not True:
            return 'operator %r in an alternative: the field answers %r for python3, %r for bash, %r for libbar' % (op, tree.matches('python3', cand), tree.matches('bash', cand), tree.matches('libbar', cand))
    except Exception as e:  # noqa
        return 'operator %r: a question that does not reach the operator raises %s' % (op, type(e).__name__)
    try:
        rel.matches(NAME, cand or '1.0')
    except ValueError:
        return None
    except Exception as e:  # noqa
        return 'operator %r raises %s, not ValueError' % (op, type(e).__name__)
    return 'operator %r is evaluated without ValueError' % op


def p_same_text_other_tree(x):
    """the answer follows the structure of the tree, not its printed form: two trees that print the same text, asked the
    same question one after the other, each answer as their own structure says"""
    name, cand = x
    def leaf(n, op=None, v=None):
        return deps.VersionedRelationship(name=n, operator=op, version=v) if op else deps.Relationship(name=n)
    def tv(r):
        # the three-valued answer from the structure, leaves asked as new objects
        if isinstance(r, deps.OrRelationships):
            return or_tv([tv(m) for m in r.relationships])
        if isinstance(r, deps.AndRelationships):
            return and_tv([tv(m) for m in r.relationships])
        return (deps.VersionedRelationship(name=r.name, operator=r.operator, version=r.version) if isinstance(r, deps.VersionedRelationship) else deps.Relationship(name=r.name)).matches(name, cand)
    O, A = deps.OrRelationships.from_relationships, deps.AndRelationships.from_relationships
    pairs = [(O(A(leaf('a', '>=', '2'), leaf('b')), leaf('a')), A(leaf('a', '>=', '2'), O(leaf('b'), leaf('a')))),
             (A(leaf('a', '<<', '2'), A(leaf('b'), leaf('a', '>=', '1'))), A(A(leaf('a', '<<', '2'), leaf('b')), leaf('a', '>=', '1'))),
             (O(leaf('c'), A(leaf('a', '=', '1'), leaf('c'))), A(O(leaf('c'), leaf('a', '=', '1')), leaf('c')))]
    for t1, t2 in pairs:
        for t in (t1, t2, t1, t2):
            want = tv(t)
            got = t.matches(name, cand)
            if got is not want:
                return 'the tree %r (printed %r) answers %r for (%r, %r); its structure says %r' % (_deps.rel_tree(t), str(t), got, name, cand, want)
    return None


def p_names(x):
    """a relationship answers for a candidate only when the candidate name is the name it carries, character for character"""
    rn, cn = x
    want = True if rn == cn else None
    got = [deps.Relationship(name=rn).matches(cn), deps.Relationship(name=rn).matches(cn, '2'),
           deps.VersionedRelationship(name=rn, operator='>=', version='1').matches(cn, '2'),
           deps.VersionedRelationship(name=rn, operator='>=', version='1').matches(cn, Version.from_string('2'))]
    if any(g is not want for g in got):
        return 'relationship on %r asked about %r answers %r, expected %r' % (rn, cn, got, want)
    f = deps.VersionedRelationship(name=rn, operator='<<', version='1').matches(cn, '2')
    if f is not (False if rn == cn else None):
        return 'relationship %r (<< 1) asked about %r version 2 answers %r' % (rn, cn, f)
    return None


def p_reassigned(x):
    """a relationship answers according to the name, operator and version it carries NOW: after an attribute is
    assigned (or a copy is changed) the answer is that of a relationship built with the new values"""
    import copy
    op1, v1, op2, v2, cand = x
    rel = deps.VersionedRelationship(name=NAME, operator=op1, version=v1)
    first = rel.matches(NAME, cand)
    fresh1 = deps.VersionedRelationship(name=NAME, operator=op1, version=v1).matches(NAME, cand)
    if first is not fresh1:
        return 'two relationships %s %s answer %r and %r for %r' % (op1, v1, first, fresh1, cand)
    c = copy.copy(rel)
    try:
        rel.version = v2
        rel.operator = op2
        c.version = v2
    except Exception:  # noqa  (immutable objects: nothing to check)
        return None
    want = deps.VersionedRelationship(name=NAME, operator=op2, version=v2).matches(NAME, cand)
    got = rel.matches(NAME, cand)
    if got is not want:
        return 'after assigning operator %s and version %s to a relationship that was (%s %s), matches(%r) answers %r, a relationship built so answers %r' % (op2, v2, op1, v1, cand, got, want)
    wantc = deps.VersionedRelationship(name=NAME, operator=op1, version=v2).matches(NAME, cand)
    if c.matches(NAME, cand) is not wantc:
        return 'a copy whose version was assigned %s answers %r for %r, expected %r' % (v2, c.matches(NAME, cand), cand, wantc)
    rel.name = 'other'
    if rel.matches(NAME, cand) is not None or rel.matches('other', cand) is not want:
        return 'after the name was assigned, the relationship still answers for the old name'
    return None


def rand_tree(rng, depth=2):
    def leaf():
        k = rng.random()
        n = rng.choice([NAME, NAME, 'other', 'x', 'pkg:any', 'pkg3', 'pk'])
        if k < .4:
            return ['R', n, []]
        return ['V', n, rng.choice(OPS + BAD_OPS[:1]), rng.choice(_ver.BOUNDARY), [] if rng.random() < .93 else ['i386']]
    def alt():
        if rng.random() < .35:
            return ['O', [leaf() for _ in range(rng.randint(1, 5))]]
        return leaf()
    return ['A', [alt() for _ in range(rng.randint(0, 5))]]


def run(ctx):
    rng = ctx.rng
    W = ctx.n(5, 6)
    vectors = [list(v) for n in range(W + 1) for v in itertools.product([True, 'Tv', False, None], repeat=n)]
    ctx.exhaustive.append('all %d result vectors over {True(simple), True(versioned), False, None} up to width %d through '
                          'Or / And / match_relationships' % (len(vectors), W))
    fails = ctx.prop('prop:combinators', vectors, p_vector)
    fails += ctx.prop('prop:same-text-other-tree', [(n, c) for n in ('a', 'b', 'c', 'z') for c in (None, '1', '1.5', '2', '3')], p_same_text_other_tree)
    fails += ctx.prop('prop:unknown-operator', [(op, c) for op in ('==', '!=', '~', '=>', '=<', '<>', 'eq', '', '>>>', '> =') for c in ('1.0', '0.9', '2', None)], p_unknown_operator)
    fails += ctx.prop('prop:names', [(a, b) for a in REL_NAMES for b in REL_NAMES], p_names)
    vs5 = ['1.0', '1.5', '2.0', '1.0-1', '2:0.1']
    fails += ctx.prop('prop:reassigned', [(o1, a, o2, b, c) for o1 in ('>=', '<<') for o2 in ('>=', '<<', '=') for a in vs5 for b in vs5 for c in vs5], p_reassigned)

    # the operator table around each required version
    reqs = list(_ver.BOUNDARY) + ['1.0A', '1.0a', '2.1RC1', '2.1rc1', '1.0Z', '1.0z-1', '1aB', '1Ab'] + [v for v in (V.version(rng) for _ in range(ctx.n(40, 400))) if _ver.valid(v)]
    triples = []
    for b in reqs:
        near = [x for x in V.variants(rng, b) if _ver.valid(x)] + [rng.choice(reqs), rng.choice(reqs)]
        for c in near + [None, '']:
            for op in OPS + BAD_OPS:
                triples.append((op, b, c))
    ntr = len(triples)
    # digit runs beyond the interpreter's limit on int <-> str conversion (a few: each costs the extracted model about a second)
    triples += [(op, b, c) for op in OPS for b, c in ((_ver.BIG[0], _ver.BIG[1]), (_ver.BIG[1], _ver.BIG[0]), (_ver.BIG[0], _ver.BIG[0]))]
    pairs = sorted(set((c, b) for _, b, c in triples if c))
    sg = ctx.model.run([('dpkg_compare_sgn', [c, b]) for c, b in pairs])
    sgn_of = dict(zip(pairs, sg))
    fails += ctx.prop('prop:versioned-table', triples, mk_p_versioned(sgn_of))
    ctx.exhaustive.append('7 operators + %d unknown x candidates on every side of %d required versions' % (len(BAD_OPS), len(reqs)))

    # correspondence on the same and on random trees
    reqs_m = [('rel_matches', [['V', NAME, op, b, []], NAME, c]) for op, b, c in triples[:min(ntr, ctx.n(20000, 200000))]]
    reqs_m += [('rel_matches', [['V', NAME, op, b, []], NAME, [0, c, '0']]) for op, b, c in triples[:3000] if c and c.isalnum()]
    bad = ctx.compare('corr:versioned', reqs_m, impl)
    trees = [rand_tree(rng) for _ in range(ctx.n(6000, 80000))]
    cands = [None, '', '1.0', '1.00', '2', '0:1-0', [0, '1.0', '0'], [1, '1', '0'], 'not a version']
    bad += ctx.compare('corr:trees', [('rel_matches', [t, rng.choice([NAME, NAME, 'other', 'pkg:any', 'pk']), rng.choice(cands)]) for t in trees], impl)
    bad += ctx.compare('corr:match_relationships',
                       [('match_relationships', [NAME, rng.choice(cands[2:7]), [rand_tree(rng) for _ in range(rng.randint(0, 4))]])
                        for _ in range(ctx.n(3000, 40000))], impl)
    vec_reqs = []
    for v in vectors:
        ms = [member(t) for t in v]
        vec_reqs += [('rel_matches', [['O', ms], NAME, '1.5']), ('rel_matches', [['A', ms], NAME, '1.5']),
                     ('match_relationships', [NAME, '1.5', ms])]
    bad += ctx.compare('corr:vectors', vec_reqs, impl)

    # answers the implementation itself gives differently for one and the same question (see _deps.impl)
    for (fn, args), iv, mv in bad:
        if isinstance(iv, list) and iv[:1] == ['differs']:
            fails.append(([fn, args], '%s%r: %s' % (fn, tuple(args), iv[1])))
    fails.sort(key=lambda f: len(repr(f[0])))
    for x, why in fails[:10]:
        ctx.violation('property', 'C15 fails on the implementation: ' + why, x)
    if bad and not fails:
        bad.sort(key=lambda b: len(repr(b[0])))
        (fn, args), iv, mv = bad[0]
        ctx.violation('correspondence', 'model and implementation differ on %s%r: impl %r, model %r' % (fn, args, iv, mv),
                      [fn, args], expected=mv, observed=iv, found_input=False)
