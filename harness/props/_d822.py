"""Adapters for deb822.py."""
import re
from harness.common import call, Abandon
from debian_inspector import deb822


def groups_t(gs):
    return [[[f.name, [[l.number, l.value] for l in f.lines]] for f in g] for g in gs]


def groups_offset(t, k):
    """the groups of the numbered lines of `t` when they are numbered from k+1 (lines taken from further down a larger
    file), with k taken off again"""
    lines = [deb822.NumberedLine(number=l.number + k, value=l.value) for l in deb822.NumberedLine.lines_from_text(t)]
    return [[[n, [[num - k, v] for num, v in ls]] for n, ls in g] for g in groups_t(deb822.get_paragraphs_as_field_groups_from_lines(lines))]


_AB = Abandon()


def impl(fname, args):
    if fname == 'groups':
        _AB.before(deb822.get_paragraphs_as_field_groups, args[0])
        return call(lambda t: groups_t(deb822.get_paragraphs_as_field_groups(t)), *args)
    if fname == 'groups_offset':
        return call(groups_offset, *args)
    if fname == 'is_decl':
        return call(lambda s: bool(deb822.is_field_declaration(s)), *args)
    if fname == 'is_cont':
        return call(lambda s: bool(deb822.is_field_continuation(s)), *args)
    if fname == 'text_lines':
        return call(lambda t: [l.value for l in deb822.NumberedLine.lines_from_text(t)], *args)
    raise KeyError(fname)


_T = re.compile(r'\r\n|\n|\r')


def source_lines(t):
    """lines of a text file: LF, CRLF, CR end a line; a final terminator adds no line"""
    ls = _T.split(t)
    if ls and ls[-1] == '':
        ls.pop()
    return ls
