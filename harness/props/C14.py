"""C14 - dependency fields parse to exactly the structure they spell."""
from harness.common import Exn
from harness.gen import deps as G
from harness.gen.texts import all_strings
from harness.props import _deps
from harness import unicode_sweep

from debian_inspector import deps

impl = _deps.impl
ALPHA = ['a', '+', '(', ')', '[', ']', ' ', '\t', '\n', '<', '=', '>', '|', ',', '1', '!', ':']


def p_field(x):
    f, text, canonical = x
    try:
        r = _deps._quiet(deps.parse_depends, text)
    except Exception as e:  # noqa
        return 'parse_depends(%r) raises %s' % (text, type(e).__name__)
    if _deps.rel_tree(r) != G.tree(f):
        return 'parse_depends(%r) = %r, the field spells %r' % (text, _deps.rel_tree(r), G.tree(f))
    if str(r) != canonical:
        return 'str(parse(%r)) = %r, canonical spelling is %r' % (text, str(r), canonical)
    r2 = deps.parse_depends(str(r))
    if _deps.rel_tree(r2) != _deps.rel_tree(r) or r2 != r:
        return 'str form %r parses back to a different object' % str(r)
    for grp, want_g in zip(r.relationships, G.tree(f)[1]):
        try:
            a = deps.parse_alternatives(str(grp))
        except Exception as e:  # noqa
            return 'parse_alternatives(%r) raises %s' % (str(grp), type(e).__name__)
        if _deps.rel_tree(a) != want_g or a != grp:
            return 'parse_alternatives(%r) = %r, the group is %r' % (str(grp), _deps.rel_tree(a), want_g)
    if sorted(r.names) != G.names(f) or not isinstance(r.names, set):
        return 'names %r, mentioned %r' % (sorted(r.names), G.names(f))
    # reading the names of the whole field changes nothing about its members: each group and each alternative
    # still reports exactly the names it mentions, and the structure and the spelling are as before
    for g, grp in zip(f, r.relationships):
        want = sorted(set(a['name'] for a in g))
        if sorted(grp.names) != want:
            return 'after reading the names of the field, group %r reports names %r, it mentions %r' % (str(grp), sorted(grp.names), want)
        for a, alt in zip(g, getattr(grp, 'relationships', [grp])):
            if sorted(alt.names) != [a['name']]:
                return 'after reading the names of the field, alternative %r reports names %r' % (str(alt), sorted(alt.names))
    if sorted(r.names) != G.names(f) or _deps.rel_tree(r) != G.tree(f) or str(r) != canonical:
        return 'reading names changes the parsed field %r' % text
    # the documented second form of the argument, a list of strings (one per group) - and any other iterable of them
    parts = [str(g) for g in r.relationships]
    for how, arg in (('a list of strings', list(parts)), ('a tuple', tuple(parts)), ('an iterator', iter(list(parts))), ('a generator', (x for x in parts))):
        try:
            ra = deps.parse_depends(arg)
        except Exception as e:  # noqa
            return 'parse_depends(%s of the groups of %r) raises %s' % (how, text, type(e).__name__)
        if _deps.rel_tree(ra) != G.tree(f) or ra != r:
            return 'parse_depends(%s of the groups of %r) = %r' % (how, text, _deps.rel_tree(ra))
    # copies of the parsed field are the field: same structure, same spelling, equal; iterating it yields its members
    import copy
    import pickle
    for how, c in (('a deep copy', copy.deepcopy(r)), ('a shallow copy', copy.copy(r)), ('an unpickled copy', pickle.loads(pickle.dumps(r)))):
        if _deps.rel_tree(c) != G.tree(f) or str(c) != canonical or c != r or not (c == r):
            return '%s of the field parsed from %r is %r, printed %r' % (how, text, _deps.rel_tree(c), str(c))
    try:
        members = list(iter(r))
    except TypeError:
        members = None
    if members is not None and [_deps.rel_tree(m) for m in members] != G.tree(f)[1]:
        return 'iterating the field parsed from %r yields %r' % (text, [_deps.rel_tree(m) for m in members])
    # evaluating the field against candidate packages is looking at it: structure, spelling and equality stay
    for n in G.names(f)[:4] + ['zz']:
        for cand in (None, '1.0', '0:1.2', '9'):
            try:
                r.matches(n, cand)
            except Exception:  # noqa  (architecture restrictions are not evaluated)
                pass
    if _deps.rel_tree(r) != G.tree(f) or str(r) != canonical or r != r2 or _deps.rel_tree(deps.parse_depends(str(r))) != G.tree(f):
        return 'after the field was matched against candidates it is %r, printed %r; it was parsed from %r' % (_deps.rel_tree(r), str(r), text)
    # a caller changing what it got does not change what the next caller gets
    r.names.add('zz-added')
    try:
        r.relationships = ()
    except Exception:  # noqa
        pass
    r3 = _deps._quiet(deps.parse_depends, text)
    if _deps.rel_tree(r3) != G.tree(f) or sorted(r3.names) != G.names(f):
        return 'parse_depends(%r) after a caller changed an earlier result gives %r with names %r' % (text, _deps.rel_tree(r3), sorted(r3.names))
    return None


def big_field(total=200000, align=4096):
    """a field beyond 64 KiB in which the blank between two architecture names falls right before every multiple of 4096
    characters (package names padded to get there)"""
    f, parts, pos, i = [], [], 0, 0
    while pos < total:
        name = 'p%d' % i
        lead = len(name) + len(' [amd64 ')
        pad = (-(pos + lead)) % align
        if pad > 300:
            a = {'name': name, 'ver': ('>=', '1.%d' % i), 'archs': ['amd64', 'i386'] if i % 3 == 0 else []}
        else:
            a = {'name': name + 'x' * pad, 'ver': None, 'archs': ['amd64', 'i386', 'armhf']}
        item = G.render_alt(None, a, canonical=True)
        f.append([a])
        parts.append(item)
        pos += len(item) + 2
        i += 1
    return f, ', '.join(parts)


def p_bad(text):
    try:
        _deps._quiet(deps.parse_depends, text)
    except ValueError:
        return None
    except Exception as e:  # noqa
        return 'bad version clause %r raises %s instead of ValueError' % (text, type(e).__name__)
    return 'bad version clause %r is accepted' % text


def run(ctx):
    rng = ctx.rng
    unicode_sweep.sweep(ctx, ['is_space'])
    L = ctx.n(4, 5)
    small = list(all_strings(ALPHA, L))
    ctx.exhaustive.append('all %d strings of length <= %d over %r through the compiled relationship pattern'
                          % (len(small), L, ALPHA))
    bad = ctx.compare('corr:pattern', [('rel_expr_match', [s]) for s in small], impl)
    ops_small = list(all_strings(['<', '=', '>', 'a', ' ', '1'], ctx.n(6, 7)))
    ctx.exhaustive.append('all %d strings of length <= %d over < = > a space 1 through split_on_ops' % (len(ops_small), ctx.n(6, 7)))
    bad += ctx.compare('corr:split_on_ops', [('split_on_ops', [s]) for s in ops_small], impl)
    fields = [G.field(rng) for _ in range(ctx.n(6000, 80000))]
    cases = [(f, G.render(rng, f), G.render(rng, f, canonical=True)) for f in fields]
    texts = [c[1] for c in cases] + [c[2] for c in cases[:2000]]
    corrupted = [G.corrupt(rng, t) for t in texts[:ctx.n(4000, 60000)]]
    corrupted += [G.corrupt(rng, G.corrupt(rng, t)) for t in texts[:ctx.n(1000, 20000)]]
    allt = texts + corrupted + G.BAD_CLAUSES + small[:ctx.n(30000, 200000)]
    bad += ctx.compare('corr:parse_depends', [('parse_depends', [t]) for t in allt], impl, norm=_deps.norm_names)
    bad += ctx.compare('corr:parse_relationship', [('parse_relationship', [t]) for t in small[:ctx.n(30000, 200000)]], impl)

    fails = ctx.prop('prop:grammar', cases, p_field)
    bf, bt = big_field()
    fails += ctx.prop('prop:grammar:large', [(bf, bt, bt), (bf[:3000], ',\n '.join(bt.split(', ')[:3000]), ', '.join(bt.split(', ')[:3000]))], p_field)
    # one group of thousands of alternatives; one relationship with hundreds of architectures; names and versions of
    # hundreds of characters
    wide = [[{'name': 'alt%d' % i, 'ver': ('>=', '1.%d' % i) if i % 3 == 0 else None, 'archs': []} for i in range(3000)]]
    wide += [[{'name': 'many-archs', 'ver': ('<<', '2:3.0~rc1-1'), 'archs': ['!arch%d' % i for i in range(400)]}],
             [{'name': 'lib' + 'x' * 600 + '-dev', 'ver': ('=', '1.' + '9' * 700 + '-1'), 'archs': []}, {'name': 'z', 'ver': None, 'archs': ['amd64']}]]
    wt = G.render(rng, wide, canonical=True)
    fails += ctx.prop('prop:grammar:wide', [(wide, wt, wt), (wide, wt.replace(' | ', '\n |\t').replace(', ', ' ,\n '), wt)], p_field)
    fails += ctx.prop('prop:bad-clauses', G.BAD_CLAUSES + ['%s (%s)' % (rng.choice(G.NAMES), rng.choice(G.VERS)) for _ in range(200)]
                      + ['%s (%s)' % (rng.choice(G.NAMES), rng.choice(G.OPS)) for _ in range(200)]
                      + ['%s (%s %s %s %s)' % (rng.choice(G.NAMES), rng.choice(G.OPS), rng.choice(G.VERS), rng.choice(G.OPS), rng.choice(G.VERS)) for _ in range(200)],
                      p_bad)
    hist = {}
    for f in fields:
        k = '%d groups' % len(f)
        hist[k] = hist.get(k, 0) + 1
    ctx.stream('prop:grammar')['groups_histogram'] = hist
    fails.sort(key=lambda f: len(repr(f[0])))
    for x, why in fails[:10]:
        ctx.violation('property', 'C14 fails on the implementation: ' + why, x)
    if bad and not fails:
        bad.sort(key=lambda b: len(repr(b[0])))
        (fn, args), iv, mv = bad[0]
        ctx.violation('correspondence', 'model and implementation differ on %s%r: impl %r, model %r' % (fn, args, iv, mv),
                      [fn, args], expected=mv, observed=iv, found_input=False)
