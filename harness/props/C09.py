"""C09 - machine-readable copyright files are recognised paragraph by paragraph."""
from harness.common import call, Exn
from harness.gen import dep5 as G5
from harness.gen import texts as G
from harness.props import _copy

from debian_inspector import copyright as dc


def p_doc(x):
    doc, text = x
    try:
        c = dc.DebianCopyright.from_text(text)
    except Exception as e:  # noqa
        return 'raises %s' % type(e).__name__
    if len(c.paragraphs) != len(doc):
        return '%d paragraphs for a document of %d: %r' % (len(c.paragraphs), len(doc), text)
    for i, (p, a) in enumerate(zip(c.paragraphs, doc)):
        tname, fields, extra = G5.expected(a)
        if type(p).__name__ != tname:
            return 'paragraph %d is a %s, expected %s' % (i, type(p).__name__, tname)
        obs = _copy.para_obs(p)
        got = dict((k, v) for k, v in obs[4])
        if got != fields:
            diff = [(k, got.get(k), fields.get(k)) for k in fields if got.get(k) != fields.get(k)]
            return 'paragraph %d typed fields differ (field, got, expected): %r' % (i, diff[:3])
        if dict(obs[5]) != extra:
            return 'paragraph %d extra data %r, expected %r' % (i, dict(obs[5]), extra)
    want_valid = any(a['kind'] == 'files' for a in doc)
    before = [type(p).__name__ for p in c.paragraphs], c.to_dict()
    if bool(c.is_valid()) != want_valid:
        return 'is_valid() = %r for a document %s files paragraph' % (c.is_valid(), 'with a' if want_valid else 'without')
    after = [type(p).__name__ for p in c.paragraphs], c.to_dict()
    if after != before:
        return 'asking is_valid() changes the object: paragraph types %r become %r' % (before[0], after[0])
    return None


# texts that take the recovery paths (fold, merge, renaming): parsed between the documents so that any state kept
# across calls (caches, shared default objects) shows up as a wrong reading of a later well-formed document
POISON = ['Format: f\n\nLicense:\n\nfree text folded here\n\nFiles: *\n',
          'junk one\n\njunk two\n\nLicense:\n\nmore free words\n',
          'Files: *\nCopyright: x\nCopyright: y\nLicense: GPL\n t\nLicense: MIT\n',
          'License:\n\nUnknown: a\nUnknown: b\n\nFiles: a\n']


def p_doc_after_recovery(x):
    i, item = x
    try:
        dc.DebianCopyright.from_text(POISON[i % len(POISON)]).to_dict()
    except Exception as e:  # noqa
        return 'raises %s on a text that needs recovery' % type(e).__name__
    return p_doc(item)


def p_year(t):
    import string
    if any(ord(ch) > 127 for ch in t):
        return None      # the predicate on non-ASCII digits is not part of the statement
    want = bool(t) and all(ch.isdigit() or ch in string.punctuation + ' ' for ch in t) and any(ch.isdigit() for ch in t)
    got = bool(dc.is_year_range(t))
    if got != want:
        return 'is_year_range(%r) = %r' % (t, got)
    return None


def run(ctx):
    rng = ctx.rng
    docs = []
    G5.FIRST_MARKER = 0.1
    for i in range(ctx.n(5000, 60000)):
        d = G5.document(rng, with_files=(True if i % 3 == 0 else False if i % 3 == 1 else None))
        docs.append((d, G5.render(rng, d)))
    G5.FIRST_MARKER = 0.0
    G5.TAB_TEXT = True
    for i in range(ctx.n(400, 4000)):
        d = G5.document(rng)
        docs.append((d, G5.render(rng, d)))
    G5.TAB_TEXT = False
    # headers whose Format field comes last, after several thousand characters of other header fields
    for i in range(ctx.n(100, 1500)):
        d = G5.document(rng)
        d[0]['comment'] = [('N', G5.words(rng, 3, 8)) for _ in range(rng.choice([40, 80, 150]))]
        t = G5.render(rng, d)
        first, sep, rest = t.partition('\n\n')
        tail = first[len(first.rstrip('\n')):]
        ls = first.rstrip('\n').split('\n')
        fl = [l for l in ls if l.startswith('Format:')]
        if len(fl) == 1:
            ls.remove(fl[0])
            t = '\n'.join(ls + fl) + tail + sep + rest
        docs.append((d, t))
    fails = ctx.prop('prop:dep5', docs, p_doc)
    fails += [((f[0][1]), f[1] + ' (after parsing a text that takes a recovery path: state kept across calls?)')
              for f in ctx.prop('prop:dep5-after-recovery', list(enumerate(docs[:ctx.n(600, 6000)])), p_doc_after_recovery)]
    years = list(G.all_strings(['1', '9', '-', ',', ' ', 'a', '(', '٢', '²'], ctx.n(4, 5)))
    ctx.exhaustive.append('all %d strings of length <= %d over 1 9 - , space a ( and two non-ASCII digits through is_year_range' % (len(years), ctx.n(4, 5)))
    years += ['1' * n for n in (8, 16, 31, 32, 33, 63, 64, 65, 127, 128, 129, 255, 256, 257, 1000)] + [','.join(str(y) for y in range(1900, 1900 + n)) for n in (5, 6, 7, 8, 13, 26, 52, 120)]
    years += ['1999\u20132001', '\u00a92015', '\u00ab2007\u00bb', '2008\u2026', '2001\u2012', '1\u00a02', '\u2460', '2019\uff0c2020', '(\u0662\u0660\u0661\u0669)']
    years += ['1' * n + 'a' for n in (31, 32, 33, 64, 200)] + ['-' * n for n in (31, 32, 33, 64)]
    fails += ctx.prop('prop:year-range', years, p_year)
    texts = [t for _, t in docs]
    # the file route: texts that end in every way a file ends, and large ones with a line end on every block boundary
    import os
    fpath = os.path.join(ctx.scratch, 'copyright')
    small = [t for t in texts[:ctx.n(600, 6000)] if t.strip()]
    small += [t.rstrip('\n') for t in small[:200]] + [t.rstrip() + 'z' for t in small[:100]] + [t.replace('\n', '\r\n') for t in small[:100]]
    ff = ctx.prop('prop:file-route', [(fpath, t) for t in small + _copy.large_copyright_texts(rng, ctx.quick())], _copy.p_routes_agree)
    fails += [(f[0][1], f[1]) for f in ff]
    fails += ctx.prop('prop:observing-changes-nothing', texts[:ctx.n(700, 8000)], _copy.p_observe)
    mutated = [G.corrupt_doc(rng, t) for t in texts[:ctx.n(2500, 30000)]]
    bad = ctx.compare('corr:copyright', [('copyright_from_text', [t]) for t in texts + mutated], _copy.impl)
    bad += ctx.compare('corr:is_year_range', [('is_year_range', [t]) for t in years], _copy.impl)
    sts = [G5.st_text(G5.statement(rng)) for _ in range(3000)] + [' '.join(rng.choice(G5.YEARS + G5.NONYEARS + G5.HOLDERS + ['', ' ']) for _ in range(rng.randint(0, 4))) for _ in range(3000)]
    bad += ctx.compare('corr:statement', [('statement', [t]) for t in sts], _copy.impl)
    kinds = {}
    for d, _ in docs:
        k = ''.join(p['kind'][0] for p in d)
        kinds[k[:6]] = kinds.get(k[:6], 0) + 1
    ctx.stream('prop:dep5')['paragraph_kind_sequences_top'] = dict(sorted(kinds.items(), key=lambda kv: -kv[1])[:12])
    fails.sort(key=lambda f: len(repr(f[0][1])) if isinstance(f[0], tuple) else len(repr(f[0])))
    for x, why in fails[:10]:
        ctx.violation('property', 'C09 fails on the implementation: ' + why, x[1] if isinstance(x, tuple) else x)
    if bad and not ctx.violations:
        bad.sort(key=lambda b: len(repr(b[0])))
        (fn, args), iv, mv = bad[0]
        ctx.violation('correspondence', 'model and implementation differ on %s%r: impl %r, model %r' % (fn, args, iv, mv),
                      [fn, args], expected=mv, observed=iv, found_input=False)
