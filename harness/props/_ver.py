"""Implementation adapters and shared streams for the version properties."""
import re
import subprocess
import shutil

from harness.common import call, Exn, canon
from harness.gen import versions as V

from debian_inspector import version as dv
from debian_inspector.version import Version


def vt(v):
    return [v.epoch, v.upstream, v.revision]


def impl(fname, args):
    if fname == 'compare_strings':
        return call(dv.compare_strings, *args)
    if fname == 'compare_versions':
        return call(dv.compare_versions, *args)
    if fname == 'from_string':
        return call(lambda s: vt(Version.from_string(s)), *args)
    if fname == 'valid_version':
        return call(lambda s: bool(dv._is_valid_version(s)), *args)
    if fname == 'version_roundtrip':
        def f(s):
            v = Version.from_string(s)
            p = str(v)
            try:
                v2 = Version.from_string(p)
                r = [vt(v2), v == v2, str(v2)]
            except Exception as e:  # noqa
                r = Exn(type(e).__name__)
            return [vt(v), p, r]
        return call(f, *args)
    if fname == 'eval_constraint':
        return call(dv.eval_constraint, *args)
    if fname == 'version_ops':
        def f(a, b):
            va = Version.from_string(a)
            vb = Version.from_string(b)
            return [call(dv.compare_version_objects, va, vb), call(lambda: va < vb), call(lambda: va <= vb),
                    call(lambda: va > vb), call(lambda: va >= vb), va == vb]
        return call(f, *args)
    raise KeyError(fname)


def valid(s):
    try:
        Version.from_string(s)
        return True
    except Exception:  # noqa  (a wrong exception type is reported by the C03 statement, not here)
        return False


def version_pairs(ctx, n):
    rng = ctx.rng
    out = []
    while len(out) < n:
        a, b = V.pair(rng)
        out.append((a, b))
    return out


BOUNDARY = [b for b in ['1', '1-0', '0:1', '1.0', '1.00', '1.0-0', '1~0', '1~~0', '1~a', '1a', '1+0', '1.0.0', '1-1', '1a-~',
            '1:0', '2', '10', '9', '09', '1.0~rc1', '1.0-1', '1.0-1a', '1.0+b', '1-2-0', '1-2', '0:1-2-0', '1.a', '1.-a',
            '1-0~', '1~', '01', '1-00', '00:1', '1a-1~'] if valid(b)]


# digit runs beyond CPython's 4300-digit limit on int <-> str conversion: the version grammar has no length limit
# many components (a comparison that recurses once per component runs out of stack)
LONG = ['1' + '.0' * 1500, '1' + '.0' * 1500 + '.1', '1' + '.0' * 1499 + '~1', '2:1' + '-a.1' * 1200 + '-1', '1' + '.00' * 1500]
BIG = ['1.' + '9' * 4301, '1.' + '0' * 4301 + '7', '1.7', '1.8', '2:1-' + '5' * 4400, '2:1-' + '5' * 4399 + '6']
# equal epochs beyond the interpreter's small-integer cache
EPOCHS = ['300:1.0-1', '300:1.00-1', '300:1.0-2', '257:1', '257:1-0', '18446744073709551617:1', '18446744073709551617:1-00']
# the pairs handed to the model as well (each conversion of a 4300-digit run costs the extracted model about a second)
BIG_PAIRS = [(a, b) for a in LONG for b in LONG if valid(a) and valid(b)] + [(BIG[0], BIG[1]), (BIG[1], BIG[0]), (BIG[4], BIG[4]), (BIG[1], BIG[2]), (BIG[5], BIG[4])] + [(a, b) for a in EPOCHS for b in EPOCHS]


def dpkg_available():
    return shutil.which('dpkg') is not None


def dpkg_accepts(v):
    """dpkg itself keeps the epoch in a C int and rejects larger ones; the ordering rule has no such bound"""
    ep = v.partition(':')[0] if ':' in v else '0'
    return ep.isdigit() and int(ep) <= 2147483647


def dpkg_cmp(a, b):
    def t(op):
        return subprocess.run(['dpkg', '--compare-versions', a, op, b], stderr=subprocess.DEVNULL).returncode == 0
    if t('lt'):
        return -1
    if t('gt'):
        return 1
    return 0


def pickled_to_another_process(ctx, sample):
    """versions hashed here, pickled, and loaded by an interpreter with another hash seed: equal to and hashing like the
    versions parsed there from the same string and from their own printed form, found in its sets and dictionaries.
    Returns a list of (input, why)."""
    import os
    import pickle
    import subprocess
    import sys
    from debian_inspector.version import Version
    fails = []
    objs = [Version.from_string(x) for x in sample]
    _ = [hash(o) for o in objs], {o: 1 for o in objs}, sorted(objs), [str(o) for o in objs]
    pk = os.path.join(ctx.scratch, 'versions.pickle')
    with open(pk, 'wb') as f:
        pickle.dump((sample, objs), f)
    code = ('import pickle,sys\nfrom debian_inspector.version import Version\nsample, objs = pickle.load(open(sys.argv[1], "rb"))\n'
            'for s, o in zip(sample, objs):\n    v = Version.from_string(s)\n    w = Version.from_string(str(o))\n'
            '    ok = (o == v) and (o == w) and hash(o) == hash(v) and o in {v} and v in {o} and {o: 1}.get(v) == 1 and {w: 1}.get(o) == 1 and o.compare(v) == 0 and str(o) == str(v)\n'
            '    if not ok:\n        print(s)\n        break\n')
    env = dict(os.environ)
    env['PYTHONHASHSEED'] = '99'
    from harness import common as _c
    env['PYTHONPATH'] = os.path.join(_c.REPO, 'src')
    r = subprocess.run([sys.executable, '-c', code, pk], env=env, stdout=subprocess.PIPE, stderr=subprocess.PIPE, text=True, timeout=600)
    st = ctx.stream('prop:pickled-to-another-process')
    st['cases'] = len(sample)
    os.unlink(pk)
    if r.returncode != 0:
        fails.append((sample[:3], 'loading pickled versions in another interpreter raises: ' + r.stderr.strip()[-300:]))
    elif r.stdout.strip():
        st['prop_failures'] = 1
        fails.append((r.stdout.strip(), 'a version hashed, pickled and loaded by an interpreter with another hash seed is not equal to, or does not hash like, the same version parsed there (from the string or from its printed form)'))
    return fails
