"""C08 - the header-style control parser drops no content; duplicates merge losslessly."""
from harness.common import call, Exn
from harness.gen import texts as G
from harness.gen import docs as D
from harness.props import _debcon
from harness.props.C06 import emailish_text

from debian_inspector import debcon


def covered(w, data):
    for v in data.values():
        if w in v.split():
            return True
    if ':' in w:
        n, _, r = w.partition(':')
        k = n.lower()
        if k in data and (r == '' or r in data[k].split() or any(x.startswith(r) or r.startswith(x) for x in data[k].split()[:1])):
            return True
    return False


def p_lossless(t):
    try:
        paras = list(debcon.get_paragraphs_data(t))
        single = debcon.get_paragraph_data(t)
    except Exception as e:  # noqa
        return 'raises %s' % type(e).__name__
    for name, datas in (('get_paragraph_data', [single]), ('get_paragraphs_data', paras)):
        for d in datas:
            if not isinstance(d, dict) or any(not isinstance(k, str) or not isinstance(v, str) for k, v in d.items()):
                return '%s returns a non-mapping or non-string values: %r' % (name, d)
        allv = {}
        for d in datas:
            for k, v in d.items():
                allv[k] = allv.get(k, '') + ' ' + v
        for w in t.split():
            if not covered(w, allv):
                return 'word %r of the input is lost by %s: %r' % (w, name, datas)
    if t and t.strip() == t and 'PGP' not in t:
        d8 = debcon.Debian822(t).to_dict()
        if d8 != single:
            return 'Debian822(text).to_dict() %r differs from get_paragraph_data %r' % (d8, single)
    if t.strip() and 'PGP' not in t:
        # the same paragraph from an open file: the whole text reaches the parser; and looking at the object (rendering
        # it, printing it) leaves in it what was there
        import io
        o = debcon.Debian822(t)
        before = o.to_dict()
        f = debcon.Debian822(io.StringIO(t)).to_dict()
        if f != before:
            return 'Debian822(file object) gives %r, Debian822(text) gives %r' % (f, before)
        import os
        import tempfile
        fd, path = tempfile.mkstemp(suffix='.dsc')
        try:
            with os.fdopen(fd, 'w', encoding='utf-8', newline='') as fh:
                fh.write(t)
            # (a file is read with universal newlines: texts with carriage returns are left to the text route)
            g = debcon.get_paragraph_data_from_file(path) if '\r' not in t else single
            if g != single:
                return 'get_paragraph_data_from_file gives %r, get_paragraph_data on the same text %r' % (g, single)
            if not t.lstrip().startswith('-----BEGIN PGP') and '\r' not in t:
                g2 = debcon.Debian822.from_file(path).to_dict()
                if g2 != before:
                    return 'Debian822.from_file gives %r, Debian822(text) %r' % (g2, before)
            g3 = debcon.Debian822.from_string(t).to_dict()
            import textwrap
            if g3 != debcon.Debian822(textwrap.dedent(t).strip()).to_dict():
                return 'Debian822.from_string gives %r' % (g3,)
        finally:
            os.unlink(path)
        o.dumps(), repr(o), str(o), len(o), list(o)
        if o.to_dict() != before:
            return 'after rendering, the object holds %r, before it held %r' % (o.to_dict(), before)
    if t.strip() and not t.lstrip().startswith('-----BEGIN PGP SIGNED MESSAGE-----'):
        # no clear-sign envelope around the text: the mapping object must not lose words either
        try:
            d8 = debcon.Debian822(t).to_dict()
        except Exception as e:  # noqa
            return 'Debian822(text) raises %s' % type(e).__name__
        for w in t.split():
            if not covered(w, d8):
                return 'word %r of the input is lost by Debian822(text).to_dict(): %r' % (w, d8)
    return None


def p_big(t):
    """the losslessness statement for large texts (one pass over the words)"""
    try:
        paras = list(debcon.get_paragraphs_data(t))
    except Exception as e:  # noqa
        return 'raises %s' % type(e).__name__
    have = set()
    names = set()
    for d in paras:
        for k, v in d.items():
            names.add(k)
            have.update(v.split())
    for w in t.split():
        if w in have:
            continue
        n, c, r = w.partition(':')
        if c and n.lower() in names and (not r or r in have):
            continue
        return 'word %r of a text of %d characters (%d paragraphs returned, the last one %r) is lost by get_paragraphs_data' % (w, len(t), len(paras), paras[-1] if paras else None)
    return None


def big_texts(rng, sizes):
    """control texts of about the given numbers of characters: paragraphs of three or four short fields separated by one
    to three empty lines, ending with the last field line, with one newline, or with an empty line"""
    out = []
    for k, size in enumerate(sizes):
        parts, n, i = [], 0, 0
        while n < size:
            p = 'Package: p%d\nVersion: %d.%d-1\nDescription: w%d some words\n more w%dx words' % (i, i % 7, i, i, i)
            sep = '\n' * rng.randint(2, 4)
            parts.append(p + sep)
            n += len(p) + len(sep)
            i += 1
        t = ''.join(parts).rstrip('\n')
        out.append(t + ['', '\n', '\n\n'][k % 3])
    return out


def p_fresh(t):
    """every call returns its own mapping: what a caller does to one result (add, delete, overwrite) is not seen in
    the result of the next call on the same text, nor in the other paragraphs of one document"""
    try:
        d1 = debcon.get_paragraph_data(t)
        snap = dict(d1)
        d1['x-added'] = 'y'
        for k in list(d1)[:2]:
            d1[k] = 'overwritten'
        for k in list(d1)[:1]:
            del d1[k]
        d2 = debcon.get_paragraph_data(t)
        if dict(d2) != snap:
            return 'get_paragraph_data: changing the mapping returned by one call changes the next call: %r, first %r' % (dict(d2), snap)
        l1 = list(debcon.get_paragraphs_data(t + '\n\n' + t))
        snap = [dict(x) for x in l1]
        if l1:
            l1[0].clear()
            l1[0]['zz'] = '1'
            if [dict(x) for x in l1[1:]] != snap[1:]:
                return 'get_paragraphs_data: changing the first paragraph changes a later one'
        l2 = list(debcon.get_paragraphs_data(t + '\n\n' + t))
        if [dict(x) for x in l2] != snap:
            return 'get_paragraphs_data: changing a returned paragraph changes the next call: %r, first %r' % (l2, snap)
        if t.strip():
            o1 = debcon.Debian822(t)
            snap = o1.to_dict()
            for k in list(o1)[:1]:
                del o1[k]
            o1['zz'] = '1'
            if debcon.Debian822(t).to_dict() != snap:
                return 'Debian822(text): changing one object changes the next one built from the same text'
    except Exception as e:  # noqa
        return 'raises %s' % type(e).__name__
    return None


def embedded_signed(rng):
    """a well-formed clear-signed block with text before and/or after it: not an envelope around the whole text"""
    body = '\n'.join(G.words_line(rng) for _ in range(rng.randint(1, 3)))
    block = ('-----BEGIN PGP SIGNED MESSAGE-----\nHash: SHA512\n\n' + body +
             '\n-----BEGIN PGP SIGNATURE-----\n\niQEzBAEBCgAdFiEE\n=abcd\n-----END PGP SIGNATURE-----')
    pre = rng.choice(['', 'Package: x\n', 'intro words\n', 'a: 1\nb: 2\n'])
    post = rng.choice(['', '\ntrailing words', '\nc: 3', '\n'])
    if not pre and post in ('', '\n'):
        pre = 'lead: in\n'
    return pre + block + post


def dedupe(xs):
    out = []
    for x in xs:
        if x not in out:
            out.append(x)
    return out


def p_merge(items):
    text = '\n'.join('%s: %s' % (n, v) for n, v in items) + '\n'
    data = debcon.get_paragraph_data(text)
    keys = dedupe([n.lower() for n, _ in items])
    if list(data) != keys:
        return 'keys %r, expected first occurrences %r' % (list(data), keys)
    for k in keys:
        want = '\n'.join(dedupe([v for n, v in items if n.lower() == k]))
        if data[k] != want:
            return 'field %r merges to %r, expected %r (items %r)' % (k, data[k], want, items)
    return None


def p_merge_multiline(items):
    """values with continuation lines, possibly holding identical lines: what is stored under the first
    occurrence is its lines followed by every later value that is not one of the lines, newline-separated"""
    text = '\n'.join('%s: %s' % (n, v) for n, v in items) + '\n'
    data = debcon.get_paragraph_data(text)
    keys = dedupe([n.lower() for n, _ in items])
    if list(data) != keys:
        return 'keys %r, expected first occurrences %r' % (list(data), keys)
    for k in keys:
        vals = [v.strip() for n, v in items if n.lower() == k]
        lines = vals[0].splitlines() if len(vals) > 1 else None
        if lines is None:
            want = vals[0]
        else:
            for v in vals[1:]:
                if v not in lines:
                    lines.extend(v.splitlines() or [''])
            want = '\n'.join(lines)
        if data[k] != want:
            return 'field %r merges to %r, expected %r (items %r)' % (k, data[k], want, items)
    return None


def run(ctx):
    rng = ctx.rng
    texts = [emailish_text(rng) for _ in range(ctx.n(8000, 100000))]
    texts += [embedded_signed(rng) for _ in range(ctx.n(300, 3000))]
    texts += [G.control_text(rng) for _ in range(ctx.n(6000, 80000))]
    texts += [D.render(rng, D.document(rng)) for _ in range(ctx.n(2000, 30000))]
    texts += [G.unicode_text(rng, 40) for _ in range(ctx.n(1000, 20000))]
    texts += ['From foo\na: 1\n', 'a: 1\na: 2\na: 1\n', 'a: 1\n\nFrom x\nb: 2\n', 'a:1', 'A:b:c d\n', ':x\na: 1\n', ' c\na: 1\n']
    def whole_signed(t):
        return '-----BEGIN PGP SIGNED MESSAGE-----\nHash: SHA512\n\n' + t.rstrip('\n') + '\n-----BEGIN PGP SIGNATURE-----\nVersion: GnuPG v1\n\niQEzBAEBCgAdFiEE\n=abcd\n-----END PGP SIGNATURE-----\n'
    signed_docs = [whole_signed(D.render(rng, D.document(rng))) for _ in range(ctx.n(300, 3000))]

    def p_signed_paragraphs(t):
        """get_paragraphs_data on a text inside an envelope: the envelope lines are words of the text like any others"""
        try:
            paras = list(debcon.get_paragraphs_data(t))
        except Exception as e:  # noqa
            return 'raises %s' % type(e).__name__
        allv = {}
        for d in paras:
            for k, v in d.items():
                allv[k] = allv.get(k, '') + ' ' + v
        for w in t.split():
            if not covered(w, allv):
                return 'word %r of the input is lost by get_paragraphs_data: %r' % (w, paras)
        return None
    fails = ctx.prop('prop:lossless', texts, p_lossless)
    fails += ctx.prop('prop:lossless:inside-an-envelope', signed_docs, p_signed_paragraphs)
    # texts beyond 64 KiB, 1 MiB and 2 MiB that end in every way a file ends
    bigs = big_texts(rng, [70000, 70000, 70000, 300000, 300000, 1100000, 1100000, 1100000, 2200000, 2200000] + ([] if ctx.quick() else [5000000, 17000000, 17000000]))
    # one paragraph of thousands of fields; one field of thousands of continuation lines
    bigs.append('\n'.join('Field-%d: value%d w%d' % (i, i, i) for i in range(5000)) + '\n')
    bigs.append('Package: p\nDescription: syn\n' + '\n'.join(' line%d of the description' % i for i in range(20000)) + '\nVersion: 1\n')
    fails += ctx.prop('prop:lossless:large', bigs, p_big)
    # a text that happens to be the name of an existing file (absolute, or relative to the working directory) is a text
    # like any other: one word that is not a field
    import os
    named = []
    cwd = os.getcwd()
    try:
        os.chdir(ctx.scratch)
        for fn in ('control', 'README', 'copyright', 'x.dsc'):
            with open(os.path.join(ctx.scratch, fn), 'w') as f:
                f.write('Package: from-the-file\nVersion: 1\n')
            named += [fn, os.path.join(ctx.scratch, fn), './' + fn]
        fails += ctx.prop('prop:lossless:texts-that-name-files', named, p_lossless)
    finally:
        os.chdir(cwd)
        for fn in ('control', 'README', 'copyright', 'x.dsc'):
            try:
                os.unlink(os.path.join(ctx.scratch, fn))
            except OSError:
                pass
    fails += ctx.prop('prop:fresh-results', [t for t in texts if t.strip()][::max(1, len(texts) // ctx.n(3000, 30000))], p_fresh)
    # repeated names: all patterns of length <= 5 over 2 names x 2 values, then random
    import itertools
    pats = []
    atoms = [(n, v) for n in ('a', 'B') for v in ('1', '2')]
    for n in range(1, ctx.n(5, 6) + 1):
        pats += [list(p) for p in itertools.product(atoms, repeat=n)]
    ctx.exhaustive.append('all %d sequences of up to %d fields over names a/B and values 1/2' % (len(pats), ctx.n(5, 6)))
    for _ in range(ctx.n(3000, 40000)):
        names = rng.sample(['a', 'A', 'b', 'Foo', 'foo', 'X-y', 'unknown'], rng.randint(1, 3))
        vals = [G.words_line(rng) for _ in range(rng.randint(1, 3))]
        pats.append([(rng.choice(names), rng.choice(vals)) for _ in range(rng.randint(1, 8))])
    for size in (129, 130, 200, 300, 1100):
        vals = ['v%d' % i for i in range(size)]
        seq = [('Tag', v) for v in vals] + [('Tag', vals[0]), ('tag', vals[1]), ('TAG', vals[size // 2]), ('Tag', 'last')]
        pats.append(seq)
        pats.append([('a', '1')] + seq[:size // 2] + [('b', 'x'), ('Tag', vals[0])] + seq[size // 2:])
    pats = [[(n, ' '.join(v.split())) for n, v in p] for p in pats]
    fails += ctx.prop('prop:merge', pats, p_merge)
    mpats = []
    for _ in range(ctx.n(2000, 30000)):
        names = rng.sample(['Description', 'description', 'A', 'x-y'], rng.randint(1, 2))
        def mval():
            first = rng.choice(['syn', 'one two', 'x'])
            conts = [rng.choice([' .', ' a', ' b c', '  v', ' .']) for _ in range(rng.randint(0, 5))]
            return '\n'.join([first] + conts)
        mpats.append([(rng.choice(names), mval() if rng.random() < .7 else rng.choice(['syn', 'z', 'a'])) for _ in range(rng.randint(2, 5))])
    fails += ctx.prop('prop:merge-multiline', mpats, p_merge_multiline)
    bad = ctx.compare('corr:get_paragraph_data', [('get_paragraph_data', [t]) for t in texts], _debcon.impl)
    bad += ctx.compare('corr:get_paragraphs_data', [('get_paragraphs_data', [t]) for t in texts[:ctx.n(8000, 100000)]], _debcon.impl)
    bad += ctx.compare('corr:merge', [('get_paragraph_data', ['\n'.join('%s: %s' % kv for kv in p)]) for p in pats], _debcon.impl)
    fails.sort(key=lambda f: len(repr(f[0])))
    for x, why in fails[:20]:
        ctx.violation('property', 'C08 fails on the implementation: ' + why, x)
    if bad and not ctx.violations:
        bad.sort(key=lambda b: len(repr(b[0])))
        (fn, args), iv, mv = bad[0]
        ctx.violation('correspondence', 'model and implementation differ on %s%r: impl %r, model %r' % (fn, args, iv, mv),
                      [fn, args], expected=mv, observed=iv, found_input=False)
