"""C08 - the header-style control parser drops no content; duplicates merge losslessly."""
from harness.common import call, Exn
from harness.gen import texts as G
from harness.gen import docs as D
from harness.props import _debcon
from harness.props.C06 import emailish_text

from debian_inspector import debcon


def covered(w, data):
    for v in data.values():
        if w in v.split():
            return True
    if ':' in w:
        n, _, r = w.partition(':')
        k = n.lower()
        if k in data and (r == '' or r in data[k].split() or any(x.startswith(r) or r.startswith(x) for x in data[k].split()[:1])):
            return True
    return False


def p_lossless(t):
    try:
        paras = list(debcon.get_paragraphs_data(t))
        single = debcon.get_paragraph_data(t)
    except Exception as e:  # noqa
        return 'raises %s' % type(e).__name__
    for name, datas in (('get_paragraph_data', [single]), ('get_paragraphs_data', paras)):
        for d in datas:
            if not isinstance(d, dict) or any(not isinstance(k, str) or not isinstance(v, str) for k, v in d.items()):
                return '%s returns a non-mapping or non-string values: %r' % (name, d)
        allv = {}
        for d in datas:
            for k, v in d.items():
                allv[k] = allv.get(k, '') + ' ' + v
        for w in t.split():
            if not covered(w, allv):
                return 'word %r of the input is lost by %s: %r' % (w, name, datas)
    if t and t.strip() == t and 'PGP' not in t:
        d8 = debcon.Debian822(t).to_dict()
        if d8 != single:
            return 'Debian822(text).to_dict() %r differs from get_paragraph_data %r' % (d8, single)
    return None


def dedupe(xs):
    out = []
    for x in xs:
        if x not in out:
            out.append(x)
    return out


def p_merge(items):
    text = '\n'.join('%s: %s' % (n, v) for n, v in items) + '\n'
    data = debcon.get_paragraph_data(text)
    keys = dedupe([n.lower() for n, _ in items])
    if list(data) != keys:
        return 'keys %r, expected first occurrences %r' % (list(data), keys)
    for k in keys:
        want = '\n'.join(dedupe([v for n, v in items if n.lower() == k]))
        if data[k] != want:
            return 'field %r merges to %r, expected %r (items %r)' % (k, data[k], want, items)
    return None


def run(ctx):
    rng = ctx.rng
    texts = [emailish_text(rng) for _ in range(ctx.n(8000, 100000))]
    texts += [G.control_text(rng) for _ in range(ctx.n(6000, 80000))]
    texts += [D.render(rng, D.document(rng)) for _ in range(ctx.n(2000, 30000))]
    texts += [G.unicode_text(rng, 40) for _ in range(ctx.n(1000, 20000))]
    texts += ['From foo\na: 1\n', 'a: 1\na: 2\na: 1\n', 'a: 1\n\nFrom x\nb: 2\n', 'a:1', 'A:b:c d\n', ':x\na: 1\n', ' c\na: 1\n']
    fails = ctx.prop('prop:lossless', texts, p_lossless)
    # repeated names: all patterns of length <= 5 over 2 names x 2 values, then random
    import itertools
    pats = []
    atoms = [(n, v) for n in ('a', 'B') for v in ('1', '2')]
    for n in range(1, ctx.n(5, 6) + 1):
        pats += [list(p) for p in itertools.product(atoms, repeat=n)]
    ctx.exhaustive.append('all %d sequences of up to %d fields over names a/B and values 1/2' % (len(pats), ctx.n(5, 6)))
    for _ in range(ctx.n(3000, 40000)):
        names = rng.sample(['a', 'A', 'b', 'Foo', 'foo', 'X-y', 'unknown'], rng.randint(1, 3))
        vals = [G.words_line(rng) for _ in range(rng.randint(1, 3))]
        pats.append([(rng.choice(names), rng.choice(vals)) for _ in range(rng.randint(1, 8))])
    pats = [[(n, ' '.join(v.split())) for n, v in p] for p in pats]
    fails += ctx.prop('prop:merge', pats, p_merge)
    bad = ctx.compare('corr:get_paragraph_data', [('get_paragraph_data', [t]) for t in texts], _debcon.impl)
    bad += ctx.compare('corr:get_paragraphs_data', [('get_paragraphs_data', [t]) for t in texts[:ctx.n(8000, 100000)]], _debcon.impl)
    bad += ctx.compare('corr:merge', [('get_paragraph_data', ['\n'.join('%s: %s' % kv for kv in p)]) for p in pats], _debcon.impl)
    fails.sort(key=lambda f: len(repr(f[0])))
    for x, why in fails[:20]:
        ctx.violation('property', 'C08 fails on the implementation: ' + why, x)
    if bad and not ctx.violations:
        bad.sort(key=lambda b: len(repr(b[0])))
        (fn, args), iv, mv = bad[0]
        ctx.violation('correspondence', 'model and implementation differ on %s%r: impl %r, model %r' % (fn, args, iv, mv),
                      [fn, args], expected=mv, observed=iv, found_input=False)
