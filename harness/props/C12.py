"""C12 - blank lines inside multi-line values are recovered, not paragraph breaks."""
import itertools
from harness.gen import dep5 as G5
from harness.gen import docs as D
from harness.props import _copy, _d822

from debian_inspector import copyright as dc, deb822

BLANKS = ['', ' ', '  ', '\t', ' \t', '', ' ', '\xa0', '\x0c', ' \u3000', '\x0b ', '\u2003\t']


def eligible(lines):
    """positions of ' .' marker lines that are followed by a continuation line"""
    out = []
    for i, L in enumerate(lines[:-1]):
        if L.rstrip() == ' .' and L == ' .':
            nxt = lines[i + 1]
            if nxt[:1] in (' ', '\t') and nxt.strip():
                out.append(i)
    return out


def subsets(rng, elig, limit):
    """all subsets without two consecutive positions when few markers, random ones otherwise"""
    def ok(s):
        return all(b - a > 1 for a, b in zip(s, s[1:]))
    if len(elig) <= 6:
        allsubs = [list(s) for n in range(1, len(elig) + 1) for s in itertools.combinations(elig, n) if ok(s)]
        return allsubs[:limit]
    out = []
    for _ in range(limit):
        s = sorted(rng.sample(elig, rng.randint(1, len(elig))))
        s = [x for i, x in enumerate(s) if i == 0 or x - s[i - 1] > 1]
        out.append(s)
    return out


def words(v):
    return sorted(w for w in v.split() if w != '.') if isinstance(v, str) else []


def p_blank(x):
    text, S, blanks, strong = x
    lines = text.split('\n')
    new = list(lines)
    for i, b in zip(S, blanks):
        new[i] = b
    t2 = '\n'.join(new)
    try:
        g1 = _d822.groups_t(deb822.get_paragraphs_as_field_groups(text))
        g2 = _d822.groups_t(deb822.get_paragraphs_as_field_groups(t2))
        c1 = dc.DebianCopyright.from_text(text)
        c2 = dc.DebianCopyright.from_text(t2)
        k = (7, 1000, len(lines) + 3, 1)[len(text) % 4]
        g3 = _d822.groups_offset(t2, k)
    except Exception as e:  # noqa
        return 'raises %s' % type(e).__name__
    Sset = set(S)
    want = [[[n, [[num, ('' if (num - 1) in Sset else v)] for num, v in ls]] for n, ls in g] for g in g1]
    if g2 != want:
        return 'line-tracking parser: blanking markers %r changes more than their text: %r vs %r' % (S, g2, want)
    if g3 != g2:
        return 'the numbered lines of the text, numbered from %d, parse to other paragraphs (%r) than the text (%r)' % (k + 1, g3, g2)
    if [type(p).__name__ for p in c1.paragraphs] != [type(p).__name__ for p in c2.paragraphs]:
        return 'paragraph types change: %r vs %r' % ([type(p).__name__ for p in c1.paragraphs], [type(p).__name__ for p in c2.paragraphs])
    for p1, p2 in zip(c1.paragraphs, c2.paragraphs):
        d1, d2 = p1.to_dict(), p2.to_dict()
        if list(d1) != list(d2):
            return 'field names change: %r vs %r' % (list(d1), list(d2))
        for k in d1:
            if words(d1[k]) != words(d2[k]):
                return 'words of field %r change: %r vs %r' % (k, d1[k], d2[k])
        for k in (('license', 'comment', 'source', 'disclaimer') if strong else ()):
            f1, f2 = getattr(p1, k, None), getattr(p2, k, None)
            if f1 is not None and getattr(f1, 'text', None) != getattr(f2, 'text', None):
                return 'decoded %s text changes: %r vs %r' % (k, f1.text, f2.text)
    return None


def blanked_texts(cases):
    for text, S, blanks, _strong in cases:
        new = text.split('\n')
        for i, b in zip(S, blanks):
            new[i] = b
        yield '\n'.join(new)


def run(ctx):
    rng = ctx.rng
    cases = []
    markers = {}
    for _ in range(ctx.n(2500, 30000)):
        strong = rng.random() < .6
        if strong:
            # DEP-5 grammar: multi-line texts start with a normal line, so the decoded text is identical too
            text = G5.render(rng, G5.document(rng, maxp=3))
        else:
            text = D.render(rng, D.document(rng, maxp=3))
        lines = text.split('\n')
        el = eligible(lines)
        markers[min(len(el), 8)] = markers.get(min(len(el), 8), 0) + 1
        if not el:
            continue
        for S in subsets(rng, el, ctx.n(6, 20)):
            cases.append((text, S, [rng.choice(BLANKS) for _ in S], strong))
    ctx.exhaustive.append('all admissible subsets of the markers for documents with <= 6 eligible markers (capped per document)')
    # large documents (beyond 4096 lines) with a marker on every second or third line, all of them blanked: whatever
    # block size a reader uses, a boundary falls on a blanked marker (executable statement only, not handed to the model)
    from harness.gen import texts as G
    large = []
    for n, period, phase in [(9000, 2, 0), (9000, 2, 1), (9000, 3, 0), (9000, 3, 1), (9000, 3, 2), (20000, 2, 0), (20000, 2, 1)]:
        text = G.big_text(rng, n, period, phase)
        el = eligible(text.split('\n'))
        S = [x for i, x in enumerate(el) if i == 0 or x - el[i - 1] > 1]
        large.append((text, S, [rng.choice(BLANKS[:5]) for _ in S], False))
    # beyond 1 MiB, a marker exactly at the start of every block of 4096 characters
    text = G.aligned_text(rng, 1150000, 'marker-start', gaps=True)
    el = eligible(text.split('\n'))
    large.append((text, el, [rng.choice(BLANKS[:5]) for _ in el], False))
    # one value with thousands of markers, all blanked (and the same with a further field after it)
    for n in (600, 1500, 5000):
        body = []
        for i in range(n):
            body += [' line %d' % i, ' .']
        for tail in ([' end'], [' end', 'Comment: after', ' .', ' more']):
            text = '\n'.join(['Format: x', 'License: L'] + body + tail) + '\n'
            el = eligible(text.split('\n'))
            large.append((text, el, [rng.choice(BLANKS[:5]) for _ in el], False))
    fails = ctx.prop('prop:blanked-markers', cases, p_blank)
    fails += ctx.prop('prop:blanked-markers:large', large, p_blank)
    import os
    fpath = os.path.join(ctx.scratch, 'copyright')
    fails += [((f[0][1], [], [], False), f[1]) for f in ctx.prop('prop:blanked-markers:file-route', [(fpath, t) for t in dict.fromkeys(blanked_texts(cases[:ctx.n(800, 8000)])) if t.strip() and '\r' not in t], _copy.p_routes_agree)]
    ctx.stream('prop:blanked-markers')['eligible_markers_histogram'] = markers
    texts = []
    for text, S, blanks, _strong in cases[:ctx.n(4000, 50000)]:
        new = text.split('\n')
        for i, b in zip(S, blanks):
            new[i] = b
        texts.append('\n'.join(new))
    bad = ctx.compare('corr:groups', [('groups', [t]) for t in texts], _d822.impl)
    bad += ctx.compare('corr:copyright', [('copyright_from_text', [t]) for t in texts[:ctx.n(2000, 30000)]], _copy.impl)
    fails.sort(key=lambda f: len(f[0][0]))
    for x, why in fails[:10]:
        ctx.violation('property', 'C12 fails on the implementation: ' + why, list(x))
    if bad and not ctx.violations:
        bad.sort(key=lambda b: len(repr(b[0])))
        (fn, args), iv, mv = bad[0]
        ctx.violation('correspondence', 'model and implementation differ on %s%r: impl %r, model %r' % (fn, args, iv, mv),
                      [fn, args], expected=mv, observed=iv, found_input=False)
