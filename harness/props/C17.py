"""C17 - package file names round-trip; latest-version selection is a maximum."""
import itertools
import posixpath
from harness.common import call, Exn
from harness.gen import versions as V
from harness.gen.texts import all_strings
from harness.props import _ver

from debian_inspector import package
from debian_inspector.version import Version

NAMES = ['bash', 'libc6', 'g++', 'lib.so-x', 'python3.11', 'a', 'x+y', '0ad', 'apr-util', 'lib.tar.utils', 'x.orig', 'p.deb']
ARCHS = ['amd64', 'all', 'i386', 'arm64', 'kfreebsd-amd64']
DIRS = ['', '/', 'pool/main/b/bash/', '/var/cache/', 'a_b/', 'dir.deb/', './', 'x/y_z.w/']
BIN_EXT = ['.deb', '.udeb']
SRC_EXT = ['.dsc'] + ['%s.tar.%s' % (t, c) for t in ('.orig', '.debian') for c in ('gz', 'xz', 'bz2', 'lzma')]
META = ['_copyright', '_changelog']


def arch_t(a):
    return [a.name, _ver.vt(a.version), getattr(a, 'architecture', None), a.original_filename]


def impl(fname, args):
    if fname == 'deb_from_filename':
        return call(lambda f: arch_t(package.DebArchive.from_filename(f)), *args)
    if fname == 'code_from_filename':
        def f(p):
            a = package.CodeArchive.from_filename(p)
            b = package.CodeMetadata.from_filename(p)
            assert (a.name, a.version, a.original_filename) == (b.name, b.version, b.original_filename)
            return [a.name, _ver.vt(a.version), None, a.original_filename]
        return call(f, *args)
    if fname == 'splitext':
        return call(lambda p: list(posixpath.splitext(p)), *args)
    if fname == 'basename':
        return call(posixpath.basename, *args)
    if fname == 'find_latest_version':
        def f(fs):
            r = package.find_latest_version(list(fs))
            return None if r is None else arch_t(r)
        return call(f, *args)
    if fname == 'find_latest_versions':
        def f(fs):
            r = package.find_latest_versions(list(fs))
            return None if r is None else [[k, arch_t(v)] for k, v in r.items()]
        return call(f, *args)
    raise KeyError(fname)


def valid_versions(rng, n):
    out = []
    while len(out) < n:
        v = V.version(rng)
        if _ver.valid(v) and '_' not in v and '/' not in v:
            out.append(v)
    return out


def p_roundtrip(x):
    kind, d, n, v, a, e = x
    want_v = Version.from_string(v)
    if kind == 'bin':
        p = d + '%s_%s_%s%s' % (n, v, a, e)
        r = package.DebArchive.from_filename(p)
        got = (r.name, r.version, r.architecture, r.original_filename)
        want = (n, want_v, a, p)
    else:
        p = d + '%s_%s%s' % (n, v, e)
        cls = package.CodeMetadata if e in META or e == '.dsc' else package.CodeArchive
        r = cls.from_filename(p)
        got = (r.name, r.version, r.original_filename)
        want = (n, want_v, p)
        r2 = package.DebArchive.from_filename(p)
        if r2.architecture is not None:
            return '%r: architecture %r reported for a name without one' % (p, r2.architecture)
    if got != want:
        return '%r parses to %r, built from %r' % (p, got, want)
    return None


def p_reject(p):
    try:
        package.DebArchive.from_filename(p)
    except ValueError:
        try:
            package.CodeArchive.from_filename(p)
        except ValueError:
            return None
        except Exception as e:  # noqa
            return 'CodeArchive.from_filename(%r) raises %s' % (p, type(e).__name__)
        return 'CodeArchive accepts %r which DebArchive rejects' % p
    except Exception as e:  # noqa
        return 'from_filename(%r) raises %s, not ValueError' % (p, type(e).__name__)
    return 'file name %r should be rejected' % p


def p_latest(fs):
    r = package.find_latest_version(list(fs))
    ars = [package.DebArchive.from_filename(f) for f in fs]
    if r is None:
        return None if not fs else 'None for a non-empty list'
    if not any(r == a for a in ars) or r.original_filename not in fs:
        return 'result %r is not one of the inputs' % (r,)
    for a in ars:
        if a.version.compare(r.version) > 0:
            return 'input %s exceeds the selected %s' % (a.original_filename, r.original_filename)
    return None


def p_latest_per_name(fs):
    r = package.find_latest_versions(list(fs))
    ars = [package.DebArchive.from_filename(f) for f in fs]
    if r is None:
        return None if not fs else 'None for a non-empty list'
    if sorted(r) != sorted(set(a.name for a in ars)):
        return 'keys %r, names present %r' % (sorted(r), sorted(set(a.name for a in ars)))
    for n, sel in r.items():
        if sel.name != n or sel.original_filename not in fs:
            return 'selected %r for %r is not an input of that name' % (sel, n)
        for a in ars:
            if a.name == n and a.version.compare(sel.version) > 0:
                return 'for %r input %s exceeds the selected %s' % (n, a.original_filename, sel.original_filename)
    return None


def p_instances(fs):
    """the same selections when the packages are given as DebArchive instances - built field by field (no file name) or by
    from_filename - instead of file names"""
    for how in ('built field by field', 'from_filename'):
        parsed = [package.DebArchive.from_filename(f) for f in fs]
        if how == 'from_filename':
            ars = parsed
        else:
            ars = [package.DebArchive(name=a.name, version=a.version, architecture=a.architecture) for a in parsed]
        names = sorted(set(a.name for a in ars))
        try:
            r = package.find_latest_version(list(ars))
            if len(names) > 1:
                return 'instances (%s) of several names %r accepted by find_latest_version' % (how, names)
            if not any(r is a for a in ars):
                return 'instances (%s): the selected %r is not one of the inputs' % (how, r)
            for a in ars:
                if a.version.compare(r.version) > 0:
                    return 'instances (%s): input %s %s exceeds the selected %s' % (how, a.name, a.version, r.version)
        except ValueError:
            if len(names) == 1:
                return 'instances (%s) of one name raise ValueError' % how
        except Exception as e:  # noqa
            return 'instances (%s): find_latest_version raises %s' % (how, type(e).__name__)
        if len(names) == 1:
            # the ordering of the archives themselves (what sorted() and max() use) ranks by version
            try:
                import copy
                import pickle
                top = sorted(ars)[-1]
                top2 = max(ars)
                for a in ars:
                    if a.version.compare(top.version) > 0 or a.version.compare(top2.version) > 0:
                        return 'instances (%s): sorted()/max() put %s last, %s is later' % (how, top.version, a.version)
                a0 = ars[0]
                for hw, c in (('a deep copy', copy.deepcopy(a0)), ('an unpickled copy', pickle.loads(pickle.dumps(a0)))):
                    if c != a0 or c.version.compare(a0.version) != 0 or c.to_dict() != a0.to_dict() or (c.name, c.architecture, c.original_filename) != (a0.name, a0.architecture, a0.original_filename):
                        return 'instances (%s): %s of %r is %r' % (how, hw, a0, c)
            except Exception as e:  # noqa
                return 'instances (%s): sorting / copying archives raises %s' % (how, type(e).__name__)
        if len(names) == 1 and len(ars) > 1:
            # an archive that took part in a selection and whose version is assigned afterwards is ranked by its new version
            try:
                from debian_inspector.version import Version
                mine = [package.DebArchive(name=a.name, version=a.version, architecture=a.architecture) for a in parsed]
                package.find_latest_version(list(mine))
                sorted(mine)
                low = mine[0]
                low.version = Version.from_string('9' * 40 + ':1')
                r2 = package.find_latest_version(list(mine))
                if r2 is not low:
                    return 'instances (%s): after one archive was given an epoch of forty nines the selection is %s %s' % (how, r2.name, r2.version)
            except Exception as e:  # noqa
                return 'instances (%s): selecting again after a version was assigned raises %s' % (how, type(e).__name__)
        try:
            rs = package.find_latest_versions(list(ars))
        except Exception as e:  # noqa
            return 'instances (%s): find_latest_versions raises %s' % (how, type(e).__name__)
        if sorted(rs) != names:
            return 'instances (%s): keys %r, names present %r' % (how, sorted(rs), names)
        for n, sel in rs.items():
            if sel.name != n or not any(sel is a for a in ars):
                return 'instances (%s): selected %r for %r is not an input of that name' % (how, sel, n)
            for a in ars:
                if a.name == n and a.version.compare(sel.version) > 0:
                    return 'instances (%s): for %r input version %s exceeds the selected %s' % (how, n, a.version, sel.version)
    return None


def p_mixed(fs):
    names = set(package.DebArchive.from_filename(f).name for f in fs)
    if len(names) < 2:
        return None
    try:
        package.find_latest_version(list(fs))
    except ValueError:
        return None
    except Exception as e:  # noqa
        return 'mixed names raise %s' % type(e).__name__
    return 'mixed names %r accepted by find_latest_version' % sorted(names)


def run(ctx):
    rng = ctx.rng
    vers = valid_versions(rng, ctx.n(300, 3000)) + [b for b in _ver.BOUNDARY if '_' not in b] + ['1.0.tar.2', '1.0.orig.tar.1', '2.tar.gz1', '1.dsc', '1.0.deb.1', '1.0.debian', '1.0.orig', '2.orig.debian', '1.debian.orig', '1.0+debian', '3.deb', '1.0.tar']
    cases = []
    for _ in range(ctx.n(6000, 80000)):
        n, v, d = rng.choice(NAMES), rng.choice(vers), rng.choice(DIRS)
        k = rng.random()
        if k < .45:
            cases.append(('bin', d, n, v, rng.choice(ARCHS), rng.choice(BIN_EXT)))
        elif k < .8:
            cases.append(('src', d, n, v, None, rng.choice(SRC_EXT)))
        else:
            cases.append(('meta', d, n, v, None, rng.choice(META)))
    for e in BIN_EXT:
        for v in _ver.BOUNDARY:
            cases.append(('bin', '', 'p', v, 'all', e))
    for e in SRC_EXT + META:
        for v in _ver.BOUNDARY:
            cases.append(('src', 'd/', 'p', v, None, e))
    for n in (200, 230, 255, 300, 1000):
        cases.append(('bin', 'pool/', 'p', '1.' + '7' * n + '-1', 'amd64', '.deb'))
        cases.append(('src', '', 'lib' + 'x' * n, '2:1.0~rc1-1', None, '.dsc'))
        cases.append(('src', 'd/', 'p', '1.' + '0' * n + 'a', None, '.orig.tar.gz'))
    ctx.exhaustive.append('every extension/suffix x every boundary version')
    fails = ctx.prop('prop:roundtrip', cases, p_roundtrip)

    def path_of(c):
        kind, d, n, v, a, e = c
        return d + ('%s_%s_%s%s' % (n, v, a, e) if kind == 'bin' else '%s_%s%s' % (n, v, e))
    paths = [path_of(c) for c in cases]
    rejects = []
    for p in paths[:ctx.n(1500, 20000)]:
        rejects += [p + 'x', p.replace('_', '-'), p.replace('_', '__', 1), p + '_1', p.rsplit('.', 1)[0], p.replace('.tar.', '.tgz.'),
                    p.replace('.orig', '.origin').replace('.debian', '.deb1an') if '.tar.' in p else p + '.txt',
                    p.replace('_', '_!', 1), 'a_b_c_d.deb', p.upper() if not p.isupper() else p + '~']
    rejects += ['.deb', '_copyright', 'a.deb', 'a_.deb', '_1.deb', 'a_1_.tar.gz', 'a_1.tar.gz', 'a_1.orig.tar.zst', 'a_b_c_copyright_x',
                '', 'a_1.diff.gz', 'a_1_all.deb.', 'a_1:2:3_all.deb', 'a_١_all.deb',
                # more than three underscore-separated parts
                'zlib1g_1.2.11-1_amd64_signed.deb', 'zlib_1.2.11_2_3.dsc', 'a_1_b_c.deb', 'a_1_2_3_4.udeb', 'a_1_all_x_copyright', 'd/a_1_b_c.orig.tar.gz']
    for _ in range(ctx.n(200, 2000)):
        n, v = rng.choice(NAMES), rng.choice(vers)
        rejects.append('%s_%s_%s_%s%s' % (n, v, rng.choice(ARCHS), rng.choice(['signed', 'x', '1', 'all']), rng.choice(BIN_EXT)))
    # the version part written as other tools store or display it: percent-encoded (apt cache), full-width or
    # look-alike punctuation, surrounding blanks, a leading "v"
    for pth in paths[:ctx.n(3000, 30000)]:
        for a, bs in ((':', ['%3a', '%3A', '%3a ', '\uff1a', ';', '::']), ('~', ['%7e', '%7E', '\u02dc']), ('+', ['%2b', '%2B', ' '])):
            if a in pth.rsplit('/', 1)[-1]:
                b0 = pth.rsplit('/', 1)[-1]
                d0 = pth[:len(pth) - len(b0)]
                for b in bs:
                    rejects.append(d0 + b0.replace(a, b))
                    rejects.append(d0 + b0.replace(a, b, 1))
    rejects = [r for r in rejects if not _accepts(r)] if False else rejects
    should_reject = [r for r in rejects if not _policy_ok(r)]
    fails += ctx.prop('prop:reject', should_reject, p_reject)

    # correspondence
    small = list(all_strings(['a', '1', '_', '.', '/', 'd', 'e', 'b'], ctx.n(5, 6)))
    pool = paths + rejects + [s + '.deb' for s in small] + [s + '_copyright' for s in small[:5000]] + \
        [s + '.orig.tar.gz' for s in small[:5000]] + small[:5000]
    ctx.exhaustive.append('all %d strings of length <= %d over a 1 _ . / d e b, with .deb appended' % (len(small), ctx.n(5, 6)))
    bad = ctx.compare('corr:deb_from_filename', [('deb_from_filename', [p]) for p in pool], impl)
    bad += ctx.compare('corr:code_from_filename', [('code_from_filename', [p]) for p in paths + rejects[:3000]], impl)
    bad += ctx.compare('corr:splitext', [('splitext', [s.replace('/', '')]) for s in small], impl)

    # lists
    lists = []
    same = []
    vs_small = ['1.0', '1.00', '0:1.0', '1.0-0', '2~', '2~a', '2', '1:0.1', '1.0-1', '10', '9']
    vs_small = [v for v in vs_small if _ver.valid(v)]
    for _ in range(ctx.n(2500, 40000)):
        n = rng.choice(NAMES)
        k = rng.randint(1, 12)
        src = vs_small if rng.random() < .6 else vers
        fs = [rng.choice(['', 'd/']) + '%s_%s_%s.deb' % (n, rng.choice(src), rng.choice(ARCHS[:3])) for _ in range(k)]
        same.append(fs)
    for perm in itertools.permutations(['p_1.0_all.deb', 'p_1.00_all.deb', 'p_0:1.0-0_all.deb', 'p_2~a_all.deb', 'p_1.0_amd64.deb'], 5):
        same.append(list(perm))
    ctx.exhaustive.append('all permutations of 5 file names with order-equal versions')
    mixed = []
    for _ in range(ctx.n(2500, 40000)):
        k = rng.randint(1, 12)
        ns = rng.sample(NAMES, rng.randint(1, 3))
        mixed.append([rng.choice(['', '', 'a/', 'z/', 'pool/m/']) + '%s_%s_%s.deb' % (rng.choice(ns), rng.choice(vs_small), rng.choice(ARCHS[:2])) for _ in range(k)])
    fails += ctx.prop('prop:latest-is-maximum', same, p_latest)
    fails += ctx.prop('prop:latest-per-name', same[:2000] + mixed, p_latest_per_name)
    fails += ctx.prop('prop:mixed-names', mixed, p_mixed)
    fails += ctx.prop('prop:instances', same[:ctx.n(1500, 15000)] + mixed[:ctx.n(1500, 15000)], p_instances)
    # long lists (beyond 4096 and 65536 entries): few names, each spread over the whole list, the maximum anywhere
    longs = []
    for size in [5000, 9000, 70000] + ([] if ctx.quick() else [300000]):
        ns = rng.sample(NAMES, 3)
        fs = ['%s_%d.%d-%d_all.deb' % (rng.choice(ns), rng.randint(0, 40), rng.randint(0, 99), rng.randint(0, 9)) for _ in range(size)]
        for j, n in enumerate(ns):
            fs[rng.choice([0, size // 3, 4095, 4096, size - 1]) - j] = '%s_41.%d_all.deb' % (n, j)      # the maximum of each name
        longs.append(fs)
        longs.append([f for f in fs if f.startswith(ns[0] + '_')])
    fails += [(f[0][:3] + ['... %d file names' % len(f[0])], f[1]) for f in ctx.prop('prop:latest-per-name:long', longs, p_latest_per_name)]
    fails += [(f[0][:3] + ['... %d file names' % len(f[0])], f[1]) for f in ctx.prop('prop:latest-is-maximum:long', longs[1::2], p_latest)]
    bad += ctx.compare('corr:find_latest_version', [('find_latest_version', [l]) for l in same + mixed[:2000] + [[]]], impl)
    bad += ctx.compare('corr:find_latest_versions', [('find_latest_versions', [l]) for l in mixed + same[:2000] + [[]]], impl)

    fails.sort(key=lambda f: len(repr(f[0])))
    for x, why in fails[:10]:
        ctx.violation('property', 'C17 fails on the implementation: ' + why, x)
    if bad and not fails:
        bad.sort(key=lambda b: len(repr(b[0])))
        (fn, args), iv, mv = bad[0]
        ctx.violation('correspondence', 'model and implementation differ on %s%r: impl %r, model %r' % (fn, args, iv, mv),
                      [fn, args], expected=mv, observed=iv, found_input=False)


KNOWN_EXT = ('.deb', '.udeb', '.dsc')
KNOWN_SUF = ('_changelog', '_copyright')
KNOWN_TAR = tuple('%s.tar.%s' % (t, c) for t in ('.orig', '.debian') for c in ('gz', 'xz', 'bz2', 'lzma'))


def _policy_ok(p):
    """independent reading of the property: recognised extension/suffix, 2 or 3 parts, valid version"""
    b = p.rsplit('/', 1)[-1]
    stem = None
    for e in KNOWN_EXT:
        if b.endswith(e):
            stem = b[:-len(e)]
    if stem is None:
        for e in KNOWN_SUF:
            if b.endswith(e):
                stem = b[:-len(e)]
    if stem is None:
        for e in KNOWN_TAR:
            if b.endswith(e):
                stem = b[:-len(e)]
    if stem is None:
        return False
    parts = stem.split('_')
    if len(parts) not in (2, 3):
        return False
    return _ver.valid(parts[1])


def _accepts(p):
    return False
