#!/venv/bin/python
"""Writes /verif/MANIFEST.json from harness/registry.py and properties.jsonl."""
import json
import os
import sys
sys.path.insert(0, os.path.dirname(os.path.dirname(os.path.abspath(__file__))))
from harness.registry import CHECKS, NOT_BUILT  # noqa

V = os.path.dirname(os.path.dirname(os.path.abspath(__file__)))
ids = [json.loads(l)['id'] for l in open(os.path.join(V, 'properties.jsonl'))]
BASE = json.load(open('/root/.vp/BASELINE.json'))['cmd'] if os.path.exists('/root/.vp/BASELINE.json') else \
    'cd /repo && /venv/bin/python -m pytest -ra -q -p no:cacheprovider --timeout=900 --continue-on-collection-errors --junitxml=<file>'
m = {
    'version': 1,
    'setup_cmd': './setup.sh',
    'hooks': {
        'guard': 'NEXB_DEBIAN_INSPECTOR_VERIF',
        'enable': 'no instrumentation of /repo is needed: the checks observe return values and exception classes of '
                  'public functions and module-level compiled patterns imported from /repo/src (PYTHONPATH), so the '
                  'guard has no source commits',
        'baseline_off_cmd': BASE,
        'source_commits': [],
        'add_only': True,
    },
    'engines': [{
        'name': 'rocq-model-correspondence',
        'path': 'harness/check.py',
        'serves_properties': sorted(CHECKS),
        'kind_free_text': 'Coq 8.16.1 development (coq/) with property theorems, extracted OCaml model driver '
                          '(ocaml/), Python correspondence harness (harness/)',
    }],
    'checks': [],
    'not_applicable': [],
    'notes': 'See DESIGN.md. known_findings.json lists genuine defects recorded or fixed.',
}
for pid in ids:
    if pid in CHECKS:
        c = CHECKS[pid]
        m['checks'].append({
            'property_id': pid,
            'quick_cmd': '/venv/bin/python harness/check.py %s --tier quick' % pid,
            'thorough_cmd': '/venv/bin/python harness/check.py %s --tier thorough' % pid,
            'evidence_file': '/verif/evidence/%s.json' % pid,
            'replay_cmd_template': '/venv/bin/python harness/check.py %s --replay {path}' % pid,
            'engine': 'rocq-model-correspondence',
            'level_claimed': {'category': 'proof', 'text': c['text'], 'design_ref': 'DESIGN.md section ' + c['ref']},
            'level_note': c['note'],
            'technique': c['technique'],
        })
    else:
        m['not_applicable'].append({'property_id': pid, 'reason': NOT_BUILT})
json.dump(m, open(os.path.join(V, 'MANIFEST.json'), 'w'), indent=1)
print('MANIFEST.json: %d checks, %d not_applicable' % (len(m['checks']), len(m['not_applicable'])))
