#!/venv/bin/python
"""env_probe.py <sample.json> <out.json>: evaluate remembered implementation requests in THIS process - started by
check.py under another environment (hash seed, -O, C locale, other working directory) - and write the answers."""
import importlib
import json
import os
import sys

sys.path.insert(0, os.path.dirname(os.path.dirname(os.path.abspath(__file__))))
if os.environ.get('VERIF_PROBE_LINESEP') == 'crlf':
    # what a module sees at import time on a platform whose line separator is CR LF
    os.linesep = '\r\n'


def resolve(mod, qual):
    o = importlib.import_module(mod)
    for part in qual.split('.'):
        o = getattr(o, part)
    return o


def main():
    items = json.load(open(sys.argv[1]))
    out = []
    for mod, qual, nmod, nqual, fname, args in items:
        try:
            impl = resolve(mod, qual)
            norm = resolve(nmod, nqual) if nmod else None
            iv = impl(fname, args)
            out.append(repr(norm(iv) if norm else iv))
        except Exception as e:  # noqa
            out.append('probe-error %s: %s' % (type(e).__name__, e))
    json.dump(out, open(sys.argv[2], 'w'))


if __name__ == '__main__':
    main()
