#!/venv/bin/python
"""env_probe.py <sample.json> <out.json>: evaluate remembered implementation requests in THIS process - started by
check.py under another environment (hash seed, -O, C locale, other working directory) - and write the answers."""
import importlib
import json
import os
import sys

sys.path.insert(0, os.path.dirname(os.path.dirname(os.path.abspath(__file__))))
if os.environ.get('VERIF_PROBE_LINESEP') == 'crlf':
    # what a module sees at import time on a platform whose line separator is CR LF
    os.linesep = '\r\n'


if os.environ.get('VERIF_PROBE_CLOCK'):
    # a machine whose clock reads another year (set before the library is imported): nothing the library computes from a
    # text depends on today's date
    import datetime as _dt
    import time as _time
    _year = int(os.environ['VERIF_PROBE_CLOCK'])
    _epoch = (_dt.datetime(_year, 1, 1) - _dt.datetime(1970, 1, 1)).total_seconds()
    _real_time = _time.time
    _t0 = _real_time()

    def _now():
        return _epoch + (_real_time() - _t0)

    class _Date(_dt.date):
        @classmethod
        def today(cls):
            return cls.fromtimestamp(_now())

    class _DateTime(_dt.datetime):
        @classmethod
        def now(cls, tz=None):
            return cls.fromtimestamp(_now(), tz)

        @classmethod
        def utcnow(cls):
            return cls.utcfromtimestamp(_now())

        @classmethod
        def today(cls):
            return cls.fromtimestamp(_now())
    _dt.date, _dt.datetime = _Date, _DateTime
    _time.time = _now
    _real_lt, _real_gm = _time.localtime, _time.gmtime
    _time.localtime = lambda secs=None: _real_lt(_now() if secs is None else secs)
    _time.gmtime = lambda secs=None: _real_gm(_now() if secs is None else secs)
    _real_strftime = _time.strftime
    _time.strftime = lambda fmt, t=None: _real_strftime(fmt, _time.localtime() if t is None else t)


def resolve(mod, qual):
    o = importlib.import_module(mod)
    for part in qual.split('.'):
        o = getattr(o, part)
    return o


def one(item):
    mod, qual, nmod, nqual, fname, args = item
    try:
        impl = resolve(mod, qual)
        norm = resolve(nmod, nqual) if nmod else None
        iv = impl(fname, args)
        return repr(norm(iv) if norm else iv)
    except Exception as e:  # noqa
        return 'probe-error %s: %s' % (type(e).__name__, e)


def main():
    items = json.load(open(sys.argv[1]))
    if os.environ.get('VERIF_PROBE_LOGGING') == 'debug':
        # an application that turns on debug logging for everything (messages discarded)
        import logging
        logging.basicConfig(level=logging.DEBUG, stream=open(os.devnull, 'w'))
        logging.getLogger().setLevel(logging.DEBUG)
    nthreads = int(os.environ.get('VERIF_PROBE_THREADS', '0') or 0)
    if nthreads:
        # the same requests answered by several threads at once, each starting elsewhere in the list, with the
        # interpreter switching threads as often as it can: every thread must get the answers of a lone caller
        import threading
        sys.setswitchinterval(1e-6)
        for it in items[:1]:
            one(it)         # imports done before the threads start
        results = [None] * nthreads

        def work(k):
            n = len(items)
            order = [(i + k * n // nthreads) % n for i in range(n)]
            res = [None] * n
            for i in order:
                res[i] = one(items[i])
            results[k] = res
        ts = [threading.Thread(target=work, args=(k,)) for k in range(nthreads)]
        for t in ts:
            t.start()
        for t in ts:
            t.join()
        out = list(results[0])
        for res in results[1:]:
            for i, r in enumerate(res):
                if r != out[i] and not out[i].startswith('thread-difference'):
                    out[i] = 'thread-difference %s | %s' % (out[i], r)
    else:
        out = [one(it) for it in items]
    json.dump(out, open(sys.argv[2], 'w'))


if __name__ == '__main__':
    main()
