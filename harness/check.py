#!/venv/bin/python
"""check.py Cxx [--tier quick|thorough] [--replay file]

Decides one property: re-checks its theorem file (Print Assumptions must report
nothing), runs the correspondence between the Gallina model and the Python
implementation imported from /repo/src, and evaluates the executable statement
of the property on the implementation.  Exit 0 = held on everything explored;
exit 1 + 'VIOLATION property=<id> replay=<path>' otherwise."""
import argparse
import importlib
import json
import os
import sys

sys.path.insert(0, os.path.dirname(os.path.dirname(os.path.abspath(__file__))))
from harness import common  # noqa: E402


def main():
    ap = argparse.ArgumentParser()
    ap.add_argument('pid')
    ap.add_argument('--tier', default=os.environ.get('VERIF_TIER', 'quick'))
    ap.add_argument('--replay')
    a = ap.parse_args()
    tier = a.tier if a.tier in ('quick', 'thorough') else 'quick'
    seed = int(os.environ.get('VERIF_SEED', '20260930'))
    pid = a.pid
    mod = importlib.import_module('harness.props.' + pid)
    ctx = common.Ctx(pid, tier, seed)

    ok, log = common.build()
    if not ok:
        ctx.violation('build', 'the Coq development or the extracted driver does not build: ' + log[-1500:],
                      None, found_input=False)
        return ctx.finish({'theorems': [], 'ok': False})
    bad = common.scan_forbidden()
    thm = common.check_theorems(pid)
    if bad:
        thm['ok'] = False
        thm['errors'].append('forbidden declarations: ' + '; '.join(bad[:10]))
    if tier == 'thorough' and thm['ok']:
        chk = common.coqchk(pid)
        thm['coqchk'] = chk
        ctx.notes.append('coqchk -o on DI.%s and all it depends on: axioms %s (%ss)' % (pid, chk.get('axioms'), chk.get('seconds')))
        if not chk['ok']:
            thm['ok'] = False
            thm['errors'].append('coqchk: ' + str(chk.get('error') or chk.get('axioms')))

    if a.replay:
        rep = json.load(open(a.replay))
        rc = mod.replay(ctx, rep) if hasattr(mod, 'replay') else None
        if rc is None:
            print('replay: re-running the full check with seed %s' % rep.get('seed'))
        else:
            return ctx.finish(thm)

    # a change that makes the implementation use memory or time without bound must end in a verdict, not in a process
    # killed from outside: the address space of this process (and of what it starts) is capped, and the whole run has a
    # deadline; MemoryError inside a call of the implementation is an exception like any other (a failing input)
    import resource
    import signal
    cap = int(os.environ.get('VERIF_MEMORY_CAP_GB', '16')) * 1024 ** 3
    try:
        soft, hard = resource.getrlimit(resource.RLIMIT_AS)
        resource.setrlimit(resource.RLIMIT_AS, (cap if hard == resource.RLIM_INFINITY else min(cap, hard), hard))
    except (ValueError, OSError):
        pass

    class Deadline(Exception):
        pass

    def on_alarm(signum, frame):
        raise Deadline('no verdict within %d s' % limit)
    limit = int(os.environ.get('VERIF_DEADLINE_S', '3000' if tier == 'quick' else '36000'))
    signal.signal(signal.SIGALRM, on_alarm)
    signal.alarm(limit)
    try:
        mod.run(ctx)
        signal.alarm(0)
    except Exception as e:  # noqa
        signal.alarm(0)
        # the machinery met behaviour of the implementation it cannot interpret: the property is no longer
        # shown to hold; report it rather than die without a verdict
        import traceback
        tb = traceback.format_exc()
        ctx.violation('harness', 'the check could not be completed: %s: %s (%s)' % (type(e).__name__, e, tb.strip().split('\n')[-3].strip()[:200]),
                      None, found_input=False)
        return ctx.finish(thm)

    # the same input must give the same answer: asked again at the end of the run, and in fresh interpreters under other
    # environments.  Also tried when only a disagreement with the model was found so far: a failing input of this kind
    # explains the disagreement better than the disagreement itself, and is reported first.
    if not any(v['kind'] != 'correspondence' for v in ctx.violations):
        before = len(ctx.violations)
        rep = ctx.ask_again()
        if rep:
            name, req, first, got = rep
            ctx.violation('property', '%s fails on the implementation: %s%r answered %s the first time and %s when asked again at the end of the '
                          'run: the result is not a function of the input' % (pid, req[0], tuple(req[1]), first[:300], got[:300]), [req[0], req[1]])
        else:
            rep = ctx.other_environments()
            if rep:
                vname, req, first, got = rep
                ctx.violation('property', '%s fails on the implementation: %s%r answers %s in this process and %s in a fresh interpreter under '
                              '%s: the result depends on the environment' % (pid, req[0], tuple(req[1]), first[:300], got[:300], vname),
                              [req[0], req[1], vname])
        if len(ctx.violations) > before and before:
            ctx.violations.insert(0, ctx.violations.pop())

    n, err = ctx.model.coq_crosscheck(ctx.all_requests)
    ctx.notes.append('extraction cross-check: %d requests re-evaluated by vm_compute inside Coq' % n)
    if err:
        ctx.violation('extraction', 'extracted driver and vm_compute disagree: ' + err, None, found_input=False)

    if not thm['ok']:
        # a proof obligation no longer checks: the property is not shown to hold
        ctx.violation('theorem', 'theorem file %s does not check: %s' % (thm['file'], '; '.join(thm['errors'])),
                      None, found_input=False)
    return ctx.finish(thm, extra_cov=getattr(mod, 'EXTRA_COV', None),
                      assumptions=getattr(mod, 'ASSUMPTIONS', None),
                      trusted=getattr(mod, 'TRUSTED', common_trusted()))


def common_trusted():
    return [
        'Coq 8.16.1 kernel (coqc; vm_compute used for finite facts; no native_compute)',
        'no axioms: Print Assumptions under every property theorem must say "Closed under the global context"',
        'the hand-written Gallina model, tied to /repo/src by co-execution on this run (this file: streams)',
        'extraction to OCaml with ExtrOcamlBasic only (no Extract Constant), OCaml 4.13.1, ocaml/driver.ml; '
        'cross-checked on a sample by vm_compute inside Coq',
        'the Python harness (generators, adapters, comparison) and CPython 3.12.1',
    ]


if __name__ == '__main__':
    sys.exit(main())
