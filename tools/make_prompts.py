#!/venv/bin/python
"""(with --plain as first argument: the plain wording of the first round, no list of earlier changes - a blind round)
Write the prompts for one round of seeded-change sub-agents: each gets two property texts (from properties.jsonl,
nothing else from /verif), the one-line descriptions of the changes earlier agents made, and its own scratch worktree.
usage: make_prompts.py <out dir> <suffix a> <suffix b> [extra notes dirs...]"""
import glob
import json
import os
import sys

V = os.path.dirname(os.path.dirname(os.path.abspath(__file__)))
PLAIN = len(sys.argv) > 1 and sys.argv[1] in ('--plain', '--neutral')
NEUTRAL = len(sys.argv) > 1 and sys.argv[1] == '--neutral'
if PLAIN:
    del sys.argv[1]
out, sa, sb = sys.argv[1], sys.argv[2], sys.argv[3]
extra = sys.argv[4:]
props = [json.loads(l) for l in open(os.path.join(V, 'properties.jsonl'))]
earlier = {}
for d in sorted(glob.glob(os.path.join(V, 'seeded', '*'))) + sorted(x for e in extra for x in glob.glob(os.path.join(e, 'C??_*'))):
    name = os.path.basename(d)
    pid = name.split('_')[0]
    if name.endswith('_N') or not os.path.exists(os.path.join(d, 'notes.md')):
        continue
    first = open(os.path.join(d, 'notes.md')).readline().strip()
    first = first.lstrip('# ').split(' - ', 1)[-1]
    earlier.setdefault(pid, []).append(first[:220])

HEAD = """You are helping to test a verification framework for the Python library nexB/debian-inspector (pure Python: Debian deb822 control/copyright parsers, Debian version comparison, dependency relationship expressions). You have your own scratch git worktree of the library at {wt} (source under {wt}/src/debian_inspector, tests under {wt}/tests). Work ONLY inside {wt} and write your results ONLY under {out}/. Do NOT read or touch /repo, /verif or any other directory; do not look for other verification material on this machine. There is no network.

Your task: for EACH of the two properties below, produce TWO more realistic code changes ("mutants", directories {out}/<ID>_{sa}/ and {out}/<ID>_{sb}/) that BREAK that property while the library still imports and its existing test suite still passes. Many rounds of such changes were already made; they are listed under each property, and yours must differ in kind from all of them. Work systematically:
  1. Split the property statement into its individual clauses and write the list at the top of your notes; say which earlier change breaks which clause.
  2. This round looks for failures that do not depend on an odd character in the input. Pick each mutant from a DIFFERENT one of these families, whichever fit the property:
     (a) state that survives between calls or is shared between objects: caches (functools.cache/lru_cache, module-level dicts), memoised properties, default arguments that are mutable, class attributes used as instance state, results that alias an argument or each other, iterators consumed twice, objects changed by an operation that should only observe them (sorting, validation, rendering, comparison, hashing, repr);
     (b) secondary entry points and optional parameters: the same operation reached through another function, classmethod, constructor argument type (str / bytes / file object / mapping / sequence / another instance / os.PathLike), keyword flag, or operator (==, <, in, len, iter, bool, hash, str, repr, copy, pickle), which the main route does not share any more after your change;
     (c) scale: a behaviour that changes only past a size (number of lines, fields, paragraphs, alternatives, list elements, characters in one line or one value, digits, nesting depth, file size, recursion depth, a buffer or block or page or batch size you introduce), or only for the first/last element, or at an exact boundary;
     (d) environment: something read from the process or the machine (locale, default encoding, PYTHONHASHSEED / set ordering, current directory, time, environment variables, sys.flags such as -O removing asserts, the platform newline) that the change makes the result depend on;
     (e) an interaction of two otherwise correct features (two fields, two paragraphs, two flags, a feature of this property with the mechanism of another part of the library) where each alone still works.
  3. Make the change look like something a maintainer would merge: a refactoring, an optimisation, support for a new feature, a stricter or laxer validation, Python-version modernisation, type-hint driven clean-ups, streaming of large inputs.
Imagine a checker that runs the entry points on many thousands of generated typical and odd inputs - including some large ones - and compares with an independent reference, calling each entry point on fresh objects: aim for what such a checker would plausibly not do. Do not just delete functionality or raise exceptions unconditionally.

How to run the existing tests in your worktree (they must all still pass WITH your change applied; 138 passed, 6 xfailed is the baseline; run them twice to rule out flakiness):
  cd {wt} && PYTHONPATH={wt}/src /venv/bin/python -m pytest -q -p no:cacheprovider
(The PYTHONPATH setting is essential: without it Python imports another copy of the library.) Note: one test rewrites a file under tests/data on every run; ignore that file in your diff (git checkout it).

For each mutant create its directory containing:
  - patch.diff : output of `git -C {wt} diff -- src` for this mutant only (relative to the clean worktree; it must apply with `git apply` to a clean checkout of the same commit);
  - demo.py    : a small stand-alone Python program that demonstrates the property violation: run as `PYTHONPATH=<checkout>/src /venv/bin/python demo.py` it must exit with status 1 (printing what went wrong) when the mutant is applied and exit with status 0 on the unmodified library; it must finish within a minute and must not depend on files outside its own directory;
  - notes.md   : first line `# <ID>_<n> - <one-line description>`; the clause list and which clause this breaks; which family (a)-(e) it belongs to; a paragraph starting with the words "Needed to see it:" saying what specific input / sequence / environment is needed for the failure to show; and why the existing tests do not notice.
Between mutants restore the worktree with `git -C {wt} checkout -- .` so that each patch is independent. Verify each mutant yourself: (1) apply patch on clean worktree, (2) full test suite passes, (3) demo.py exits 1; then (4) clean worktree, demo.py exits 0. Leave the worktree clean at the end.

When you are done reply with a short list: for every mutant its directory, a one-line description, the family and clause, and the confirmation that steps (1)-(4) were carried out.

The two properties:
"""


PLAIN_HEAD = """You are helping to test a verification framework for the Python library nexB/debian-inspector (pure Python: Debian deb822 control/copyright parsers, Debian version comparison, dependency relationship expressions). You have your own scratch git worktree of the library at {wt} (source under {wt}/src/debian_inspector, tests under {wt}/tests). Work ONLY inside {wt} and write your results ONLY under {out}/. Do NOT read or touch /repo, /verif or any other directory; do not look for other verification material on this machine. There is no network.

Your task: for EACH of the two properties below, produce TWO different, realistic code changes ("mutants", directories {out}/<ID>_{sa}/ and {out}/<ID>_{sb}/) to the library that BREAK that property while the library still imports and its existing test suite still passes. Prefer subtle changes a real developer could make by mistake or as a plausible refactoring (an off-by-one, a swapped comparison, a dropped case, a changed regular expression, two cooperating sites that each look fine alone), and prefer changes that need something specific to manifest (an unusual input, a particular combination or order of operations, a corner of the input grammar) rather than ones that any ordinary use would expose at once. Do not just delete functionality or raise exceptions unconditionally.

How to run the existing tests in your worktree (they must all still pass WITH your change applied; 138 passed, 6 xfailed is the baseline; run them twice to rule out flakiness):
  cd {wt} && PYTHONPATH={wt}/src /venv/bin/python -m pytest -q -p no:cacheprovider
(The PYTHONPATH setting is essential: without it Python imports another copy of the library.) Note: one test rewrites a file under tests/data on every run; ignore that file in your diff (git checkout it).

For each mutant create its directory containing:
  - patch.diff : output of `git -C {wt} diff -- src` for this mutant only (relative to the clean worktree; it must apply with `git apply` to a clean checkout of the same commit);
  - demo.py    : a small stand-alone Python program that demonstrates the property violation: run as `PYTHONPATH=<checkout>/src /venv/bin/python demo.py` it must exit with status 1 (printing what went wrong) when the mutant is applied and exit with status 0 on the unmodified library; it must finish within a minute and must not depend on files outside its own directory;
  - notes.md   : first line `# <ID>_<n> - <one-line description>`; then 5-15 lines: which property it breaks and how, a paragraph starting with the words "Needed to see it:" saying what specific input / sequence is needed for the failure to show, and why the existing tests do not notice.
Between mutants restore the worktree with `git -C {wt} checkout -- .` so that each patch is independent. Verify each mutant yourself: (1) apply patch on clean worktree, (2) full test suite passes, (3) demo.py exits 1; then (4) clean worktree, demo.py exits 0. Leave the worktree clean at the end.

When you are done reply with a short list: for every mutant its directory, a one-line description, and the confirmation that steps (1)-(4) were carried out.

The two properties:
"""


NEUTRAL_HEAD = """You are helping to test a verification framework for the Python library nexB/debian-inspector (pure Python: Debian deb822 control/copyright parsers, Debian version comparison, dependency relationship expressions). You have your own scratch git worktree of the library at {wt} (source under {wt}/src/debian_inspector, tests under {wt}/tests). Work ONLY inside {wt} and write your results ONLY under {out}/. Do NOT read or touch /repo, /verif or any other directory; do not look for other verification material on this machine. There is no network.

Your task: for EACH of the two properties below, produce TWO behaviour-PRESERVING rewrites ("neutral changes", directories {out}/<ID>_{sa}/ and {out}/<ID>_{sb}/) of code the property depends on. The point is to see that a checker stays SILENT on harmless rewrites, so an accidental behaviour change would spoil the experiment. Each rewrite is a genuine refactoring of at least ten changed lines, and the two of one property differ in kind. Kinds to choose from: restructure a loop or a state machine; replace a regular expression by an equivalent one or by explicit code (or the reverse); inline or extract helpers; replace a table by a function or a function by a table; change the internal data structure (list / deque / dict / generator) without changing what callers see; early returns versus nested conditions; comprehension versus loop; modern syntax (f-strings, walrus, match statements, dataclass-style helpers); rename internals; reorder independent statements; split a long function in two.
After the rewrite the property STILL holds for every input, and the observable results of every public function and method of the touched modules are unchanged for EVERY input and every sequence of calls - not only for the tested ones: the same return values (same types, same order of dictionary keys), the same exception classes for invalid input, no new warnings or log-level dependent behaviour, no new state kept between calls (no caches of mutable results, no class-level mutable attributes, no mutable default arguments), generators stay generators (and lists stay lists), nothing read from the environment, no size thresholds, objects stay equal / hashable / picklable as before. Think hard about corner cases: empty input, non-ASCII and unusual white space, very long input (hundreds of thousands of lines or characters - no recursion that grows with the input), CR / CRLF line ends, values None versus empty string.

How to run the existing tests in your worktree (they must all still pass WITH your change applied; 138 passed, 6 xfailed is the baseline):
  cd {wt} && PYTHONPATH={wt}/src /venv/bin/python -m pytest -q -p no:cacheprovider
(The PYTHONPATH setting is essential: without it Python imports another copy of the library.) Note: one test rewrites a file under tests/data on every run; ignore that file in your diff (git checkout it).

For each change create its directory containing:
  - patch.diff : output of `git -C {wt} diff -- src` for this change only (relative to the clean worktree; it must apply with `git apply` to a clean checkout of the same commit);
  - equiv.py   : a stand-alone program that exercises the rewritten code on at least a few thousand varied inputs (typical, odd, empty, non-ASCII, large) and prints ONE line: the sha256 of the repr of all results, exceptions included as their type name; it must use a fixed random seed, finish within five minutes, not depend on files outside its own directory, and print the same digest with and without the patch (run as `PYTHONPATH=<checkout>/src /venv/bin/python equiv.py`);
  - notes.md   : first line `# <ID>_<n> - <one-line description>`; then 5-15 lines: what was rewritten, of which kind, why it cannot change behaviour, and both digests.
Between changes restore the worktree with `git -C {wt} checkout -- .` so that each patch is independent. For each change: (1) apply on a clean worktree, (2) the suite passes, (3) the digest of equiv.py equals the digest on the clean worktree. Leave the worktree clean at the end. If you write helper scripts, give them names that start with your worktree name, and delete them at the end.

When you are done reply with a short list: for every change its directory, a one-line description, its kind, and the confirmation that the verification steps were carried out.

The two properties:
"""


def prop_text(p):
    a = p['anchors']
    s = '\n### Property %s - %s\n\nStatement: %s\n\nQuantified over: %s\n\nWhy the existing tests cannot settle it: %s\n\n' % (
        p['id'], p['title'], p['statement'], p['quantifier']['text'], p['why_tests_cant'])
    s += 'Where the behaviour lives (line numbers are approximate): ' + '; '.join('%s %s' % (m['where'], m['name']) for m in a['mechanism']) + '\n\n'
    s += 'Observed through: ' + '; '.join(a['observe_at']) + '\n\n'
    if not PLAIN:
        s += 'Changes already tried by others for this property (yours must differ in kind from ALL of them):\n'
        s += ''.join('- %s\n' % e for e in earlier.get(p['id'], []))
    return s


os.makedirs(out, exist_ok=True)
# pair properties that live in different modules, so that an agent does not reuse one idea twice
order = ['C01', 'C11', 'C02', 'C12', 'C03', 'C13', 'C04', 'C14', 'C05', 'C15', 'C06', 'C16', 'C07', 'C17', 'C08', 'C18', 'C09', 'C19', 'C10', 'C20']
if PLAIN and os.environ.get('PAIRING') == '2':
    order = ['C01', 'C14', 'C02', 'C17', 'C03', 'C19', 'C04', 'C20', 'C05', 'C09', 'C06', 'C10', 'C07', 'C12', 'C08', 'C13', 'C11', 'C16', 'C15', 'C18']
elif PLAIN:
    order = ['C01', 'C08', 'C02', 'C09', 'C03', 'C10', 'C04', 'C11', 'C05', 'C12', 'C06', 'C13', 'C07', 'C14', 'C15', 'C18', 'C16', 'C19', 'C17', 'C20']
by = {p['id']: p for p in props}
for i in range(10):
    wt = os.environ.get('WT_PREFIX', '/tmp/mw') + '%d' % (i + 1)
    a, b = by[order[2 * i]], by[order[2 * i + 1]]
    with open(os.path.join(out, 'prompt_%d.txt' % (i + 1)), 'w') as f:
        f.write((NEUTRAL_HEAD if NEUTRAL else PLAIN_HEAD if PLAIN else HEAD).format(wt=wt, out=out, sa=sa, sb=sb) + prop_text(a) + prop_text(b))
print('wrote 10 prompts to', out)
