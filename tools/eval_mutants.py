#!/venv/bin/python
"""Evaluate seeded mutants: apply each patch to $VERIF_REPO, confirm the test suite passes and the
demonstration fails, run the property's quick check (expect VIOLATION), undo, confirm the
demonstration passes.  usage: eval_mutants.py <mutants dir> <out.json> [ids...]"""
import json
import os
import subprocess
import sys
import time

V = os.path.dirname(os.path.dirname(os.path.abspath(__file__)))
REPO = os.environ.get('VERIF_REPO', '/repo')
src, out = sys.argv[1], sys.argv[2]
only = set(sys.argv[3:])
PY = '/venv/bin/python'


def sh(cmd, timeout, env=None, cwd=None):
    e = dict(os.environ)
    e.update(env or {})
    t0 = time.time()
    try:
        r = subprocess.run(cmd, shell=True, cwd=cwd, env=e, timeout=timeout, stdout=subprocess.PIPE, stderr=subprocess.STDOUT, text=True)
        return r.returncode, r.stdout, round(time.time() - t0, 1)
    except subprocess.TimeoutExpired:
        return 'timeout', '', timeout


res = {}
if os.path.exists(out):
    res = json.load(open(out))
for name in sorted(os.listdir(src)):
    d = os.path.join(src, name)
    if not (os.path.isdir(d) and os.path.exists(os.path.join(d, 'patch.diff'))):
        continue
    if only and name not in only:
        continue
    pid = name.split('_')[0]
    neutral = bool(__import__('re').search(r'_N\d*$', name))
    r = {'property': pid, 'kind': 'neutral' if neutral else 'mutant'}
    sh('git -C %s checkout -- .' % REPO, 60)
    rc, o, _ = sh('git -C %s apply %s' % (REPO, os.path.join(d, 'patch.diff')), 60)
    if rc != 0:
        # the change was made against an earlier commit: merge it
        sh('git -C %s checkout -- .' % REPO, 60)
        rc, o, _ = sh('git -C %s apply -3 %s && git -C %s reset -q' % (REPO, os.path.join(d, 'patch.diff'), REPO), 60)
    r['applies'] = rc == 0
    if rc != 0:
        r['apply_output'] = o[-2000:]
        res[name] = r
        continue
    rc, o, t = sh('%s -m pytest -q -p no:cacheprovider 2>&1 | tail -3' % PY, 900, {'PYTHONPATH': REPO + '/src'}, cwd=REPO)
    r['tests'] = o.strip().split('\n')[-1]
    sh('git -C %s checkout -- tests' % REPO, 60)
    if neutral:
        rc, o, t = sh('%s %s' % (PY, os.path.join(d, 'equiv.py')), 900, {'PYTHONPATH': REPO + '/src', 'PYTHONHASHSEED': '0'}, cwd=d)
        r['equiv_with_change'] = o.strip()[-200:]
    else:
        rc, o, t = sh('%s %s' % (PY, os.path.join(d, 'demo.py')), 600, {'PYTHONPATH': REPO + '/src'}, cwd=d)
        r['demo_with_mutant_rc'] = rc
    rc, o, t = sh('%s harness/check.py %s --tier quick' % (PY, pid), 1800, {'VERIF_REPO': REPO}, cwd=V)
    r['check_rc'] = rc
    r['check_s'] = t
    r['check_lines'] = [l[:300] for l in o.split('\n') if l.startswith(('VIOLATION', 'KNOWN', 'OK ', '  '))][:6]
    r['detected'] = (rc == 1 and any(l.startswith('VIOLATION property=%s' % pid) for l in o.split('\n')))
    r['with_failing_input'] = any(l.startswith('VIOLATION') and 'no-failing-input-found' not in l for l in o.split('\n'))
    sh('git -C %s checkout -- .' % REPO, 60)
    if neutral:
        rc, o, t = sh('%s %s' % (PY, os.path.join(d, 'equiv.py')), 900, {'PYTHONPATH': REPO + '/src', 'PYTHONHASHSEED': '0'}, cwd=d)
        r['equiv_clean'] = o.strip()[-200:]
        r['silent'] = (r['check_rc'] == 0 and not r['detected'])
    else:
        rc, o, t = sh('%s %s' % (PY, os.path.join(d, 'demo.py')), 600, {'PYTHONPATH': REPO + '/src'}, cwd=d)
        r['demo_clean_rc'] = rc
    res[name] = r
    json.dump(res, open(out, 'w'), indent=1)
    print(name, r['kind'], r['tests'], 'demo', r.get('demo_with_mutant_rc'), r.get('demo_clean_rc'), 'check_rc', r['check_rc'], 'detected', r['detected'], r['with_failing_input'], r.get('silent'), r['check_s'], flush=True)
json.dump(res, open(out, 'w'), indent=1)
