#!/venv/bin/python
"""Build /verif/seeded/<id>/ from a directory of sub-agent mutants and evaluation results.
usage: make_seeded.py <mutants dir> <result.json> [<result.json> ...]  (later results override)"""
import json
import os
import re
import shutil
import sys

V = os.path.dirname(os.path.dirname(os.path.abspath(__file__)))
src = sys.argv[1]
res = {}
for p in sys.argv[2:]:
    for k, v in json.load(open(p)).items():
        res[k] = v
for name in sorted(os.listdir(src)):
    d = os.path.join(src, name)
    if not os.path.exists(os.path.join(d, 'patch.diff')):
        continue
    r = res.get(name)
    if r and r.get('kind') == 'neutral':
        if not (r.get('applies') and 'passed' in r.get('tests', '') and not re.search(r'\b\d+ (failed|error)', r.get('tests', ''))):
            print('skip (neutral, not confirmed):', name)
            continue
        o = os.path.join(V, 'seeded', name)
        os.makedirs(o, exist_ok=True)
        for f in ('patch.diff', 'equiv.py', 'notes.md'):
            if os.path.exists(os.path.join(d, f)):
                shutil.copy(os.path.join(d, f), os.path.join(o, f))
        notes = open(os.path.join(d, 'notes.md')).read() if os.path.exists(os.path.join(d, 'notes.md')) else ''
        meta = {
            'property': r['property'], 'kind': 'neutral',
            'change': notes.split('\n')[0].lstrip('# ').strip(),
            'origin': 'behaviour-preserving rewrite written by a fresh sub-agent given only the property text and its own scratch worktree',
            'what_was_run': ['git apply patch.diff on a scratch copy of /repo (never committed)', 'the pinned test suite: ' + r.get('tests', ''),
                             'equiv.py digest with the change: %s; without: %s' % (r.get('equiv_with_change'), r.get('equiv_clean')),
                             'harness/check.py %s --tier quick with VERIF_REPO pointing at the changed copy: exit %s in %ss' % (r['property'], r.get('check_rc'), r.get('check_s'))],
            'check_silent': bool(r.get('silent')),
            'first_lines_of_check': r.get('check_lines', [])[:4],
        }
        json.dump(meta, open(os.path.join(o, 'meta.json'), 'w'), indent=1)
        print('seeded neutral', name, 'silent', meta['check_silent'])
        continue
    if not r or not (r.get('applies') and r.get('demo_with_mutant_rc') == 1 and r.get('demo_clean_rc') == 0 and 'passed' in r.get('tests', '')
                     and not re.search(r'\b\d+ (failed|error)', r.get('tests', ''))):
        print('skip (not confirmed):', name)
        continue
    o = os.path.join(V, 'seeded', name)
    os.makedirs(o, exist_ok=True)
    for f in ('patch.diff', 'demo.py', 'notes.md'):
        if os.path.exists(os.path.join(d, f)):
            shutil.copy(os.path.join(d, f), os.path.join(o, f))
    notes = open(os.path.join(d, 'notes.md')).read() if os.path.exists(os.path.join(d, 'notes.md')) else ''
    title = notes.split('\n')[0].lstrip('# ').strip()
    m = re.search(r'(Needed to see it.*?)(?:\n\n|\Z)', notes, re.S)
    needs = ' '.join(m.group(1).split()) if m else ''
    meta = {
        'property': r['property'],
        'change': title,
        'needs_to_manifest': needs,
        'origin': 'written by a fresh sub-agent given only the property text and its own scratch worktree (nothing from /verif)',
        'what_was_run': [
            'git apply patch.diff on a scratch copy of /repo (vp run --with-repo; never committed)',
            'the pinned test suite: ' + r.get('tests', ''),
            'demo.py with the change: exit %s; on the unchanged tree: exit %s' % (r.get('demo_with_mutant_rc'), r.get('demo_clean_rc')),
            'harness/check.py %s --tier quick with VERIF_REPO pointing at the changed copy: exit %s in %ss' % (r['property'], r.get('check_rc'), r.get('check_s')),
        ],
        'detected_by_quick_check': bool(r.get('check_rc') == 1),
        'with_failing_input': bool(r.get('with_failing_input')) or any('VIOLATION' in l and 'no-failing-input-found' not in l for l in r.get('check_lines', [])),
        'first_lines_of_check': r.get('check_lines', [])[:4],
    }
    json.dump(meta, open(os.path.join(o, 'meta.json'), 'w'), indent=1)
    print('seeded', name, meta['detected_by_quick_check'], meta['with_failing_input'])
