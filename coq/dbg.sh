#!/bin/sh
# usage: dbg.sh File.v LINE  -> prints goal before LINE (1-based)
f=$1; n=$2
head -n $((n-1)) $f > /tmp/dbg_$$.v
echo "Show. Abort." >> /tmp/dbg_$$.v
coqc -q -Q Model DI -Q Spec DI -Q Proofs DI -Q Properties DI -Q Findings DI /tmp/dbg_$$.v 2>&1 | tail -${3:-40}
rm -f /tmp/dbg_$$.*  /tmp/.dbg_$$.aux
