(* The three-valued matching algebra of C15: None = "name not mentioned". *)
From Coq Require Import List Bool.
Import ListNotations.

Definition tv := option bool.

Definition is_T (o : tv) : bool := match o with Some true => true | _ => false end.
Definition is_F (o : tv) : bool := match o with Some false => true | _ => false end.
Definition is_N (o : tv) : bool := match o with None => true | _ => false end.

(* alternatives: True if any member is, else False if any is, else None *)
Definition or_tv (os : list tv) : tv :=
  if existsb is_T os then Some true else if existsb is_F os then Some false else None.

(* conjunction: None if every member is, else whether every non-None member is True *)
Definition and_tv (os : list tv) : tv :=
  if forallb is_N os then None else Some (negb (existsb is_F os)).

(* relationship sets against one archive: False as soon as one set says False,
   else True if any says True, else None *)
Definition sets_tv (os : list tv) : tv :=
  if existsb is_F os then Some false else if existsb is_T os then Some true else None.
