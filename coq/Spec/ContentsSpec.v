(* Contents index tables (C18): rows "path, padding, comma-separated
   [[area/]section/]package" and what the two mappings must hold. *)
From Coq Require Import String.
From Coq Require Import NArith List Bool.
From DI Require Import PyStr Contents.
Import ListNotations.
Open Scope N_scope.

Record row := mkRow { r_path : str; r_pkgs : list (str * str) (* (qualifier prefix, bare name) *) }.

Definition pkgs_text (r : row) : str := join [44] (map (fun qn => fst qn ++ snd qn) (r_pkgs r)).

(* the table row as written: path, [pad] >= 1 spaces, the packages *)
Definition render_row (pad : nat) (r : row) : str := r_path r ++ repeat 32 (S pad) ++ pkgs_text r.

Definition no_space (s : str) : Prop := Forall (fun c => is_space c = false) s.

Definition wf_name (n : str) : Prop := n <> [] /\ no_space n /\ ~ In 44 n /\ ~ In 47 n.
(* "" or "section/" or "area/section/" *)
Definition wf_qual (q : str) : Prop :=
  no_space q /\ ~ In 44 q /\ (q = [] \/ exists q', q = q' ++ [47]).

Definition wf_row (r : row) : Prop :=
  r_path r <> [] /\ strip (r_path r) = r_path r /\
  r_pkgs r <> [] /\ Forall (fun qn => wf_qual (fst qn) /\ wf_name (snd qn)) (r_pkgs r) /\
  (str_eqb (r_path r) (lit "FILE") && str_eqb (pkgs_text r) (lit "LOCATION") = false).

(* the (path, bare name) pairs of a table, in file order *)
Definition events (rows : list row) : list (str * str) :=
  flat_map (fun r => map (fun qn => (r_path r, snd qn)) (r_pkgs r)) rows.

Definition lookup (k : str) (d : mdict) : list str :=
  match find (fun kv => str_eqb k (fst kv)) d with Some (_, vs) => vs | None => [] end.

(* what the two mappings must be *)
Definition by_path_spec (rows : list row) (p : str) : list str :=
  map snd (filter (fun e => str_eqb p (fst e)) (events rows)).
Definition by_package_spec (rows : list row) (n : str) : list str :=
  map fst (filter (fun e => str_eqb n (snd e)) (events rows)).

Fixpoint count (x : str) (l : list str) : nat :=
  match l with [] => O | y :: l' => (if str_eqb x y then 1 else 0) + count x l' end.
