(* Well-formed deb822 documents (C06): paragraphs of "Name: value" fields with
   indented continuation lines, separated by one or more empty lines. *)
From Coq Require Import String.
From Coq Require Import NArith List Bool.
From DI Require Import PyStr Deb822.
Import ListNotations.
Open Scope N_scope.

Record gfield := mkGField {
  gf_name : str;          (* [A-Za-z][A-Za-z0-9-]* *)
  gf_gap : str;           (* blanks / tabs written between the colon and the value *)
  gf_first : str;         (* first-line value, trimmed, may be empty *)
  gf_conts : list str;    (* continuation lines as written: indented, not blank, no trailing blanks *)
}.

Definition name_ok (n : str) : Prop :=
  match n with
  | c :: _ => is_ascii_alpha c = true /\ Forall (fun x => is_ascii_alnum x = true \/ x = 45) n
  | [] => False
  end.

Definition no_eol (s : str) : Prop := Forall (fun c => is_lf_cr c = false) s.

Definition wf_gfield (f : gfield) : Prop :=
  name_ok (gf_name f) /\
  Forall (fun c => is_blank_tab c = true) (gf_gap f) /\
  strip (gf_first f) = gf_first f /\ no_eol (gf_first f) /\
  Forall (fun c => is_cont c = true /\ rstrip c = c /\ no_eol c) (gf_conts f) /\
  (gf_first f <> [] \/ gf_conts f <> []).

Definition decl_text (f : gfield) : str := gf_name f ++ [58] ++ gf_gap f ++ gf_first f.
Definition field_src (f : gfield) : list str := decl_text f :: gf_conts f.

Definition gpara := list gfield.

(* paragraphs with the number of empty lines written after each (>= 1 between paragraphs) *)
Fixpoint doc_src (ps : list (gpara * nat)) : list str :=
  match ps with
  | [] => []
  | (p, k) :: ps' => flat_map field_src p ++ repeat [] k ++ doc_src ps'
  end.

(* every paragraph has a field, every field is well formed, and at least one empty line
   follows every paragraph but the last *)
Fixpoint wf_doc (ps : list (gpara * nat)) : Prop :=
  match ps with
  | [] => True
  | (p, k) :: ps' => p <> [] /\ Forall wf_gfield p /\ (ps' <> [] -> (0 < k)%nat) /\ wf_doc ps'
  end.

(* what the line-tracking parser must return: names lower-cased (licence -> license), the
   first-line value and the continuation lines with the numbers they have in the source *)
Definition expected_name (n : str) : str :=
  let l := lower_ascii n in if str_eqb l (lit "licence") then lit "license" else l.

Definition expected_field (n : N) (f : gfield) : field :=
  mkField (expected_name (gf_name f)) (mkLine n (gf_first f) :: number_from (n + 1) (gf_conts f)).

Fixpoint expected_para (n : N) (p : gpara) : list field :=
  match p with
  | [] => []
  | f :: p' => expected_field n f :: expected_para (n + N.of_nat (length (field_src f))) p'
  end.

Definition para_len (p : gpara) : nat := length (flat_map field_src p).

Fixpoint expected_doc (n : N) (ps : list (gpara * nat)) : list (list field) :=
  match ps with
  | [] => []
  | (p, k) :: ps' => expected_para n p :: expected_doc (n + N.of_nat (para_len p) + N.of_nat k) ps'
  end.

(* the text of a document: every line terminated by LF *)
Definition doc_text (ps : list (gpara * nat)) : str := flat_map (fun l => l ++ [10]) (doc_src ps).
