(* Debian policy 5.6.12: the syntax of version numbers, and dpkg's split. *)
From Coq Require Import NArith List Bool.
From DI Require Import PyStr.
Import ListNotations.
Open Scope N_scope.

(* upstream_version: alphanumerics and . + - ~ ; debian_revision: alphanumerics and + . ~ *)
Definition pol_upstream_char (c : char) : bool :=
  is_ascii_alnum c || (c =? 46) || (c =? 43) || (c =? 45) || (c =? 126).
Definition pol_revision_char (c : char) : bool :=
  is_ascii_alnum c || (c =? 46) || (c =? 43) || (c =? 126).

(* epoch text before the first colon, revision after the last hyphen of what follows *)
Definition policy_split (t : str) : option str * str * option str :=
  let '(e, rest) :=
    if mem_char 58 t then let '(a, _, b) := partition_char 58 t in (Some a, b)
    else (None, t) in
  if mem_char 45 rest then let '(u, _, r) := rpartition_char 45 rest in (e, u, Some r)
  else (e, rest, None).

Definition nonempty (s : str) : bool := match s with [] => false | _ => true end.
Definition ends_alnum (s : str) : bool :=
  match rev s with [] => false | c :: _ => is_ascii_alnum c end.

Definition policy_valid (t : str) : bool :=
  let '(e, u, r) := policy_split t in
  (match e with None => true | Some e => nonempty e && forallb is_ascii_digit e end) &&
  (match u with [] => false | c :: _ => is_ascii_digit c end) &&
  forallb pol_upstream_char u &&
  (match r with None => true | Some r => nonempty r && forallb pol_revision_char r end).

(* what the property fixes as the decomposition *)
Definition policy_triple (t : str) : N * str * str :=
  let '(e, u, r) := policy_split t in
  (match e with Some e => dec_to_N e | None => 0 end, u,
   match r with Some r => r | None => [48] end).
