(* Reference semantics of Debian version ordering.

   (a) [order], [verrevcmp], [dpkg_version_compare]: transcribed statement by
       statement from dpkg lib/dpkg/version.c (1.21.x).  C strings become
       lists; reading past the end yields NUL ([None]).
   (b) [key]: a denotational reading (deb-version(7)): a string is a list of
       blocks (ranks of a non-digit run, value of the following digit run),
       compared lexicographically. *)
From Coq Require Import NArith ZArith List Bool.
From DI Require Import PyStr.
Import ListNotations.
Open Scope Z_scope.

(* ---------- (a) dpkg ---------- *)

(* static int order(int c) *)
Definition order (c : option char) : Z :=
  match c with
  | None => 0
  | Some c =>
      if is_ascii_digit c then 0
      else if is_ascii_alpha c then Z.of_N c
      else if (c =? 126)%N then -1
      else Z.of_N c + 256
  end.

Definition hd_opt (s : str) : option char := match s with [] => None | c :: _ => Some c end.
Definition starts_digit (s : str) : bool :=
  match s with [] => false | c :: _ => is_ascii_digit c end.
Definition starts_nondigit (s : str) : bool :=
  match s with [] => false | c :: _ => negb (is_ascii_digit c) end.

(* while (( *a && !c_isdigit( *a)) || ( *b && !c_isdigit( *b))) { ac = order( *a); bc = order( *b);
     if (ac != bc) return ac - bc; a++; b++; }
   inl diff = returned; inr (a, b) = fell out of the loop *)
Fixpoint nondigit_loop (a b : str) {struct a} : Z + (str * str) :=
  match a with
  | [] =>
      (fix on_b (b : str) : Z + (str * str) :=
         match b with
         | [] => inr ([], [])
         | cb :: b' =>
             if is_ascii_digit cb then inr ([], b)
             else
               let d := order None - order (Some cb) in
               if d =? 0 then on_b b' else inl d
         end) b
  | ca :: a' =>
      if starts_nondigit a || starts_nondigit b then
        let d := order (Some ca) - order (hd_opt b) in
        if d =? 0 then nondigit_loop a' (tl b) else inl d
      else inr (a, b)
  end.

(* while ( *a == '0') a++; *)
Definition skip_zeros (s : str) : str := drop_while (fun c => (c =? 48)%N) s.

(* while (c_isdigit( *a) && c_isdigit( *b)) { if (!first_diff) first_diff = *a - *b; a++; b++; } *)
Fixpoint digit_loop (first_diff : Z) (a b : str) {struct a} : Z * str * str :=
  match a, b with
  | ca :: a', cb :: b' =>
      if is_ascii_digit ca && is_ascii_digit cb then
        digit_loop (if first_diff =? 0 then Z.of_N ca - Z.of_N cb else first_diff) a' b'
      else (first_diff, a, b)
  | _, _ => (first_diff, a, b)
  end.

(* static int verrevcmp(const char *a, const char *b); the outer while needs fuel *)
Fixpoint verrevcmp_fuel (fuel : nat) (a b : str) : Z :=
  match a, b with
  | [], [] => 0
  | _, _ =>
      match fuel with
      | O => 0
      | S f =>
          match nondigit_loop a b with
          | inl d => d
          | inr (a1, b1) =>
              let '(first_diff, a3, b3) := digit_loop 0 (skip_zeros a1) (skip_zeros b1) in
              if starts_digit a3 then 1
              else if starts_digit b3 then -1
              else if negb (first_diff =? 0) then first_diff
              else verrevcmp_fuel f a3 b3
          end
      end
  end.

Definition verrevcmp (a b : str) : Z := verrevcmp_fuel (length a + length b) a b.

(* dpkg_version_compare: epoch, version, revision *)
Definition dpkg_version_compare (ea : N) (va ra : str) (eb : N) (vb rb : str) : Z :=
  if (ea <? eb)%N then -1
  else if (eb <? ea)%N then 1
  else
    let rc := verrevcmp va vb in
    if negb (rc =? 0) then rc else verrevcmp ra rb.

(* dpkg's parseversion split: epoch before the first colon (0 if absent), revision
   after the last hyphen ("" if absent) *)
Definition dpkg_split (s : str) : N * str * str :=
  let '(ep, v) :=
    if mem_char 58%N s then let '(e, _, r) := partition_char 58%N s in (dec_to_N e, r)
    else (0%N, s) in
  if mem_char 45%N v then let '(u, _, r) := rpartition_char 45%N v in (ep, u, r)
  else (ep, v, []).

Definition dpkg_compare_strings (a b : str) : Z :=
  let '(ea, va, ra) := dpkg_split a in
  let '(eb, vb, rb) := dpkg_split b in
  dpkg_version_compare ea va ra eb vb rb.

(* ---------- (b) key semantics ---------- *)

(* rank of a character inside a non-digit run: tilde 0 < end 1 < letters < others *)
Definition krank (c : char) : N :=
  if (c =? 126)%N then 0%N
  else if is_ascii_alpha c then (c + 2)%N
  else (c + 258)%N.

Definition kfill : N := 1%N.

(* lexicographic comparison of two lists, the shorter one padded with [d] *)
Section PadLex.
  Context {A : Type} (cmp : A -> A -> comparison) (d : A).
  Fixpoint plex (l1 l2 : list A) {struct l1} : comparison :=
    match l1 with
    | [] =>
        (fix on2 (l2 : list A) : comparison :=
           match l2 with
           | [] => Eq
           | y :: l2' => match cmp d y with Eq => on2 l2' | c => c end
           end) l2
    | x :: l1' =>
        match l2 with
        | [] => match cmp x d with Eq => plex l1' [] | c => c end
        | y :: l2' => match cmp x y with Eq => plex l1' l2' | c => c end
        end
    end.
End PadLex.

(* compare two rank lists padded with the filler *)
Definition cmp_ranklist : list N -> list N -> comparison := plex N.compare kfill.

Definition block := (list N * N)%type.

Fixpoint span_nondigit (s : str) : str * str :=
  match s with
  | [] => ([], [])
  | c :: s' =>
      if is_ascii_digit c then ([], s)
      else let '(p, r) := span_nondigit s' in (c :: p, r)
  end.

Fixpoint span_digits (acc : N) (s : str) : N * str :=
  match s with
  | [] => (acc, [])
  | c :: s' =>
      if is_ascii_digit c then span_digits (acc * 10 + (c - 48))%N s'
      else (acc, s)
  end.

Fixpoint key_fuel (fuel : nat) (s : str) : list block :=
  match s with
  | [] => []
  | _ =>
      match fuel with
      | O => []
      | S f =>
          let '(p, r) := span_nondigit s in
          let '(d, r') := span_digits 0 r in
          (map krank p, d) :: key_fuel f r'
      end
  end.
Definition key (s : str) : list block := key_fuel (length s) s.

Definition cmp_block (b1 b2 : block) : comparison :=
  match cmp_ranklist (fst b1) (fst b2) with
  | Eq => (snd b1 ?= snd b2)%N
  | c => c
  end.

Definition empty_block : block := ([], 0%N).

(* lexicographic, the shorter key padded with empty blocks *)
Definition cmp_key : list block -> list block -> comparison := plex cmp_block empty_block.

Definition Z_of_cmp (c : comparison) : Z :=
  match c with Lt => -1 | Eq => 0 | Gt => 1 end.
