(* The relationship-field grammar of C14: abstract alternatives, groups and
   fields, their rendering under an arbitrary white-space layout, the canonical
   spelling and the structure the parser must return. *)
From Coq Require Import String.
From Coq Require Import NArith List Bool.
From DI Require Import PyStr Deps.
Import ListNotations.
Open Scope N_scope.

Record alt := mkAlt { g_name : str; g_ver : option (str * str); g_archs : list str }.

Definition ws (w : str) : Prop := Forall (fun c => is_space c = true) w.
Definition spaces (w : str) : Prop := Forall (fun c => c = 32) w.

Definition token (bad : list char) (t : str) : Prop :=
  t <> [] /\ Forall (fun c => is_space c = false /\ ~ In c bad) t.

(* names: no white space, no ( [ | , *)
Definition wf_name (n : str) : Prop := token [40; 91; 124; 44] n.
(* versions: no white space, no ) < > = | , *)
Definition wf_version (v : str) : Prop := token [41; 60; 62; 61; 124; 44] v.
(* architectures: no white space, no ] | , *)
Definition wf_arch (a : str) : Prop := token [93; 124; 44] a.
Definition wf_op (o : str) : Prop :=
  In o [lit "<<"; lit "<="; lit "="; lit ">="; lit ">>"; lit "<"; lit ">"].

Definition wf_alt (a : alt) : Prop :=
  wf_name (g_name a) /\
  match g_ver a with Some (o, v) => wf_op o /\ wf_version v | None => True end /\
  Forall wf_arch (g_archs a).

(* layout of one alternative *)
Record layout := mkLayout {
  l_before_paren : str;   (* between the name and "(" : spaces *)
  l_in1 : str; l_in2 : str; l_in3 : str;   (* inside the parentheses: before the operator, after it, after the version *)
  l_before_bracket : str; (* before "[" : white space after ")", spaces after a bare name *)
  l_arch_lead : str; l_arch_sep : list str; l_arch_trail : str;  (* inside the brackets *)
}.

Definition wf_layout (a : alt) (l : layout) : Prop :=
  spaces (l_before_paren l) /\ ws (l_in1 l) /\ ws (l_in2 l) /\ ws (l_in3 l) /\
  (match g_ver a with Some _ => ws (l_before_bracket l) | None => spaces (l_before_bracket l) end) /\
  ws (l_arch_lead l) /\ ws (l_arch_trail l) /\
  length (l_arch_sep l) = pred (length (g_archs a)) /\
  Forall (fun w => ws w /\ w <> []) (l_arch_sep l).

Fixpoint interleave (xs : list str) (seps : list str) : str :=
  match xs, seps with
  | [], _ => []
  | [x], _ => x
  | x :: xs', s :: seps' => x ++ s ++ interleave xs' seps'
  | x :: xs', [] => x ++ interleave xs' []
  end.

Definition render_alt (l : layout) (a : alt) : str :=
  g_name a ++
  (match g_ver a with
   | Some (o, v) => l_before_paren l ++ [40] ++ l_in1 l ++ o ++ l_in2 l ++ v ++ l_in3 l ++ [41]
   | None => []
   end) ++
  (match g_archs a with
   | [] => []
   | archs => l_before_bracket l ++ [91] ++ l_arch_lead l ++ interleave archs (l_arch_sep l) ++ l_arch_trail l ++ [93]
   end).

(* the structure the parser must return for one alternative *)
Definition tree_alt (a : alt) : rel :=
  match g_ver a with
  | Some (o, v) => VRel (g_name a) o v (g_archs a)
  | None => Rel (g_name a) (g_archs a)
  end.

(* canonical single-spaced spelling *)
Definition canonical_alt (a : alt) : str :=
  g_name a ++
  (match g_ver a with Some (o, v) => lit " (" ++ o ++ [32] ++ v ++ [41] | None => [] end) ++
  (match g_archs a with [] => [] | archs => [32; 91] ++ join [32] archs ++ [93] end).
