(* C14 - Dependency fields parse to exactly the structure they spell (partial: the
   theorems cover one alternative - name, optional "(operator version)", optional
   "[architectures]" - under every white-space layout, its canonical spelling, the
   round trip and the error clauses; the splitting of a field at commas and of a group
   at "|" is decided by co-execution on rendered abstract fields). *)
From Coq Require Import String.
From Coq Require Import NArith List Bool.
From DI Require Import Result PyStr Deps DepsGrammar DepsParseFacts.
Import ListNotations.
Open Scope N_scope.

(* any well-formed alternative, rendered with any layout (spaces before "(" and "[", any white
   space - line breaks included - inside the parentheses and brackets, the operator glued to
   the version or not), parses to exactly its name, operator, version and architectures *)
Theorem C14_parse_rendered_alternative : forall l a, wf_alt a -> wf_layout a l ->
  parse_relationship (render_alt l a) = Ok (tree_alt a).
Proof. exact parse_rendered_alt. Qed.
Print Assumptions C14_parse_rendered_alternative.

(* its string form is the canonical single-spaced spelling *)
Theorem C14_str_canonical : forall a, rel_str (tree_alt a) = canonical_alt a.
Proof. exact str_is_canonical. Qed.
Print Assumptions C14_str_canonical.

(* which parses back to an equal object *)
Theorem C14_str_parse_roundtrip : forall a, wf_alt a ->
  parse_relationship (rel_str (tree_alt a)) = Ok (tree_alt a).
Proof. exact str_parse_roundtrip. Qed.
Print Assumptions C14_str_parse_roundtrip.

(* the reported names are exactly the names mentioned *)
Theorem C14_names : forall a, rel_names (tree_alt a) = [g_name a].
Proof. exact names_of_alt. Qed.
Print Assumptions C14_names.

Theorem C14_names_compose : forall rs,
  rel_names (OrRel rs) = flat_map rel_names rs /\ rel_names (AndRel rs) = flat_map rel_names rs.
Proof. intros rs. split; reflexivity. Qed.
Print Assumptions C14_names_compose.

(* a version clause with no comparison operator, or with nothing but an operator, raises ValueError *)
Theorem C14_bad_clause_no_operator : forall n x, wf_name n -> wf_version x ->
  parse_relationship (n ++ lit " (" ++ x ++ [41]) = Raise ValueError.
Proof. exact bad_clause_no_operator. Qed.
Print Assumptions C14_bad_clause_no_operator.

Theorem C14_bad_clause_only_operator : forall n o, wf_name n -> wf_op o ->
  parse_relationship (n ++ lit " (" ++ o ++ [41]) = Raise ValueError.
Proof. exact bad_clause_only_operator. Qed.
Print Assumptions C14_bad_clause_only_operator.

Example C14_two_operators : parse_depends (lit "a (>= 1 << 2)") = Raise ValueError.
Proof. vm_compute. reflexivity. Qed.

Example C14_whole_field :
  parse_depends (lit "libc6 (>=2.17)," ++ [10] ++ lit " python3:any (<< 3.12~) [!i386  linux-any] |python," ++ [9] ++ lit "g++") =
  Ok (AndRel [VRel (lit "libc6") (lit ">=") (lit "2.17") [];
              OrRel [VRel (lit "python3:any") (lit "<<") (lit "3.12~") [lit "!i386"; lit "linux-any"]; Rel (lit "python") []];
              Rel (lit "g++") []]).
Proof. vm_compute. reflexivity. Qed.
