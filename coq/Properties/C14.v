(* C14 - Dependency fields parse to exactly the structure they spell.
   Proved for whole fields - comma-separated groups of "|"-separated alternatives, arbitrary white
   space, line breaks included, around every alternative and inside its parentheses and brackets:
   parsing yields exactly the groups and alternatives in order with their names, operators,
   versions and architectures; the reported names are exactly those mentioned; the string form is
   the canonical single-spaced spelling (", " and " | " separators) and parses back to an equal
   object; a version clause without operator, with nothing but an operator, or with two operators
   raises ValueError.  The grammar is Spec/DepsGrammar.v (tokens without white space and without
   the delimiters of their position). *)
From Coq Require Import String.
From Coq Require Import NArith List Bool.
From DI Require Import Result PyStr Deps DepsGrammar DepsParseFacts DepsFieldFacts.
Import ListNotations.
Open Scope N_scope.

(* a whole field: groups joined by ",", alternatives joined by "|", every alternative rendered
   under any layout and surrounded by any white space *)
Theorem C14_parse_rendered_field : forall f, wf_field f ->
  parse_depends (render_field f) = Ok (AndRel (map tree_group f)).
Proof. exact parse_field. Qed.
Print Assumptions C14_parse_rendered_field.

Theorem C14_field_names : forall f,
  rel_names (AndRel (map tree_group f)) = flat_map (fun g => map (fun r => g_name (r_alt r)) g) f.
Proof. exact names_field. Qed.
Print Assumptions C14_field_names.


(* any well-formed alternative, rendered with any layout (spaces before "(" and "[", any white
   space - line breaks included - inside the parentheses and brackets, the operator glued to
   the version or not), parses to exactly its name, operator, version and architectures *)
Theorem C14_parse_rendered_alternative : forall l a, wf_alt a -> wf_layout a l ->
  parse_relationship (render_alt l a) = Ok (tree_alt a).
Proof. exact parse_rendered_alt. Qed.
Print Assumptions C14_parse_rendered_alternative.

(* its string form is the canonical single-spaced spelling *)
Theorem C14_str_canonical : forall a, rel_str (tree_alt a) = canonical_alt a.
Proof. exact str_is_canonical. Qed.
Print Assumptions C14_str_canonical.

(* which parses back to an equal object *)
Theorem C14_str_parse_roundtrip : forall a, wf_alt a ->
  parse_relationship (rel_str (tree_alt a)) = Ok (tree_alt a).
Proof. exact str_parse_roundtrip. Qed.
Print Assumptions C14_str_parse_roundtrip.

(* the reported names are exactly the names mentioned *)
Theorem C14_names : forall a, rel_names (tree_alt a) = [g_name a].
Proof. exact names_of_alt. Qed.
Print Assumptions C14_names.

Theorem C14_names_compose : forall rs,
  rel_names (OrRel rs) = flat_map rel_names rs /\ rel_names (AndRel rs) = flat_map rel_names rs.
Proof. intros rs. split; reflexivity. Qed.
Print Assumptions C14_names_compose.

(* a version clause with no comparison operator, or with nothing but an operator, raises ValueError *)
Theorem C14_bad_clause_no_operator : forall n x, wf_name n -> wf_version x ->
  parse_relationship (n ++ lit " (" ++ x ++ [41]) = Raise ValueError.
Proof. exact bad_clause_no_operator. Qed.
Print Assumptions C14_bad_clause_no_operator.

Theorem C14_bad_clause_only_operator : forall n o, wf_name n -> wf_op o ->
  parse_relationship (n ++ lit " (" ++ o ++ [41]) = Raise ValueError.
Proof. exact bad_clause_only_operator. Qed.
Print Assumptions C14_bad_clause_only_operator.

Example C14_two_operators : parse_depends (lit "a (>= 1 << 2)") = Raise ValueError.
Proof. vm_compute. reflexivity. Qed.

Example C14_whole_field :
  parse_depends (lit "libc6 (>=2.17)," ++ [10] ++ lit " python3:any (<< 3.12~) [!i386  linux-any] |python," ++ [9] ++ lit "g++") =
  Ok (AndRel [VRel (lit "libc6") (lit ">=") (lit "2.17") [];
              OrRel [VRel (lit "python3:any") (lit "<<") (lit "3.12~") [lit "!i386"; lit "linux-any"]; Rel (lit "python") []];
              Rel (lit "g++") []]).
Proof. vm_compute. reflexivity. Qed.

(* the string form of a whole field parses back to an equal object *)
Theorem C14_field_str_roundtrip : forall gs, Forall (fun g => g <> [] /\ Forall wf_alt g) gs ->
  parse_depends (rel_str (AndRel (map tree_alts gs))) = Ok (AndRel (map tree_alts gs)).
Proof. exact field_str_roundtrip. Qed.
Print Assumptions C14_field_str_roundtrip.

(* more than one operator in a version clause *)
Theorem C14_bad_clause_two_operators : forall n o1 x1 o2 x2,
  wf_name n -> wf_op o1 -> wf_version x1 -> wf_op o2 -> wf_version x2 ->
  parse_relationship (n ++ lit " (" ++ (o1 ++ [32] ++ x1 ++ [32] ++ o2 ++ [32] ++ x2) ++ [41]) = Raise ValueError.
Proof. exact bad_clause_two_operators. Qed.
Print Assumptions C14_bad_clause_two_operators.

(* a concrete field meets the hypotheses *)
Example C14_nonvacuous_field :
  let l0 := mkLayout [] [] [] [] [] [] [] [] in
  let a1 := mkAlt (lit "libc6") (Some (lit ">=", lit "2.4")) [] in
  let a2 := mkAlt (lit "foo:any") None [lit "!i386"; lit "amd64"] in
  let a3 := mkAlt (lit "bar") (Some (lit "<<", lit "1:2~rc1-1")) [] in
  parse_depends (render_field [[mkRalt [] (mkLayout [32] [] [32] [] [] [] [] []) a1 [32];
                                 mkRalt [32] (mkLayout [] [] [] [] [32] [] [[32]] []) a2 []];
                                [mkRalt [10; 32] (mkLayout [32] [32] [] [9] [] [] [] []) a3 [32]]]) =
  Ok (AndRel [OrRel [VRel (lit "libc6") (lit ">=") (lit "2.4") []; Rel (lit "foo:any") [lit "!i386"; lit "amd64"]];
              VRel (lit "bar") (lit "<<") (lit "1:2~rc1-1") []]).
Proof. vm_compute. reflexivity. Qed.
