From DI Require Import PyStr Mapping.
Theorem C19_placeholder : True. Proof. exact I. Qed.
Print Assumptions C19_placeholder.
