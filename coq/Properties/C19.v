(* C19 - Control paragraph is a case-insensitive mapping; typed fields are faithful. *)
From Coq Require Import String.
From Coq Require Import NArith ZArith List Bool.
From DI Require Import Result PyStr Debcon Copyright Deps Unsign Mapping MappingFacts Grammar822 ReadbackFacts.
Import ListNotations.
Open Scope N_scope.

(* After any sequence of get / set / delete / membership / length / iteration /
   to_dict / update (pairs, mapping, keywords) / setdefault / pop / clear operations with arbitrarily-cased keys, the observations (including
   KeyError) are those of a plain dictionary driven with the lower-cased keys.
   [lower] is any function (Python's str.lower in the code). *)
Theorem C19_refines_dict : forall (lower : str -> str) (V : Type) (ops : list (op V)) (d : pydict V),
  run_ops V (step822 lower V) d ops = run_ops V (step_dict V) d (map (lower_op lower V) ops).
Proof. exact run_refines. Qed.
Print Assumptions C19_refines_dict.

(* mapping, item pairs and "Name: value" strings all build the dictionary of the lower-cased items *)
Theorem C19_construction_routes : forall (lower : str -> str) (V : Type) (items : list (str * V)),
  from_items lower V items =
  fold_left (fun d kv => dict_put (fst kv) (snd kv) d) (map (fun kv => (lower (fst kv), snd kv)) items) [].
Proof. exact from_items_spec. Qed.
Print Assumptions C19_construction_routes.

(* the plain dictionary is a dictionary: what was set is read back, other keys are untouched *)
Theorem C19_dict_get_put : forall (V : Type) (k k' : str) (v : V) (d : pydict V),
  dict_get k (dict_put k v d) = Some v /\
  (str_eqb k' k = false -> dict_get k' (dict_put k v d) = dict_get k' d).
Proof. intros. split; [apply dict_get_put_same|apply dict_get_put_other]. Qed.
Print Assumptions C19_dict_get_put.

(* conventional capitalisation: independent of the input case, idempotent (ASCII names) *)
Theorem C19_normalize_case_independent : forall n n', ascii_name n -> ascii_name n' ->
  lower_ascii n = lower_ascii n' -> normalize_control_field_name n = normalize_control_field_name n'.
Proof. exact normalize_same_case_class. Qed.
Print Assumptions C19_normalize_case_independent.

Theorem C19_normalize_idempotent : forall n, ascii_name n ->
  normalize_control_field_name (normalize_control_field_name n) = normalize_control_field_name n.
Proof. exact normalize_idempotent. Qed.
Print Assumptions C19_normalize_idempotent.

Example C19_normalize_special :
  map normalize_control_field_name [lit "md5sum"; lit "SHA1"; lit "checksums-sha256"; lit "pre-depends"; lit "INSTALLED-SIZE"] =
  [lit "MD5sum"; lit "SHA1"; lit "Checksums-SHA256"; lit "Pre-Depends"; lit "Installed-Size"].
Proof. vm_compute. reflexivity. Qed.

(* typed conversion: exactly the relationship fields become parsed relationships equal to
   parsing their raw value, Installed-Size an integer, every other value unchanged *)
Theorem C19_typed_fields : forall items out d,
  parse_control_fields_aux items out = Some (Ok d) ->
  exists cs,
    Forall2 (fun kv c => typed_ok (normalize_control_field_name (fst kv)) (snd kv) c) items cs /\
    d = fold_left (fun acc p => dict_put (fst p) (snd p) acc)
                  (combine (map (fun kv => normalize_control_field_name (fst kv)) items) cs) out.
Proof. exact typed_fields. Qed.
Print Assumptions C19_typed_fields.

(* rendering a paragraph of uniquely named fields ([a-z][a-z0-9-]* keys, single-line trimmed values)
   and reading the rendering back gives the same mapping (corollary of the C06 grammar theorem; the
   rendering must not look like a PGP envelope, and no key is content-type - finding F17) *)
Theorem C19_render_readback : forall d, d <> [] -> Forall rb_entry d -> NoDup (map fst d) ->
  Forall (fun kv => fst kv <> lit "content-type") d -> is_signed (dumps822 d) = false ->
  from_text822 (dumps822 d) = d.
Proof. exact dumps_readback. Qed.
Print Assumptions C19_render_readback.

(* a maintainer value "Name <address>" (words of atom characters, a dot-atom address) splits into
   exactly that name and address and prints back unchanged *)
Theorem C19_maintainer_roundtrip : forall n a, simple_phrase n = true -> simple_addr a = true ->
  maintainer_from_value (n ++ [32; 60] ++ a ++ [62]) = Some (n, a) /\
  maintainer_dumps (n, a) = n ++ [32; 60] ++ a ++ [62].
Proof. exact maintainer_roundtrip. Qed.
Print Assumptions C19_maintainer_roundtrip.

Example C19_readback_nonvacuous :
  from_text822 (dumps822 [(lit "package", lit "x"); (lit "md5sum", lit "a: b"); (lit "x-foo-2", lit "1.0 (beta)")]) =
  [(lit "package", lit "x"); (lit "md5sum", lit "a: b"); (lit "x-foo-2", lit "1.0 (beta)")] /\
  maintainer_from_value (lit "Jane R. Doe <jane.doe@example.org>") = None /\
  maintainer_from_value (lit "Jane Doe <jane.doe@example.org>") = Some (lit "Jane Doe", lit "jane.doe@example.org").
Proof. vm_compute. repeat split; reflexivity. Qed.

Example C19_history_nonvacuous :
  run_ops str (step822 lower_name str) []
    [OSet (lit "Package") (lit "x"); OGet (lit "PACKAGE"); ODel (lit "pAcKaGe"); OGet (lit "package"); OLen] =
  [ObsNone str; ObsVal str (lit "x"); ObsNone str; ObsKeyError str; ObsLen str 0].
Proof. vm_compute. reflexivity. Qed.

Example C19_history_bulk_operations :
  run_ops str (step822 lower_name str) [(lit "package", lit "x")]
    [OUpdate [(lit "Version", lit "1"); (lit "VERSION", lit "2")]; OSetDefault (lit "PACKAGE") (lit "y"); OSetDefault (lit "Priority") (lit "p");
     OPop (lit "version"); OPop (lit "Version"); OPopDefault (lit "nope") (lit "d"); OIter; OClear; OLen] =
  [ObsNone str; ObsVal str (lit "x"); ObsVal str (lit "p"); ObsVal str (lit "2"); ObsKeyError str; ObsVal str (lit "d");
   ObsKeys str [lit "package"; lit "priority"]; ObsNone str; ObsLen str 0].
Proof. vm_compute. reflexivity. Qed.

(* reading with a default: an empty stored value is a value (the default is for absent keys only) *)
Example C19_history_get_with_default :
  run_ops str (step822 lower_name str) [(lit "x-foo", [])]
    [OGetDefault (lit "X-Foo") (lit "dflt"); OGetDefault (lit "X-Bar") (lit "dflt"); OGet (lit "x-FOO")] =
  [ObsVal str []; ObsVal str (lit "dflt"); ObsVal str []].
Proof. vm_compute. reflexivity. Qed.
