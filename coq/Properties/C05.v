From DI Require Import PyStr Deb822.
Theorem C05_placeholder : True. Proof. exact I. Qed.
Print Assumptions C05_placeholder.
