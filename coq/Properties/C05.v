(* C05 - The line-tracking deb822 parser accounts for every source line exactly.
   [groups t] = get_paragraphs_as_field_groups(t); [flat gs] = all reported
   (number, value) pairs in output order; [lines_from_text t] = the numbered
   source lines (LF, CRLF, CR end a line). *)
From Coq Require Import String.
From Coq Require Import NArith List Bool Sorted.
From DI Require Import Result PyStr PyStrFacts Deb822 Deb822Facts Renumber.
Import ListNotations.
Open Scope N_scope.

(* the parser is total *)
Theorem C05_total : forall t, exists gs, groups t = Ok gs.
Proof. exact groups_total. Qed.
Print Assumptions C05_total.

(* the whole accounting: in source order, every source line is either reported once - with
   its own number and a value that is the line without trailing blanks, or the line
   verbatim, or (for a declaration) the text after the first colon trimmed - or it is
   droppable: blank, or a declaration whose value is empty *)
Theorem C05_accounting : forall t gs, groups t = Ok gs -> acc (lines_from_text t) (flat gs).
Proof. exact groups_acc. Qed.
Print Assumptions C05_accounting.

Theorem C05_text_faithful : forall t gs, groups t = Ok gs ->
  forall o, In o (flat gs) -> exists s, In s (lines_from_text t) /\ line_ok s o.
Proof. intros t gs H. exact (acc_reported _ _ (groups_acc t gs H)). Qed.
Print Assumptions C05_text_faithful.

Theorem C05_only_blank_or_empty_decl_dropped : forall t gs, groups t = Ok gs ->
  forall s, In s (lines_from_text t) -> (exists o, In o (flat gs) /\ line_ok s o) \/ droppable s.
Proof. intros t gs H. exact (acc_unreported _ _ (groups_acc t gs H)). Qed.
Print Assumptions C05_only_blank_or_empty_decl_dropped.

(* numbers are true and strictly increasing across the whole result (hence at most once) *)
Theorem C05_numbers_true_and_increasing : forall t gs, groups t = Ok gs ->
  StronglySorted N.lt (map ln_num (flat gs)) /\
  Forall (fun n => 1 <= n <= N.of_nat (length (text_lines t))) (map ln_num (flat gs)).
Proof. exact groups_numbers. Qed.
Print Assumptions C05_numbers_true_and_increasing.

(* and contiguous inside every field *)
Theorem C05_contiguous_in_field : forall t gs, groups t = Ok gs -> Forall group_consec gs.
Proof. exact groups_consec. Qed.
Print Assumptions C05_contiguous_in_field.

(* a reported field does not end in a blank line *)
Theorem C05_no_trailing_blank : forall f,
  match rev (f_lines (finish_field f)) with l :: _ => is_blank (ln_val l) = false | [] => True end.
Proof. exact finish_last_nonblank. Qed.
Print Assumptions C05_no_trailing_blank.

(* line structure: source lines hold no LF or CR; lines joined by LF are read back as they are
   (a form feed or another separator character does not end a line) *)
Theorem C05_line_structure : forall t, Forall (no_lb is_lf_cr) (text_lines t).
Proof. exact text_lines_no_terminator. Qed.
Print Assumptions C05_line_structure.

Theorem C05_line_structure_join : forall ls, Forall (no_lb is_lf_cr) ls -> ls <> [] -> last ls [0] <> [] ->
  text_lines (join [10] ls) = ls.
Proof. exact text_lines_join. Qed.
Print Assumptions C05_line_structure_join.

Example C05_form_feed_is_not_a_line_end :
  groups (lit "License: GPL" ++ [10] ++ lit " foo" ++ [12] ++ lit "bar" ++ [10] ++ lit " baz" ++ [10]) =
  Ok [[mkField (lit "license") [mkLine 1 (lit "GPL"); mkLine 2 (lit " foo" ++ [12] ++ lit "bar"); mkLine 3 (lit " baz")]]].
Proof. vm_compute. reflexivity. Qed.

(* the parser carries the numbers of the lines it is handed, it never reads them: handed the same
   lines under other numbers (any renumbering g) it reports the same groups under those numbers *)
Theorem C05_numbers_are_carried : forall g lines,
  groups_from_lines (map (renum g) lines) = rmap (renum_groups g) (groups_from_lines lines).
Proof. exact groups_from_lines_renum. Qed.
Print Assumptions C05_numbers_are_carried.

(* in particular the lines of a text numbered from k+1 (the tail of a larger file) give the groups of
   the text with every number k higher *)
Theorem C05_lines_numbered_from_anywhere : forall t k, groups_offset t k = groups t.
Proof. exact groups_offset_groups. Qed.
Print Assumptions C05_lines_numbered_from_anywhere.

Example C05_ex_offset :
  groups_from_lines (number_from 1001 (text_lines (lit "a: b
 c

d: e")))
  = Ok [[mkField (lit "a") [mkLine 1001 (lit "b"); mkLine 1002 (lit " c")]];
        [mkField (lit "d") [mkLine 1004 (lit "e")]]].
Proof. vm_compute. reflexivity. Qed.
