From DI Require Import PyStr Copyright.
Theorem C12_placeholder : True. Proof. exact I. Qed.
Print Assumptions C12_placeholder.
