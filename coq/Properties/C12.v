(* C12 - Blank lines inside multi-line values are recovered, not paragraph breaks.
   Documents are those of the deb822 grammar extended with blank (empty or whitespace-only)
   lines inside a field that are followed by a continuation line (Proofs/Grammar822Blank.v).
   Two documents are related (Rdoc) when they have the same paragraphs, fields, separators and
   lines except that some continuation lines " ." (any trailing blanks) of the first are blank
   lines in the second.  Proved: both parse, into the same paragraphs and fields with the same
   names and line numbers, the texts differing only at the replaced lines (" ." against the
   empty text), hence with the same words in each field; the copyright objects have the same
   number of paragraphs, of the same types, with typed fields and extra data of the same keys and
   the same words - for documents whose paragraphs classify as header, files or license and have
   no repeated field name, i.e. the well-formed documents the property quantifies over.  (Documents
   with repeated names or recovery rewrites are outside the quantifier and decided by co-execution
   only; the recorded line ranges may differ, which the property does not exclude.) *)
From Coq Require Import String.
From Coq Require Import NArith List Bool.
From DI Require Import Result PyStr Codec Deb822 Deb822Facts BlankFacts Debcon Copyright Grammar822 Grammar822Facts
  Grammar822Blank Dep5Facts WordFacts ConserveFacts MarkerFacts Renumber.
Import ListNotations.
Open Scope N_scope.

(* the line-tracking parser on every document of the extended grammar: exactly its paragraphs and
   fields, a blank line inside a field recorded as an empty line of that field *)
Theorem C12_blank_lines_are_field_lines : forall ps, wf_doc_b ps ->
  groups (doc_text ps) = Ok (expected_doc_b 1 ps).
Proof. exact wf_doc_b_text_parses. Qed.
Print Assumptions C12_blank_lines_are_field_lines.

(* markers replaced by blank lines: same paragraphs, fields, names, line numbers; only the text of
   the replaced lines differs *)
Theorem C12_markers_replaced_parser : forall ps ps', wf_doc_b ps -> wf_doc_b ps' -> Rdoc ps ps' ->
  exists E E', groups (doc_text ps) = Ok E /\ groups (doc_text ps') = Ok E' /\ Forall2 (Forall2 Rfield) E E'.
Proof. exact markers_replaced_parser. Qed.
Print Assumptions C12_markers_replaced_parser.

Theorem C12_same_words_in_each_field : forall e e', Rfield e e' ->
  f_name e = f_name e' /\ map ln_num (f_lines e) = map ln_num (f_lines e') /\
  cwords (field_text e) = cwords (field_text e').
Proof. intros e e' H. destruct (Rfield_shape e e' H) as [H1 H2]. repeat split; try assumption. now apply Rfield_words. Qed.
Print Assumptions C12_same_words_in_each_field.

Theorem C12_same_paragraph_type : forall g g', Forall2 Rfield g g' -> classify g = classify g'.
Proof. exact Rgroup_classify. Qed.
Print Assumptions C12_same_paragraph_type.

(* the copyright object: same type, same typed fields and extra data, the same words in each *)
Theorem C12_markers_replaced_paragraph : forall t g g' p p', Forall2 Rfield g g' -> NoDup (map fname (live g)) ->
  from_fields t g = Ok p -> from_fields t g' = Ok p' ->
  p_type p = p_type p' /\
  Forall2 (fun kv kv' => fst kv = fst kv' /\ cwords (fval_dumps (snd kv)) = cwords (fval_dumps (snd kv'))) (p_fields p) (p_fields p') /\
  Forall2 Rkv (p_extra p) (p_extra p').
Proof. exact markers_replaced_paragraph. Qed.
Print Assumptions C12_markers_replaced_paragraph.


(* the whole copyright objects: same number of paragraphs, same types, same keys, same words *)
Theorem C12_markers_replaced_object : forall ps ps', wf_doc_b ps -> wf_doc_b ps' -> Rdoc ps ps' ->
  Forall (fun g => classify g <> PCatchAll /\ NoDup (map fname (live g))) (expected_doc_b 1 ps) ->
  exists paras paras', from_text (doc_text ps) = Ok paras /\ from_text (doc_text ps') = Ok paras' /\ Forall2 Rpara paras paras'.
Proof. exact markers_replaced_object. Qed.
Print Assumptions C12_markers_replaced_object.

(* a continuation line is neither blank nor a declaration *)
Theorem C12_continuation_is_content : forall v, is_cont v = true -> is_blank v = false /\ is_decl v = false.
Proof. exact is_cont_facts. Qed.
Print Assumptions C12_continuation_is_content.

(* with any current field, a marker line and a blank (empty or whitespace-only) line that are
   followed by a continuation line lead to the same next state: both are appended to the
   current field, followed by the continuation line - no paragraph break *)
Theorem C12_blank_absorbed_like_marker : forall f fs n v n2 c rest,
  is_cont c = true -> (is_cont v = true \/ is_blank v = true) ->
  groups_loop (mkLine n v :: mkLine n2 c :: rest) (f :: fs) =
  groups_loop rest (add_continuation (add_continuation f (mkLine n v)) (mkLine n2 c) :: fs).
Proof. exact blank_absorbed_like_marker. Qed.
Print Assumptions C12_blank_absorbed_like_marker.

(* the two states differ only in the recorded text of line n *)
Theorem C12_only_the_line_text_differs : forall f fs n v v' n2 c rest,
  is_cont c = true -> is_cont v = true -> is_blank v' = true ->
  exists st st',
    groups_loop (mkLine n v :: mkLine n2 c :: rest) (f :: fs) = groups_loop rest st /\
    groups_loop (mkLine n v' :: mkLine n2 c :: rest) (f :: fs) = groups_loop rest st' /\
    st = mkField (f_name f) (mkLine n2 (rstrip c) :: mkLine n (rstrip v) :: f_lines f) :: fs /\
    st' = mkField (f_name f) (mkLine n2 (rstrip c) :: mkLine n [] :: f_lines f) :: fs.
Proof. exact marker_vs_blank. Qed.
Print Assumptions C12_only_the_line_text_differs.

(* the replaced line is protected from trailing-blank trimming by the continuation above it *)
Theorem C12_not_trimmed : forall c rl, is_cont c = true -> forall n2,
  drop_while_lines (fun l => is_blank (ln_val l)) (mkLine n2 (rstrip c) :: rl) = mkLine n2 (rstrip c) :: rl.
Proof. exact continuation_protects. Qed.
Print Assumptions C12_not_trimmed.

(* in formatted fields both texts decode to an empty line *)
Theorem C12_formatted_equal : decode_line [32; 46] = [] /\ decode_line [] = [].
Proof. exact decode_marker_or_blank. Qed.
Print Assumptions C12_formatted_equal.

(* the hypotheses are satisfiable: a license text whose two markers become an empty and a
   whitespace-only line *)
Example C12_nonvacuous :
  let f := mkGField (lit "License") (lit " ") (lit "MIT") [lit " a"; lit " ."; lit " b"; lit " .  "; lit "  c"] in
  let f' := mkGField (lit "License") (lit " ") (lit "MIT") [lit " a"; []; lit " b"; lit "   "; lit "  c"] in
  let d := [([mkGField (lit "Files") (lit " ") (lit "*") []; f], 0%nat)] in
  let d' := [([mkGField (lit "Files") (lit " ") (lit "*") []; f'], 0%nat)] in
  groups (doc_text d') =
  Ok [[mkField (lit "files") [mkLine 1 (lit "*")];
       mkField (lit "license") [mkLine 2 (lit "MIT"); mkLine 3 (lit " a"); mkLine 4 []; mkLine 5 (lit " b"); mkLine 6 []; mkLine 7 (lit "  c")]]]
  /\ rmap (map (map (fun e => cwords (field_text e)))) (groups (doc_text d)) =
     rmap (map (map (fun e => cwords (field_text e)))) (groups (doc_text d')).
Proof. vm_compute. split; reflexivity. Qed.

(* the look-ahead that decides whether a blank line is absorbed reads the NEXT line of the list it was
   handed, wherever the numbers of those lines start: under any renumbering g the same lines are
   absorbed, and the groups are those of the original numbering, renumbered *)
Theorem C12_recovery_does_not_read_numbers : forall g lines,
  groups_from_lines (map (renum g) lines) = rmap (renum_groups g) (groups_from_lines lines).
Proof. exact groups_from_lines_renum. Qed.
Print Assumptions C12_recovery_does_not_read_numbers.

Example C12_recovery_numbered_from_1001 :
  groups_from_lines (number_from 1001 (text_lines (lit "License: x
 a

 b")))
  = Ok [[mkField (lit "license") [mkLine 1001 (lit "x"); mkLine 1002 (lit " a"); mkLine 1003 []; mkLine 1004 (lit " b")]]].
Proof. vm_compute. reflexivity. Qed.
