(* C12 - Blank lines inside multi-line values are recovered, not paragraph breaks
   (partial: the theorems settle the look-ahead rule at the point where it applies -
   for every state of the parser, every current field and every continuation - and
   that the replaced line is not trimmed later; that the rest of the parse and the
   copyright object only differ in that line's text is decided by co-execution on
   all admissible subsets of markers of generated documents). *)
From Coq Require Import String.
From Coq Require Import NArith List Bool.
From DI Require Import Result PyStr Codec Deb822 Deb822Facts BlankFacts.
Import ListNotations.
Open Scope N_scope.

(* a continuation line is neither blank nor a declaration *)
Theorem C12_continuation_is_content : forall v, is_cont v = true -> is_blank v = false /\ is_decl v = false.
Proof. exact is_cont_facts. Qed.
Print Assumptions C12_continuation_is_content.

(* with any current field, a marker line and a blank (empty or whitespace-only) line that are
   followed by a continuation line lead to the same next state: both are appended to the
   current field, followed by the continuation line - no paragraph break *)
Theorem C12_blank_absorbed_like_marker : forall f fs n v n2 c rest,
  is_cont c = true -> (is_cont v = true \/ is_blank v = true) ->
  groups_loop (mkLine n v :: mkLine n2 c :: rest) (f :: fs) =
  groups_loop rest (add_continuation (add_continuation f (mkLine n v)) (mkLine n2 c) :: fs).
Proof. exact blank_absorbed_like_marker. Qed.
Print Assumptions C12_blank_absorbed_like_marker.

(* the two states differ only in the recorded text of line n *)
Theorem C12_only_the_line_text_differs : forall f fs n v v' n2 c rest,
  is_cont c = true -> is_cont v = true -> is_blank v' = true ->
  exists st st',
    groups_loop (mkLine n v :: mkLine n2 c :: rest) (f :: fs) = groups_loop rest st /\
    groups_loop (mkLine n v' :: mkLine n2 c :: rest) (f :: fs) = groups_loop rest st' /\
    st = mkField (f_name f) (mkLine n2 (rstrip c) :: mkLine n (rstrip v) :: f_lines f) :: fs /\
    st' = mkField (f_name f) (mkLine n2 (rstrip c) :: mkLine n [] :: f_lines f) :: fs.
Proof. exact marker_vs_blank. Qed.
Print Assumptions C12_only_the_line_text_differs.

(* the replaced line is protected from trailing-blank trimming by the continuation above it *)
Theorem C12_not_trimmed : forall c rl, is_cont c = true -> forall n2,
  drop_while_lines (fun l => is_blank (ln_val l)) (mkLine n2 (rstrip c) :: rl) = mkLine n2 (rstrip c) :: rl.
Proof. exact continuation_protects. Qed.
Print Assumptions C12_not_trimmed.

(* in formatted fields both texts decode to an empty line *)
Theorem C12_formatted_equal : decode_line [32; 46] = [] /\ decode_line [] = [].
Proof. exact decode_marker_or_blank. Qed.
Print Assumptions C12_formatted_equal.
