From DI Require Import PyStr Version.
Theorem C01_placeholder : True. Proof. exact I. Qed.
Print Assumptions C01_placeholder.
