(* C01 - Version ordering is exactly dpkg's ordering. *)
From Coq Require Import String.
From Coq Require Import NArith ZArith List Bool.
From DI Require Import Result PyStr Version Dpkg Policy OrderFacts VersionFacts ParseFacts VersionOrder DpkgFacts DpkgVersion.
Import ListNotations.
Open Scope Z_scope.

(* the transcription of dpkg's verrevcmp computes the key order, for ALL strings *)
Theorem C01_verrevcmp_is_key_order : forall x y,
  Z.sgn (verrevcmp x y) = Z_of_cmp (cmp_key (key x) (key y)).
Proof. exact verrevcmp_key. Qed.
Print Assumptions C01_verrevcmp_is_key_order.

(* single components are ordered exactly as dpkg's verrevcmp orders them *)
Theorem C01_compare_strings_is_verrevcmp : forall x y, allowed x -> allowed y ->
  compare_strings x y = Ok (Z.sgn (verrevcmp x y)).
Proof. exact compare_strings_verrevcmp. Qed.
Print Assumptions C01_compare_strings_is_verrevcmp.

(* whole versions are ordered exactly as dpkg_version_compare orders them after
   dpkg's split (epoch before the first colon or 0, revision after the last hyphen
   or the empty string) *)
Theorem C01_compare_versions_is_dpkg : forall a b va vb,
  from_string a = Ok va -> from_string b = Ok vb ->
  compare_versions a b = Ok (Z.sgn (dpkg_compare_strings (strip a) (strip b))).
Proof. exact compare_versions_dpkg. Qed.
Print Assumptions C01_compare_versions_is_dpkg.

(* single components: alternating non-digit runs (tilde < end < letters < others)
   and digit runs by numeric value, i.e. the key order of Spec/Dpkg.v *)
Theorem C01_compare_strings_is_key_order : forall x y, allowed x -> allowed y ->
  compare_strings x y = Ok (Z_of_cmp (cmp_key (key x) (key y))).
Proof. exact compare_strings_key. Qed.
Print Assumptions C01_compare_strings_is_key_order.

Theorem C01_fuel_sufficient : forall fuel x y, allowed x -> allowed y ->
  (length x + length y <= fuel)%nat ->
  compare_strings_fuel fuel x y = compare_strings x y.
Proof.
  intros fuel x y Ax Ay Hl. rewrite (compare_strings_key x y Ax Ay).
  now apply compare_strings_fuel_key.
Qed.
Print Assumptions C01_fuel_sufficient.

(* whole versions: epochs numerically, then upstream, then revision *)
Theorem C01_compare_versions_is_key_order : forall a b va vb,
  from_string a = Ok va -> from_string b = Ok vb ->
  compare_versions a b = Ok (Z_of_cmp (vcmp va vb)).
Proof. exact compare_versions_vcmp. Qed.
Print Assumptions C01_compare_versions_is_key_order.

(* never an error on valid versions *)
Theorem C01_no_error_on_valid : forall a b va vb,
  from_string a = Ok va -> from_string b = Ok vb -> exists r, compare_versions a b = Ok r.
Proof. intros a b va vb Ha Hb. eexists. exact (compare_versions_vcmp a b va vb Ha Hb). Qed.
Print Assumptions C01_no_error_on_valid.

(* a missing epoch counts as 0 and a missing revision as "0" *)
Theorem C01_missing_parts : forall s v,
  from_string s = Ok v -> (epoch v, upstream v, revision v) = policy_triple (strip s).
Proof. exact decomposition. Qed.
Print Assumptions C01_missing_parts.

Example C01_tilde_before_end : compare_versions (lit "1.0~rc1") (lit "1.0") = Ok (-1).
Proof. vm_compute. reflexivity. Qed.
Example C01_end_before_letters : compare_versions (lit "1.0") (lit "1.0a") = Ok (-1).
Proof. vm_compute. reflexivity. Qed.
Example C01_letters_before_punct : compare_versions (lit "1.0z") (lit "1.0+1") = Ok (-1).
Proof. vm_compute. reflexivity. Qed.
Example C01_digit_runs_numeric : compare_versions (lit "1.007") (lit "1.7") = Ok 0.
Proof. vm_compute. reflexivity. Qed.
Example C01_missing_revision_is_0 : compare_versions (lit "1") (lit "0:1-0") = Ok 0.
Proof. vm_compute. reflexivity. Qed.
