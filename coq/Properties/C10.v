(* C10 - Copyright field line ranges locate exactly the field's content.  Proved for EVERY text and
   the FINAL object (after renaming of duplicates, merging of unknown paragraphs and folding of free
   text into an empty license):
   - C10_final_object: the ranges of fields with a non-empty value are within 1..#lines, have
     start <= end, are disjoint and increasing in source order within and across paragraphs, and
     each starts on the first content line of a field with a value and ends on the last line of
     such a field;
   - C10_words_in_range: every word of the value of a field stands on a source line inside the
     range recorded for that field;
   - C10_shift_every_text: k blank lines at the top leave types and dictionary forms as they are
     and shift the range of every field with a value by exactly k;
   and the per-field and per-step facts they are built from (where recorded ranges come from, that
   they are tight for the field, how they compose through merge and fold, the literal shift of the
   whole object when every paragraph has a field with a value). *)
From Coq Require Import String.
From Coq Require Import NArith List Bool Sorted.
From DI Require Import Result PyStr Deb822 Debcon Copyright Deb822Facts CopyrightFacts RangeFacts Dep5Facts WordFacts ConserveFacts ShiftFacts RangeFinal RangeWords ShiftGeneral.
Import ListNotations.
Open Scope N_scope.

(* the range recorded for a field is (first line with content, last line) of one of the
   fields of the paragraph, and that field has a non-empty value *)
Theorem C10_ranges_come_from_fields : forall t fs p, from_fields t fs = Ok p ->
  forall r, In r (map snd (p_lines p)) -> exists f, In f fs /\ r = range_of f /\ field_text f <> [].
Proof. exact from_fields_ranges. Qed.
Print Assumptions C10_ranges_come_from_fields.

(* for a field whose line numbers increase (C05): start and end are numbers of its own lines
   (hence between 1 and the number of source lines), start <= end, no line of the field lies
   after end, and no line with content lies before start *)
Theorem C10_range_tight : forall f,
  StronglySorted N.lt (nums f) -> f_lines f <> [] ->
  In (first_content_line f) (nums f) /\ In (last_line f) (nums f) /\
  first_content_line f <= last_line f /\
  (forall l, In l (f_lines f) -> ln_num l <= last_line f) /\
  (forall l, In l (f_lines f) -> is_blank (ln_val l) = false -> first_content_line f <= ln_num l).
Proof. exact field_range. Qed.
Print Assumptions C10_range_tight.

(* line numbers increase strictly over all fields of all paragraphs in source order, so the
   ranges of different fields are disjoint and increasing *)
Theorem C10_numbers_increase_across_fields : forall t gs, groups t = Ok gs ->
  StronglySorted N.lt (map ln_num (flat gs)).
Proof. intros t gs H. exact (proj1 (groups_numbers t gs H)). Qed.
Print Assumptions C10_numbers_increase_across_fields.

(* k blank lines at the top shift every line number by exactly k and change nothing else
   (paragraphs, field names, values) in what the copyright object is built from *)
Theorem C10_shift_partial : forall k t,
  groups (repeat 10 k ++ t) = rmap (map (map (shift_field (N.of_nat k)))) (groups t).
Proof. exact groups_shift. Qed.
Print Assumptions C10_shift_partial.

(* inserting k blank lines at the top shifts every recorded range of the copyright object by
   exactly k and changes nothing else: same paragraphs, types, typed fields, extra data - through
   renaming, merging of unknown paragraphs and folding into an empty license *)
Theorem C10_shift_whole_object : forall k t gs, groups t = Ok gs -> Forall (fun g => live g <> []) gs ->
  from_text (repeat 10 k ++ t) = rmap (map (shift_para (N.of_nat k))) (from_text t).
Proof. exact from_text_shift. Qed.
Print Assumptions C10_shift_whole_object.

(* EVERY text (also those holding paragraphs in which no field has a value, which record no true
   range): inserting k blank lines at the top gives an object with the same paragraph types and the
   same dictionary forms, in which the range of every field with a non-empty value is shifted by
   exactly k.  vr p lists the ranges recorded in p for the names whose value is not empty
   (final_ranges = flat_map vr). *)
Theorem C10_shift_every_text : forall k t gs ps, groups t = Ok gs -> from_text t = Ok ps ->
  exists ps', from_text (repeat 10 k ++ t) = Ok ps' /\
    Forall2 (fun p p' => p_type p' = p_type p /\ para_to_dict p' = para_to_dict p /\
                         vr p' = map (shift_rng (N.of_nat k)) (vr p)) ps ps'.
Proof. exact from_text_shift_general. Qed.
Print Assumptions C10_shift_every_text.

Example C10_shift_every_text_nonvacuous :
  let t := lit "Foo:

Bar:

License:

junk text
" in
  rmap (map vr) (from_text t) = Ok [[]; [(7, 7)]] /\ rmap (map vr) (from_text (repeat 10 3 ++ t)) = Ok [[]; [(10, 10)]].
Proof. vm_compute. split; reflexivity. Qed.

(* how ranges compose: the merged unknown paragraph spans the merged paragraphs (smallest start,
   largest end, both attained) *)
Theorem C10_merge_range_spans : forall run r0 rs, para_ranges run = r0 :: rs ->
  exists r, p_lines (merge_run run) = [(lit "unknown", r)] /\
    (forall x, In x (r0 :: rs) -> fst r <= fst x /\ snd x <= snd r) /\
    (exists x, In x (r0 :: rs) /\ fst r = fst x) /\ (exists y, In y (r0 :: rs) /\ snd r = snd y).
Proof. exact merge_range_spans. Qed.
Print Assumptions C10_merge_range_spans.

(* the folded license starts where its License field started, or else where the unknown paragraph
   starts, and ends where the unknown paragraph ends *)
Theorem C10_fold_range : forall p1 p2,
  p_lines (fold_pair p1 p2) =
  dict_put (lit "license")
    (match dict_get (lit "license") (p_lines p1) with Some (s, _) => s | None => fst (first_last p2) end, snd (first_last p2))
    (p_lines p1).
Proof. exact fold_range. Qed.
Print Assumptions C10_fold_range.

(* the span of a paragraph covers the ranges of all its fields *)
Theorem C10_paragraph_span : forall p, p_lines p <> [] ->
  forall kv, In kv (p_lines p) -> fst (first_last p) <= fst (snd kv) /\ snd (snd kv) <= snd (first_last p).
Proof. exact first_last_spans. Qed.
Print Assumptions C10_paragraph_span.

(* THE FINAL OBJECT, every text.  final_ranges ps lists, paragraph after paragraph and in the order
   of line_numbers_by_field, the ranges recorded for the names whose value in the dictionary form is
   not empty.  They increase strictly and never overlap (end of one < start of the next), lie inside
   the text with start <= end, and each starts on the first content line of a field with a value and
   ends on the last line of a field with a value - through renaming of duplicates, merging of
   unknown paragraphs and folding of free text into an empty license. *)
Theorem C10_final_object : forall t ps, from_text t = Ok ps ->
  StronglySorted (fun a b : N * N => snd a < fst b) (final_ranges ps) /\
  Forall (fun r : N * N => 1 <= fst r /\ fst r <= snd r /\ snd r <= N.of_nat (length (text_lines t))) (final_ranges ps) /\
  exists gs, groups t = Ok gs /\
    forall r, In r (final_ranges ps) ->
      exists f g, In f (all_live gs) /\ In g (all_live gs) /\ fst r = first_content_line f /\ snd r = last_line g.
Proof. exact from_text_final. Qed.
Print Assumptions C10_final_object.

(* THE FINAL OBJECT, every text: every word (a lone full stop, the blank-line marker, is not a word)
   of the value a field has in the dictionary form stands on one of the numbered lines the parser made
   of the text (C05: line n holds source line n, the value part of it for a declaration line), and the
   number of that line lies inside the range recorded for the field - whether the value was typed,
   kept as extra data under a renamed key, merged from several unknown paragraphs, or folded into an
   empty license. *)
Theorem C10_words_in_range : forall t gs ps, groups t = Ok gs -> from_text t = Ok ps ->
  Forall (fun p => forall name r, In (name, r) (p_lines p) ->
            forall w, In w (cwords (lookup name (para_to_dict p))) ->
            exists n, fst r <= n <= snd r /\
                      exists l, In l (flat gs) /\ ln_num l = n /\ In w (cwords (ln_val l))) ps.
Proof. exact from_text_words_located. Qed.
Print Assumptions C10_words_in_range.

Example C10_words_in_range_nonvacuous :
  let t := lit "junk one
junk two

License:

folded text
" in
  rmap (map (fun p => map (fun kv => (snd kv, cwords (lookup (fst kv) (para_to_dict p)))) (p_lines p))) (from_text t) =
  Ok [[((1, 2), [lit "junk"; lit "one"; lit "junk"; lit "two"])]; [((6, 6), [lit "folded"; lit "text"])]].
Proof. vm_compute. reflexivity. Qed.

(* final_ranges is what it says: per paragraph, the recorded ranges whose name has a non-empty value *)
Example C10_final_ranges_def : forall ps,
  final_ranges ps =
  flat_map (fun p => flat_map (fun kv : str * (N * N) =>
              if nonempty (lookup (fst kv) (para_to_dict p)) then [snd kv] else []) (p_lines p)) ps.
Proof. reflexivity. Qed.

Example C10_final_object_recovery_paths :
  let t := lit "junk one
junk two

more junk

License:

folded text

Foo:

Files: *
Copyright: x
License:

 text
" in
  rmap final_ranges (from_text t) = Ok [(1, 4); (8, 8); (12, 12); (13, 13); (16, 16)].
Proof. vm_compute. reflexivity. Qed.

Example C10_shift_recovery_paths :
  let t := lit "junk one
junk two

more junk

License:

folded text
" in
  from_text (repeat 10 3 ++ t) = rmap (map (shift_para 3)) (from_text t) /\
  rmap (map p_lines) (from_text t) = Ok [[(lit "unknown", (1, 4))]; [(lit "license", (8, 8))]].
Proof. vm_compute. split; reflexivity. Qed.

Example C10_value_less_declaration :
  exists ps, from_text (lit "Files: *" ++ [10] ++ lit "Copyright: x" ++ [10] ++ lit "License:" ++ [10; 10] ++
                        lit " text" ++ [10] ++ lit " more") = Ok ps /\
             map p_lines ps = [[(lit "files", (1, 1)); (lit "copyright", (2, 2)); (lit "license", (5, 6))]].
Proof. eexists. split; vm_compute; reflexivity. Qed.
