(* C10 - Copyright field line ranges locate exactly the field's content (partial:
   the composition through merged unknown paragraphs / folded licenses and the
   document-level shift law are established by co-execution and by the executable
   statement, not proved). *)
From Coq Require Import String.
From Coq Require Import NArith List Bool Sorted.
From DI Require Import Result PyStr Deb822 Debcon Copyright Deb822Facts CopyrightFacts RangeFacts.
Import ListNotations.
Open Scope N_scope.

(* the range recorded for a field is (first line with content, last line) of one of the
   fields of the paragraph, and that field has a non-empty value *)
Theorem C10_ranges_come_from_fields : forall t fs p, from_fields t fs = Ok p ->
  forall r, In r (map snd (p_lines p)) -> exists f, In f fs /\ r = range_of f /\ field_text f <> [].
Proof. exact from_fields_ranges. Qed.
Print Assumptions C10_ranges_come_from_fields.

(* for a field whose line numbers increase (C05): start and end are numbers of its own lines
   (hence between 1 and the number of source lines), start <= end, no line of the field lies
   after end, and no line with content lies before start *)
Theorem C10_range_tight : forall f,
  StronglySorted N.lt (nums f) -> f_lines f <> [] ->
  In (first_content_line f) (nums f) /\ In (last_line f) (nums f) /\
  first_content_line f <= last_line f /\
  (forall l, In l (f_lines f) -> ln_num l <= last_line f) /\
  (forall l, In l (f_lines f) -> is_blank (ln_val l) = false -> first_content_line f <= ln_num l).
Proof. exact field_range. Qed.
Print Assumptions C10_range_tight.

(* line numbers increase strictly over all fields of all paragraphs in source order, so the
   ranges of different fields are disjoint and increasing *)
Theorem C10_numbers_increase_across_fields : forall t gs, groups t = Ok gs ->
  StronglySorted N.lt (map ln_num (flat gs)).
Proof. intros t gs H. exact (proj1 (groups_numbers t gs H)). Qed.
Print Assumptions C10_numbers_increase_across_fields.

(* k blank lines at the top shift every line number by exactly k and change nothing else
   (paragraphs, field names, values) in what the copyright object is built from *)
Theorem C10_shift_partial : forall k t,
  groups (repeat 10 k ++ t) = rmap (map (map (shift_field (N.of_nat k)))) (groups t).
Proof. exact groups_shift. Qed.
Print Assumptions C10_shift_partial.

Example C10_value_less_declaration :
  exists ps, from_text (lit "Files: *" ++ [10] ++ lit "Copyright: x" ++ [10] ++ lit "License:" ++ [10; 10] ++
                        lit " text" ++ [10] ++ lit " more") = Ok ps /\
             map p_lines ps = [[(lit "files", (1, 1)); (lit "copyright", (2, 2)); (lit "license", (5, 6))]].
Proof. eexists. split; vm_compute; reflexivity. Qed.
