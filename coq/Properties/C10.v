(* C10 - Copyright field line ranges locate exactly the field's content (partial: proved -
   where recorded ranges come from, that they are tight for the field, that numbers increase
   across fields and paragraphs, and the shift law for the WHOLE copyright object including
   merged unknown paragraphs and folded licenses, for every text in which each paragraph has
   a field with a value, and how ranges compose through merge (span of the merged paragraphs)
   and fold (from the License field or the start of the unknown paragraph to its end).  Not
   assembled into one statement: that in the final object every range of a valued field is
   within 1..#lines and that ranges of different fields are disjoint and increasing across the
   merged and folded paragraphs - decided by co-execution and by the executable statement). *)
From Coq Require Import String.
From Coq Require Import NArith List Bool Sorted.
From DI Require Import Result PyStr Deb822 Debcon Copyright Deb822Facts CopyrightFacts RangeFacts Dep5Facts ShiftFacts.
Import ListNotations.
Open Scope N_scope.

(* the range recorded for a field is (first line with content, last line) of one of the
   fields of the paragraph, and that field has a non-empty value *)
Theorem C10_ranges_come_from_fields : forall t fs p, from_fields t fs = Ok p ->
  forall r, In r (map snd (p_lines p)) -> exists f, In f fs /\ r = range_of f /\ field_text f <> [].
Proof. exact from_fields_ranges. Qed.
Print Assumptions C10_ranges_come_from_fields.

(* for a field whose line numbers increase (C05): start and end are numbers of its own lines
   (hence between 1 and the number of source lines), start <= end, no line of the field lies
   after end, and no line with content lies before start *)
Theorem C10_range_tight : forall f,
  StronglySorted N.lt (nums f) -> f_lines f <> [] ->
  In (first_content_line f) (nums f) /\ In (last_line f) (nums f) /\
  first_content_line f <= last_line f /\
  (forall l, In l (f_lines f) -> ln_num l <= last_line f) /\
  (forall l, In l (f_lines f) -> is_blank (ln_val l) = false -> first_content_line f <= ln_num l).
Proof. exact field_range. Qed.
Print Assumptions C10_range_tight.

(* line numbers increase strictly over all fields of all paragraphs in source order, so the
   ranges of different fields are disjoint and increasing *)
Theorem C10_numbers_increase_across_fields : forall t gs, groups t = Ok gs ->
  StronglySorted N.lt (map ln_num (flat gs)).
Proof. intros t gs H. exact (proj1 (groups_numbers t gs H)). Qed.
Print Assumptions C10_numbers_increase_across_fields.

(* k blank lines at the top shift every line number by exactly k and change nothing else
   (paragraphs, field names, values) in what the copyright object is built from *)
Theorem C10_shift_partial : forall k t,
  groups (repeat 10 k ++ t) = rmap (map (map (shift_field (N.of_nat k)))) (groups t).
Proof. exact groups_shift. Qed.
Print Assumptions C10_shift_partial.

(* inserting k blank lines at the top shifts every recorded range of the copyright object by
   exactly k and changes nothing else: same paragraphs, types, typed fields, extra data - through
   renaming, merging of unknown paragraphs and folding into an empty license *)
Theorem C10_shift_whole_object : forall k t gs, groups t = Ok gs -> Forall (fun g => live g <> []) gs ->
  from_text (repeat 10 k ++ t) = rmap (map (shift_para (N.of_nat k))) (from_text t).
Proof. exact from_text_shift. Qed.
Print Assumptions C10_shift_whole_object.

(* how ranges compose: the merged unknown paragraph spans the merged paragraphs (smallest start,
   largest end, both attained) *)
Theorem C10_merge_range_spans : forall run r0 rs, para_ranges run = r0 :: rs ->
  exists r, p_lines (merge_run run) = [(lit "unknown", r)] /\
    (forall x, In x (r0 :: rs) -> fst r <= fst x /\ snd x <= snd r) /\
    (exists x, In x (r0 :: rs) /\ fst r = fst x) /\ (exists y, In y (r0 :: rs) /\ snd r = snd y).
Proof. exact merge_range_spans. Qed.
Print Assumptions C10_merge_range_spans.

(* the folded license starts where its License field started, or else where the unknown paragraph
   starts, and ends where the unknown paragraph ends *)
Theorem C10_fold_range : forall p1 p2,
  p_lines (fold_pair p1 p2) =
  dict_put (lit "license")
    (match dict_get (lit "license") (p_lines p1) with Some (s, _) => s | None => fst (first_last p2) end, snd (first_last p2))
    (p_lines p1).
Proof. exact fold_range. Qed.
Print Assumptions C10_fold_range.

(* the span of a paragraph covers the ranges of all its fields *)
Theorem C10_paragraph_span : forall p, p_lines p <> [] ->
  forall kv, In kv (p_lines p) -> fst (first_last p) <= fst (snd kv) /\ snd (snd kv) <= snd (first_last p).
Proof. exact first_last_spans. Qed.
Print Assumptions C10_paragraph_span.

Example C10_shift_recovery_paths :
  let t := lit "junk one
junk two

more junk

License:

folded text
" in
  from_text (repeat 10 3 ++ t) = rmap (map (shift_para 3)) (from_text t) /\
  rmap (map p_lines) (from_text t) = Ok [[(lit "unknown", (1, 4))]; [(lit "license", (8, 8))]].
Proof. vm_compute. split; reflexivity. Qed.

Example C10_value_less_declaration :
  exists ps, from_text (lit "Files: *" ++ [10] ++ lit "Copyright: x" ++ [10] ++ lit "License:" ++ [10; 10] ++
                        lit " text" ++ [10] ++ lit " more") = Ok ps /\
             map p_lines ps = [[(lit "files", (1, 1)); (lit "copyright", (2, 2)); (lit "license", (5, 6))]].
Proof. eexists. split; vm_compute; reflexivity. Qed.
