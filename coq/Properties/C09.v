From DI Require Import PyStr Copyright.
Theorem C09_placeholder : True. Proof. exact I. Qed.
Print Assumptions C09_placeholder.
