(* C09 - Machine-readable copyright files are recognised paragraph by paragraph.
   Proved on the property's quantifier - documents of the deb822 grammar of C06 whose paragraphs
   classify as header, files or license and have no repeated field name: the paragraph structure,
   classification, routing and typing of every field, the copyright statement converter (for every
   value), file patterns, license name / text split, extra data, validity.  How continuation lines
   of a license or comment decode is C20.  The year-range test is a definition of the model
   (digits / ASCII punctuation with a digit), co-executed on all short strings.  Documents with
   repeated names or needing recovery are outside this property (C11, C12). *)
From Coq Require Import String.
From Coq Require Import NArith List Bool.
From DI Require Import Result PyStr Codec Deb822 Debcon Copyright Grammar822 Grammar822Facts Dep5Facts DepsParseFacts.
Import ListNotations.
Open Scope N_scope.

(* classification by field names: Format (or Format-Specification), else Files, else License,
   else catch-all *)
Theorem C09_classification : forall fs,
  ((has_name (lit "format") fs \/ has_name (lit "format-specification") fs) -> classify fs = PHeader) /\
  (~ has_name (lit "format") fs -> ~ has_name (lit "format-specification") fs ->
     (has_name (lit "files") fs -> classify fs = PFiles) /\
     (~ has_name (lit "files") fs ->
        (has_name (lit "license") fs -> classify fs = PLicense) /\
        (~ has_name (lit "license") fs -> classify fs = PCatchAll))).
Proof. exact classify_spec. Qed.
Print Assumptions C09_classification.

(* one paragraph per document paragraph, in order, of the type its names select; no recovery
   rewrite touches a document without catch-all paragraphs *)
Theorem C09_paragraph_per_document_paragraph : forall ps, wf_doc ps ->
  Forall (fun g => classify g <> PCatchAll) (expected_doc 1 ps) ->
  exists paras, from_text (doc_text ps) = Ok paras /\
    Forall2 (fun g p => from_fields (classify g) g = Ok p /\ p_type p = classify g) (expected_doc 1 ps) paras.
Proof. exact dep5_document. Qed.
Print Assumptions C09_paragraph_per_document_paragraph.

(* a paragraph without repeated names: every field with a value is kept under its own name;
   the known names of the paragraph type are typed, all others are extra data *)
Theorem C09_fields_routed : forall t fs, NoDup (map fname (live fs)) ->
  from_fields t fs =
  Ok (build_para t
        (map (fun f => (fname f, fvalue f)) (filter (route t (all_extra t)) (live fs)))
        (map (fun f => (fname f, fvalue f)) (filter (fun f => negb (route t (all_extra t) f)) (live fs)))
        (map (fun f => (fname f, range_of f)) (live fs))).
Proof. exact from_fields_distinct. Qed.
Print Assumptions C09_fields_routed.

Theorem C09_typed_field : forall t fs p f c, NoDup (map fname (live fs)) -> from_fields t fs = Ok p ->
  In f (live fs) -> In (fname f, c) (known_fields t) -> all_extra t = false ->
  In (fname f, convert c (fvalue f)) (p_fields p).
Proof. exact typed_field_value. Qed.
Print Assumptions C09_typed_field.

Theorem C09_extra_field : forall t fs p f, NoDup (map fname (live fs)) -> from_fields t fs = Ok p ->
  In f (live fs) -> known_name t (fname f) = false ->
  dict_get (fname f) (p_extra p) = Some (fvalue f).
Proof. exact extra_field_value. Qed.
Print Assumptions C09_extra_field.

(* the copyright statement converter, for EVERY value: whitespace runs collapse; the first word
   is the year range when it passes the year-range test, the rest is the holder *)
Theorem C09_statement : forall v,
  statement_from_value v =
  match split_ws v with
  | [] => ([], [])
  | w :: rest => if is_year_range w then (w, join [32] rest) else ([], join [32] (w :: rest))
  end.
Proof. exact statement_spec. Qed.
Print Assumptions C09_statement.

Theorem C09_statement_year_holder : forall y hs, word y -> is_year_range y = true -> Forall word hs ->
  statement_from_value (join [32] (y :: hs)) = (y, join [32] hs).
Proof. exact statement_year_holder. Qed.
Print Assumptions C09_statement_year_holder.

(* file patterns: a whitespace-separated list *)
Theorem C09_files_patterns : forall ws, Forall word ws ->
  convert FWS (join [32] ws) = VLines ws.
Proof. intros ws H. unfold convert. now rewrite split_ws_join. Qed.
Print Assumptions C09_files_patterns.

(* license: short name = trimmed first line, text = decoded continuation lines *)
Theorem C09_license_name_text : forall raw l0 ls, splitlines raw = l0 :: ls ->
  convert FLicense raw = VLicense (strip l0) (lstrip (from_formatted_lines ls)).
Proof. exact license_name_text. Qed.
Print Assumptions C09_license_name_text.

(* validity *)
Theorem C09_no_files_paragraph_invalid : forall strict ps, of_type PFiles ps = [] -> doc_is_valid strict ps = false.
Proof. exact no_files_invalid. Qed.
Print Assumptions C09_no_files_paragraph_invalid.

Theorem C09_header_and_files_valid : forall ps h f fs,
  ps <> [] -> of_type PHeader ps = [h] -> of_type PFiles ps = f :: fs ->
  forallb (para_is_valid false) (f :: fs) = true -> doc_is_valid false ps = true.
Proof. exact header_and_files_valid. Qed.
Print Assumptions C09_header_and_files_valid.

Theorem C09_files_paragraph_valid : forall p, p_type p = PFiles ->
  files_values p <> [] -> statements p <> [] -> lic_name p <> [] -> para_is_valid false p = true.
Proof. exact files_paragraph_valid. Qed.
Print Assumptions C09_files_paragraph_valid.

(* a concrete document meets the hypotheses *)
Example C09_nonvacuous :
  let hdr := [mkGField (lit "Format") (lit " ") (lit "https://www.debian.org/doc/packaging-manuals/copyright-format/1.0/") []] in
  let fl := [mkGField (lit "Files") (lit " ") (lit "* src/x") [];
             mkGField (lit "Copyright") (lit " ") (lit "2001-2003,  Jane  Doe") [lit "  J. Roe"];
             mkGField (lit "Licence") (lit " ") (lit "GPL-2+") [lit " text"; lit " ."; lit "  verbatim"]] in
  match from_text (doc_text [(hdr, 2%nat); (fl, 0%nat)]) with
  | Ok [h; f] =>
      p_type h = PHeader /\ p_type f = PFiles /\ files_values f = [lit "*"; lit "src/x"] /\
      statements f = [(lit "2001-2003,", lit "Jane Doe"); ([], lit "J. Roe")] /\
      lic_name f = lit "GPL-2+" /\ doc_is_valid false [h; f] = true /\ doc_is_valid false [h] = false
  | _ => False
  end.
Proof. vm_compute. repeat split; reflexivity. Qed.
