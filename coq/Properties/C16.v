From DI Require Import PyStr Unsign.
Theorem C16_placeholder : True. Proof. exact I. Qed.
Print Assumptions C16_placeholder.
