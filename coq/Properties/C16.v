(* C16 - PGP clear-sign removal returns the signed body or the input, and quickly
   (partial: the functional clauses are theorems about the scanner model of the
   clear-sign pattern; the running time of the regex engine is measured on every
   run, not proved). *)
From Coq Require Import String.
From Coq Require Import Arith NArith List Bool Lia.
From DI Require Import Result PyStr Unsign UnsignFacts.
Import ListNotations.
Open Scope N_scope.

(* for every text the result is a string that is a contiguous part of the input (never None) *)
Theorem C16_contiguous : forall t, exists a b, t = a ++ remove_signature t ++ b.
Proof. exact remove_signature_contiguous. Qed.
Print Assumptions C16_contiguous.

(* without a clear-sign envelope the input is returned unchanged *)
Theorem C16_no_envelope_identity : forall t, is_signed t = false -> remove_signature t = t.
Proof. exact no_envelope_identity. Qed.
Print Assumptions C16_no_envelope_identity.

(* an envelope whose signed-message part cannot be read returns the input *)
Theorem C16_unreadable_is_input : forall t, pgp_search t = Some None -> remove_signature t = t.
Proof. exact armor_only_identity. Qed.
Print Assumptions C16_unreadable_is_input.

(* a well-formed message - armor line, Hash header, empty line, the lines of the signed text, a
   signature block that matches and holds no inner block - yields exactly the signed text: its
   lines, without the line end before the signature block (a CR of a CRLF end remains) *)
Theorem C16_wellformed_with_hash : forall l0 h e pre l sig,
  is_begin_signed l0 = true -> is_hash_line h = true -> is_eol e = true ->
  sig <> [] -> armor_match sig = true -> no_inner_block sig -> ends_lf l = true ->
  pgp_search_lines (l0 :: h :: e :: pre ++ l :: sig) = Some (Some (concat pre ++ chop_lf l)).
Proof. exact wellformed_with_hash. Qed.
Print Assumptions C16_wellformed_with_hash.

Theorem C16_wellformed_without_hash : forall l0 e pre l sig,
  is_begin_signed l0 = true -> is_eol e = true ->
  sig <> [] -> armor_match sig = true -> no_inner_block sig -> ends_lf l = true ->
  pgp_search_lines (l0 :: e :: pre ++ l :: sig) = Some (Some (concat pre ++ chop_lf l)).
Proof. exact wellformed_without_hash. Qed.
Print Assumptions C16_wellformed_without_hash.

(* the hypotheses are satisfiable: a concrete signature block *)
Definition sig_example : list str :=
  [lit "-----BEGIN PGP SIGNATURE-----" ++ [10]; lit "Version: GnuPG v1" ++ [10]; [10];
   lit "iQFHBAEBCgAxFiEE" ++ [10]; lit "=BVVn" ++ [10]; lit "-----END PGP SIGNATURE-----" ++ [10]].

Example C16_signature_block_ok : armor_match sig_example = true /\ no_inner_block sig_example.
Proof.
  split; [vm_compute; reflexivity|]. intros k Hk. cbn [length sig_example] in Hk.
  do 6 (destruct k as [|k]; [try lia; vm_compute; reflexivity|]). lia.
Qed.

Example C16_whole_message :
  remove_signature (lit "-----BEGIN PGP SIGNED MESSAGE-----" ++ [10] ++ lit "Hash: SHA512" ++ [10; 10] ++
                    lit "Format: 3.0 (quilt)" ++ [10] ++ lit "- -----dash escaped" ++ [10] ++ concat sig_example)
  = lit "Format: 3.0 (quilt)" ++ [10] ++ lit "- -----dash escaped".
Proof. vm_compute. reflexivity. Qed.
