(* C16 - PGP clear-sign removal returns the signed body or the input, and quickly
   (partial: the functional clauses are theorems about the scanner model of the
   clear-sign pattern; the running time of the regex engine is measured on every
   run, not proved). *)
From Coq Require Import String.
From Coq Require Import Arith NArith List Bool Lia.
From DI Require Import Result PyStr Unsign UnsignFacts UnsignSkip.
Import ListNotations.
Open Scope N_scope.

(* for every text the result is a string that is a contiguous part of the input (never None) *)
Theorem C16_contiguous : forall t, exists a b, t = a ++ remove_signature t ++ b.
Proof. exact remove_signature_contiguous. Qed.
Print Assumptions C16_contiguous.

(* without a clear-sign envelope the input is returned unchanged *)
Theorem C16_no_envelope_identity : forall t, is_signed t = false -> remove_signature t = t.
Proof. exact no_envelope_identity. Qed.
Print Assumptions C16_no_envelope_identity.

(* an envelope whose signed-message part cannot be read returns the input *)
Theorem C16_unreadable_is_input : forall t, pgp_search t = Some None -> remove_signature t = t.
Proof. exact armor_only_identity. Qed.
Print Assumptions C16_unreadable_is_input.

(* a well-formed message - armor line, Hash header, empty line, the lines of the signed text, a
   signature block that matches and holds no inner block - yields exactly the signed text: its
   lines, without the line end before the signature block (a CR of a CRLF end remains) *)
Theorem C16_wellformed_with_hash : forall l0 h e pre l sig,
  is_begin_signed l0 = true -> is_hash_line h = true -> is_eol e = true ->
  sig <> [] -> armor_match sig = true -> no_inner_block sig -> ends_lf l = true ->
  pgp_search_lines (l0 :: h :: e :: pre ++ l :: sig) = Some (Some (concat pre ++ chop_lf l)).
Proof. exact wellformed_with_hash. Qed.
Print Assumptions C16_wellformed_with_hash.

Theorem C16_wellformed_without_hash : forall l0 e pre l sig,
  is_begin_signed l0 = true -> is_eol e = true ->
  sig <> [] -> armor_match sig = true -> no_inner_block sig -> ends_lf l = true ->
  pgp_search_lines (l0 :: e :: pre ++ l :: sig) = Some (Some (concat pre ++ chop_lf l)).
Proof. exact wellformed_without_hash. Qed.
Print Assumptions C16_wellformed_without_hash.

(* the hypotheses are satisfiable: a concrete signature block *)
Definition sig_example : list str :=
  [lit "-----BEGIN PGP SIGNATURE-----" ++ [10]; lit "Version: GnuPG v1" ++ [10]; [10];
   lit "iQFHBAEBCgAxFiEE" ++ [10]; lit "=BVVn" ++ [10]; lit "-----END PGP SIGNATURE-----" ++ [10]].

Example C16_signature_block_ok : armor_match sig_example = true /\ no_inner_block sig_example.
Proof.
  split; [vm_compute; reflexivity|]. intros k Hk. cbn [length sig_example] in Hk.
  do 6 (destruct k as [|k]; [try lia; vm_compute; reflexivity|]). lia.
Qed.

Example C16_whole_message :
  remove_signature (lit "-----BEGIN PGP SIGNED MESSAGE-----" ++ [10] ++ lit "Hash: SHA512" ++ [10; 10] ++
                    lit "Format: 3.0 (quilt)" ++ [10] ++ lit "- -----dash escaped" ++ [10] ++ concat sig_example)
  = lit "Format: 3.0 (quilt)" ++ [10] ++ lit "- -----dash escaped".
Proof. vm_compute. reflexivity. Qed.

(* what stands before the message - lines that do not start with five dashes, blank lines among
   them - is skipped by the search: the well-formed message theorems hold after any such lines *)
Theorem C16_leading_lines_skipped : forall pre ls,
  Forall no_dashes pre -> pgp_search_lines (pre ++ ls) = pgp_search_lines ls.
Proof. exact search_skips_lines. Qed.
Print Assumptions C16_leading_lines_skipped.

Theorem C16_wellformed_after_leading_lines : forall pre0 l0 h e pre l sig,
  Forall no_dashes pre0 ->
  is_begin_signed l0 = true -> is_hash_line h = true -> is_eol e = true ->
  sig <> [] -> armor_match sig = true -> no_inner_block sig -> ends_lf l = true ->
  pgp_search_lines (pre0 ++ l0 :: h :: e :: pre ++ l :: sig) = Some (Some (concat pre ++ chop_lf l)).
Proof. exact wellformed_with_hash_after. Qed.
Print Assumptions C16_wellformed_after_leading_lines.

(* ... and before dash-free lines after its signature block: a message that stands between blank
   lines (or any lines that do not start with five dashes) yields exactly its signed text *)
Theorem C16_wellformed_between_other_lines : forall pre0 l0 h e pre l sig trail,
  Forall no_dashes pre0 -> Forall no_dashes trail ->
  is_begin_signed l0 = true -> is_hash_line h = true -> is_eol e = true ->
  sig <> [] -> armor_match sig = true -> no_inner_block sig -> ends_lf l = true ->
  pgp_search_lines (pre0 ++ l0 :: h :: e :: pre ++ l :: sig ++ trail) = Some (Some (concat pre ++ chop_lf l)).
Proof. exact wellformed_with_hash_around. Qed.
Print Assumptions C16_wellformed_between_other_lines.

Theorem C16_wellformed_without_hash_between_other_lines : forall pre0 l0 e pre l sig trail,
  Forall no_dashes pre0 -> Forall no_dashes trail ->
  is_begin_signed l0 = true -> is_eol e = true ->
  sig <> [] -> armor_match sig = true -> no_inner_block sig -> ends_lf l = true ->
  pgp_search_lines (pre0 ++ l0 :: e :: pre ++ l :: sig ++ trail) = Some (Some (concat pre ++ chop_lf l)).
Proof. exact wellformed_without_hash_around. Qed.
Print Assumptions C16_wellformed_without_hash_between_other_lines.

(* dash-free lines appended to a list of lines complete no armor block in it *)
Theorem C16_trailing_lines_complete_no_block : forall x trail,
  Forall no_dashes trail -> armor_match (x ++ trail) = true -> armor_match x = true.
Proof. exact armor_match_app_inv. Qed.
Print Assumptions C16_trailing_lines_complete_no_block.

(* white space around a text, of any amount, does not change whether it is an envelope *)
Theorem C16_is_signed_ignores_padding : forall ws t ws',
  all_space ws = true -> all_space ws' = true -> is_signed (ws ++ t ++ ws') = is_signed t.
Proof. exact is_signed_padded. Qed.
Print Assumptions C16_is_signed_ignores_padding.

(* any number of blank lines (white space, then LF) before a message that reads: the same signed text *)
Theorem C16_blank_lines_before_message : forall ws t c,
  Forall (fun l => forall x, In x l -> is_space x = true /\ x <> 10) ws ->
  is_signed t = true -> pgp_search t = Some (Some c) ->
  remove_signature (concat (map (fun l => l ++ [10]) ws) ++ t) = c
  /\ is_signed (concat (map (fun l => l ++ [10]) ws) ++ t) = true.
Proof. exact remove_signature_after_blank_lines. Qed.
Print Assumptions C16_blank_lines_before_message.

Example C16_padded_message :
  remove_signature ([10; 32; 9; 10; 10] ++
                    lit "-----BEGIN PGP SIGNED MESSAGE-----" ++ [10] ++ lit "Hash: SHA512" ++ [10; 10] ++
                    lit "Format: 3.0 (quilt)" ++ [10] ++ concat sig_example ++ [10; 32; 10])
  = lit "Format: 3.0 (quilt)".
Proof. vm_compute. reflexivity. Qed.
