(* C18 - Contents index: the two returned mappings are complete and mutually
   inverse.  The theorems are about the loop of parse_contents over decoded
   lines; opening the file, gzip and decoding are exercised, not modelled. *)
From Coq Require Import String.
From Coq Require Import NArith List Bool.
From DI Require Import Result PyStr Contents ContentsSpec ContentsFacts.
Import ListNotations.
Open Scope N_scope.

(* any table of well-formed rows (paths with embedded spaces, one to many packages
   with zero or more qualifiers, any padding >= 1) parses to the fold of its
   (path, bare name) pairs in file order *)
Theorem C18_parse_table : forall pads rows,
  Forall wf_row rows -> length pads = length rows ->
  parse_contents_lines false (map (fun pr => render_row (fst pr) (snd pr)) (combine pads rows)) =
  Ok (fold_left add_event (events rows) ([], [])).
Proof. exact parse_table_no_header. Qed.
Print Assumptions C18_parse_table.

(* each path maps to exactly the bare names of its rows, in order *)
Theorem C18_by_path : forall rows p,
  lookup p (fst (fold_left add_event (events rows) ([], []))) = by_path_spec rows p.
Proof. exact by_path_complete. Qed.
Print Assumptions C18_by_path.

(* each package maps to exactly the paths of the rows naming it, in file order *)
Theorem C18_by_package : forall rows n,
  lookup n (snd (fold_left add_event (events rows) ([], []))) = by_package_spec rows n.
Proof. exact by_package_complete. Qed.
Print Assumptions C18_by_package.

(* exact inverses, with multiplicity *)
Theorem C18_inverse : forall rows p n,
  count n (by_path_spec rows p) = count p (by_package_spec rows n).
Proof. exact mappings_inverse. Qed.
Print Assumptions C18_inverse.

Theorem C18_header_ignored : forall narr hdr lines st,
  forallb (fun l => negb (is_header_line l)) narr = true -> is_header_line hdr = true ->
  contents_loop true false st (narr ++ hdr :: lines) = contents_loop true true st lines.
Proof. exact header_ignored. Qed.
Print Assumptions C18_header_ignored.

Theorem C18_header_missing : forall lines,
  forallb (fun l => negb (is_header_line l)) lines = true ->
  parse_contents_lines true lines = Raise PyException.
Proof. exact header_missing. Qed.
Print Assumptions C18_header_missing.

Theorem C18_header_undeclared : forall pre hdr post,
  forallb (fun l => negb (is_header_line l)) pre = true -> is_header_line hdr = true ->
  parse_contents_lines false (pre ++ hdr :: post) = Raise PyException.
Proof. exact header_undeclared. Qed.
Print Assumptions C18_header_undeclared.

Example C18_wf_row_nonvacuous :
  wf_row (mkRow (lit "usr/share/doc/a b/README") [(lit "universe/utils/", lit "bash"); ([], lit "g++")]).
Proof.
  unfold wf_row. cbn [r_path r_pkgs]. split; [discriminate|]. split; [vm_compute; reflexivity|].
  split; [discriminate|]. split; [|vm_compute; reflexivity].
  assert (NS : forall s, forallb (fun c => negb (is_space c)) s = true -> no_space s).
  { intros s H. apply Forall_forall. intros c Hc. rewrite forallb_forall in H. now apply negb_true_iff, H. }
  assert (NI : forall c s, forallb (fun x => negb (x =? c)) s = true -> ~ In c s).
  { intros c s H Hi. rewrite forallb_forall in H. specialize (H _ Hi). now rewrite N.eqb_refl in H. }
  constructor; [|constructor; [|constructor]]; cbn [fst snd]; split.
  - split; [now apply NS|]. split; [now apply NI|]. right. exists (lit "universe/utils"). reflexivity.
  - split; [discriminate|]. split; [now apply NS|]. split; now apply NI.
  - split; [now apply NS|]. split; [now apply NI|]. now left.
  - split; [discriminate|]. split; [now apply NS|]. split; now apply NI.
Qed.
