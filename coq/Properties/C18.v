From DI Require Import PyStr Contents.
Theorem C18_placeholder : True. Proof. exact I. Qed.
Print Assumptions C18_placeholder.
