From DI Require Import PyStr Deb822.
Theorem C06_placeholder : True. Proof. exact I. Qed.
Print Assumptions C06_placeholder.
