(* C06 - Well-formed deb822 documents parse to exactly their paragraphs and fields.
   The grammar is Spec/Grammar822.v: paragraphs (non-empty lists of fields) each followed by a
   number of empty lines (at least one between paragraphs, any number after the last); a field has
   a name [A-Za-z][A-Za-z0-9-]*, any run of blanks/tabs after the colon, a trimmed first-line value
   (any characters but LF/CR, possibly empty) and continuation lines (indented, not blank, no
   trailing blanks); a field has a first-line value or a continuation line. *)
From Coq Require Import String.
From Coq Require Import NArith List Bool.
From DI Require Import Result PyStr Deb822 Email Debcon Grammar822 Grammar822Facts Grammar822Header.
Import ListNotations.
Open Scope N_scope.

(* line-tracking parser: exactly the paragraphs in order, each with exactly its fields in order:
   names lower-cased (licence -> license), first-line values trimmed, continuation lines in order,
   every line with the number it has in the document *)
Theorem C06_line_tracking_parser : forall ps, wf_doc ps ->
  groups (doc_text ps) = Ok (expected_doc 1 ps).
Proof. exact wf_doc_text_parses. Qed.
Print Assumptions C06_line_tracking_parser.

(* the same from already numbered lines, whatever the first number *)
Theorem C06_line_tracking_from_lines : forall ps n, wf_doc ps ->
  groups_loop (number_from n (doc_src ps)) [] = Ok (expected_doc n ps).
Proof. exact wf_doc_parses. Qed.
Print Assumptions C06_line_tracking_from_lines.

(* names and values do not depend on how many empty lines separate the paragraphs *)
Theorem C06_separator_length_irrelevant : forall ps qs, wf_doc ps -> wf_doc qs -> same_paragraphs ps qs ->
  rmap (map (map field_content)) (groups (doc_text ps)) =
  rmap (map (map field_content)) (groups (doc_text qs)).
Proof. exact separators_irrelevant. Qed.
Print Assumptions C06_separator_length_irrelevant.

Theorem C06_content : forall ps, wf_doc ps ->
  rmap (map (map field_content)) (groups (doc_text ps)) = Ok (doc_content ps).
Proof. exact wf_doc_content. Qed.
Print Assumptions C06_content.

(* nor on the line end after the last line *)
Theorem C06_final_newline_irrelevant : forall ps p, wf_doc (ps ++ [(p, 0%nat)]) ->
  groups (join [10] (doc_src (ps ++ [(p, 0%nat)]))) = groups (doc_text (ps ++ [(p, 0%nat)])).
Proof. exact final_newline_irrelevant. Qed.
Print Assumptions C06_final_newline_irrelevant.

(* header-style parser, one paragraph with or without a final line end: exactly the fields in
   order, names lower-cased, the value = first-line value and continuation lines joined by LF
   and trimmed.  names_ok: the lower-cased names of a paragraph are pairwise different and none
   is content-type (a MIME container type there would switch the standard parser to a
   different reading; C08 covers that path) *)
Theorem C06_header_parser_paragraph : forall p e, p <> [] -> Forall wf_gfield p -> names_ok p ->
  (e = [] \/ e = [10]) ->
  get_paragraph_data (para_text p e) = map hfield p.
Proof. exact header_parser_paragraph. Qed.
Print Assumptions C06_header_parser_paragraph.

(* header-style parser: the document is cut into exactly its paragraphs, whatever the number of
   empty lines between them *)
Theorem C06_header_parser_split : forall ps, wf_doc ps -> split_in_paragraphs (doc_text ps) = pieces ps.
Proof. intros ps. exact (split_wf_doc ps false). Qed.
Print Assumptions C06_header_parser_split.

(* header-style parser, whole document: one dictionary per paragraph in order; the result does not
   mention the separator lengths at all *)
Theorem C06_header_parser : forall ps, wf_doc ps -> doc_names_ok ps ->
  get_paragraphs_data (doc_text ps) = hdoc ps.
Proof. exact header_parser_doc. Qed.
Print Assumptions C06_header_parser.

(* the hypotheses are satisfiable: two paragraphs, three empty lines between them *)
Example C06_nonvacuous :
  let f1 := mkGField (lit "Package") (lit " ") (lit "a: b") [lit " .x"; lit "  y"] in
  let f2 := mkGField (lit "X-9-") [] [] [lit " ."] in
  let f3 := mkGField (lit "Licence") (lit "  ") (lit "GPL") [] in
  groups (doc_text [([f1; f2], 3%nat); ([f3], 0%nat)]) =
  Ok [[mkField (lit "package") [mkLine 1 (lit "a: b"); mkLine 2 (lit " .x"); mkLine 3 (lit "  y")];
       mkField (lit "x-9-") [mkLine 4 []; mkLine 5 (lit " .")]];
      [mkField (lit "license") [mkLine 9 (lit "GPL")]]].
Proof. vm_compute. reflexivity. Qed.

Example C06_nonvacuous_header :
  let f1 := mkGField (lit "Package") (lit " ") (lit "a: b") [lit " .x"; lit "  y"] in
  let f2 := mkGField (lit "X-9-") [] [] [lit " ."] in
  let f3 := mkGField (lit "Licence") (lit "  ") (lit "GPL") [] in
  get_paragraphs_data (doc_text [([f1; f2], 3%nat); ([f3], 0%nat)]) =
  [[(lit "package", (lit "a: b" ++ [10] ++ lit " .x" ++ [10] ++ lit "  y")%list); (lit "x-9-", lit ".")];
   [(lit "licence", lit "GPL")]].
Proof. vm_compute. reflexivity. Qed.
