From DI Require Import PyStr Debcon.
Theorem C08_placeholder : True. Proof. exact I. Qed.
Print Assumptions C08_placeholder.
