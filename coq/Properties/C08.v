(* C08 - The header-style control parser drops no content; duplicates merge losslessly.
   Proved: cutting a text into paragraphs loses no word; cutting a paragraph into lines, and the
   lines into header lines / separator / body, loses no character; a paragraph that cannot be
   read as fields is returned whole under "unknown"; for a paragraph read as fields, the words
   after the colon of every declaration line and the words of every continuation line are exactly
   the words of the parsed values, every parsed name is a key of the mapping (lower-cased), every
   word of every value - merged or not, single-line or multi-line - is found under its key, and
   the words of the body are found under "unknown"; repeated names with single-line values keep
   every distinct value under the first occurrence, LF-separated, in order of first appearance.
   (partial: the "From " envelope-line corner - a trailing "From " line is pushed back into the body
   by the standard parser - is excluded by hypothesis in the paragraph theorem and decided by
   co-execution; the standard email package itself is an environment model.) *)
From Coq Require Import String.
From Coq Require Import NArith List Bool.
From DI Require Import Result PyStr Email Debcon DebconFacts WordFacts ConserveFacts HeaderWords.
Import ListNotations.
Open Scope N_scope.

(* cutting the text into paragraphs loses no word (the separators hold white space only) *)
Theorem C08_paragraph_cut_keeps_words : forall t, flat_map words (split_in_paragraphs t) = words t.
Proof. exact split_in_paragraphs_words. Qed.
Print Assumptions C08_paragraph_cut_keeps_words.

(* a paragraph read as fields: every word reaches the mapping *)
Theorem C08_every_word_reaches_the_mapping : forall t,
  let m := parse_message t in
  let d := get_paragraph_data t in
  t <> [] -> m_items m <> [] -> m_defects m = false -> m_unixfrom m = false -> m_container m = false ->
  Forall no_from (header_lines t) ->
  flat_map (fun kv : str * str => words (snd kv)) (m_items m) = flat_map hl_words (header_lines t) /\
  (forall n v, In (n, v) (m_items m) ->
     incl (words v) (words (lookup (mkey n) d)) /\ dict_get (mkey n) d <> None) /\
  incl (words (m_payload m)) (words (lookup unknown_key d)).
Proof. exact paragraph_words. Qed.
Print Assumptions C08_every_word_reaches_the_mapping.

(* the merge loop, any values: stored words only grow, every value's words are stored under its key *)
Theorem C08_merge_keeps_words : forall items data,
  (forall k0, incl (words (lookup k0 data)) (words (lookup k0 (merge_items items data)))) /\
  (forall n v, In (n, v) items -> incl (words v) (words (lookup (mkey n) (merge_items items data)))).
Proof. exact merge_items_words. Qed.
Print Assumptions C08_merge_keeps_words.

(* the words of the items are exactly the words of the header lines *)
Theorem C08_header_lines_to_items : forall hs, Forall no_from hs -> Forall ends_ws (removelast hs) ->
  h_defect (parse_headers hs) = false ->
  flat_map (fun kv : str * str => words (snd kv)) (rev (h_items (parse_headers hs))) = flat_map hl_words hs /\
  h_unixfrom (parse_headers hs) = false /\ h_pushback (parse_headers hs) = None.
Proof. exact parse_headers_words. Qed.
Print Assumptions C08_header_lines_to_items.


(* cutting the text into lines loses nothing *)
Theorem C08_lines_conserve_text : forall t, concat (crack t) = t.
Proof. exact crack_concat. Qed.
Print Assumptions C08_lines_conserve_text.

(* header lines, one dropped empty separator line, and the body make up the text *)
Theorem C08_headers_and_body_conserve_text : forall ls,
  let '(h, b, d) := split_headers ls in
  exists sep, concat ls = concat h ++ sep ++ concat b /\ (sep = [] \/ starts_nl sep = true).
Proof. exact split_headers_concat. Qed.
Print Assumptions C08_headers_and_body_conserve_text.

(* a paragraph that cannot be read as fields (no field, a defect, a mailbox envelope line, a MIME
   container) is returned whole under "unknown" *)
Theorem C08_unknown_keeps_text : forall t, t <> [] ->
  (m_items (parse_message t) = [] \/ m_defects (parse_message t) = true \/
   m_unixfrom (parse_message t) = true \/ m_container (parse_message t) = true) ->
  get_paragraph_data t = [(unknown_key, t)].
Proof. exact unknown_keeps_text. Qed.
Print Assumptions C08_unknown_keeps_text.

(* merging: a repeated name keeps every distinct single-line value under the first occurrence,
   LF-separated, in order of first appearance; a value already present is skipped, never replacing
   what was merged *)
Theorem C08_merge_single_line : forall data k vs v,
  key_ok data k vs -> single_line v ->
  let data' := match dict_get k data with
               | Some existing =>
                   if mem_str v (splitlines existing) then data
                   else dict_put k (join [10] (splitlines existing ++ [v])) data
               | None => dict_put k v data
               end in
  key_ok data' k (if mem_str v vs then vs else vs ++ [v]).
Proof. exact merge_one. Qed.
Print Assumptions C08_merge_single_line.

Theorem C08_merge_step : forall name value rest data,
  let k := strip (lower_ascii name) in
  let v := strip value in
  merge_items ((name, value) :: rest) data =
  match dict_get k data with
  | Some existing =>
      if mem_str v (splitlines existing) then merge_items rest data
      else merge_items rest (dict_put k (join [10] (splitlines existing ++ [v])) data)
  | None => merge_items rest (dict_put k v data)
  end.
Proof. exact merge_step. Qed.
Print Assumptions C08_merge_step.

Example C08_a_b_a : get_paragraph_data (lit "a: 1" ++ [10] ++ lit "a: 2" ++ [10] ++ lit "a: 1" ++ [10] ++ lit "B: x" ++ [10]) =
  [(lit "a", lit "1" ++ [10] ++ lit "2"); (lit "b", lit "x")].
Proof. vm_compute. reflexivity. Qed.

Example C08_from_line_kept : get_paragraph_data (lit "From foo" ++ [10] ++ lit "a: 1" ++ [10]) =
  [(lit "unknown", lit "From foo" ++ [10] ++ lit "a: 1" ++ [10])].
Proof. vm_compute. reflexivity. Qed.
