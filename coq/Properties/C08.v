(* C08 - The header-style control parser drops no content; duplicates merge
   losslessly (partial: conservation is proved at the level of characters for the
   cutting of the text into lines and into header lines / separator / body, and for
   every path that stores the whole text under "unknown"; the merge of repeated names
   is proved for single-line values; that every *word* of a header line reaches a name
   or a value goes through the model of the standard email package and is decided by
   co-execution and by the executable statement). *)
From Coq Require Import String.
From Coq Require Import NArith List Bool.
From DI Require Import Result PyStr Email Debcon DebconFacts.
Import ListNotations.
Open Scope N_scope.

(* cutting the text into lines loses nothing *)
Theorem C08_lines_conserve_text : forall t, concat (crack t) = t.
Proof. exact crack_concat. Qed.
Print Assumptions C08_lines_conserve_text.

(* header lines, one dropped empty separator line, and the body make up the text *)
Theorem C08_headers_and_body_conserve_text : forall ls,
  let '(h, b, d) := split_headers ls in
  exists sep, concat ls = concat h ++ sep ++ concat b /\ (sep = [] \/ starts_nl sep = true).
Proof. exact split_headers_concat. Qed.
Print Assumptions C08_headers_and_body_conserve_text.

(* a paragraph that cannot be read as fields (no field, a defect, a mailbox envelope line, a MIME
   container) is returned whole under "unknown" *)
Theorem C08_unknown_keeps_text : forall t, t <> [] ->
  (m_items (parse_message t) = [] \/ m_defects (parse_message t) = true \/
   m_unixfrom (parse_message t) = true \/ m_container (parse_message t) = true) ->
  get_paragraph_data t = [(unknown_key, t)].
Proof. exact unknown_keeps_text. Qed.
Print Assumptions C08_unknown_keeps_text.

(* merging: a repeated name keeps every distinct single-line value under the first occurrence,
   LF-separated, in order of first appearance; a value already present is skipped, never replacing
   what was merged *)
Theorem C08_merge_single_line : forall data k vs v,
  key_ok data k vs -> single_line v ->
  let data' := match dict_get k data with
               | Some existing =>
                   if mem_str v (splitlines existing) then data
                   else dict_put k (join [10] (splitlines existing ++ [v])) data
               | None => dict_put k v data
               end in
  key_ok data' k (if mem_str v vs then vs else vs ++ [v]).
Proof. exact merge_one. Qed.
Print Assumptions C08_merge_single_line.

Theorem C08_merge_step : forall name value rest data,
  let k := strip (lower_ascii name) in
  let v := strip value in
  merge_items ((name, value) :: rest) data =
  match dict_get k data with
  | Some existing =>
      if mem_str v (splitlines existing) then merge_items rest data
      else merge_items rest (dict_put k (join [10] (splitlines existing ++ [v])) data)
  | None => merge_items rest (dict_put k v data)
  end.
Proof. exact merge_step. Qed.
Print Assumptions C08_merge_step.

Example C08_a_b_a : get_paragraph_data (lit "a: 1" ++ [10] ++ lit "a: 2" ++ [10] ++ lit "a: 1" ++ [10] ++ lit "B: x" ++ [10]) =
  [(lit "a", lit "1" ++ [10] ++ lit "2"); (lit "b", lit "x")].
Proof. vm_compute. reflexivity. Qed.

Example C08_from_line_kept : get_paragraph_data (lit "From foo" ++ [10] ++ lit "a: 1" ++ [10]) =
  [(lit "unknown", lit "From foo" ++ [10] ++ lit "a: 1" ++ [10])].
Proof. vm_compute. reflexivity. Qed.
