From DI Require Import PyStr Deps.
Theorem C15_placeholder : True. Proof. exact I. Qed.
Print Assumptions C15_placeholder.
