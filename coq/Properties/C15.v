(* C15 - Relationship matching is three-valued, compositional and follows dpkg
   order.  None = the name is not mentioned.  Architecture restrictions raise
   NotImplementedError in the code and are outside the property. *)
From Coq Require Import String.
From Coq Require Import NArith ZArith List Bool.
From DI Require Import Result PyStr Version Dpkg Deps Matching VersionOrder DpkgVersion DepsFacts.
Import ListNotations.

Theorem C15_simple : forall n name c,
  rel_matches (Rel n []) name c = Ok (if str_eqb n name then Some true else None).
Proof. exact matches_simple. Qed.
Print Assumptions C15_simple.

Theorem C15_versioned_other_name : forall n o v archs name c,
  str_eqb n name = false -> rel_matches (VRel n o v archs) name c = Ok None.
Proof. exact matches_versioned_other. Qed.
Print Assumptions C15_versioned_other_name.

Theorem C15_versioned_no_candidate : forall n o v archs name c,
  str_eqb n name = true -> cand_truthy c = false ->
  rel_matches (VRel n o v archs) name c = Ok (Some false).
Proof. exact matches_versioned_no_candidate. Qed.
Print Assumptions C15_versioned_no_candidate.

(* the candidate stands on the left of the comparison, the required version on the
   right; an operator outside the table raises ValueError *)
Theorem C15_versioned : forall n o v name c vc vr r,
  str_eqb n name = true -> cand_truthy c = true ->
  coerce_cand c = Ok vc -> from_string v = Ok vr ->
  compare_version_objects vc vr = Ok r ->
  rel_matches (VRel n o v []) name c =
  match parse_op o with
  | Some op => Ok (Some (apply_op op r))
  | None => Raise ValueError
  end.
Proof. exact matches_versioned. Qed.
Print Assumptions C15_versioned.

(* ... and that comparison is dpkg's (C01) *)
Theorem C15_comparison_is_dpkg : forall a b va vb,
  from_string a = Ok va -> from_string b = Ok vb ->
  compare_version_objects va vb = Ok (Z.sgn (dpkg_compare_strings (strip a) (strip b))).
Proof.
  intros a b va vb Ha Hb. rewrite <- (compare_versions_dpkg a b va vb Ha Hb).
  unfold compare_versions. now rewrite Ha, Hb.
Qed.
Print Assumptions C15_comparison_is_dpkg.

(* rows: << <= < = >= > >> ; columns: candidate earlier, order-equal, later *)
Theorem C15_operator_table :
  map (fun o => option_map (fun op => map (apply_op op) [-1; 0; 1]%Z) (parse_op (lit o)))
      ["<<"; "<="; "<"; "="; ">="; ">"; ">>"]%string =
  [Some [true; false; false]; Some [true; true; false]; Some [true; true; false];
   Some [false; true; false]; Some [false; true; true]; Some [false; true; true];
   Some [false; false; true]].
Proof. exact operator_table. Qed.
Print Assumptions C15_operator_table.

Theorem C15_or : forall name c rs os,
  Forall2 (fun r o => rel_matches r name c = Ok o) rs os ->
  rel_matches (OrRel rs) name c = Ok (or_tv os).
Proof. exact matches_or. Qed.
Print Assumptions C15_or.

Theorem C15_and : forall name c rs os,
  Forall2 (fun r o => rel_matches r name c = Ok o) rs os ->
  rel_matches (AndRel rs) name c = Ok (and_tv os).
Proof. exact matches_and. Qed.
Print Assumptions C15_and.

Theorem C15_match_relationships : forall name c sets os,
  Forall2 (fun r o => rel_matches r name c = Ok o) sets os ->
  match_relationships name c sets = Ok (sets_tv os).
Proof. exact match_relationships_tv. Qed.
Print Assumptions C15_match_relationships.

Example C15_nonvacuous :
  rel_matches (AndRel [OrRel [VRel (lit "a") (lit ">=") (lit "1.0") []; Rel (lit "b") []];
                       VRel (lit "a") (lit "<<") (lit "2") []])
              (lit "a") (CandStr (lit "1.00-0")) = Ok (Some true).
Proof. vm_compute. reflexivity. Qed.
