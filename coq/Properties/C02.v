From DI Require Import PyStr Version.
Theorem C02_placeholder : True. Proof. exact I. Qed.
Print Assumptions C02_placeholder.
