(* C02 - Version comparison is one coherent total preorder.
   [wfv v]: the components of v only hold the characters a version may contain;
   every version produced by from_string satisfies it (C02_parsed_versions_wf). *)
From Coq Require Import String.
From Coq Require Import NArith ZArith List Bool Sorted.
From DI Require Import Result PyStr Version Dpkg OrderFacts VersionFacts ParseFacts VersionOrder.
Import ListNotations.
Open Scope Z_scope.

Theorem C02_parsed_versions_wf : forall s v, from_string s = Ok v -> wfv v.
Proof. exact from_string_wfv. Qed.
Print Assumptions C02_parsed_versions_wf.

Theorem C02_result_range : forall a b, wfv a -> wfv b ->
  exists r, compare_version_objects a b = Ok r /\ (r = -1 \/ r = 0 \/ r = 1).
Proof. exact law_result_range. Qed.
Print Assumptions C02_result_range.

Theorem C02_antisym : forall a b, wfv a -> wfv b ->
  exists r, compare_version_objects a b = Ok r /\ compare_version_objects b a = Ok (- r).
Proof. exact law_antisym. Qed.
Print Assumptions C02_antisym.

Theorem C02_refl : forall a, wfv a -> compare_version_objects a a = Ok 0.
Proof. exact law_refl. Qed.
Print Assumptions C02_refl.

(* transitivity, including through order-equal versions, strict when one step is strict *)
Theorem C02_trans : forall a b c, wfv a -> wfv b -> wfv c -> forall r1 r2,
  compare_version_objects a b = Ok r1 -> compare_version_objects b c = Ok r2 ->
  r1 <= 0 -> r2 <= 0 ->
  exists r3, compare_version_objects a c = Ok r3 /\ r3 <= 0 /\
             ((r1 < 0 \/ r2 < 0) -> r3 < 0) /\ ((r1 = 0 /\ r2 = 0) -> r3 = 0).
Proof. exact law_trans_le. Qed.
Print Assumptions C02_trans.

(* < <= > >= and the constraint operators << <= < = >= > >> are the stated table
   applied to the three-way result *)
Theorem C02_ops_agree : forall a b r,
  compare_version_objects a b = Ok r ->
  v_lt a b = Ok (r <? 0) /\ v_le a b = Ok (r <=? 0) /\
  v_gt a b = Ok (r >? 0) /\ v_ge a b = Ok (r >=? 0) /\
  eval_constraint_obj a (lit "<<") b = Ok (r <? 0) /\
  eval_constraint_obj a (lit "<=") b = Ok (r <=? 0) /\
  eval_constraint_obj a (lit "<") b = Ok (r <=? 0) /\
  eval_constraint_obj a (lit "=") b = Ok (r =? 0) /\
  eval_constraint_obj a (lit ">=") b = Ok (r >=? 0) /\
  eval_constraint_obj a (lit ">") b = Ok (r >=? 0) /\
  eval_constraint_obj a (lit ">>") b = Ok (r >? 0).
Proof. exact ops_agree. Qed.
Print Assumptions C02_ops_agree.

Theorem C02_unknown_operator : forall a b r o,
  compare_version_objects a b = Ok r -> parse_op o = None ->
  eval_constraint_obj a o b = Raise ValueError.
Proof. exact unknown_op. Qed.
Print Assumptions C02_unknown_operator.

(* exactly one of "a before b", "b before a", "order-equal" *)
Theorem C02_trichotomy : forall a b r,
  compare_version_objects a b = Ok r -> (r = -1 \/ r = 0 \/ r = 1) ->
  (v_lt a b = Ok true /\ v_gt a b = Ok false /\ r <> 0) \/
  (v_lt a b = Ok false /\ v_gt a b = Ok true /\ r <> 0) \/
  (v_lt a b = Ok false /\ v_gt a b = Ok false /\ r = 0).
Proof. exact trichotomy. Qed.
Print Assumptions C02_trichotomy.

(* == implies order-equal and equal hashes, for any hash of the triple *)
Theorem C02_eq_implies_order_equal_and_same_hash :
  forall (H : Type) (hash : N * str * str -> H) a b,
  wfv a -> version_eqb a b = true ->
  compare_version_objects a b = Ok 0 /\
  hash (epoch a, upstream a, revision a) = hash (epoch b, upstream b, revision b).
Proof. exact @eq_implies_order_equal_and_hash. Qed.
Print Assumptions C02_eq_implies_order_equal_and_same_hash.

(* a list in which no adjacent pair is inverted under "<" (what a comparison sort
   returns) is non-decreasing under the three-way comparison at every pair i < j *)
Theorem C02_sorted_nondecreasing : forall l : list version,
  Sorted vle l -> StronglySorted vle l.
Proof. exact sorted_all_pairs. Qed.
Print Assumptions C02_sorted_nondecreasing.

Theorem C02_not_lt_is_le : forall a b, wfv a -> wfv b -> v_lt b a = Ok false -> vle a b.
Proof. exact not_lt_is_le. Qed.
Print Assumptions C02_not_lt_is_le.

(* non-vacuity: 1.0 and 1.00 are different versions that are order-equal *)
Example C02_order_equal_but_different :
  exists a b, from_string (lit "1.0") = Ok a /\ from_string (lit "1.00-0") = Ok b /\
              version_eqb a b = false /\ compare_version_objects a b = Ok 0.
Proof. eexists; eexists. repeat split; vm_compute; reflexivity. Qed.
