From DI Require Import PyStr Codec.
Theorem C20_placeholder : True. Proof. exact I. Qed.
Print Assumptions C20_placeholder.
