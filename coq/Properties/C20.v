(* C20 - Continuation-line encoding of multi-line text is safe and invertible.
   Statements only: each theorem is closed by [exact] of a lemma proved in
   Proofs/CodecFacts.v, and its assumptions are printed. *)
From Coq Require Import String.
From Coq Require Import NArith List Bool.
From DI Require Import PyStr PyStrFacts Codec CodecFacts.
Import ListNotations.
Open Scope N_scope.

(* Safety.  For every text, the encoding is a first line followed by lines that
   each start with a space and contain a non-blank character, and no line holds
   any str.splitlines boundary (the largest terminator set): an encoded value
   cannot end the paragraph that contains it. *)
Theorem C20_safe : forall t : str,
  exists hd conts,
    as_formatted_text t = join [LF] (hd :: map (fun l => SP :: l) conts) /\
    no_lb is_linebreak hd /\
    Forall (fun l => no_lb is_linebreak l /\ all_space l = false) conts.
Proof. exact safe_text. Qed.
Print Assumptions C20_safe.

(* Decode inverts encode: for every text whose lines after the first are blank,
   or start with U+0020 (verbatim), or start with a non-space character other
   than a full stop (so: no dot-leading and no tab-indented line), the result is
   the first line trimmed and the other lines with trailing blanks removed,
   space-indented lines keeping their indentation. *)
Theorem C20_decode_encode : forall (t l0 : str) (rest : list str),
  splitlines t = l0 :: rest -> Forall plain_start rest ->
  from_formatted_text (as_formatted_text t) = join [LF] (strip l0 :: map rstrip rest).
Proof. exact decode_encode_text. Qed.
Print Assumptions C20_decode_encode.

Theorem C20_decode_encode_empty : from_formatted_text (as_formatted_text []) = [].
Proof. exact decode_encode_empty. Qed.
Print Assumptions C20_decode_encode_empty.

(* On policy-conformant values (first line, then " ." markers or space-indented
   non-blank lines, not ending in a marker) encode-after-decode is a fixpoint
   after one pass. *)
Theorem C20_encode_decode_fixpoint : forall v : str,
  policy_value v ->
  let v' := as_formatted_text (from_formatted_text v) in
  as_formatted_text (from_formatted_text v') = v'.
Proof. exact encode_decode_fixpoint. Qed.
Print Assumptions C20_encode_decode_fixpoint.

(* Description: the synopsis is the first line of the rendering. *)
Theorem C20_description_first_line : forall v : str,
  let '(syn, text) := desc_from_value v in
  no_lb is_linebreak syn /\
  exists tail, desc_dumps syn text = syn ++ tail /\ (tail = [] \/ exists t, tail = LF :: t).
Proof. exact desc_first_line. Qed.
Print Assumptions C20_description_first_line.

(* License: the short name is the first line of the rendering. *)
Theorem C20_license_first_line : forall v : str,
  let '(name, text) := lic_from_value v in
  name <> [] ->
  exists tail, lic_dumps name text = name ++ tail /\ (tail = [] \/ exists t, tail = LF :: t).
Proof. exact lic_first_line. Qed.
Print Assumptions C20_license_first_line.

(* Non-vacuity: concrete inputs meet the hypotheses. *)
Example C20_decode_encode_applies :
  let t := lit "GPL-2+" ++ [10] ++ lit "line one  " ++ [10; 10] ++ lit "  verbatim" ++ [10] ++ lit "last" in
  exists l0 rest, splitlines t = l0 :: rest /\ Forall plain_start rest /\ length rest = 4%nat.
Proof.
  eexists; eexists. split; [vm_compute; reflexivity|]. split; [|reflexivity].
  apply Forall_forall. intros l Hl. simpl in Hl.
  destruct Hl as [<-|[<-|[<-|[<-|[]]]]]; unfold plain_start;
    first [left; reflexivity | right; left; reflexivity | right; right; split; [reflexivity|discriminate]].
Qed.

Example C20_policy_value_applies :
  policy_value (lit "synopsis" ++ [10] ++ lit " text" ++ [10] ++ lit " ." ++ [10] ++ lit "  verbatim").
Proof.
  right. exists (lit "synopsis"), [lit " text"; lit " ."; lit "  verbatim"].
  split; [reflexivity|]. split; [vm_compute; repeat constructor|]. split.
  - constructor; [|constructor; [|constructor; [|constructor]]].
    + right. exists (lit "text"). split; [reflexivity|]. split; [vm_compute; repeat constructor|].
      split; [reflexivity|]. right. right. split; [reflexivity|discriminate].
    + left. reflexivity.
    + right. exists (lit " verbatim"). split; [reflexivity|]. split; [vm_compute; repeat constructor|].
      split; [reflexivity|]. right. now left.
  - split; discriminate.
Qed.
