(* C04 - Printing a version and parsing it back gives the same version. *)
From Coq Require Import String.
From Coq Require Import NArith List Bool.
From DI Require Import Result PyStr Version Policy ParseFacts.
Import ListNotations.
Open Scope N_scope.

Theorem C04_roundtrip : forall s v, from_string s = Ok v -> from_string (to_string v) = Ok v.
Proof. exact roundtrip. Qed.
Print Assumptions C04_roundtrip.

(* printing is idempotent: the re-parsed version prints the same *)
Corollary C04_print_idempotent : forall s v v',
  from_string s = Ok v -> from_string (to_string v) = Ok v' -> to_string v' = to_string v.
Proof. intros s v v' H H'. rewrite (roundtrip s v H) in H'. now inversion H'. Qed.
Print Assumptions C04_print_idempotent.

(* the printed form: normalised epoch (absent when zero, no leading zeros), the
   upstream, and the revision - omitted only when it is "0", the upstream has no
   hyphen and ends in an alphanumeric *)
Theorem C04_printed_form : forall ep u rv, u <> [] ->
  to_string (mkVersion ep u rv) =
  (if ep =? 0 then [] else N_to_dec ep ++ [58]) ++ u ++
  (if negb (str_eqb rv [48]) then 45 :: rv
   else if mem_char 45 u || negb (last_is is_ascii_alnum u) then [45; 48] else []).
Proof. exact to_string_eq. Qed.
Print Assumptions C04_printed_form.

Theorem C04_epoch_normalised : forall n,
  N_to_dec n <> [] /\ forallb is_ascii_digit (N_to_dec n) = true /\ dec_to_N (N_to_dec n) = n /\
  (n <> 0 -> match N_to_dec n with c :: _ => c <> 48 | [] => False end).
Proof. exact N_to_dec_spec. Qed.
Print Assumptions C04_epoch_normalised.

Example C04_hyphenated_zero_revision :
  exists v, from_string (lit "00:1-2-0") = Ok v /\ to_string v = lit "1-2-0".
Proof. eexists. split; vm_compute; reflexivity. Qed.

Example C04_tilde_zero_revision :
  exists v, from_string (lit "1~-0") = Ok v /\ to_string v = lit "1~-0".
Proof. eexists. split; vm_compute; reflexivity. Qed.
