(* C03 - Version strings: accepted language and dpkg-style decomposition. *)
From Coq Require Import String.
From Coq Require Import NArith List Bool.
From DI Require Import Result PyStr Version Policy ParseFacts EntryPoints.
Import ListNotations.
Open Scope N_scope.

(* accepted only if the trimmed string is valid under Debian policy *)
Theorem C03_accept_only_if_valid : forall s v,
  from_string s = Ok v -> policy_valid (strip s) = true.
Proof. exact accept_only_if_valid. Qed.
Print Assumptions C03_accept_only_if_valid.

(* conversely: policy-valid, and the revision (or, without one, the upstream part)
   ends in an alphanumeric *)
Theorem C03_accept_if_valid_and_alnum_ends : forall s,
  let t := strip s in
  policy_valid t = true ->
  (let '(_, u, r) := policy_split t in
   match r with Some r => ends_alnum r = true | None => ends_alnum u = true end) ->
  exists v, from_string s = Ok v.
Proof. exact accept_if_valid. Qed.
Print Assumptions C03_accept_if_valid_and_alnum_ends.

(* every other string is rejected with ValueError and nothing else *)
Theorem C03_reject_is_ValueError : forall s e, from_string s = Raise e -> e = ValueError.
Proof. exact from_string_raise. Qed.
Print Assumptions C03_reject_is_ValueError.

(* epoch before the first colon (0 if absent), revision after the last hyphen
   ("0" if absent), upstream in between *)
Theorem C03_decomposition : forall s v,
  from_string s = Ok v -> (epoch v, upstream v, revision v) = policy_triple (strip s).
Proof. exact decomposition. Qed.
Print Assumptions C03_decomposition.

Example C03_nonvacuous :
  exists v, from_string (lit "  2:1.0~rc1-2-0ubuntu3 ") = Ok v /\
            epoch v = 2 /\ upstream v = lit "1.0~rc1-2" /\ revision v = lit "0ubuntu3".
Proof. eexists. repeat split; vm_compute; reflexivity. Qed.

Example C03_rejects_nonascii_digit : from_string (lit "1:" ++ [1634]) = Raise ValueError.
Proof. vm_compute. reflexivity. Qed.

(* the other ways in that take version strings accept exactly the strings from_string accepts and
   reject the others with ValueError: comparing two strings, evaluating a constraint between them *)
Theorem C03_compare_versions_accepts_the_same : forall a b,
  (exists r, compare_versions a b = Ok r) <-> (exists va vb, from_string a = Ok va /\ from_string b = Ok vb).
Proof. exact compare_versions_accepts. Qed.
Print Assumptions C03_compare_versions_accepts_the_same.

Theorem C03_compare_versions_reject_is_ValueError : forall a b e, compare_versions a b = Raise e -> e = ValueError.
Proof. exact compare_versions_rejects. Qed.
Print Assumptions C03_compare_versions_reject_is_ValueError.

Theorem C03_eval_constraint_accepts_the_same : forall a o b op, parse_op o = Some op ->
  ((exists r, eval_constraint a o b = Ok r) <-> (exists va vb, from_string a = Ok va /\ from_string b = Ok vb)).
Proof. exact eval_constraint_accepts. Qed.
Print Assumptions C03_eval_constraint_accepts_the_same.

Theorem C03_eval_constraint_reject_is_ValueError : forall a o b e, eval_constraint a o b = Raise e -> e = ValueError.
Proof. exact eval_constraint_rejects. Qed.
Print Assumptions C03_eval_constraint_reject_is_ValueError.

Example C03_entry_points_nonvacuous :
  compare_versions (lit "a") (lit "1") = Raise ValueError /\ compare_versions (lit " 1.0 ") (lit "1.0-0") = Ok Z0 /\
  eval_constraint (lit "1") (lit ">=") (lit "v1") = Raise ValueError /\ parse_op (lit ">=") <> None.
Proof. vm_compute. repeat split; try reflexivity. discriminate. Qed.
