From DI Require Import PyStr Copyright.
Theorem C07_placeholder : True. Proof. exact I. Qed.
Print Assumptions C07_placeholder.
