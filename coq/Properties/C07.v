(* C07 - Lenient parsing is total: no input text makes it raise.
   Every Python operation of the modelled code that can raise is a [Raise] branch of
   the model ([result] type); functions whose model has a plain type (to_dict,
   dumps, is_valid, get_paragraph(s)_data) contain no such operation.  Determinism
   is the functionality of the model. *)
From Coq Require Import String.
From Coq Require Import NArith List Bool.
From DI Require Import Result PyStr Deb822 Debcon Copyright Deb822Facts CopyrightFacts.
Import ListNotations.

(* the line-tracking parser: the "Invalid field line" exception is unreachable *)
Theorem C07_deb822_total : forall t, exists gs, groups t = Ok gs.
Proof. exact groups_total. Qed.
Print Assumptions C07_deb822_total.

(* from_fields: the assertion "name not in mapping" is unreachable for any list of fields
   (duplicate, numerically suffixed and reserved names included) *)
Theorem C07_from_fields_total : forall t fs, exists p, from_fields t fs = Ok p.
Proof. exact from_fields_total. Qed.
Print Assumptions C07_from_fields_total.

(* building a copyright object from any text succeeds, and then its dictionary form (with and
   without line numbers), rendering and validity checks are values *)
Theorem C07_copyright_total : forall t, exists ps,
  from_text t = Ok ps /\
  exists (d : list (pydict str)) (s : str) (b b' : bool),
    d = map para_to_dict ps /\ s = doc_dumps ps /\ b = doc_is_valid false ps /\ b' = doc_is_valid true ps.
Proof.
  intros t. destruct (from_text_total t) as (ps & H). exists ps. split; [exact H|].
  repeat eexists.
Qed.
Print Assumptions C07_copyright_total.

(* the header-style parser *)
Theorem C07_debcon_total : forall t, exists r, get_paragraphs_data t = r /\ exists d, get_paragraph_data t = d.
Proof. intros t. eexists. split; [reflexivity|eexists; reflexivity]. Qed.
Print Assumptions C07_debcon_total.

Example C07_clashing_names :
  exists ps, from_text (lit "License-1: a" ++ [10] ++ lit "License: b" ++ [10] ++ lit "License: c" ++ [10] ++
                        lit "Extra-Data: x" ++ [10]) = Ok ps /\ length ps = 1%nat.
Proof. eexists. split; vm_compute; reflexivity. Qed.
