(* C13 - Rendering a copyright object is a faithful fixpoint.  Proved:
   - C13_dep5_grammar: for EVERY document of the DEP-5 grammar (stated below) the object built from
     its text renders to a text that parses back to an object with the same paragraph types and
     dictionary forms, and that renders to the same text again (render . parse . render = render);
   - C13_render_parse_render / C13_text_render_fixpoint: the same for every object, resp. every
     text, meeting a computable test (spec_goodb, proved sound) - the test the model also runs on
     every generated document;
   - C13_from_dict_reproduces_to_dict: rebuilding a paragraph from its dictionary form reproduces it;
   - no rendered formatted value holds an empty line; renderings without empty lines split back
     into the same number of paragraphs; a paragraph with a value is never rendered as an empty one;
   - class by class: parse . render . parse = parse, and the rendered value of a grammar value is
     renderable and stable (C13_class_values).
   The clause "the rendering never contains an empty line inside a paragraph" is proved through
   renderability (every continuation line of every rendered value is non-blank) for the objects
   of the grammar theorem, and for encoded formatted values in general. *)
From Coq Require Import String.
From Coq Require Import NArith List Bool.
From DI Require Import Result PyStr PyStrFacts Codec CodecFacts Deb822 Debcon Copyright Grammar822 Grammar822Facts WordFacts ConserveFacts RenderFacts FromDictFacts RoundTripFacts FixpointFacts SpecCheck ClassFacts GrammarSpec.
Import ListNotations.
Open Scope N_scope.

(* parse . render . parse = parse *)
Theorem C13_single_line_stable : forall raw, convert FSingle (fval_dumps (convert FSingle raw)) = convert FSingle raw.
Proof. exact single_stable. Qed.
Print Assumptions C13_single_line_stable.

Theorem C13_whitespace_list_stable : forall raw, convert FWS (fval_dumps (convert FWS raw)) = convert FWS raw.
Proof. exact ws_list_stable. Qed.
Print Assumptions C13_whitespace_list_stable.

Theorem C13_statement_stable : forall v,
  statement_from_value (statement_dumps (statement_from_value v)) = statement_from_value v.
Proof. exact statement_stable. Qed.
Print Assumptions C13_statement_stable.

Theorem C13_copyright_field_stable : forall raw, Forall (fun l => words l <> []) (splitlines raw) ->
  convert FCopyright (fval_dumps (convert FCopyright raw)) = convert FCopyright raw.
Proof. exact copyright_stable. Qed.
Print Assumptions C13_copyright_field_stable.

Theorem C13_line_list_stable : forall raw,
  (match splitlines raw with l0 :: _ => strip l0 <> [] | [] => True end) ->
  convert FLineSep (fval_dumps (convert FLineSep raw)) = convert FLineSep raw.
Proof. exact line_list_stable. Qed.
Print Assumptions C13_line_list_stable.

(* the License field: a short name and a text in decoded normal form render to a value that parses
   back to exactly that name and text *)
Theorem C13_license_stable : forall n t0 trest, n <> [] -> strip n = n -> nolb n ->
  normal_lines (t0 :: trest) -> t0 <> [] ->
  lic_from_value (lic_dumps n (join [LF] (t0 :: trest))) = (n, join [LF] (t0 :: trest)).
Proof. exact license_stable. Qed.
Print Assumptions C13_license_stable.

(* render . parse . render . parse = render . parse on policy-conformant formatted values *)
Theorem C13_formatted_text_stable : forall v, policy_value v ->
  fval_dumps (convert FFormatted (fval_dumps (convert FFormatted v))) = fval_dumps (convert FFormatted v).
Proof. exact formatted_stable. Qed.
Print Assumptions C13_formatted_text_stable.

(* extra data: to_dict encodes, from_dict decodes; on text in decoded normal form that is the identity *)
Theorem C13_extra_data_stable : forall ls, normal_lines ls ->
  from_formatted_text (as_formatted_text (join [LF] ls)) = join [LF] ls.
Proof. exact extra_stable. Qed.
Print Assumptions C13_extra_data_stable.

(* an extra field is rendered raw as "Name: first line / continuation lines"; the line-tracking
   parser reads back exactly that text: no indentation is gained *)
Theorem C13_extra_field_reparses : forall f n, wf_gfield f ->
  groups_loop (number_from n (field_src f)) [] = Ok [[expected_field n f]] /\
  field_text (expected_field n f) = join [10] (gf_first f :: gf_conts f).
Proof. exact rendered_field_reparses. Qed.
Print Assumptions C13_extra_field_reparses.

(* no rendered formatted value can end its paragraph: after the first line every line starts
   with a space and holds a non-blank character *)
Theorem C13_no_empty_line_in_formatted_value : forall t, exists hd conts,
  as_formatted_text t = join [LF] (hd :: map (fun l => SP :: l) conts) /\
  no_lb is_linebreak hd /\ Forall (fun l => no_lb is_linebreak l /\ all_space l = false) conts.
Proof. exact safe_text. Qed.
Print Assumptions C13_no_empty_line_in_formatted_value.

(* rebuilding a paragraph from its own dictionary form reproduces that dictionary form, whenever each
   typed value is stable under parse-after-render (the theorems above give that class by class:
   parse.render.parse = parse implies render.parse.render.parse = render.parse) and the extra data
   is stable under decode-after-encode; the extra names are distinct, unknown to the paragraph type
   and free of hyphens (as from_fields makes them) *)
Theorem C13_from_dict_reproduces_to_dict : forall t known extra lines,
  extra_keys_ok t extra ->
  Forall (fun kv => enc (snd kv) <> [] /\
                    as_formatted_text (from_formatted_text (as_formatted_text (snd kv))) = as_formatted_text (snd kv)) extra ->
  Forall (fun kf => let raw := lookup (fst kf) known in RP (snd kf) (RP (snd kf) raw) = RP (snd kf) raw) (known_fields t) ->
  let p := build_para t known extra lines in
  para_to_dict (para_from_dict t (para_to_dict p)) = para_to_dict p.
Proof. exact from_dict_to_dict. Qed.
Print Assumptions C13_from_dict_reproduces_to_dict.

(* whole documents: the rendering of an object parses back to an object with the same paragraph
   types and the same dictionary forms, and rendering THAT object gives the same text again
   (render . parse . render = render).  spec_good (Proofs/FixpointFacts.v, RoundTripFacts.v) bundles
   what the proof needs of each paragraph: it is typed header, files or license; its extra names are
   distinct, unknown to its type and free of hyphens; every non-blank value of its dictionary form is
   renderable (a trimmed non-empty first line, then indented non-blank continuation lines without
   trailing blanks, no carriage return), a blank value is empty; there is at least one such value;
   the rendered names parse back to the keys; each typed value is stable under parse-after-render
   (theorems above); its rendered names select its own type.  NOT proved: that every object built from
   a document of the DEP-5 grammar satisfies spec_good; spec_good is decided by a computable test
   (below) which the model runs on every generated document. *)
Theorem C13_render_parse_render : forall specs, specs <> [] -> Forall spec_good specs ->
  exists ps', from_text (doc_dumps (map build specs)) = Ok ps' /\
    Forall2 (fun p p' => p_type p' = p_type p /\ para_to_dict p' = para_to_dict p) (map build specs) ps' /\
    doc_dumps ps' = doc_dumps (map build specs).
Proof. exact doc_roundtrip_fixpoint. Qed.
Print Assumptions C13_render_parse_render.

(* the hypothesis as a computable test.  specs_of_text reads off a text the paragraphs as the builder
   makes them; spec_goodb decides spec_good.  For EVERY text on which the test answers true: the
   object is the one built from those paragraphs, its rendering parses back to an object with the
   same types and dictionary forms, and that object renders to the same text.  The extracted model
   evaluates the test on every generated DEP-5 document on every run (evidence: stream
   model:theorem-hypothesis-on-generated-documents). *)
Theorem C13_text_render_fixpoint : forall t specs,
  specs_of_text t = Ok specs -> specs <> [] -> forallb spec_goodb specs = true ->
  from_text t = Ok (map build specs) /\
  exists ps', from_text (doc_dumps (map build specs)) = Ok ps' /\
    Forall2 (fun p p' => p_type p' = p_type p /\ para_to_dict p' = para_to_dict p) (map build specs) ps' /\
    doc_dumps ps' = doc_dumps (map build specs).
Proof. exact text_render_fixpoint. Qed.
Print Assumptions C13_text_render_fixpoint.

Theorem C13_test_is_sound : forall s, spec_goodb s = true -> spec_good s.
Proof. exact spec_goodb_ok. Qed.
Print Assumptions C13_test_is_sound.

Example C13_test_on_a_document :
  c13_test (lit "Format: https://www.debian.org/doc/packaging-manuals/copyright-format/1.0/
Upstream-Name: foo
X-Note: hello
 world

Files: * src/a
Copyright: 2019 Jane Doe
 2020 J. Roe
License: GPL-2+
 This is free
 .
 software.
Comment: a comment
 on two lines

License: MIT
 text of the
  verbatim
 license
") = Ok true.
Proof. vm_compute. reflexivity. Qed.

(* THE GRAMMAR THEOREM.  A document of the DEP-5 grammar (Proofs/GrammarSpec.v: dep5_doc) is a non-empty
   list of paragraphs, separated by empty lines, each of which (dep5_para)
   - is made of well-formed fields "Name: first line / continuation lines" (deb822 grammar of C06) whose
     first line holds a value and whose lines hold no line-break character, under pairwise different names;
   - is a header, Files or License paragraph by its names;
   - gives each typed field a value of its class: one line for single-line fields; any continuation
     lines for line lists, white-space lists and copyright statements; for formatted text (Comment,
     Source, Disclaimer) continuation lines that are the marker " ." or a space followed by a body
     without trailing blanks that starts with a space (verbatim) or with a character that is neither
     white space nor a full stop, the last of them not a marker; for License a short name and,
     optionally, a text whose first line is an ordinary line, under the same rules;
   - may hold any further fields (extra data) with continuation lines.
   For EVERY such document: the object built from its text renders to a text that parses back to an
   object with the same paragraph types and the same dictionary forms, and that renders to the same
   text again.  (spec_good is proved for every paragraph of the grammar: class by class the rendered
   value is renderable and stable - Proofs/ClassFacts.v - and the rendered names select the same type.) *)
Theorem C13_dep5_grammar : forall ps, dep5_doc ps ->
  exists specs, from_text (doc_text ps) = Ok (map build specs) /\ length specs = length ps /\
    exists ps', from_text (doc_dumps (map build specs)) = Ok ps' /\
      Forall2 (fun p p' => p_type p' = p_type p /\ para_to_dict p' = para_to_dict p) (map build specs) ps' /\
      doc_dumps ps' = doc_dumps (map build specs).
Proof. exact dep5_document_fixpoint. Qed.
Print Assumptions C13_dep5_grammar.

(* rebuilding a paragraph of the grammar from its own dictionary form reproduces that dictionary form,
   when the continuation lines of its extra fields are indented with a space.  (A TAB-indented
   continuation line of an extra field is not restored by from_dict - the dictionary form carries
   " \tx", the rebuilt paragraph " x": recorded finding F24, reported by the check as KNOWN-FINDING.) *)
Theorem C13_grammar_from_dict : forall t G L, dep5_para t G ->
  (forall g, In g G -> known_name t (gkey g) = false -> space_conts g) ->
  let p := build (mkSpec t (Kof t G) (Eof t G) L) in
  para_to_dict (para_from_dict t (para_to_dict p)) = para_to_dict p.
Proof. exact grammar_from_dict. Qed.
Print Assumptions C13_grammar_from_dict.

(* per paragraph: what the theorem rests on *)
Theorem C13_grammar_paragraph_good : forall t G L, dep5_para t G -> spec_good (mkSpec t (Kof t G) (Eof t G) L).
Proof. exact grammar_spec_good. Qed.
Print Assumptions C13_grammar_paragraph_good.

Theorem C13_class_values : forall c g, gfield_ok g -> gclass c g ->
  renderable (RP c (gvalue g)) /\ RP c (RP c (gvalue g)) = RP c (gvalue g).
Proof. exact gclass_ok. Qed.
Print Assumptions C13_class_values.

(* the grammar is inhabited: a License paragraph with a multi-line text (blank-line marker, verbatim line)
   and an extra field with a continuation line *)
Definition C13g_lic : gfield := mkGField (lit "License") [32] (lit "MIT") [lit " text of the"; lit " ."; lit "  verbatim line"].
Definition C13g_note : gfield := mkGField (lit "X-Note") [32] (lit "hello") [lit " world"].
Definition C13g_para : gpara := [C13g_lic; C13g_note].

Lemma C13g_lic_ok : gfield_ok C13g_lic.
Proof.
  split; [|split].
  - unfold wf_gfield, C13g_lic. cbn [gf_name gf_gap gf_first gf_conts]. split; [apply name_okb_ok; vm_compute; reflexivity|].
    split; [repeat constructor|]. split; [vm_compute; reflexivity|]. split; [vm_compute; repeat constructor|]. split; [|left; discriminate].
    repeat (constructor; [split; [vm_compute; reflexivity|split; [vm_compute; reflexivity|vm_compute; repeat constructor]]|]). constructor.
  - discriminate.
  - vm_compute. repeat constructor.
Qed.

Lemma C13g_note_ok : gfield_ok C13g_note.
Proof.
  split; [|split].
  - unfold wf_gfield, C13g_note. cbn [gf_name gf_gap gf_first gf_conts]. split; [apply name_okb_ok; vm_compute; reflexivity|].
    split; [repeat constructor|]. split; [vm_compute; reflexivity|]. split; [vm_compute; repeat constructor|]. split; [|left; discriminate].
    repeat (constructor; [split; [vm_compute; reflexivity|split; [vm_compute; reflexivity|vm_compute; repeat constructor]]|]). constructor.
  - discriminate.
  - vm_compute. repeat constructor.
Qed.

Lemma C13g_gcont_text : gcont (lit "  verbatim line").
Proof.
  right. exists (lit " verbatim line"). split; [reflexivity|]. split; [vm_compute; repeat constructor|]. split; [vm_compute; reflexivity|].
  split; [right; vm_compute; now left|vm_compute; reflexivity].
Qed.

Lemma C13g_para_ok : dep5_para PLicense C13g_para.
Proof.
  constructor.
  - constructor; [exact C13g_lic_ok|]. constructor; [exact C13g_note_ok|constructor].
  - apply nodupb_ok. vm_compute. reflexivity.
  - discriminate.
  - vm_compute. reflexivity.
  - intros g c [<-|[<-|[]]] Hin.
    + (* License *) assert (Ec : c = FLicense).
      { cbn [known_fields] in Hin. destruct Hin as [E|[E|[]]]; [now inversion E|]. exfalso. apply (f_equal fst) in E. vm_compute in E. discriminate E. }
      subst c. right. exists (lit "text of the"), [lit " ."; lit "  verbatim line"]. split; [reflexivity|]. split; [discriminate|].
      split; [vm_compute; reflexivity|]. split; [vm_compute; repeat constructor|]. split.
      * constructor; [now left|]. constructor; [exact C13g_gcont_text|constructor].
      * vm_compute. discriminate.
    + (* X-Note is not a known name *) exfalso. cbn [known_fields] in Hin. destruct Hin as [E|[E|[]]]; apply (f_equal fst) in E; vm_compute in E; discriminate E.
Qed.

Example C13g_doc_ok : dep5_doc [(C13g_para, 0%nat)].
Proof.
  split; [discriminate|]. split.
  - cbn [wf_doc]. split; [discriminate|]. split; [|split; [intros C; now contradiction C|exact I]].
    constructor; [apply C13g_lic_ok|]. constructor; [apply C13g_note_ok|constructor].
  - constructor; [|constructor]. exists PLicense. exact C13g_para_ok.
Qed.


Example C13g_text : doc_text [(C13g_para, 0%nat)] = lit "License: MIT
 text of the
 .
  verbatim line
X-Note: hello
 world
".
Proof. vm_compute. reflexivity. Qed.

(* a paragraph with a value to render is rendered in the general way (never as the bare "Files: " or
   "License: " of an empty paragraph) *)
Theorem C13_general_rendering : forall t K E L, live_items t K E <> [] ->
  para_dumps (build_para t K E L) = base_dumps (build_para t K E L).
Proof. exact para_dumps_base. Qed.
Print Assumptions C13_general_rendering.

(* the hypotheses are satisfiable *)
Definition C13_ex_spec : spec := mkSpec PLicense [(lit "license", lit "MIT")] [] [].
Example C13_ex_spec_good : spec_good C13_ex_spec.
Proof.
  assert (Elive : live_items PLicense [(lit "license", lit "MIT")] [] = [(lit "license", lit "MIT")]) by (vm_compute; reflexivity).
  unfold spec_good, C13_ex_spec. cbn [s_type s_known s_extra s_lines]. split; [|split; [discriminate|]].
  - constructor.
    + split; [constructor|intros k []].
    + constructor.
    + vm_compute. constructor; [intros H; discriminate H|]. constructor; [intros _; reflexivity|constructor].
    + rewrite Elive. constructor; [|constructor]. split; [|split].
      * unfold renderable. split; [vm_compute; discriminate|]. split; [vm_compute; reflexivity|]. split.
        -- intros H. vm_compute in H. repeat (destruct H as [H|H]; [discriminate H|]). contradiction.
        -- vm_compute. constructor.
      * vm_compute. split; [reflexivity|]. repeat (constructor; [left; reflexivity|]). constructor.
      * vm_compute. reflexivity.
    + rewrite Elive. discriminate.
    + repeat (constructor; [vm_compute; reflexivity|]). constructor.
  - intros n. unfold srendered. cbn [s_type s_known s_extra]. unfold rendered. rewrite Elive. reflexivity.
Qed.

Example C13_ex_fixpoint :
  rmap doc_dumps (from_text (doc_dumps [build C13_ex_spec])) = Ok (doc_dumps [build C13_ex_spec]) /\
  doc_dumps [build C13_ex_spec] = lit "License: MIT
".
Proof. vm_compute. split; reflexivity. Qed.

(* a rendering whose paragraph renderings hold no empty line (and start and end with a character
   that is not a line feed) splits back into exactly those renderings: the same number of
   paragraphs *)
Theorem C13_solid_renderings_split_back : forall ps, Forall solid_block (map para_dumps ps) -> ps <> [] ->
  split_in_paragraphs (doc_dumps ps) = blocks_pieces (map para_dumps ps) /\
  length (split_in_paragraphs (doc_dumps ps)) = length ps.
Proof. exact doc_dumps_splits. Qed.
Print Assumptions C13_solid_renderings_split_back.

Example C13_nonvacuous :
  convert FCopyright (fval_dumps (convert FCopyright (lit "2001,  2003 Jane   Doe
   (c)  J. Roe"))) = VCopyright [(lit "2001,", lit "2003 Jane Doe"); ([], lit "(c) J. Roe")].
Proof. vm_compute. reflexivity. Qed.
