From DI Require Import PyStr Copyright.
Theorem C13_placeholder : True. Proof. exact I. Qed.
Print Assumptions C13_placeholder.
