From DI Require Import PyStr Copyright.
Theorem C11_placeholder : True. Proof. exact I. Qed.
Print Assumptions C11_placeholder.
