(* C11 - Building a copyright object loses no content and invents none.
   Words are those of str.split(); a lone full stop (the blank-line marker of continuation
   lines) is not counted, exactly as in the property's executable statement.  The words of the
   input are, per source line, those after the colon of a declaration line and those of the
   whole line otherwise. *)
From Coq Require Import String.
From Coq Require Import NArith List Bool Permutation.
From DI Require Import Result PyStr Codec Deb822 Debcon Copyright CopyrightFacts Dep5Facts WordFacts ConserveFacts.
Import ListNotations.
Open Scope N_scope.

(* for EVERY text the object is built, and the words of all values of its dictionary form are a
   rearrangement of the words of the input: nothing lost, nothing invented, whichever recovery
   path applies *)
Theorem C11_conservation : forall t, exists ps, from_text t = Ok ps /\
  Permutation (cwp ps) (flat_map line_cw (text_lines t)).
Proof. intros t. destruct (from_text_total t) as (ps & E). exists ps. split; [exact E|now apply from_text_words]. Qed.
Print Assumptions C11_conservation.

(* the stages *)
Theorem C11_lines_to_groups : forall lines cur gs, groups_loop lines cur = Ok gs ->
  gw gs = sw cur ++ flat_map (fun l => line_cw (ln_val l)) lines.
Proof. exact groups_loop_words. Qed.
Print Assumptions C11_lines_to_groups.

(* all fields kept, duplicates renamed not dropped: the stored values are exactly the field texts *)
Theorem C11_renaming_keeps_values : forall t ae fs b b', binv t ae b -> add_fields t ae b fs = Ok b' ->
  binv t ae b' /\ Permutation (vals b') (map fvalue (live fs) ++ vals b).
Proof. exact add_fields_inv. Qed.
Print Assumptions C11_renaming_keeps_values.

Theorem C11_paragraph : forall t fs p, from_fields t fs = Ok p ->
  Permutation (cw (pvals p)) (cw (map field_text fs)) /\ wfp p.
Proof. exact from_fields_words. Qed.
Print Assumptions C11_paragraph.

(* every typed field renders the words it was given *)
Theorem C11_converters : forall c raw, cwords (fval_dumps (convert c raw)) = cwords raw.
Proof. exact cwords_convert_dumps. Qed.
Print Assumptions C11_converters.

(* merge keeps every value of every merged paragraph, in order *)
Theorem C11_merge : forall run, cw (pvals (merge_run run)) = cwp run.
Proof. exact merge_run_words. Qed.
Print Assumptions C11_merge.

(* fold moves the unknown text into the license text *)
Theorem C11_fold : forall p1 p2, wfp p1 -> foldable p1 p2 = true ->
  cw (pvals (fold_pair p1 p2)) = cw (pvals p1) ++ cw (pvals p2).
Proof. exact fold_pair_words. Qed.
Print Assumptions C11_fold.

Theorem C11_groups_to_dictionary : forall gs ps, from_groups gs = Ok ps ->
  Permutation (cwp ps) (flat_map (fun g => cw (map field_text g)) gs).
Proof. exact from_groups_words. Qed.
Print Assumptions C11_groups_to_dictionary.

(* a text that takes all three recovery paths *)
Local Open Scope string_scope.
Example C11_recovery_paths :
  let t := lit "Format: f
Comment: one
Comment: two  words

junk line
more junk . here

trailing junk

License:

free text folded

Files: *
X-Extra: kept
" in
  match from_text t with
  | Ok ps =>
      map p_type ps = [PHeader; PCatchAll; PLicense; PFiles] /\
      cwp ps = map lit ["f"; "one"; "two"; "words"; "junk"; "line"; "more"; "junk"; "here"; "trailing"; "junk";
                        "free"; "text"; "folded"; "*"; "kept"]
  | _ => False
  end.
Proof. vm_compute. split; reflexivity. Qed.
