(* C17 - Package file names round-trip; latest-version selection is a maximum. *)
From Coq Require Import String.
From Coq Require Import NArith List Bool Permutation.
From DI Require Import Result PyStr Version Dpkg VersionOrder Package SortFacts PackageFacts PerNameFacts.
Import ListNotations.
Open Scope N_scope.

(* name_version_arch.deb / .udeb with any directory prefix: exactly that name, an
   equal version, that architecture, the original path *)
Theorem C17_roundtrip_binary : forall d n v a ext ver,
  dir_prefix d -> ~ In 95 n -> ~ In 47 n -> ~ In 95 v -> ~ In 47 v -> ~ In 95 a -> ~ In 47 a ->
  (ext = lit "deb" \/ ext = lit "udeb") -> from_string v = Ok ver ->
  let f := d ++ (n ++ [95] ++ v ++ [95] ++ a) ++ 46 :: ext in
  deb_from_filename f = Ok (mkArchive n ver (Some a) f).
Proof. exact roundtrip_binary. Qed.
Print Assumptions C17_roundtrip_binary.

Theorem C17_roundtrip_dsc : forall d n v ver,
  dir_prefix d -> ~ In 95 n -> ~ In 47 n -> ~ In 95 v -> ~ In 47 v -> from_string v = Ok ver ->
  let f := d ++ (n ++ [95] ++ v) ++ lit ".dsc" in
  code_from_filename f = Ok (mkArchive n ver None f) /\ deb_from_filename f = Ok (mkArchive n ver None f).
Proof. exact roundtrip_dsc. Qed.
Print Assumptions C17_roundtrip_dsc.

Theorem C17_roundtrip_metadata : forall d n v suffix ver,
  dir_prefix d -> ~ In 95 n -> ~ In 47 n -> ~ In 95 v -> ~ In 47 v ->
  (suffix = lit "copyright" \/ suffix = lit "changelog") -> from_string v = Ok ver ->
  let f := d ++ (n ++ [95] ++ v) ++ 95 :: suffix in
  code_from_filename f = Ok (mkArchive n ver None f).
Proof. exact roundtrip_metadata. Qed.
Print Assumptions C17_roundtrip_metadata.

Theorem C17_roundtrip_tarball : forall d n v kind comp ver,
  dir_prefix d -> ~ In 95 n -> ~ In 47 n -> ~ In 95 v -> ~ In 47 v ->
  (kind = lit "orig" \/ kind = lit "debian") ->
  (comp = lit "gz" \/ comp = lit "xz" \/ comp = lit "bz2" \/ comp = lit "lzma") ->
  from_string v = Ok ver ->
  let f := d ++ ((n ++ [95] ++ v) ++ 46 :: kind) ++ (lit ".tar" ++ [46]) ++ comp in
  code_from_filename f = Ok (mkArchive n ver None f).
Proof. exact roundtrip_tarball. Qed.
Print Assumptions C17_roundtrip_tarball.

(* every rejection is a ValueError *)
Theorem C17_reject_is_ValueError : forall f e,
  (deb_from_filename f = Raise e \/ code_from_filename f = Raise e) -> e = ValueError.
Proof. exact from_filename_raise. Qed.
Print Assumptions C17_reject_is_ValueError.

(* acceptance implies two or three underscore-separated parts and a valid version part *)
Theorem C17_accept_only_wellformed : forall f a,
  deb_from_filename f = Ok a ->
  a_file a = f /\
  exists stem evr,
    (split_char 95 stem = [a_name a; evr] /\ a_arch a = None \/
     exists arch, split_char 95 stem = [a_name a; evr; arch] /\ a_arch a = Some arch) /\
    from_string evr = Ok (a_version a).
Proof. exact from_filename_ok. Qed.
Print Assumptions C17_accept_only_wellformed.

(* the model of list.sort returns a permutation that is non-decreasing in any class order the
   comparison is compatible with on the elements being sorted *)
Theorem C17_sort_spec : forall (A K : Type) (lt : A -> A -> result bool) (key : A -> K)
  (cmpK : K -> K -> comparison), OrderFacts.CmpOK cmpK -> forall (P : A -> Prop),
  (forall x y b, P x -> P y -> lt x y = Ok b ->
     (cmpK (key x) (key y) = Lt -> b = true) /\ (cmpK (key x) (key y) = Gt -> b = false)) ->
  forall l r, Forall P l -> py_sort lt l = Ok r -> sortedK key cmpK r /\ Permutation l r.
Proof. exact @py_sort_spec. Qed.
Print Assumptions C17_sort_spec.

(* packages of one name: the selected one is an input and no input has a later version (dpkg order) *)
Theorem C17_latest_is_maximum : forall name ps res,
  ps <> [] -> Forall (same name) ps ->
  find_latest_version_archives ps = Ok res ->
  exists p, res = Some p /\ In p ps /\
            forall q, In q ps -> vcmp (a_version q) (a_version p) <> Gt.
Proof. exact latest_is_maximum. Qed.
Print Assumptions C17_latest_is_maximum.

(* mixing names raises ValueError *)
Theorem C17_mixed_names : forall ps sorted x y,
  py_sort archive_lt ps = Ok sorted -> Permutation ps sorted ->
  In x ps -> In y ps -> a_name x <> a_name y ->
  find_latest_version_archives ps = Raise ValueError.
Proof. exact mixed_names_raise. Qed.
Print Assumptions C17_mixed_names.

(* the per-name variant: one entry per name present; each is one of the inputs of that name whose
   version no other input of that name exceeds under dpkg ordering; every name present has an
   entry.  (The sort is by name first, so equal names are adjacent and groupby forms one group per
   name: proved from the sort specification, for any order of the input files.) *)
Theorem C17_latest_per_name : forall files ps out, files <> [] ->
  mapM deb_from_filename files = Ok ps -> Forall wfa ps ->
  find_latest_versions files = Ok (Some out) ->
  NoDup (map fst out) /\
  (forall n a, In (n, a) out -> In a ps /\ a_name a = n /\
     forall q, In q ps -> a_name q = n -> vcmp (a_version q) (a_version a) <> Gt) /\
  (forall p, In p ps -> exists a, In (a_name p, a) out).
Proof. exact latest_per_name. Qed.
Print Assumptions C17_latest_per_name.

Example C17_per_name_nonvacuous :
  match find_latest_versions [lit "b_2_all.deb"; lit "a_1.0_all.deb"; lit "b_10_all.deb"; lit "a_1.0~rc1_all.deb"; lit "b_9_all.deb"] with
  | Ok (Some out) => map (fun na => (fst na, a_file (snd na))) out = [(lit "a", lit "a_1.0_all.deb"); (lit "b", lit "b_10_all.deb")]
  | _ => False
  end.
Proof. vm_compute. reflexivity. Qed.

Example C17_nonvacuous :
  exists a, find_latest_version [lit "d/p_1.0_all.deb"; lit "p_1:0.1_all.deb"; lit "p_1.00_amd64.deb"] = Ok (Some a) /\
            a_file a = lit "p_1:0.1_all.deb".
Proof. eexists. split; vm_compute; reflexivity. Qed.
