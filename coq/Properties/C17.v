From DI Require Import PyStr Package.
Theorem C17_placeholder : True. Proof. exact I. Qed.
Print Assumptions C17_placeholder.
