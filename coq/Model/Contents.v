(* contents.py: the loop of parse_contents over already decoded lines. Opening
   the file, gzip and decoding are not modelled. *)
From Coq Require Import String.
From Coq Require Import NArith List Bool.
From DI Require Import Result PyStr.
Import ListNotations.
Open Scope N_scope.

Definition mdict := list (str * list str).

(* defaultdict(list)[k].append(v): insertion-ordered *)
Fixpoint dict_append (k v : str) (d : mdict) : mdict :=
  match d with
  | [] => [(k, [v])]
  | (k', vs) :: d' => if str_eqb k k' then (k', vs ++ [v]) :: d' else (k', vs) :: dict_append k v d'
  end.

Definition bare_name (q : str) : str := let '(_, _, n) := rpartition_char 47 q in n.

Definition add_row (path : str) (packages : str) (st : mdict * mdict) : mdict * mdict :=
  fold_left (fun st q =>
               let n := bare_name q in
               (dict_append path n (fst st), dict_append n path (snd st)))
            (split_char 44 packages) st.

Fixpoint contents_loop (has_header : bool) (in_table : bool) (st : mdict * mdict) (lines : list str)
  : result (bool * (mdict * mdict)) :=
  match lines with
  | [] => Ok (in_table, st)
  | line :: rest =>
      let '(l, _, r) := rpartition_char 32 (strip line) in
      let left := strip l in
      let right := strip r in
      if str_eqb left (lit "FILE") && str_eqb right (lit "LOCATION") then
        if negb has_header then Raise PyException
        else contents_loop has_header true st rest
      else if negb in_table then contents_loop has_header in_table st rest
      else contents_loop has_header in_table (add_row left right st) rest
  end.

Definition parse_contents_lines (has_header : bool) (lines : list str) : result (mdict * mdict) :=
  do r <- contents_loop has_header (negb has_header) ([], []) lines;
  let '(in_table, st) := r in
  if negb in_table then Raise PyException else Ok st.
