(* Python exceptions as values: every operation of the modelled code that can
   raise returns a [result]. *)
From Coq Require Import List.
Import ListNotations.

Inductive exn : Set :=
| ValueError | AssertionError | AttributeError | TypeError | KeyError
| IndexError | NotImplementedError | PyException | UnboundLocalError.

Inductive result (A : Type) : Type :=
| Ok (a : A)
| Raise (e : exn).
Arguments Ok {A} a.
Arguments Raise {A} e.

Definition bind {A B} (r : result A) (f : A -> result B) : result B :=
  match r with Ok a => f a | Raise e => Raise e end.

Notation "'do' x <- r ; k" := (bind r (fun x => k))
  (at level 200, x pattern, r at level 100, k at level 200).

Definition rmap {A B} (f : A -> B) (r : result A) : result B :=
  match r with Ok a => Ok (f a) | Raise e => Raise e end.

Fixpoint mapM {A B} (f : A -> result B) (l : list A) : result (list B) :=
  match l with
  | [] => Ok []
  | x :: xs => do y <- f x; do ys <- mapM f xs; Ok (y :: ys)
  end.

Definition is_ok {A} (r : result A) : bool :=
  match r with Ok _ => true | Raise _ => false end.

Definition exn_eqb (a b : exn) : bool :=
  match a, b with
  | ValueError, ValueError | AssertionError, AssertionError
  | AttributeError, AttributeError | TypeError, TypeError
  | KeyError, KeyError | IndexError, IndexError
  | NotImplementedError, NotImplementedError | PyException, PyException
  | UnboundLocalError, UnboundLocalError => true
  | _, _ => false
  end.
