(* version.py: Version.from_string / __str__ / tuple equality, the validity
   pattern, compare_strings, compare_version_objects, compare_versions,
   eval_constraint and the rich comparison operators. *)
From Coq Require Import String.
From Coq Require Import NArith ZArith List Bool.
From DI Require Import Result PyStr.
Import ListNotations.
Open Scope N_scope.

(* ---------- the character rank table (characters_order) ---------- *)

Definition rank (c : char) : option N :=
  if c =? 126 then Some 0
  else if is_ascii_upper c then Some (c - 65 + 2)
  else if is_ascii_lower c then Some (c - 97 + 28)
  else if c =? 43 then Some 54
  else if c =? 45 then Some 55
  else if c =? 46 then Some 56
  else None.

(* rank of the zip_longest filler '' *)
Definition rank_fill : N := 1.

(* o1 < o2 / o1 > o2 on mapping.get results: None on either side is a TypeError *)
Definition cmp_ranks (o1 o2 : option N) : result comparison :=
  match o1, o2 with
  | Some a, Some b => Ok (a ?= b)
  | _, _ => Raise TypeError
  end.

(* the for loop over zip_longest(p1, p2, fillvalue=''): 0 when it falls through *)
Fixpoint cmp_prefix (p1 p2 : str) {struct p1} : result Z :=
  match p1 with
  | [] =>
      (fix tail2 (p2 : str) : result Z :=
         match p2 with
         | [] => Ok 0%Z
         | c2 :: p2' =>
             match cmp_ranks (Some rank_fill) (rank c2) with
             | Raise e => Raise e
             | Ok Lt => Ok (-1)%Z
             | Ok Gt => Ok 1%Z
             | Ok Eq => tail2 p2'
             end
         end) p2
  | c1 :: p1' =>
      match p2 with
      | [] =>
          match cmp_ranks (rank c1) (Some rank_fill) with
          | Raise e => Raise e
          | Ok Lt => Ok (-1)%Z
          | Ok Gt => Ok 1%Z
          | Ok Eq => cmp_prefix p1' []
          end
      | c2 :: p2' =>
          match cmp_ranks (rank c1) (rank c2) with
          | Raise e => Raise e
          | Ok Lt => Ok (-1)%Z
          | Ok Gt => Ok 1%Z
          | Ok Eq => cmp_prefix p1' p2'
          end
      end
  end.

(* get_non_digit_prefix: (prefix, remaining characters); digits are str.isdigit *)
Fixpoint non_digit_prefix (s : str) : str * str :=
  match s with
  | [] => ([], [])
  | c :: s' =>
      if is_pydigit c then ([], s)
      else let '(p, r) := non_digit_prefix s' in (c :: p, r)
  end.

(* get_digit_prefix: value by Horner; int(c) fails on isdigit characters that are
   not decimal digits *)
Fixpoint digit_prefix (acc : N) (s : str) : result (N * str) :=
  match s with
  | [] => Ok (acc, [])
  | c :: s' =>
      if is_pydigit c then
        match nd_value c with
        | Some d => digit_prefix (acc * 10 + d) s'
        | None => Raise ValueError
        end
      else Ok (acc, s)
  end.

(* compare_strings; fuel = |v1| + |v2| always suffices (Proofs/VersionFacts.v) *)
Fixpoint compare_strings_fuel (fuel : nat) (v1 v2 : str) : result Z :=
  match v1, v2 with
  | [], [] => Ok 0%Z
  | _, _ =>
      match fuel with
      | O => Raise PyException
      | S f =>
          let '(p1, r1) := non_digit_prefix v1 in
          let '(p2, r2) := non_digit_prefix v2 in
          do c <- (if str_eqb p1 p2 then Ok 0%Z else cmp_prefix p1 p2);
          if negb (c =? 0)%Z then Ok c
          else
            do x1 <- digit_prefix 0 r1;
            do x2 <- digit_prefix 0 r2;
            let '(d1, r1') := x1 in
            let '(d2, r2') := x2 in
            if d1 <? d2 then Ok (-1)%Z
            else if d2 <? d1 then Ok 1%Z
            else compare_strings_fuel f r1' r2'
      end
  end.

Definition compare_strings (v1 v2 : str) : result Z :=
  compare_strings_fuel (length v1 + length v2) v1 v2.

(* ---------- Version objects ---------- *)

Record version := mkVersion { epoch : N; upstream : str; revision : str }.

Definition class_A (c : char) : bool :=
  is_ascii_alnum c || (c =? 46) || (c =? 43) || (c =? 45) || (c =? 126).
Definition class_B (c : char) : bool := is_ascii_alnum c.
Definition class_C (c : char) : bool :=
  is_ascii_alnum c || (c =? 46) || (c =? 43) || (c =? 126).
Definition class_E (c : char) : bool := is_ascii_alnum c || (c =? 126).

Definition last_is (p : char -> bool) (s : str) : bool :=
  match rev s with [] => false | c :: _ => p c end.

(* [A-Za-z0-9.+-~]*[A-Za-z0-9] *)
Definition alt1 (t : str) : bool := forallb class_A t && last_is class_B t.
(* [A-Za-z0-9.+~]*[A-Za-z0-9]-[A-Za-z0-9+.~]*[A-Za-z0-9~] *)
Definition alt2 (t : str) : bool :=
  let '(x, f, y) := partition_char 45 t in
  f && forallb class_C x && last_is class_B x && forallb class_C y && last_is class_E y.

(* [0-9]( alt1 | alt2 )?$ *)
Definition valid_rest (r : str) : bool :=
  match r with
  | [] => false
  | d :: t => is_ascii_digit d && (match t with [] => true | _ => alt1 t || alt2 t end)
  end.

(* _is_valid_version on a string without final newline:
   ^([0-9]+:)?[0-9](...)?$ *)
Definition valid_version (s : str) : bool :=
  if mem_char 58 s then
    let '(e, _, r) := partition_char 58 s in
    negb (match e with [] => true | _ => false end) && forallb is_ascii_digit e && valid_rest r
  else valid_rest s.

(* Version.from_string *)
Definition from_string (s : str) : result version :=
  let v := strip s in
  match v with
  | [] => Raise ValueError
  | _ =>
      if negb (valid_version v) then Raise ValueError
      else
        let '(ep, v1) :=
          if mem_char 58 v then
            let '(e, _, r) := partition_char 58 v in (dec_to_N e, r)
          else (0, v) in
        if mem_char 45 v1 then
          let '(u, _, r) := rpartition_char 45 v1 in Ok (mkVersion ep u r)
        else Ok (mkVersion ep v1 [48])
  end.

(* Version.__str__ *)
Definition to_string (v : version) : str :=
  let base :=
    if epoch v =? 0 then upstream v
    else N_to_dec (epoch v) ++ [58] ++ upstream v in
  if negb (str_eqb (revision v) [48]) then base ++ [45] ++ revision v
  else
    match upstream v with
    | [] => base
    | _ =>
        if mem_char 45 (upstream v) || negb (last_is is_ascii_alnum (upstream v))
        then base ++ [45; 48] else base
    end.

(* __eq__ / tuple() *)
Definition version_eqb (a b : version) : bool :=
  (epoch a =? epoch b) && str_eqb (upstream a) (upstream b) && str_eqb (revision a) (revision b).

(* compare_version_objects *)
Definition compare_version_objects (a b : version) : result Z :=
  if epoch a <? epoch b then Ok (-1)%Z
  else if epoch b <? epoch a then Ok 1%Z
  else
    do r <- compare_strings (upstream a) (upstream b);
    if negb (r =? 0)%Z then Ok r
    else
      match revision a, revision b with
      | [], [] => Ok 0%Z
      | _, _ => compare_strings (revision a) (revision b)
      end.

(* compare_versions on strings: coerce both (first argument first), then compare *)
Definition compare_versions (a b : str) : result Z :=
  do va <- from_string a;
  do vb <- from_string b;
  compare_version_objects va vb.

(* eval_constraint: the operator table applied to the three-way result *)
Inductive vop := OpLe | OpGe | OpLt | OpGt | OpEq.

Definition parse_op (o : str) : option vop :=
  if str_eqb o (lit "<=") then Some OpLe
  else if str_eqb o (lit "<") then Some OpLe
  else if str_eqb o (lit ">=") then Some OpGe
  else if str_eqb o (lit ">") then Some OpGe
  else if str_eqb o (lit "<<") then Some OpLt
  else if str_eqb o (lit ">>") then Some OpGt
  else if str_eqb o (lit "=") then Some OpEq
  else None.

Definition apply_op (o : vop) (r : Z) : bool :=
  match o with
  | OpLe => (r <=? 0)%Z
  | OpGe => (r >=? 0)%Z
  | OpLt => (r <? 0)%Z
  | OpGt => (r >? 0)%Z
  | OpEq => (r =? 0)%Z
  end.

(* on Version objects: the comparison happens before the operator lookup *)
Definition eval_constraint_obj (a : version) (o : str) (b : version) : result bool :=
  do r <- compare_version_objects a b;
  match parse_op o with
  | Some op => Ok (apply_op op r)
  | None => Raise ValueError
  end.

(* on strings: both are coerced first *)
Definition eval_constraint (a : str) (o : str) (b : str) : result bool :=
  do va <- from_string a;
  do vb <- from_string b;
  eval_constraint_obj va o vb.

(* __lt__ __le__ __gt__ __ge__ *)
Definition v_lt (a b : version) := eval_constraint_obj a (lit "<<") b.
Definition v_le (a b : version) := eval_constraint_obj a (lit "<=") b.
Definition v_gt (a b : version) := eval_constraint_obj a (lit ">>") b.
Definition v_ge (a b : version) := eval_constraint_obj a (lit ">=") b.
