(* debcon.py: split_in_paragraphs, get_paragraph_data, get_paragraphs_data. *)
From Coq Require Import String.
From Coq Require Import NArith List Bool.
From DI Require Import Result PyStr Email.
Import ListNotations.
Open Scope N_scope.

(* insertion-ordered dict with str keys *)
Definition pydict (V : Type) := list (str * V).

Fixpoint dict_get {V} (k : str) (d : pydict V) : option V :=
  match d with
  | [] => None
  | (k', v) :: d' => if str_eqb k k' then Some v else dict_get k d'
  end.

Fixpoint dict_put {V} (k : str) (v : V) (d : pydict V) : pydict V :=
  match d with
  | [] => [(k, v)]
  | (k', v') :: d' => if str_eqb k k' then (k', v) :: d' else (k', v') :: dict_put k v d'
  end.

Fixpoint dict_del {V} (k : str) (d : pydict V) : pydict V :=
  match d with
  | [] => []
  | (k', v') :: d' => if str_eqb k k' then d' else (k', v') :: dict_del k d'
  end.

(* re.split(r'\n\n(?:[ \t]*\n)*', text), empty pieces dropped.
   in_sep: inside a separator, [pend] holds blanks/tabs read since the last line end *)
Fixpoint split_paras_aux (cur : str) (prev_nl : bool) (in_sep : bool) (pend : str) (s : str)
  : list str :=
  match s with
  | [] =>
      if in_sep then match pend with [] => [] | _ => [rev pend] end
      else match cur with [] => [] | _ => [rev cur] end
  | c :: s' =>
      if in_sep then
        if c =? 10 then split_paras_aux [] false true [] s'
        else if is_blank_tab c then split_paras_aux [] false true (c :: pend) s'
        else split_paras_aux (c :: pend) false false [] s'
      else
        if (c =? 10) && prev_nl then
          match tl cur with
          | [] => split_paras_aux [] false true [] s'
          | piece => rev piece :: split_paras_aux [] false true [] s'
          end
        else split_paras_aux (c :: cur) (c =? 10) false [] s'
  end.
Definition split_in_paragraphs (t : str) : list str := split_paras_aux [] false false [] t.

Definition unknown_key : str := lit "unknown".

(* the merge loop over (name, value) items *)
Fixpoint merge_items (items : list (str * str)) (data : pydict str) : pydict str :=
  match items with
  | [] => data
  | (name, value) :: rest =>
      let name := strip (lower_ascii name) in
      let value := strip value in
      match dict_get name data with
      | Some existing =>
          let ex := splitlines existing in
          if mem_str value ex then merge_items rest data
          else merge_items rest (dict_put name (join [10] (ex ++ [value])) data)
      | None => merge_items rest (dict_put name value data)
      end
  end.

(* get_paragraph_data(text) without signature removal *)
Definition get_paragraph_data (t : str) : pydict str :=
  match t with
  | [] => [(unknown_key, [])]
  | _ =>
      let m := parse_message t in
      match m_items m with
      | [] => [(unknown_key, t)]
      | _ =>
          if m_defects m || m_unixfrom m || m_container m then [(unknown_key, t)]
          else
            let items :=
              match m_payload m with
              | [] => m_items m
              | p => m_items m ++ [(unknown_key, p)]
              end in
            merge_items items []
      end
  end.

Definition get_paragraphs_data (t : str) : list (pydict str) :=
  map get_paragraph_data (split_in_paragraphs t).
