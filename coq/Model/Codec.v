(* debcon.py: continuation-line codec and the field classes built on it
   (as_formatted_lines/text, from_formatted_lines/text, line_separated,
   FormattedTextField, DescriptionField) and copyright.LicenseField. *)
From Coq Require Import NArith List Bool.
From DI Require Import PyStr.
Import ListNotations.
Open Scope N_scope.

Definition LF : char := 10.
Definition SP : char := 32.
Definition DOT : char := 46.

(* '\n '.join(...) *)
Definition nl_sp : str := [LF; SP].

(* debcon.line_separated: [] for a falsy value, else value.splitlines(False) *)
Definition line_separated (v : str) : list str := splitlines v.

(* debcon.as_formatted_lines: a blank line becomes a full stop, except a blank
   first line, which stays empty *)
Fixpoint fmt_rest (ls : list str) : list str :=
  match ls with
  | [] => []
  | l :: ls' => (if all_space l then [DOT] else l) :: fmt_rest ls'
  end.
Definition fmt_lines (ls : list str) : list str :=
  match ls with
  | [] => []
  | l :: ls' => (if all_space l then [] else l) :: fmt_rest ls'
  end.
Definition as_formatted_lines (ls : list str) : str := join nl_sp (fmt_lines ls).

(* debcon.as_formatted_text *)
Definition as_formatted_text (t : str) : str := as_formatted_lines (splitlines t).

(* one continuation line of debcon.from_formatted_lines *)
Definition decode_line (l : str) : str :=
  let l := rstrip l in
  if startswith [32; 32] l then tl l            (* verbatim: line[1:] *)
  else if str_eqb l [32; 46] then []            (* blank-line marker *)
  else if startswith [32; 46] l then tl l       (* " .x": kept as ".x" *)
  else strip l.

Definition from_formatted_lines (ls : list str) : str :=
  match ls with
  | [] => []
  | l0 :: ls' => join [LF] (strip l0 :: map decode_line ls')
  end.

Definition from_formatted_text (t : str) : str := from_formatted_lines (line_separated t).

(* FormattedTextField: from_value(v).text and .dumps() *)
Definition ftf_from_value (v : str) : str := from_formatted_text v.
Definition ftf_dumps (text : str) : str := as_formatted_lines (line_separated text).

(* DescriptionField: (synopsis, text) *)
Definition desc_from_value (v : str) : str * str :=
  match line_separated v with
  | [] => ([], [])
  | l0 :: ls => (strip l0, from_formatted_lines ls)
  end.

Definition desc_dumps (syn text : str) : str :=
  let syn := strip syn in
  match text with
  | [] => as_formatted_lines [syn]
  | c :: t' =>
      let text := if c =? 32 then t' else text in
      as_formatted_lines (syn :: splitlines text)
  end.

(* copyright.LicenseField: (name, text) *)
Definition lic_from_value (v : str) : str * str :=
  let '(syn, text) := desc_from_value v in (syn, lstrip text).

Definition lic_dumps (name text : str) : str := strip (desc_dumps name text).
