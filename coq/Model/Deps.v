(* deps.py: relationship-field parser, canonical printing, names, three-valued
   matching; package.match_relationships. *)
From Coq Require Import String.
From Coq Require Import NArith ZArith List Bool.
From DI Require Import Result PyStr Version.
Import ListNotations.
Open Scope N_scope.

Inductive rel : Type :=
| Rel (name : str) (archs : list str)
| VRel (name : str) (op : str) (ver : str) (archs : list str)
| OrRel (rs : list rel)
| AndRel (rs : list rel).

(* ---------- the name / version / architectures pattern ---------- *)

(* [^\(\[ ]  (the blank inside the class is significant under re.VERBOSE) *)
Definition name_char (c : char) : bool := negb ((c =? 40) || (c =? 91) || (c =? 32)).

(* ( open (?P<g> [^close]+ ) close )?  at the current position:
   Some (group text, rest after close) or None when the group does not take part *)
Definition bracket_group (open close : char) (s : str) : option (str * str) :=
  match s with
  | c :: s' =>
      if c =? open then
        let '(g, f, r) := partition_char close s' in
        if f then match g with [] => None | _ => Some (g, r) end else None
      else None
  | [] => None
  end.

(* parse_package_relationship_expression(expression): None when there is no match,
   else (name, version group, architectures group) *)
Definition rel_expr_match (s : str) : option (str * option str * option str) :=
  let name := take_while name_char s in
  match name with
  | [] => None
  | _ =>
      let s1 := drop_while is_space (drop_while name_char s) in
      let '(ver, s2) :=
        match bracket_group 40 41 s1 with
        | Some (g, r) => (Some g, r)
        | None => (None, s1)
        end in
      let s3 := drop_while is_space s2 in
      let arch :=
        match bracket_group 91 93 s3 with
        | Some (g, _) => Some g
        | None => None
        end in
      Some (name, ver, arch)
  end.

(* re.compile('([<>=]+)').split(version): pieces and operator runs, alternating *)
Definition is_op_char (c : char) : bool := (c =? 60) || (c =? 62) || (c =? 61).

Fixpoint split_on_ops_aux (cur : str) (ops : str) (in_op : bool) (s : str) : list str :=
  match s with
  | [] => if in_op then [rev ops; []] else [rev cur]
  | c :: s' =>
      if is_op_char c then
        if in_op then split_on_ops_aux cur (c :: ops) true s'
        else rev cur :: split_on_ops_aux [] [c] true s'
      else
        if in_op then rev ops :: split_on_ops_aux [c] [] false s'
        else split_on_ops_aux (c :: cur) ops false s'
  end.
Definition split_on_ops (s : str) : list str := split_on_ops_aux [] [] false s.

(* [t.strip() for t in pieces if t and t.strip()] *)
Definition nonblank_stripped (l : list str) : list str :=
  map strip (filter (fun t => negb (all_space t)) l).

(* parse_relationship *)
Definition parse_relationship (e : str) : result rel :=
  match rel_expr_match e with
  | None => Raise AttributeError
  | Some (name, ver, arch) =>
      let archs := match arch with Some a => split_ws a | None => [] end in
      match ver with
      | None => Ok (Rel name archs)
      | Some v =>
          match nonblank_stripped (split_on_ops v) with
          | [o; x] => Ok (VRel name o x archs)
          | _ => Raise ValueError
          end
      end
  end.

(* parse_alternatives *)
Definition parse_alternatives (e : str) : result rel :=
  if mem_char 124 e then
    do rs <- mapM parse_relationship (nonblank_stripped (split_char 124 e));
    Ok (OrRel rs)
  else parse_relationship e.

(* parse_depends on a string *)
Definition parse_depends (s : str) : result rel :=
  do rs <- mapM parse_alternatives (nonblank_stripped (split_char 44 s));
  Ok (AndRel rs).

(* ---------- __str__ and names ---------- *)

Definition archs_str (archs : list str) : str := [91] ++ join [32] archs ++ [93].

Fixpoint rel_str (r : rel) : str :=
  match r with
  | Rel n [] => n
  | Rel n archs => n ++ [32] ++ archs_str archs
  | VRel n o v archs =>
      let s := n ++ lit " (" ++ o ++ [32] ++ v ++ [41] in
      match archs with [] => s | _ => s ++ [32] ++ archs_str archs end
  | OrRel rs => join (lit " | ") (map rel_str rs)
  | AndRel rs => join (lit ", ") (map rel_str rs)
  end.

(* names, in order of first mention (a set in Python: compared up to order) *)
Fixpoint rel_names (r : rel) : list str :=
  match r with
  | Rel n _ => [n]
  | VRel n _ _ _ => [n]
  | OrRel rs => flat_map rel_names rs
  | AndRel rs => flat_map rel_names rs
  end.

(* ---------- matching ---------- *)

(* the candidate version handed to matches(): nothing, a string, a Version object *)
Inductive cand := CandNone | CandStr (s : str) | CandVer (v : version).

Definition cand_truthy (c : cand) : bool :=
  match c with CandNone => false | CandStr [] => false | _ => true end.

Definition coerce_cand (c : cand) : result version :=
  match c with
  | CandVer v => Ok v
  | CandStr s => from_string s
  | CandNone => Raise ValueError
  end.

(* dversion.eval_constraint(version, self.operator, self.version) *)
Definition eval_constraint_cand (c : cand) (o : str) (required : str) : result bool :=
  do vc <- coerce_cand c;
  do vr <- from_string required;
  eval_constraint_obj vc o vr.

Definition is_nil {A} (l : list A) : bool := match l with [] => true | _ => false end.

Fixpoint rel_matches (r : rel) (name : str) (c : cand) : result (option bool) :=
  match r with
  | Rel n archs =>
      if str_eqb n name then
        if negb (is_nil archs) then Raise NotImplementedError else Ok (Some true)
      else Ok None
  | VRel n o v archs =>
      if str_eqb n name then
        if cand_truthy c then
          if negb (is_nil archs) then Raise NotImplementedError
          else do b <- eval_constraint_cand c o v; Ok (Some b)
        else Ok (Some false)
      else Ok None
  | OrRel rs =>
      (fix go (rs : list rel) (acc : option bool) : result (option bool) :=
         match rs with
         | [] => Ok acc
         | r :: rs' =>
             do m <- rel_matches r name c;
             match m with
             | Some true => Ok (Some true)
             | Some false => go rs' (Some false)
             | None => go rs' acc
             end
         end) rs None
  | AndRel rs =>
      do ms <- (fix all (rs : list rel) : result (list (option bool)) :=
                  match rs with
                  | [] => Ok []
                  | r :: rs' => do m <- rel_matches r name c; do ms <- all rs'; Ok (m :: ms)
                  end) rs;
      let known := flat_map (fun m => match m with Some b => [b] | None => [] end) ms in
      match known with
      | [] => Ok None
      | _ => Ok (Some (forallb (fun b => b) known))
      end
  end.

(* package.match_relationships(archive, relationship_sets) *)
Fixpoint match_relationships_aux (name : str) (c : cand) (sets : list rel) (acc : option bool)
  : result (option bool) :=
  match sets with
  | [] => Ok acc
  | r :: sets' =>
      do st <- rel_matches r name c;
      match st with
      | Some true =>
          match acc with
          | Some false => match_relationships_aux name c sets' acc
          | _ => match_relationships_aux name c sets' (Some true)
          end
      | Some false => Ok (Some false)
      | None => match_relationships_aux name c sets' acc
      end
  end.
Definition match_relationships (name : str) (c : cand) (sets : list rel) : result (option bool) :=
  match_relationships_aux name c sets None.
