(* Python str as a list of Unicode code points, and the str methods the
   modelled code uses.  Definitions only; facts are in Proofs/PyStrFacts.v. *)
From Coq Require Import NArith ZArith List Bool.
From DI Require Import UnicodeTables.
Import ListNotations.
Open Scope N_scope.

Definition char := N.
Definition str := list char.

(* ---------- character classes ---------- *)

Fixpoint in_ranges (rs : list (N * N)) (c : N) : bool :=
  match rs with
  | [] => false
  | (a, b) :: rs' => ((a <=? c) && (c <=? b)) || in_ranges rs' c
  end.

(* str.isspace, default strip()/split(), re \s *)
Definition is_space (c : char) : bool :=
  ((9 <=? c) && (c <=? 13)) || ((28 <=? c) && (c <=? 32)) || (c =? 133) ||
  (c =? 160) || (c =? 5760) || ((8192 <=? c) && (c <=? 8202)) ||
  (c =? 8232) || (c =? 8233) || (c =? 8239) || (c =? 8287) || (c =? 12288).

(* str.splitlines boundaries *)
Definition is_linebreak (c : char) : bool :=
  ((10 <=? c) && (c <=? 13)) || ((28 <=? c) && (c <=? 30)) || (c =? 133) ||
  (c =? 8232) || (c =? 8233).

(* LF / CR only: the line structure of a text file *)
Definition is_lf_cr (c : char) : bool := (c =? 10) || (c =? 13).

Definition is_nd (c : char) : bool := in_ranges nd_ranges c.
Definition is_pydigit (c : char) : bool := in_ranges pydigit_ranges c.

Fixpoint nd_value_in (rs : list (N * N)) (c : N) : option N :=
  match rs with
  | [] => None
  | (a, b) :: rs' =>
      if (a <=? c) && (c <=? b) then Some ((c - a) mod 10) else nd_value_in rs' c
  end.
Definition nd_value (c : char) : option N := nd_value_in nd_ranges c.

Definition is_ascii_digit (c : char) : bool := (48 <=? c) && (c <=? 57).
Definition is_ascii_upper (c : char) : bool := (65 <=? c) && (c <=? 90).
Definition is_ascii_lower (c : char) : bool := (97 <=? c) && (c <=? 122).
Definition is_ascii_alpha (c : char) : bool := is_ascii_upper c || is_ascii_lower c.
Definition is_ascii_alnum (c : char) : bool := is_ascii_alpha c || is_ascii_digit c.
Definition is_blank_tab (c : char) : bool := (c =? 32) || (c =? 9).

(* ---------- equality ---------- *)

Fixpoint str_eqb (a b : str) : bool :=
  match a, b with
  | [], [] => true
  | x :: a', y :: b' => (x =? y) && str_eqb a' b'
  | _, _ => false
  end.

Fixpoint mem_str (x : str) (l : list str) : bool :=
  match l with [] => false | y :: l' => str_eqb x y || mem_str x l' end.

(* ---------- strip family ---------- *)

Fixpoint drop_while (p : char -> bool) (s : str) : str :=
  match s with
  | [] => []
  | c :: s' => if p c then drop_while p s' else s
  end.

Fixpoint take_while (p : char -> bool) (s : str) : str :=
  match s with
  | [] => []
  | c :: s' => if p c then c :: take_while p s' else []
  end.

Definition lstrip_by (p : char -> bool) (s : str) : str := drop_while p s.
Definition rstrip_by (p : char -> bool) (s : str) : str := rev (drop_while p (rev s)).
Definition strip_by (p : char -> bool) (s : str) : str := rstrip_by p (lstrip_by p s).

Definition lstrip := lstrip_by is_space.
Definition rstrip := rstrip_by is_space.
Definition strip := strip_by is_space.

(* not s.strip() *)
Definition all_space (s : str) : bool := forallb is_space s.

(* ---------- prefixes, suffixes, search ---------- *)

Fixpoint startswith (p s : str) : bool :=
  match p, s with
  | [], _ => true
  | x :: p', y :: s' => (x =? y) && startswith p' s'
  | _ :: _, [] => false
  end.

Definition endswith (p s : str) : bool := startswith (rev p) (rev s).

Fixpoint mem_char (c : char) (s : str) : bool :=
  match s with [] => false | x :: s' => (x =? c) || mem_char c s' end.

(* s.partition(c) for a one-character separator:
   (before, found, after); when absent (s, false, []) *)
Fixpoint partition_char (c : char) (s : str) : str * bool * str :=
  match s with
  | [] => ([], false, [])
  | x :: s' =>
      if x =? c then ([], true, s')
      else let '(a, f, b) := partition_char c s' in (x :: a, f, b)
  end.

(* s.rpartition(c): when absent ([], false, s) *)
Definition rpartition_char (c : char) (s : str) : str * bool * str :=
  let '(a, f, b) := partition_char c (rev s) in
  if f then (rev b, true, rev a) else ([], false, s).

(* s.partition(sep) for a non-empty separator string *)
Fixpoint partition_str (sep : str) (s : str) : str * bool * str :=
  match s with
  | [] => ([], false, [])
  | x :: s' =>
      if startswith sep s then ([], true, skipn (length sep) s)
      else let '(a, f, b) := partition_str sep s' in (x :: a, f, b)
  end.

Definition rpartition_str (sep : str) (s : str) : str * bool * str :=
  let '(a, f, b) := partition_str (rev sep) (rev s) in
  if f then (rev b, true, rev a) else ([], false, s).

(* s.split(c) for a one-character separator: never the empty list *)
Fixpoint split_char_aux (c : char) (cur : str) (s : str) : list str :=
  match s with
  | [] => [rev cur]
  | x :: s' =>
      if x =? c then rev cur :: split_char_aux c [] s'
      else split_char_aux c (x :: cur) s'
  end.
Definition split_char (c : char) (s : str) : list str := split_char_aux c [] s.

(* s.split(): runs of non-space characters *)
Fixpoint split_ws_aux (cur : str) (s : str) : list str :=
  match s with
  | [] => match cur with [] => [] | _ => [rev cur] end
  | x :: s' =>
      if is_space x then
        match cur with
        | [] => split_ws_aux [] s'
        | _ => rev cur :: split_ws_aux [] s'
        end
      else split_ws_aux (x :: cur) s'
  end.
Definition split_ws (s : str) : list str := split_ws_aux [] s.

(* s.splitlines(False) with boundary class [lb]; CR LF is one boundary *)
Fixpoint splitlines_aux (lb : char -> bool) (skip_lf : bool) (cur : str) (s : str)
  : list str :=
  match s with
  | [] => match cur with [] => [] | _ => [rev cur] end
  | c :: s' =>
      if skip_lf && (c =? 10) then splitlines_aux lb false cur s'
      else if lb c then rev cur :: splitlines_aux lb (c =? 13) [] s'
      else splitlines_aux lb false (c :: cur) s'
  end.
Definition splitlines_by (lb : char -> bool) (s : str) : list str :=
  splitlines_aux lb false [] s.
Definition splitlines := splitlines_by is_linebreak.

(* s.splitlines(True) *)
Fixpoint splitlines_keep_aux (lb : char -> bool) (cur : str) (s : str) : list str :=
  match s with
  | [] => match cur with [] => [] | _ => [rev cur] end
  | c :: s' =>
      if lb c then
        match c, s' with
        | 13, 10 :: s'' => rev (10 :: 13 :: cur) :: splitlines_keep_aux lb [] s''
        | _, _ => rev (c :: cur) :: splitlines_keep_aux lb [] s'
        end
      else splitlines_keep_aux lb (c :: cur) s'
  end.
Definition splitlines_keep_by (lb : char -> bool) (s : str) : list str :=
  splitlines_keep_aux lb [] s.

Fixpoint join (sep : str) (l : list str) : str :=
  match l with
  | [] => []
  | [x] => x
  | x :: l' => x ++ sep ++ join sep l'
  end.

(* s.replace(a, b) for single characters *)
Definition replace_char (a b : char) (s : str) : str :=
  map (fun c => if c =? a then b else c) s.

(* ---------- case ---------- *)

Definition lower_ascii_char (c : char) : char :=
  if is_ascii_upper c then c + 32 else c.
Definition upper_ascii_char (c : char) : char :=
  if is_ascii_lower c then c - 32 else c.
Definition lower_ascii (s : str) : str := map lower_ascii_char s.

(* str.lower on the characters a deb822 field name can contain:
   [A-Za-z0-9-] under IGNORECASE also admits U+0130 U+0131 U+017F U+212A *)
Fixpoint lower_name (s : str) : str :=
  match s with
  | [] => []
  | c :: s' =>
      if c =? 304 then 105 :: 775 :: lower_name s'
      else if c =? 8490 then 107 :: lower_name s'
      else lower_ascii_char c :: lower_name s'
  end.

(* ---------- numbers ---------- *)

(* int(s) for a string of ASCII digits (Horner) *)
Definition dec_to_N (s : str) : N :=
  fold_left (fun acc c => acc * 10 + (c - 48)) s 0.

(* str(n) *)
Fixpoint N_to_dec_fuel (fuel : nat) (n : N) (acc : str) : str :=
  match fuel with
  | O => acc
  | S f =>
      let d := 48 + n mod 10 in
      let q := n / 10 in
      if q =? 0 then d :: acc else N_to_dec_fuel f q (d :: acc)
  end.
Definition N_to_dec (n : N) : str := N_to_dec_fuel (S (N.to_nat (N.log2 n))) n [].

(* ---------- literals ---------- *)

From Coq Require Import Ascii String.
Fixpoint lit (s : String.string) : str :=
  match s with
  | String.EmptyString => []
  | String.String a s' => Ascii.N_of_ascii a :: lit s'
  end.
Arguments lit _%string.
