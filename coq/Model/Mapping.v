(* debcon.Debian822 (a MutableMapping over a dict with lower-cased keys),
   parse_control_fields, dumps, MaintainerField on "phrase <addr>". *)
From Coq Require Import String.
From Coq Require Import NArith ZArith List Bool.
From DI Require Import Result PyStr Debcon Copyright Deps Unsign.
Import ListNotations.
Open Scope N_scope.

Section Mapping.
  (* str.lower; the refinement theorem holds for any function *)
  Variable lower : str -> str.
  Variable V : Type.

  Inductive op :=
  | OGet (k : str) | OSet (k : str) (v : V) | ODel (k : str)
  | OContains (k : str) | OLen | OIter | OToDict
  (* the other ways of writing into a MutableMapping (collections.abc mix-ins over the three primitives) *)
  | OUpdate (items : list (str * V)) | OSetDefault (k : str) (v : V) | OPop (k : str) | OPopDefault (k : str) (v : V) | OClear
  (* reading with a default: get(k, v) *)
  | OGetDefault (k : str) (v : V).

  Inductive obs :=
  | ObsVal (v : V) | ObsKeyError | ObsNone | ObsBool (b : bool) | ObsLen (n : nat)
  | ObsKeys (ks : list str) | ObsItems (d : pydict V).

  (* one operation of Debian822 on its data dictionary *)
  Definition step822 (d : pydict V) (o : op) : pydict V * obs :=
    match o with
    | OGet k => (d, match dict_get (lower k) d with Some v => ObsVal v | None => ObsKeyError end)
    | OSet k v => (dict_put (lower k) v d, ObsNone)
    | ODel k => match dict_get (lower k) d with
                | Some _ => (dict_del (lower k) d, ObsNone)
                | None => (d, ObsKeyError)
                end
    | OContains k => (d, ObsBool (match dict_get (lower k) d with Some _ => true | None => false end))
    | OLen => (d, ObsLen (length d))
    | OIter => (d, ObsKeys (map fst d))
    | OToDict => (d, ObsItems d)
    | OUpdate items => (fold_left (fun d kv => dict_put (lower (fst kv)) (snd kv) d) items d, ObsNone)
    | OSetDefault k v => match dict_get (lower k) d with
                         | Some x => (d, ObsVal x)
                         | None => (dict_put (lower k) v d, ObsVal v)
                         end
    | OPop k => match dict_get (lower k) d with
                | Some x => (dict_del (lower k) d, ObsVal x)
                | None => (d, ObsKeyError)
                end
    | OPopDefault k v => match dict_get (lower k) d with
                         | Some x => (dict_del (lower k) d, ObsVal x)
                         | None => (d, ObsVal v)
                         end
    | OClear => ([], ObsNone)
    | OGetDefault k v => (d, ObsVal (match dict_get (lower k) d with Some x => x | None => v end))
    end.

  (* the same operation on a plain dict, the key already lower-cased *)
  Definition step_dict (d : pydict V) (o : op) : pydict V * obs :=
    match o with
    | OGet k => (d, match dict_get k d with Some v => ObsVal v | None => ObsKeyError end)
    | OSet k v => (dict_put k v d, ObsNone)
    | ODel k => match dict_get k d with
                | Some _ => (dict_del k d, ObsNone)
                | None => (d, ObsKeyError)
                end
    | OContains k => (d, ObsBool (match dict_get k d with Some _ => true | None => false end))
    | OLen => (d, ObsLen (length d))
    | OIter => (d, ObsKeys (map fst d))
    | OToDict => (d, ObsItems d)
    | OUpdate items => (fold_left (fun d kv => dict_put (fst kv) (snd kv) d) items d, ObsNone)
    | OSetDefault k v => match dict_get k d with
                         | Some x => (d, ObsVal x)
                         | None => (dict_put k v d, ObsVal v)
                         end
    | OPop k => match dict_get k d with
                | Some x => (dict_del k d, ObsVal x)
                | None => (d, ObsKeyError)
                end
    | OPopDefault k v => match dict_get k d with
                         | Some x => (dict_del k d, ObsVal x)
                         | None => (d, ObsVal v)
                         end
    | OClear => ([], ObsNone)
    | OGetDefault k v => (d, ObsVal (match dict_get k d with Some x => x | None => v end))
    end.

  Definition lower_op (o : op) : op :=
    match o with
    | OGet k => OGet (lower k) | OSet k v => OSet (lower k) v | ODel k => ODel (lower k)
    | OContains k => OContains (lower k)
    | OUpdate items => OUpdate (map (fun kv => (lower (fst kv), snd kv)) items)
    | OSetDefault k v => OSetDefault (lower k) v | OPop k => OPop (lower k) | OPopDefault k v => OPopDefault (lower k) v
    | OGetDefault k v => OGetDefault (lower k) v
    | o => o
    end.

  Fixpoint run_ops (step : pydict V -> op -> pydict V * obs) (d : pydict V) (ops : list op) : list obs :=
    match ops with
    | [] => []
    | o :: ops' => let '(d', ob) := step d o in ob :: run_ops step d' ops'
    end.

  (* {k.lower(): v for k, v in items} *)
  Definition from_items (items : list (str * V)) : pydict V :=
    fold_left (fun d kv => dict_put (lower (fst kv)) (snd kv) d) items [].
End Mapping.

Arguments OGet {V}. Arguments OSet {V}. Arguments ODel {V}. Arguments OContains {V}.
Arguments OLen {V}. Arguments OIter {V}. Arguments OToDict {V}.
Arguments OUpdate {V}. Arguments OSetDefault {V}. Arguments OPop {V}. Arguments OPopDefault {V}. Arguments OClear {V}. Arguments OGetDefault {V}.

(* "k: v" strings: s.partition(': ') *)
Definition item_of_string (s : str) : str * str :=
  let '(k, _, v) := partition_str [58; 32] s in (k, v).

(* get_paragraph_data(text, remove_pgp_signature=True) *)
Definition get_paragraph_data_unsigned (t : str) : pydict str :=
  match t with
  | [] => [(unknown_key, [])]
  | _ => get_paragraph_data (remove_signature t)
  end.

(* Debian822(text) / Debian822(file object): falsy data gives {} *)
Definition from_text822 (t : str) : pydict str :=
  match t with
  | [] => []
  | _ => get_paragraph_data_unsigned t
  end.

(* ---------- typed control fields ---------- *)

Definition DEPS_FIELDS : list str :=
  [lit "Breaks"; lit "Conflicts"; lit "Depends"; lit "Enhances"; lit "Pre-Depends"; lit "Provides";
   lit "Recommends"; lit "Replaces"; lit "Suggests"; lit "Build-Conflicts"; lit "Build-Conflicts-Arch";
   lit "Build-Conflicts-Indep"; lit "Build-Depends"; lit "Build-Depends-Arch"; lit "Build-Depends-Indep";
   lit "Built-Using"].

(* int(str) on optionally signed ASCII decimals surrounded by white space; other
   spellings Python accepts (underscores, non-ASCII digits) are outside the model *)
Inductive int_result := IntOk (z : Z) | IntValueError | IntOutOfModel.
Definition py_int (s : str) : int_result :=
  let t := strip s in
  let '(neg, d) :=
    match t with
    | 45 :: d => (true, d)
    | 43 :: d => (false, d)
    | _ => (false, t)
    end in
  match d with
  | [] => IntValueError
  | _ =>
      if forallb is_ascii_digit d then IntOk (if neg then (- Z.of_N (dec_to_N d))%Z else Z.of_N (dec_to_N d))
      else if existsb (fun c => (c =? 95) || (127 <? c)) d then IntOutOfModel
      else IntValueError
  end.

Inductive cvalue := CStr (s : str) | CInt (z : Z) | CRel (r : rel).

(* parse_control_fields(mapping): None when a value is outside the model *)
Fixpoint parse_control_fields_aux (items : list (str * str)) (out : pydict cvalue)
  : option (result (pydict cvalue)) :=
  match items with
  | [] => Some (Ok out)
  | (name, v) :: rest =>
      let name := normalize_control_field_name name in
      if mem_str name DEPS_FIELDS then
        match parse_depends v with
        | Ok r => parse_control_fields_aux rest (dict_put name (CRel r) out)
        | Raise e => Some (Raise e)
        end
      else if str_eqb name (lit "Installed-Size") then
        match py_int v with
        | IntOk z => parse_control_fields_aux rest (dict_put name (CInt z) out)
        | IntValueError => Some (Raise ValueError)
        | IntOutOfModel => None
        end
      else parse_control_fields_aux rest (dict_put name (CStr v) out)
  end.
Definition parse_control_fields (items : list (str * str)) : option (result (pydict cvalue)) :=
  parse_control_fields_aux items [].

(* Debian822.dumps *)
Definition dumps822 (d : pydict str) : str :=
  join [10] (map (fun kv => normalize_control_field_name (fst kv) ++ [58; 32] ++ snd kv) d) ++ [10].

(* ---------- MaintainerField on the grammar  phrase <addr-spec> ---------- *)

(* characters of a simple phrase word / of a simple address: no specials, no white space *)
Definition is_atext (c : char) : bool :=
  is_ascii_alnum c || existsb (fun x => c =? x) [33; 35; 36; 37; 38; 39; 42; 43; 45; 47; 61; 63; 94; 95; 96; 123; 124; 125; 126].

Definition simple_phrase (n : str) : bool :=
  (* words of atext separated by single spaces *)
  let ws := split_char 32 n in
  negb (match n with [] => true | _ => false end) &&
  forallb (fun w => negb (match w with [] => true | _ => false end) && forallb is_atext w) ws.

Definition has_sub (p s : str) : bool := let '(_, f, _) := partition_str p s in f.

Definition dot_atom (l : str) : bool :=
  negb (match l with [] => true | _ => false end) &&
  forallb (fun c => is_atext c || (c =? 46)) l &&
  negb (startswith [46] l) && negb (endswith [46] l) && negb (has_sub [46; 46] l).

Definition simple_addr (a : str) : bool :=
  let '(l, f, d) := partition_char 64 a in
  f && dot_atom l && dot_atom d.

(* MaintainerField.from_value(v): (name, address) on  phrase <addr>, None outside the grammar *)
Definition maintainer_from_value (v : str) : option (str * str) :=
  let v := strip v in
  let '(n, f, r) := partition_str [32; 60] v in
  if f then
    match rev r with
    | 62 :: ra =>
        let a := rev ra in
        if simple_phrase n && simple_addr a then Some (n, a) else None
    | _ => None
    end
  else None.

Definition maintainer_dumps (na : str * str) : str :=
  strip (fst na ++ [32; 60] ++ snd na ++ [62]).
