(* Entry points of the model, addressed by name over the line protocol. *)
From Coq Require Import String.
From Coq Require Import NArith ZArith List Bool.
From DI Require Import Result PyStr Val Codec Version Dpkg Deps Package Contents Deb822 Email Debcon Copyright Unsign Mapping.
From DI Require Import SpecCheck.  (* C13: the computable hypothesis of the document theorem, run on generated documents *)
Import ListNotations.
Open Scope N_scope.

Definition fn_is (name : String.string) (fn : str) : bool := str_eqb (lit name) fn.
Arguments fn_is _%string _.

(* inclusive ranges of the code points below [bound] satisfying [p] *)
Definition ranges_step (p : N -> bool) (st : N * option N * list (N * N)) :=
  let '(c, open, acc) := st in
  let open' :=
    match open, p c with
    | None, true => (Some c, acc)
    | Some a, false => (None, (a, c - 1) :: acc)
    | o, _ => (o, acc)
    end in
  (c + 1, fst open', snd open').
Definition ranges_of (p : N -> bool) (bound : N) : list (N * N) :=
  let '(c, open, acc) := N.iter bound (ranges_step p) (0, None, []) in
  rev (match open with Some a => (a, c - 1) :: acc | None => acc end).
Definition VRanges (l : list (N * N)) : val := VList (map (fun r => VPair (VN (fst r)) (VN (snd r))) l).

Definition class_by_name (fn : str) : option (N -> bool) :=
  if fn_is "is_space" fn then Some is_space
  else if fn_is "is_linebreak" fn then Some is_linebreak
  else if fn_is "is_nd" fn then Some is_nd
  else if fn_is "is_pydigit" fn then Some is_pydigit
  else None.

Definition VVersion (v : version) : val :=
  VList [VN (epoch v); VStr (upstream v); VStr (revision v)].

Definition version_roundtrip (s : str) : val :=
  match from_string s with
  | Raise e => VExn e
  | Ok v =>
      let p := to_string v in
      VList [VVersion v; VStr p;
             VRes (fun v' => VList [VVersion v'; VBool (version_eqb v v'); VStr (to_string v')])
                  (from_string p)]
  end.

Definition version_ops (a b : str) : val :=
  match from_string a, from_string b with
  | Ok va, Ok vb =>
      VList [VRes VInt (compare_version_objects va vb);
             VRes VBool (v_lt va vb); VRes VBool (v_le va vb);
             VRes VBool (v_gt va vb); VRes VBool (v_ge va vb);
             VBool (version_eqb va vb)]
  | Raise e, _ => VExn e
  | _, Raise e => VExn e
  end.

Definition dispatch_version (fn : str) (args : list val) : option val :=
  match args with
  | [VStr a] =>
      if fn_is "from_string" fn then Some (VRes VVersion (from_string a))
      else if fn_is "valid_version" fn then Some (VBool (valid_version a))
      else if fn_is "version_roundtrip" fn then Some (version_roundtrip a)
      else None
  | [VStr a; VStr b] =>
      if fn_is "compare_strings" fn then Some (VRes VInt (compare_strings a b))
      else if fn_is "compare_versions" fn then Some (VRes VInt (compare_versions a b))
      else if fn_is "version_ops" fn then Some (version_ops a b)
      else if fn_is "verrevcmp_sgn" fn then Some (VInt (Z.sgn (verrevcmp a b)))
      else if fn_is "dpkg_compare_sgn" fn then Some (VInt (Z.sgn (dpkg_compare_strings a b)))
      else if fn_is "key_compare" fn then Some (VInt (Z_of_cmp (cmp_key (key a) (key b))))
      else None
  | [VStr a; VStr o; VStr b] =>
      if fn_is "eval_constraint" fn then Some (VRes VBool (eval_constraint a o b))
      else None
  | _ => None
  end.

Definition dispatch (fn : str) (args : list val) : val :=
  match args with
  | [VStr a] =>
      if fn_is "class_ranges" fn then
        match class_by_name a with Some p => VRanges (ranges_of p 1114112) | None => VNone end
      else if fn_is "strip" fn then VStr (strip a)
      else if fn_is "lstrip" fn then VStr (lstrip a)
      else if fn_is "rstrip" fn then VStr (rstrip a)
      else if fn_is "split_ws" fn then VStrs (split_ws a)
      else if fn_is "splitlines" fn then VStrs (splitlines a)
      else if fn_is "splitlines_keep" fn then VStrs (splitlines_keep_by is_linebreak a)
      else if fn_is "lower_name" fn then VStr (lower_name a)
      else if fn_is "as_formatted_text" fn then VStr (as_formatted_text a)
      else if fn_is "from_formatted_text" fn then VStr (from_formatted_text a)
      else if fn_is "ftf_roundtrip" fn then
        let t := ftf_from_value a in VPair (VStr t) (VStr (ftf_dumps t))
      else if fn_is "desc_roundtrip" fn then
        let '(s, t) := desc_from_value a in VList [VStr s; VStr t; VStr (desc_dumps s t)]
      else if fn_is "lic_roundtrip" fn then
        let '(s, t) := lic_from_value a in VList [VStr s; VStr t; VStr (lic_dumps s t)]
      else VNone
  | [VStr a; VStr b] =>
      if fn_is "split_char" fn then
        match a with [c] => VStrs (split_char c b) | _ => VNone end
      else if fn_is "partition_str" fn then
        let '(x, f, y) := partition_str a b in VList [VStr x; VBool f; VStr y]
      else if fn_is "rpartition_str" fn then
        let '(x, f, y) := rpartition_str a b in VList [VStr x; VBool f; VStr y]
      else if fn_is "desc_dumps" fn then VStr (desc_dumps a b)
      else if fn_is "lic_dumps" fn then VStr (lic_dumps a b)
      else VNone
  | [VList ls] =>
      if fn_is "as_formatted_lines" fn then
        VStr (as_formatted_lines (flat_map (fun v => match v with VStr s => [s] | _ => [] end) ls))
      else if fn_is "from_formatted_lines" fn then
        VStr (from_formatted_lines (flat_map (fun v => match v with VStr s => [s] | _ => [] end) ls))
      else VNone
  | _ => VNone
  end.

(* ---------- deps ---------- *)

Fixpoint rel_to_val (r : rel) : val :=
  match r with
  | Rel n a => VList [VStr (lit "R"); VStr n; VStrs a]
  | VRel n o v a => VList [VStr (lit "V"); VStr n; VStr o; VStr v; VStrs a]
  | OrRel rs => VList [VStr (lit "O"); VList (map rel_to_val rs)]
  | AndRel rs => VList [VStr (lit "A"); VList (map rel_to_val rs)]
  end.

Definition val_strs (l : list val) : list str :=
  flat_map (fun v => match v with VStr s => [s] | _ => [] end) l.

Fixpoint val_to_rel (v : val) : rel :=
  match v with
  | VList [VStr t; VStr n; VList a] => Rel n (val_strs a)
  | VList [VStr t; VStr n; VStr o; VStr x; VList a] => VRel n o x (val_strs a)
  | VList [VStr t; VList rs] =>
      if str_eqb t (lit "O") then OrRel (map val_to_rel rs) else AndRel (map val_to_rel rs)
  | _ => AndRel []
  end.

Definition val_to_cand (v : val) : cand :=
  match v with
  | VStr s => CandStr s
  | VList [VInt e; VStr u; VStr r] => CandVer (mkVersion (Z.to_N e) u r)
  | _ => CandNone
  end.

Definition VTv (o : option bool) : val := match o with Some b => VBool b | None => VNone end.

Definition dispatch_deps (fn : str) (args : list val) : option val :=
  match args with
  | [VStr a] =>
      if fn_is "rel_expr_match" fn then
        Some (match rel_expr_match a with
              | None => VNone
              | Some (n, v, ar) => VList [VStr n; VOpt VStr v; VOpt VStr ar]
              end)
      else if fn_is "split_on_ops" fn then Some (VStrs (split_on_ops a))
      else if fn_is "parse_relationship" fn then Some (VRes rel_to_val (parse_relationship a))
      else if fn_is "parse_depends" fn then
        Some (VRes (fun r => VList [rel_to_val r; VStr (rel_str r); VStrs (rel_names r);
                                    VRes (fun r' => VList [rel_to_val r'; VStr (rel_str r')])
                                         (parse_depends (rel_str r))])
                   (parse_depends a))
      else None
  | [a; b; c] =>
      if fn_is "rel_matches" fn then
        match b with
        | VStr name => Some (VRes VTv (rel_matches (val_to_rel a) name (val_to_cand c)))
        | _ => None
        end
      else if fn_is "match_relationships" fn then
        match a, c with
        | VStr name, VList sets =>
            Some (VRes VTv (match_relationships name (val_to_cand b) (map val_to_rel sets)))
        | _, _ => None
        end
      else None
  | _ => None
  end.

(* ---------- package / contents ---------- *)

Definition VArchive (a : archive) : val :=
  VList [VStr (a_name a); VVersion (a_version a); VOpt VStr (a_arch a); VStr (a_file a)].

Definition VMdict (d : mdict) : val := VList (map (fun kv => VPair (VStr (fst kv)) (VStrs (snd kv))) d).

Definition dispatch_pkg (fn : str) (args : list val) : option val :=
  match args with
  | [VStr a] =>
      if fn_is "deb_from_filename" fn then Some (VRes VArchive (deb_from_filename a))
      else if fn_is "code_from_filename" fn then Some (VRes VArchive (code_from_filename a))
      else if fn_is "splitext" fn then Some (let '(x, y) := splitext a in VPair (VStr x) (VStr y))
      else if fn_is "basename" fn then Some (VStr (basename a))
      else None
  | [VList files] =>
      if fn_is "find_latest_version" fn then
        Some (VRes (VOpt VArchive) (find_latest_version (val_strs files)))
      else if fn_is "find_latest_versions" fn then
        Some (VRes (VOpt (fun d => VList (map (fun kv => VPair (VStr (fst kv)) (VArchive (snd kv))) d)))
                   (find_latest_versions (val_strs files)))
      else None
  | [VBool h; VList lines] =>
      if fn_is "parse_contents_lines" fn then
        Some (VRes (fun st => VPair (VMdict (fst st)) (VMdict (snd st)))
                   (parse_contents_lines h (val_strs lines)))
      else None
  | _ => None
  end.

(* ---------- deb822 ---------- *)

Definition VField (f : field) : val :=
  VList [VStr (f_name f); VList (map (fun l => VPair (VN (ln_num l)) (VStr (ln_val l))) (f_lines f))].
Definition VGroups (gs : list (list field)) : val := VList (map (fun g => VList (map VField g)) gs).

Definition dispatch_deb822 (fn : str) (args : list val) : option val :=
  match args with
  | [VStr a] =>
      if fn_is "groups" fn then Some (VRes VGroups (groups a))
      else if fn_is "is_decl" fn then Some (VBool (is_decl a))
      else if fn_is "is_cont" fn then Some (VBool (is_cont a))
      else if fn_is "text_lines" fn then Some (VStrs (text_lines a))
      else None
  | [VStr a; VInt k] =>
      if fn_is "groups_offset" fn then Some (VRes VGroups (groups_offset a (Z.to_N k)))
      else None
  | _ => None
  end.

(* ---------- email / debcon ---------- *)

Definition VDict (d : pydict str) : val := VList (map (fun kv => VPair (VStr (fst kv)) (VStr (snd kv))) d).

Definition dispatch_debcon (fn : str) (args : list val) : option val :=
  match args with
  | [VStr a] =>
      if fn_is "parse_message" fn then
        Some (let m := parse_message a in
              VList [VDict (m_items m); VBool (m_defects m); VBool (m_unixfrom m); VBool (m_container m);
                     VStr (m_payload m)])
      else if fn_is "split_in_paragraphs" fn then Some (VStrs (split_in_paragraphs a))
      else if fn_is "get_paragraph_data" fn then Some (VDict (get_paragraph_data a))
      else if fn_is "get_paragraphs_data" fn then Some (VList (map VDict (get_paragraphs_data a)))
      else None
  | _ => None
  end.

(* ---------- copyright ---------- *)

Definition VFval (v : fval) : val :=
  match v with
  | VSingle s => VStr s
  | VLines vs => VStrs vs
  | VText t => VStr t
  | VCopyright sts => VList (map (fun s => VPair (VStr (fst s)) (VStr (snd s))) sts)
  | VLicense n t => VPair (VStr n) (VStr t)
  end.

Definition VRanges2 (d : pydict (N * N)) : val :=
  VList (map (fun kv => VPair (VStr (fst kv)) (VPair (VN (fst (snd kv))) (VN (snd (snd kv))))) d).

Definition VPara (p : para) : val :=
  VList [VStr (ptype_name (p_type p));
         VDict (para_to_dict p);
         VRanges2 (p_lines p);
         VStr (para_dumps p);
         VList (map (fun kv => VPair (VStr (fst kv)) (VFval (snd kv))) (p_fields p));
         VDict (p_extra p);
         VDict (para_to_dict (para_from_dict (p_type p) (para_to_dict p)));
         VPair (VN (fst (first_last p))) (VN (snd (first_last p)))].

Definition VDoc (ps : list para) : val :=
  VList [VList (map VPara ps); VStr (doc_dumps ps); VBool (doc_is_valid false ps); VBool (doc_is_valid true ps)].

Definition dispatch_copyright (fn : str) (args : list val) : option val :=
  match args with
  | [VStr a] =>
      if fn_is "copyright_from_text" fn then Some (VRes VDoc (from_text a))
      else if fn_is "normalize_control_field_name" fn then Some (VStr (normalize_control_field_name a))
      else if fn_is "is_year_range" fn then Some (VBool (is_year_range a))
      else if fn_is "c13_test" fn then Some (VRes VBool (c13_test a))
      else if fn_is "statement" fn then
        Some (let s := statement_from_value a in VList [VStr (fst s); VStr (snd s); VStr (statement_dumps s)])
      else None
  | _ => None
  end.

(* ---------- unsign ---------- *)

Definition dispatch_unsign (fn : str) (args : list val) : option val :=
  match args with
  | [VStr a] =>
      if fn_is "pgp_search" fn then
        Some (match pgp_search a with
              | None => VNone
              | Some None => VList []
              | Some (Some c) => VList [VStr c]
              end)
      else if fn_is "is_signed" fn then Some (VBool (is_signed a))
      else if fn_is "remove_signature" fn then Some (VStr (remove_signature a))
      else None
  | _ => None
  end.

(* ---------- Debian822 mapping ---------- *)

Definition val_pairs (l : list val) : list (str * str) :=
  flat_map (fun v => match v with VList [VStr k; VStr x] => [(k, x)] | _ => [] end) l.

Definition val_op (v : val) : option (op str) :=
  match v with
  | VList [VStr t; VStr k] =>
      if str_eqb t (lit "get") then Some (OGet k)
      else if str_eqb t (lit "del") then Some (ODel k)
      else if str_eqb t (lit "in") then Some (OContains k)
      else if str_eqb t (lit "pop") then Some (OPop k)
      else None
  | VList [VStr t; VStr k; VStr x] =>
      if str_eqb t (lit "set") then Some (OSet k x)
      else if str_eqb t (lit "setdefault") then Some (OSetDefault k x)
      else if str_eqb t (lit "update_kw") then Some (OUpdate [(k, x)])
      else if str_eqb t (lit "popdefault") then Some (OPopDefault k x)
      else if str_eqb t (lit "getdefault") then Some (OGetDefault k x)
      else None
  | VList [VStr t; VList l] =>
      if str_eqb t (lit "update_pairs") then Some (OUpdate (val_pairs l))
      else if str_eqb t (lit "update_map") then Some (OUpdate (val_pairs l))
      else None
  | VList [VStr t] =>
      if str_eqb t (lit "len") then Some OLen
      else if str_eqb t (lit "iter") then Some OIter
      else if str_eqb t (lit "todict") then Some OToDict
      else if str_eqb t (lit "clear") then Some OClear
      else None
  | _ => None
  end.

Definition VObs (o : obs str) : val :=
  match o with
  | ObsVal _ v => VStr v
  | ObsKeyError _ => VExn KeyError
  | ObsNone _ => VNone
  | ObsBool _ b => VBool b
  | ObsLen _ n => VN (N.of_nat n)
  | ObsKeys _ ks => VStrs ks
  | ObsItems _ d => VDict d
  end.

Definition VCvalue (c : cvalue) : val :=
  match c with
  | CStr s => VStr s
  | CInt z => VInt z
  | CRel r => VList [rel_to_val r]
  end.

Definition dispatch_mapping (fn : str) (args : list val) : option val :=
  match args with
  | [VStr route; init; VList ops] =>
      if fn_is "debian822_history" fn then
        let d0 : pydict str :=
          match init with
          | VStr t => from_text822 t
          | VList l =>
              if str_eqb route (lit "strings")
              then from_items lower_name str (map item_of_string (val_strs l))
              else from_items lower_name str (val_pairs l)
          | _ => []
          end in
        Some (VList (map VObs (run_ops str (step822 lower_name str) d0
                                  (flat_map (fun v => match val_op v with Some o => [o] | None => [] end) ops))))
      else None
  | [VList items] =>
      if fn_is "parse_control_fields" fn then
        Some (match parse_control_fields (val_pairs items) with
              | None => VStr (lit "OUT-OF-MODEL")
              | Some r => VRes (fun d => VList (map (fun kv => VPair (VStr (fst kv)) (VCvalue (snd kv))) d)) r
              end)
      else if fn_is "dumps822" fn then Some (VStr (dumps822 (val_pairs items)))
      else None
  | [VStr a] =>
      if fn_is "maintainer" fn then
        Some (match maintainer_from_value a with
              | None => VStr (lit "OUT-OF-MODEL")
              | Some na => VList [VStr (fst na); VStr (snd na); VStr (maintainer_dumps na)]
              end)
      else None
  | _ => None
  end.

Definition dispatch_all (fn : str) (args : list val) : val :=
  match dispatch_version fn args with
  | Some v => v
  | None =>
      match dispatch_deps fn args with
      | Some v => v
      | None =>
          match dispatch_pkg fn args with
          | Some v => v
          | None =>
              match dispatch_deb822 fn args with
              | Some v => v
              | None =>
                  match dispatch_debcon fn args with
                  | Some v => v
                  | None =>
                      match dispatch_copyright fn args with
                      | Some v => v
                      | None =>
                          match dispatch_unsign fn args with
                          | Some v => v
                          | None =>
                              match dispatch_mapping fn args with
                              | Some v => v
                              | None => dispatch fn args
                              end
                          end
                      end
                  end
              end
          end
      end
  end.

Definition run (fn : str) (args : list val) : str := show_val (dispatch_all fn args).
