(* A universal value type for the line protocol between the harness and the
   extracted model, with its printer.  Everything the model returns to the
   harness goes through [show_val], inside Coq, so the same printer is used by
   the extracted driver and by the in-Coq (vm_compute) cross-check. *)
From Coq Require Import String.
From Coq Require Import NArith ZArith List Bool.
From DI Require Import Result PyStr.
Import ListNotations.
Open Scope N_scope.

Inductive val : Type :=
| VStr (s : str)
| VInt (z : Z)
| VNone
| VBool (b : bool)
| VList (l : list val)
| VExn (e : exn).

Definition show_Z (z : Z) : str :=
  match z with
  | Z0 => [48]
  | Zpos p => N_to_dec (Npos p)
  | Zneg p => 45 :: N_to_dec (Npos p)
  end.

Definition show_exn (e : exn) : str :=
  match e with
  | ValueError => lit "ValueError"
  | AssertionError => lit "AssertionError"
  | AttributeError => lit "AttributeError"
  | TypeError => lit "TypeError"
  | KeyError => lit "KeyError"
  | IndexError => lit "IndexError"
  | NotImplementedError => lit "NotImplementedError"
  | PyException => lit "Exception"
  | UnboundLocalError => lit "UnboundLocalError"
  end.

Definition sp : str := [32].

(* tokens separated by one space:
   S n c1 .. cn | I z | N | T | F | L n v1 .. vn | E name *)
Fixpoint show_val (v : val) : str :=
  match v with
  | VStr s =>
      83 :: sp ++ N_to_dec (N.of_nat (length s)) ++
      flat_map (fun c => sp ++ N_to_dec c) s
  | VInt z => 73 :: sp ++ show_Z z
  | VNone => [78]
  | VBool true => [84]
  | VBool false => [70]
  | VList l =>
      76 :: sp ++ N_to_dec (N.of_nat (length l)) ++
      (fix go (l : list val) : str :=
         match l with
         | [] => []
         | x :: l' => sp ++ show_val x ++ go l'
         end) l
  | VExn e => 69 :: sp ++ show_exn e
  end.

(* helpers to build values *)
Definition VPair (a b : val) : val := VList [a; b].
Definition VStrs (l : list str) : val := VList (map VStr l).
Definition VN (n : N) : val := VInt (Z.of_N n).
Definition VOpt {A} (f : A -> val) (o : option A) : val :=
  match o with Some a => f a | None => VNone end.
Definition VRes {A} (f : A -> val) (r : result A) : val :=
  match r with Ok a => f a | Raise e => VExn e end.

(* argument accessors; a malformed request yields VNone from dispatch *)
Definition arg_str (v : val) : option str :=
  match v with VStr s => Some s | _ => None end.
