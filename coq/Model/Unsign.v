(* unsign.py: is_signed, remove_signature and a scanner for the clear-sign
   pattern pgp_signed (re.MULTILINE | re.VERBOSE, .search), following the
   pattern group by group.  Lines keep their terminating LF. *)
From Coq Require Import String.
From Coq Require Import NArith List Bool.
From DI Require Import Result PyStr.
Import ListNotations.
Open Scope N_scope.

(* the text cut after every LF *)
Fixpoint lf_lines_aux (cur : str) (s : str) : list str :=
  match s with
  | [] => match cur with [] => [] | _ => [rev cur] end
  | c :: s' => if c =? 10 then rev (c :: cur) :: lf_lines_aux [] s' else lf_lines_aux (c :: cur) s'
  end.
Definition lf_lines (s : str) : list str := lf_lines_aux [] s.

Definition is_eol (l : str) : bool := str_eqb l [10] || str_eqb l [13; 10].

(* l = p ++ eol ? *)
Definition strip_prefix (p l : str) : option str :=
  if startswith p l then Some (skipn (length p) l) else None.

Definition dashes5 : str := lit "-----".
Definition begin_signed : str := lit "-----BEGIN PGP SIGNED MESSAGE-----".
Definition end_signature : str := lit "-----END PGP SIGNATURE-----".

Definition is_begin_signed (l : str) : bool :=
  match strip_prefix begin_signed l with Some r => is_eol r | None => false end.

Definition is_hash_char (c : char) : bool := is_ascii_alnum c || (c =? 45) || (c =? 44).
(* Hash:\ [A-Za-z0-9\-,]+ eol *)
Definition is_hash_line (l : str) : bool :=
  match strip_prefix (lit "Hash: ") l with
  | Some r => negb (match take_while is_hash_char r with [] => true | _ => false end)
              && is_eol (drop_while is_hash_char r)
  | None => false
  end.

Definition is_magic_char (c : char) : bool :=
  is_ascii_upper c || is_ascii_digit c || (c =? 32) || (c =? 44).
(* ^-{5}BEGIN\ PGP\ (?P<magic>[A-Z0-9 ,]+)-{5} eol : the magic *)
Definition armor_begin (l : str) : option str :=
  match strip_prefix (lit "-----BEGIN PGP ") l with
  | Some r =>
      let m := take_while is_magic_char r in
      match m with
      | [] => None
      | _ =>
          match strip_prefix dashes5 (drop_while is_magic_char r) with
          | Some e => if is_eol e then Some m else None
          | None => None
          end
      end
  | None => None
  end.

(* ^[^\n](?:(?!:\ )[^\n])*:\ [^\n]+\n *)
Fixpoint find_colon_space (s : str) : option str :=
  match s with
  | 58 :: 32 :: rest => Some rest
  | _ :: s' => find_colon_space s'
  | [] => None
  end.
Definition is_header_line (l : str) : bool :=
  match rev l with
  | 10 :: rc =>
      match rev rc with
      | _ :: c' => match find_colon_space c' with Some (_ :: _) => true | _ => false end
      | [] => false
      end
  | _ => false
  end.

Definition is_b64 (c : char) : bool := is_ascii_alnum c || (c =? 43) || (c =? 47).
(* [A-Za-z0-9+/]{1,76}={,2} eol *)
Definition is_body_line (l : str) : bool :=
  let b := take_while is_b64 l in
  let r := drop_while is_b64 l in
  let n := length b in
  Nat.leb 1 n && Nat.leb n 76 &&
  (is_eol r || (match r with 61 :: r1 => is_eol r1 || (match r1 with 61 :: r2 => is_eol r2 | _ => false end) | _ => false end)).

(* ^=(?P<crc>[A-Za-z0-9+/]{4}) eol *)
Definition is_crc_line (l : str) : bool :=
  match l with
  | 61 :: a :: b :: c :: d :: e => is_b64 a && is_b64 b && is_b64 c && is_b64 d && is_eol e
  | _ => false
  end.

Fixpoint drop_lines (p : str -> bool) (ls : list str) : list str :=
  match ls with
  | l :: ls' => if p l then drop_lines p ls' else ls
  | [] => []
  end.

(* the armor block at the head of [ls] *)
Definition armor_match (ls : list str) : bool :=
  match ls with
  | l0 :: rest =>
      match armor_begin l0 with
      | None => false
      | Some magic =>
          let r1 := drop_lines is_header_line rest in
          let r2 := match r1 with l :: r => if is_eol l then r else r1 | [] => r1 end in
          match r2 with
          | b0 :: _ =>
              if is_body_line b0 then
                match drop_lines is_body_line r2 with
                | crc :: endl :: _ =>
                    is_crc_line crc && startswith (lit "-----END PGP " ++ magic ++ dashes5) endl
                | _ => false
                end
              else false
          | [] => false
          end
      end
  | [] => false
  end.

Definition chop_lf (l : str) : str :=
  match rev l with 10 :: r => rev r | _ => l end.

(* (?P<cleartext>(?:[^\n]*\n)*(?:.*(?=\r?\n-{5})))(?:\r?\n) followed by the armor block:
   the largest number of whole lines such that the armor block matches after the
   next line.  [acc] = lines already passed (reversed). *)
Fixpoint clear_search (acc : list str) (ls : list str) : option str :=
  match ls with
  | l :: ((_ :: _) as rest) =>
      match clear_search (l :: acc) rest with
      | Some c => Some c
      | None =>
          if armor_match rest && (match rev l with 10 :: _ => true | _ => false end)
          then Some (concat (rev acc) ++ chop_lf l) else None
      end
  | _ => None
  end.

(* the optional signed-message group at the head of [ls] *)
Definition signed_match (ls : list str) : option str :=
  match ls with
  | l0 :: body =>
      if is_begin_signed l0 then
        let alt_a :=
          match body with
          | h :: e :: rest => if is_hash_line h && is_eol e then clear_search [] rest else None
          | _ => None
          end in
        match alt_a with
        | Some c => Some c
        | None =>
            let alt_b :=
              match body with
              | e :: rest => if is_eol e then clear_search [] rest else None
              | [] => None
              end in
            match alt_b with
            | Some c => Some c
            | None => clear_search [] body
            end
        end
      else None
  | [] => None
  end.

(* pgp_signed(text): None = no match; Some None = matched without the signed
   message group; Some (Some c) = the cleartext group *)
Fixpoint pgp_search_lines (ls : list str) : option (option str) :=
  match ls with
  | [] => None
  | _ :: ls' =>
      match signed_match ls with
      | Some c => Some (Some c)
      | None => if armor_match ls then Some None else pgp_search_lines ls'
      end
  end.
Definition pgp_search (t : str) : option (option str) := pgp_search_lines (lf_lines t).

Definition is_signed (t : str) : bool :=
  let s := strip t in
  (match s with [] => false | _ => true end) && startswith begin_signed s && endswith end_signature s.

(* remove_signature on a str *)
Definition remove_signature (t : str) : str :=
  if negb (is_signed t) then t
  else
    match pgp_search t with
    | Some (Some c) => c
    | _ => t
    end.
