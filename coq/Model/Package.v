(* package.py: get_nva, DebArchive/CodeArchive.from_filename, to_tuple ordering,
   find_latest_version(s); the small-list behaviour of list.sort (initial run +
   binary insertion, exact for fewer than 64 elements). *)
From Coq Require Import String.
From Coq Require Import NArith ZArith List Bool.
From DI Require Import Result PyStr Version.
Import ListNotations.
Open Scope N_scope.

(* posixpath.basename *)
Definition basename (p : str) : str :=
  let '(_, f, b) := rpartition_char 47 p in if f then b else p.

(* posixpath.splitext on a name without '/': the extension starts at the last dot,
   unless only dots precede it *)
Definition splitext (p : str) : str * str :=
  let '(a, f, b) := rpartition_char 46 p in
  if f then
    if forallb (fun c => c =? 46) a then (p, []) else (a, 46 :: b)
  else (p, []).

Definition endswith_any (sufs : list str) (s : str) : bool := existsb (fun x => endswith x s) sufs.

(* get_nva: (name, version, architecture or None) *)
Definition get_nva (filename : str) : result (str * version * option str) :=
  let known : option str :=
    if endswith_any [lit ".deb"; lit ".udeb"; lit ".dsc"] filename then
      Some (fst (splitext filename))
    else if endswith_any [lit "_changelog"; lit "_copyright"] filename then
      let '(a, _, _) := rpartition_char 95 filename in Some a
    else if endswith_any [lit ".tar.gz"; lit ".tar.xz"; lit ".tar.bz2"; lit ".tar.lzma"] filename then
      let '(a, _, _) := rpartition_str (lit ".tar.") filename in
      let '(b, pkgtype) := splitext a in
      if str_eqb pkgtype (lit ".orig") || str_eqb pkgtype (lit ".debian") then Some b else None
    else None in
  match known with
  | None => Raise ValueError
  | Some b =>
      match split_char 95 b with
      | [name; evr] => do v <- from_string evr; Ok (name, v, None)
      | [name; evr; arch] => do v <- from_string evr; Ok (name, v, Some arch)
      | _ => Raise ValueError
      end
  end.

Record archive := mkArchive {
  a_name : str; a_version : version; a_arch : option str; a_file : str }.

(* DebArchive.from_filename *)
Definition deb_from_filename (f : str) : result archive :=
  do x <- get_nva (basename f);
  let '(n, v, a) := x in Ok (mkArchive n v a f).

(* CodeArchive / CodeMetadata.from_filename: no architecture *)
Definition code_from_filename (f : str) : result archive :=
  do x <- get_nva (basename f);
  let '(n, v, _) := x in Ok (mkArchive n v None f).

(* ---------- ordering of to_tuple() / attrs order ---------- *)

Fixpoint str_lt (a b : str) : bool :=
  match a, b with
  | _, [] => false
  | [], _ :: _ => true
  | x :: a', y :: b' => if x <? y then true else if y <? x then false else str_lt a' b'
  end.

(* tuple rich comparison: the first component that is not == decides by < *)
Definition archive_lt (x y : archive) : result bool :=
  if negb (str_eqb (a_name x) (a_name y)) then Ok (str_lt (a_name x) (a_name y))
  else if negb (version_eqb (a_version x) (a_version y)) then v_lt (a_version x) (a_version y)
  else
    match a_arch x, a_arch y with
    | None, None => Ok (str_lt (a_file x) (a_file y))
    | Some ax, Some ay =>
        if negb (str_eqb ax ay) then Ok (str_lt ax ay) else Ok (str_lt (a_file x) (a_file y))
    | _, _ => Raise TypeError
    end.

(* ---------- list.sort for short lists ---------- *)

Section Sort.
  Context {A : Type} (lt : A -> A -> result bool).

  (* binary search of the insertion point of [pivot] in [sorted]: indices l..r *)
  Fixpoint bsearch (fuel : nat) (sorted : list A) (pivot : A) (l r : nat) : result nat :=
    match fuel with
    | O => Ok l
    | S f =>
        if Nat.ltb l r then
          let p := (l + Nat.div2 (r - l))%nat in
          match nth_error sorted p with
          | None => Ok l
          | Some ap =>
              do b <- lt pivot ap;
              if b then bsearch f sorted pivot l p else bsearch f sorted pivot (S p) r
          end
        else Ok l
    end.

  Definition insert_at (sorted : list A) (i : nat) (x : A) : list A :=
    firstn i sorted ++ x :: skipn i sorted.

  Fixpoint binarysort (sorted rest : list A) : result (list A) :=
    match rest with
    | [] => Ok sorted
    | x :: rest' =>
        do i <- bsearch (S (length sorted)) sorted x 0 (length sorted);
        binarysort (insert_at sorted i x) rest'
    end.

  (* count_run: the initial non-descending run, or the strictly descending run reversed *)
  Fixpoint asc_run (prev : A) (l : list A) : result (list A * list A) :=
    match l with
    | [] => Ok ([], [])
    | x :: l' =>
        do b <- lt x prev;
        if b then Ok ([], l)
        else do r <- asc_run x l'; Ok (x :: fst r, snd r)
    end.

  Fixpoint desc_run (prev : A) (l : list A) : result (list A * list A) :=
    match l with
    | [] => Ok ([], [])
    | x :: l' =>
        do b <- lt x prev;
        if b then do r <- desc_run x l'; Ok (x :: fst r, snd r)
        else Ok ([], l)
    end.

  Definition py_sort (l : list A) : result (list A) :=
    match l with
    | [] => Ok []
    | [x] => Ok [x]
    | x :: y :: l' =>
        do b <- lt y x;
        if b then
          do r <- desc_run y l';
          binarysort (rev (x :: y :: fst r)) (snd r)
        else
          do r <- asc_run y l';
          binarysort (x :: y :: fst r) (snd r)
    end.
End Sort.

Fixpoint dedup_names (l : list str) : list str :=
  match l with
  | [] => []
  | x :: l' => if mem_str x l' then dedup_names l' else x :: dedup_names l'
  end.

(* find_latest_version(packages): None for an empty list *)
Definition find_latest_version_archives (ps : list archive) : result (option archive) :=
  match ps with
  | [] => Ok None
  | _ =>
      do sorted <- py_sort archive_lt ps;
      if Nat.ltb 1 (length (dedup_names (map a_name sorted))) then Raise ValueError
      else Ok (Some (last sorted (mkArchive [] (mkVersion 0 [] []) None [])))
  end.

Definition find_latest_version (files : list str) : result (option archive) :=
  match files with
  | [] => Ok None
  | _ => do ps <- mapM deb_from_filename files; find_latest_version_archives ps
  end.

(* itertools.groupby on the name of consecutive elements *)
Fixpoint group_by_name (l : list archive) : list (str * list archive) :=
  match l with
  | [] => []
  | x :: l' =>
      match group_by_name l' with
      | (n, g) :: gs => if str_eqb n (a_name x) then (n, x :: g) :: gs else (a_name x, [x]) :: (n, g) :: gs
      | [] => [(a_name x, [x])]
      end
  end.

Fixpoint dict_set {V} (k : str) (v : V) (d : list (str * V)) : list (str * V) :=
  match d with
  | [] => [(k, v)]
  | (k', v') :: d' => if str_eqb k k' then (k, v) :: d' else (k', v') :: dict_set k v d'
  end.

(* find_latest_versions(packages): None for an empty list, else {name: archive} *)
Definition find_latest_versions (files : list str) : result (option (list (str * archive))) :=
  match files with
  | [] => Ok None
  | _ =>
      do ps <- mapM deb_from_filename files;
      do sorted <- py_sort archive_lt ps;
      do out <- fold_left (fun acc g =>
                  do d <- acc;
                  do latest <- find_latest_version_archives (snd g);
                  match latest with
                  | Some a => Ok (dict_set (fst g) a d)
                  | None => Ok d
                  end) (group_by_name sorted) (Ok []);
      Ok (Some out)
  end.
