(* deb822.py: the line-tracking paragraph/field state machine. *)
From Coq Require Import String.
From Coq Require Import NArith List Bool.
From DI Require Import Result PyStr.
Import ListNotations.
Open Scope N_scope.

Record nline := mkLine { ln_num : N; ln_val : str }.
Record field := mkField { f_name : str; f_lines : list nline }.

(* NumberedLine.lines_from_text: lines end at LF, CRLF or CR; numbering from 1 *)
Fixpoint number_from (n : N) (ls : list str) : list nline :=
  match ls with
  | [] => []
  | l :: ls' => mkLine n l :: number_from (n + 1) ls'
  end.
Definition text_lines (t : str) : list str := splitlines_by is_lf_cr t.
Definition lines_from_text (t : str) : list nline := number_from 1 (text_lines t).

(* ---------- line classifiers ---------- *)

Definition is_blank (l : str) : bool := all_space l.

(* [a-z] under re.IGNORECASE *)
Definition is_az_ic (c : char) : bool :=
  is_ascii_alpha c || (c =? 304) || (c =? 305) || (c =? 383) || (c =? 8490).
(* [a-z0-9\-] under re.IGNORECASE *)
Definition is_name_char (c : char) : bool := is_az_ic c || is_ascii_digit c || (c =? 45).

(* ^[a-z]+[a-z0-9\-]*:.*$ *)
Definition is_decl (l : str) : bool :=
  match l with
  | c :: _ =>
      is_az_ic c &&
      match drop_while is_name_char l with
      | 58 :: _ => true
      | _ => false
      end
  | [] => false
  end.

(* ^[ \t]+[\S]+.*$ *)
Definition is_cont (l : str) : bool :=
  match l with
  | c :: _ =>
      is_blank_tab c &&
      match drop_while is_blank_tab l with
      | x :: _ => negb (is_space x)
      | [] => false
      end
  | [] => false
  end.

(* Deb822Field.from_line on a declaration line *)
Definition norm_name (n : str) : str :=
  let n := lower_name (strip n) in
  if str_eqb n (lit "licence") then lit "license" else n.

Definition from_line (l : nline) : option field :=
  if negb (is_decl (ln_val l)) then None
  else
    let '(name, _, value) := partition_char 58 (ln_val l) in
    let name := lower_name (strip name) in
    match name with
    | [] => None
    | _ =>
        let name := if str_eqb name (lit "licence") then lit "license" else name in
        Some (mkField name [mkLine (ln_num l) (strip value)])
    end.

(* ---------- the state machine ---------- *)

(* the group being built: fields in reverse order, the head is the current field,
   whose lines are in reverse order too *)
Definition rgroup := list field.

Definition add_continuation (f : field) (l : nline) : field :=
  mkField (f_name f) (mkLine (ln_num l) (rstrip (ln_val l)) :: f_lines f).

Fixpoint drop_while_lines (p : nline -> bool) (ls : list nline) : list nline :=
  match ls with
  | [] => []
  | l :: ls' => if p l then drop_while_lines p ls' else ls
  end.

(* Deb822Field.rstrip on reversed lines, then restore the order *)
Definition finish_field (f : field) : field :=
  mkField (f_name f) (rev (drop_while_lines (fun l => is_blank (ln_val l)) (f_lines f))).

(* clean_fields + yield: nothing for an empty group *)
Definition flush (cur : rgroup) : list (list field) :=
  match cur with
  | [] => []
  | _ => [map finish_field (rev cur)]
  end.

Definition unknown_group (l : nline) : list field := [mkField (lit "unknown") [l]].

(* get_paragraphs_as_field_groups_from_lines *)
Fixpoint groups_loop (lines : list nline) (cur : rgroup) : result (list (list field)) :=
  match lines with
  | [] => Ok (flush cur)
  | l :: rest =>
      if is_blank (ln_val l) then
        let absorb :=
          match cur, rest with
          | _ :: _, nxt :: _ => negb (is_decl (ln_val nxt)) && negb (is_blank (ln_val nxt))
          | _, _ => false
          end in
        match cur with
        | f :: fs =>
            if absorb then groups_loop rest (add_continuation f l :: fs)
            else rmap (fun gs => flush cur ++ gs) (groups_loop rest [])
        | [] => groups_loop rest []
        end
      else
        match cur with
        | f :: fs =>
            if is_cont (ln_val l) then groups_loop rest (add_continuation f l :: fs)
            else if is_decl (ln_val l) then
              match from_line l with
              | Some nf => groups_loop rest (nf :: cur)
              | None => Raise PyException
              end
            else rmap (fun gs => flush cur ++ unknown_group l :: gs) (groups_loop rest [])
        | [] =>
            if is_decl (ln_val l) then
              match from_line l with
              | Some nf => groups_loop rest [nf]
              | None => Raise PyException
              end
            else rmap (fun gs => unknown_group l :: gs) (groups_loop rest [])
        end
  end.

Definition groups_from_lines (lines : list nline) : result (list (list field)) :=
  groups_loop lines [].

(* deb822.get_paragraphs_as_field_groups(text) *)
Definition groups (t : str) : result (list (list field)) :=
  groups_from_lines (lines_from_text t).

(* the same parser handed numbered lines that do not start at 1 (lines taken from further down
   a larger file): [renum g] rewrites the numbers, nothing else *)
Definition renum (g : N -> N) (l : nline) : nline := mkLine (g (ln_num l)) (ln_val l).
Definition renum_field (g : N -> N) (f : field) : field := mkField (f_name f) (map (renum g) (f_lines f)).
Definition renum_groups (g : N -> N) (gs : list (list field)) : list (list field) := map (map (renum_field g)) gs.

(* the lines of a text numbered from k+1, parsed, and k taken off the reported numbers again *)
Definition groups_offset (t : str) (k : N) : result (list (list field)) :=
  rmap (renum_groups (fun n => n - k)) (groups_from_lines (number_from (1 + k) (text_lines t))).

(* Deb822Field.text *)
Definition field_text (f : field) : str := join [10] (map ln_val (f_lines f)).
