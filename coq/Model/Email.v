(* The fragment of the standard library's email.message_from_string (compat32
   policy, Lib/email/feedparser.py of CPython 3.12) that debcon.get_paragraph_data
   observes.  Environment model, validated by co-execution, not verified.
   Texts are assumed shorter than the parser's 8192-character read chunk. *)
From Coq Require Import String.
From Coq Require Import NArith List Bool.
From DI Require Import Result PyStr.
Import ListNotations.
Open Scope N_scope.

(* lines with their terminators (StringIO(newline='').readlines()) *)
Definition crack (t : str) : list str := splitlines_keep_by is_lf_cr t.

(* headerRE = ^(From |[\041-\071\073-\176]*:|[\t ]) *)
Definition is_ftext (c : char) : bool :=
  ((33 <=? c) && (c <=? 57)) || ((59 <=? c) && (c <=? 126)).

Definition header_re (l : str) : bool :=
  startswith (lit "From ") l ||
  (match drop_while is_ftext l with 58 :: _ => true | _ => false end) ||
  (match l with c :: _ => is_blank_tab c | [] => false end).

(* NLCRE.match(line): the line starts with a line end *)
Definition starts_nl (l : str) : bool :=
  match l with c :: _ => is_lf_cr c | [] => false end.

(* header phase of _parsegen: (header lines, body lines, MissingHeaderBodySeparator) *)
Fixpoint split_headers (ls : list str) : list str * list str * bool :=
  match ls with
  | [] => ([], [], false)
  | l :: rest =>
      if header_re l then
        let '(h, b, d) := split_headers rest in (l :: h, b, d)
      else if starts_nl l then ([], rest, false)
      else ([], ls, true)
  end.

Record hstate := mkH {
  h_items : list (str * str);       (* reversed *)
  h_last : option (str * list str); (* open header: name, source lines reversed *)
  h_defect : bool;
  h_unixfrom : bool;
  h_pushback : option str;          (* a trailing "From " line returned to the body *)
}.

(* compat32 header_source_parse: value = rest of the first line without leading
   blanks/tabs, plus the continuation lines, without trailing CR/LF *)
Definition close_header (name : str) (rlines : list str) : str * str :=
  match rev rlines with
  | [] => (name, [])
  | first :: conts =>
      let '(_, _, v) := partition_char 58 first in
      (name, rstrip_by is_lf_cr (lstrip_by is_blank_tab v ++ concat conts))
  end.

Definition flush_last (st : hstate) : hstate :=
  match h_last st with
  | Some (n, rl) => mkH (close_header n rl :: h_items st) None (h_defect st) (h_unixfrom st) (h_pushback st)
  | None => st
  end.

(* one line of _parse_headers; [lineno] counts from 0, [last] = it is the last line *)
Definition header_step (st : hstate) (lineno : nat) (last : bool) (line : str) : hstate :=
  match line with
  | c :: _ =>
      if is_blank_tab c then
        match h_last st with
        | None => mkH (h_items st) None true (h_unixfrom st) (h_pushback st)
        | Some (n, rl) => mkH (h_items st) (Some (n, line :: rl)) (h_defect st) (h_unixfrom st) (h_pushback st)
        end
      else
        let st := flush_last st in
        if startswith (lit "From ") line then
          match lineno with
          | O => mkH (h_items st) None (h_defect st) true (h_pushback st)
          | _ =>
              if last then mkH (h_items st) None (h_defect st) (h_unixfrom st) (Some line)
              else mkH (h_items st) None true (h_unixfrom st) (h_pushback st)
          end
        else
          let '(name, _, _) := partition_char 58 line in
          match name with
          | [] => mkH (h_items st) None true (h_unixfrom st) (h_pushback st)
          | _ => mkH (h_items st) (Some (name, [line])) (h_defect st) (h_unixfrom st) (h_pushback st)
          end
  | [] => st
  end.

Fixpoint parse_headers_loop (st : hstate) (lineno : nat) (ls : list str) : hstate :=
  match ls with
  | [] => st
  | l :: rest =>
      let last := match rest with [] => true | _ => false end in
      parse_headers_loop (header_step st lineno last l) (S lineno) rest
  end.

Definition parse_headers (hs : list str) : hstate :=
  flush_last (parse_headers_loop (mkH [] None false false None) 0 hs).

(* get_content_maintype in {multipart, message} *)
Definition is_container (items : list (str * str)) : bool :=
  match find (fun kv => str_eqb (lower_ascii (fst kv)) (lit "content-type")) items with
  | None => false
  | Some (_, v) =>
      let '(a, _, _) := partition_char 59 v in
      let ctype := lower_ascii (strip a) in
      if Nat.eqb (length (filter (fun c => c =? 47) ctype)) 1 then
        let '(main, _, _) := partition_char 47 ctype in
        str_eqb main (lit "multipart") || str_eqb main (lit "message")
      else false
  end.

Record message := mkMsg {
  m_items : list (str * str);
  m_defects : bool;
  m_unixfrom : bool;
  m_container : bool;     (* payload is a list of sub-messages (or defects were recorded) *)
  m_payload : str;        (* meaningful when not a container *)
}.

Definition parse_message (t : str) : message :=
  let '(hs, body, d) := split_headers (crack t) in
  let st := parse_headers hs in
  let items := rev (h_items st) in
  let body := match h_pushback st with Some l => l :: body | None => body end in
  mkMsg items (d || h_defect st) (h_unixfrom st) (is_container items) (concat body).
