(* copyright.py: typed DEP-5 paragraphs built from deb822 field groups,
   duplicate renaming, unknown-merging, license folding, line ranges,
   dictionary form, rendering, validity. *)
From Coq Require Import String.
From Coq Require Import NArith List Bool.
From DI Require Import Result PyStr Codec Deb822 Debcon.
Import ListNotations.
Open Scope N_scope.

Inductive ptype := PHeader | PFiles | PLicense | PCatchAll.
Inductive fclass := FSingle | FLineSep | FWS | FFormatted | FCopyright | FLicense.

(* the Debian fields of each paragraph class, in attribute order *)
Definition known_fields (t : ptype) : list (str * fclass) :=
  match t with
  | PHeader =>
      [(lit "format", FSingle); (lit "upstream_name", FSingle); (lit "upstream_contact", FLineSep);
       (lit "source", FFormatted); (lit "disclaimer", FFormatted); (lit "copyright", FCopyright);
       (lit "license", FLicense); (lit "comment", FFormatted); (lit "files_excluded", FWS)]
  | PFiles =>
      [(lit "files", FWS); (lit "copyright", FCopyright); (lit "license", FLicense); (lit "comment", FFormatted)]
  | PLicense => [(lit "license", FLicense); (lit "comment", FFormatted)]
  | PCatchAll => []
  end.

Definition ptype_name (t : ptype) : str :=
  match t with
  | PHeader => lit "CopyrightHeaderParagraph"
  | PFiles => lit "CopyrightFilesParagraph"
  | PLicense => lit "CopyrightLicenseParagraph"
  | PCatchAll => lit "CatchAllParagraph"
  end.

(* typed field values; an absent or empty value is the empty string / list *)
Inductive fval :=
| VSingle (v : str)
| VLines (vs : list str)
| VText (t : str)
| VCopyright (sts : list (str * str))      (* (year range or "", holder) *)
| VLicense (name text : str).

(* ---------- field converters ---------- *)

Definition is_ascii_punct_or_space_or_digit (c : char) : bool :=
  (* ASCII punctuation, the space and the digits *)
  (c =? 32) || ((33 <=? c) && (c <=? 64)) || ((91 <=? c) && (c <=? 96)) || ((123 <=? c) && (c <=? 126)).

(* copyright.is_year_range *)
Definition is_year_range (t : str) : bool :=
  match t with
  | [] => false
  | _ =>
      forallb is_pydigit t ||
      (forallb is_ascii_punct_or_space_or_digit t && existsb is_pydigit t)
  end.

(* CopyrightStatementField.from_value *)
Definition statement_from_value (v : str) : str * str :=
  let v := join [32] (split_ws v) in
  let '(y, _, h) := partition_char 32 v in
  let y := strip y in
  let h := strip h in
  if is_year_range y then (y, h) else ([], v).

Definition statement_dumps (s : str * str) : str :=
  let '(y, h) := s in
  strip (match y with [] => h | _ => y ++ [32] ++ h end).

Definition convert (c : fclass) (raw : str) : fval :=
  match c with
  | FSingle => VSingle (strip raw)
  | FLineSep => VLines (map strip (line_separated raw))
  | FWS => VLines (split_ws raw)
  | FFormatted => VText (from_formatted_text raw)
  | FCopyright => VCopyright (map statement_from_value (line_separated raw))
  | FLicense => let '(n, t) := lic_from_value raw in VLicense n t
  end.

Definition fval_dumps (v : fval) : str :=
  match v with
  | VSingle s => s
  | VLines vs => join nl_sp vs
  | VText t => ftf_dumps t
  | VCopyright sts => strip (join (lit (String (Ascii.ascii_of_nat 10) "           ")) (map statement_dumps sts))
  | VLicense n t => lic_dumps n t
  end.

(* ---------- paragraphs ---------- *)

Record para := mkPara {
  p_type : ptype;
  p_fields : list (str * fval);        (* every known field, in attribute order *)
  p_extra : pydict str;                (* unknown fields, values as found in the file *)
  p_lines : pydict (N * N);            (* line_numbers_by_field *)
}.

Definition known_name (t : ptype) (n : str) : bool :=
  existsb (fun kf => str_eqb (fst kf) n) (known_fields t).

(* the fresh name of a duplicated field: name_<suffix>, the suffix advanced until free *)
Fixpoint fresh_name (fuel : nat) (name : str) (suffix : N) (seen : list str) : str * N :=
  let cand := name ++ [95] ++ N_to_dec suffix in
  match fuel with
  | O => (cand, suffix + 1)
  | S f => if mem_str cand seen then fresh_name f name (suffix + 1) seen else (cand, suffix + 1)
  end.

Definition first_content_line (f : field) : N :=
  match find (fun l => negb (is_blank (ln_val l))) (f_lines f) with
  | Some l => ln_num l
  | None => match f_lines f with l :: _ => ln_num l | [] => 1 end
  end.

Definition last_line (f : field) : N :=
  match rev (f_lines f) with l :: _ => ln_num l | [] => 1 end.

Record builder := mkB {
  b_known : pydict str; b_extra : pydict str; b_lines : pydict (N * N);
  b_seen : list str; b_suffix : N }.

Definition has_key {V} (k : str) (d : pydict V) : bool :=
  match dict_get k d with Some _ => true | None => false end.

(* one iteration of the loop of BaseParagraph.from_fields; the assertion
   "name not in mapping" is kept as a Raise branch *)
Definition add_field (t : ptype) (all_extra : bool) (b : builder) (f : field) : result builder :=
  let value := field_text f in
  match value with
  | [] => Ok b
  | _ =>
      let name0 := replace_char 45 95 (f_name f) in
      let '(name, suffix) :=
        if mem_str name0 (b_seen b)
        then fresh_name (S (length (b_seen b))) name0 (b_suffix b) (b_seen b)
        else (name0, b_suffix b) in
      let seen := name :: b_seen b in
      let v := lstrip value in
      let lines := dict_put name (first_content_line f, last_line f) (b_lines b) in
      if negb all_extra && known_name t name
      then
        if has_key name (b_known b) then Raise AssertionError
        else Ok (mkB (dict_put name v (b_known b)) (b_extra b) lines seen suffix)
      else
        if has_key name (b_extra b) then Raise AssertionError
        else Ok (mkB (b_known b) (dict_put name v (b_extra b)) lines seen suffix)
  end.

Definition build_para (t : ptype) (known : pydict str) (extra : pydict str) (lines : pydict (N * N)) : para :=
  mkPara t
    (map (fun kf => (fst kf, convert (snd kf) (match dict_get (fst kf) known with Some v => v | None => [] end)))
         (known_fields t))
    extra lines.

Fixpoint add_fields (t : ptype) (all_extra : bool) (b : builder) (fs : list field) : result builder :=
  match fs with
  | [] => Ok b
  | f :: fs' => do b' <- add_field t all_extra b f; add_fields t all_extra b' fs'
  end.

Definition from_fields (t : ptype) (fs : list field) : result para :=
  let all_extra := match t with PCatchAll => true | _ => false end in
  do b <- add_fields t all_extra (mkB [] [] [] [] 1) fs;
  Ok (build_para t (b_known b) (b_extra b) (b_lines b)).

(* classification of a group by its field names *)
Definition classify (fs : list field) : ptype :=
  let has n := existsb (fun f => str_eqb (f_name f) n) fs in
  if has (lit "format") || has (lit "format-specification") then PHeader
  else if has (lit "files") then PFiles
  else if has (lit "license") then PLicense
  else PCatchAll.

(* ---------- dictionary form ---------- *)

Definition extra_to_dict (extra : pydict str) : pydict str :=
  map (fun kv => (fst kv, match snd kv with [] => [] | v => as_formatted_text v end)) extra.

Definition known_to_dict (p : para) : pydict str :=
  map (fun kv => (fst kv, fval_dumps (snd kv))) (p_fields p).

(* to_dict(): known fields (always present), then the extra data *)
Definition para_to_dict (p : para) : pydict str :=
  fold_left (fun d kv => dict_put (fst kv) (snd kv) d) (extra_to_dict (p_extra p)) (known_to_dict p).

(* ---------- rendering ---------- *)

(* str.capitalize on a lower-cased field-name word *)
Definition capitalize (w : str) : str :=
  match w with
  | [] => []
  | c :: w' =>
      (if c =? 305 then 73 else if c =? 383 then 83 else upper_ascii_char c) :: map lower_ascii_char w'
  end.

(* debcon.normalize_control_field_name *)
Definition normalize_word (w : str) : str :=
  let l := lower_ascii w in
  if str_eqb l (lit "md5sum") then lit "MD5sum"
  else if str_eqb l (lit "sha1") then lit "SHA1"
  else if str_eqb l (lit "sha256") then lit "SHA256"
  else capitalize w.
Definition normalize_control_field_name (n : str) : str :=
  join [45] (map normalize_word (split_char 45 n)).

Definition get_field (p : para) (n : str) : fval :=
  match find (fun kv => str_eqb (fst kv) n) (p_fields p) with
  | Some (_, v) => v
  | None => VSingle []
  end.

Definition lic_name (p : para) : str := match get_field p (lit "license") with VLicense n _ => n | _ => [] end.
Definition lic_text (p : para) : str := match get_field p (lit "license") with VLicense _ t => t | _ => [] end.
Definition comment_text (p : para) : str := match get_field p (lit "comment") with VText t => t | _ => [] end.
Definition files_values (p : para) : list str := match get_field p (lit "files") with VLines v => v | _ => [] end.
Definition statements (p : para) : list (str * str) :=
  match get_field p (lit "copyright") with VCopyright s => s | _ => [] end.
Definition format_value (p : para) : str := match get_field p (lit "format") with VSingle v => v | _ => [] end.

Definition nonempty {A} (l : list A) : bool := match l with [] => false | _ => true end.

Definition para_is_empty (p : para) : bool :=
  match p_type p with
  | PFiles =>
      negb (nonempty (files_values p) || nonempty (lic_name p) || nonempty (lic_text p) ||
            nonempty (comment_text p) || nonempty (statements p) || nonempty (p_extra p))
  | PLicense =>
      negb (nonempty (p_extra p) || nonempty (comment_text p) || nonempty (lic_name p) || nonempty (lic_text p))
  | _ => negb (existsb (fun kv => nonempty (snd kv)) (para_to_dict p))
  end.

Definition base_dumps (p : para) : str :=
  let items := fold_left (fun d kv => dict_put (fst kv) (snd kv) d) (p_extra p) (known_to_dict p) in
  let lines :=
    flat_map (fun kv =>
      let '(name, value) := kv in
      if all_space value then []
      else
        let name := normalize_control_field_name (replace_char 95 45 name) in
        let value := match value with 32 :: v' => v' | _ => value end in
        [name ++ [58; 32] ++ value]) items in
  strip (join [10] lines).

Definition para_dumps (p : para) : str :=
  match p_type p with
  | PFiles => if para_is_empty p then lit "Files: " else base_dumps p
  | PLicense => if para_is_empty p then lit "License: " else base_dumps p
  | _ => base_dumps p
  end.

(* ---------- post-processing ---------- *)

Definition is_all_unknown (p : para) : bool :=
  forallb (fun kv => startswith (lit "unknown") (fst kv)) (para_to_dict p).

Definition first_last (p : para) : N * N :=
  match p_lines p with
  | [] => (1, 1)
  | (_, (s, e)) :: rest =>
      fold_left (fun acc kv => (N.min (fst acc) (fst (snd kv)), N.max (snd acc) (snd (snd kv)))) rest (s, e)
  end.

Definition is_catchall (p : para) : bool := match p_type p with PCatchAll => true | _ => false end.

(* split off the maximal run of catch-all paragraphs at the head *)
Fixpoint span_catchall (ps : list para) : list para * list para :=
  match ps with
  | p :: ps' => if is_catchall p then let '(a, b) := span_catchall ps' in (p :: a, b) else ([], ps)
  | [] => ([], [])
  end.

Definition merge_run (run : list para) : para :=
  let values := flat_map (fun p => map snd (para_to_dict p)) run in
  let ranges := flat_map (fun p => match p_lines p with [] => [] | _ => [first_last p] end) run in
  let range :=
    match ranges with
    | [] => (1, 1)
    | r :: rs => fold_left (fun acc x => (N.min (fst acc) (fst x), N.max (snd acc) (snd x))) rs r
    end in
  mkPara PCatchAll [] [(lit "unknown", from_formatted_lines values)] [(lit "unknown", range)].

(* merge_contiguous_unknown_paragraphs; fuel = number of paragraphs *)
Fixpoint merge_unknown (fuel : nat) (ps : list para) : list para :=
  match fuel with
  | O => ps
  | S f =>
      match ps with
      | [] => []
      | p :: ps' =>
          if is_catchall p then
            let '(run, rest) := span_catchall ps in
            match run with
            | _ :: _ :: _ =>
                if forallb is_all_unknown run then merge_run run :: merge_unknown f rest
                else run ++ merge_unknown f rest
            | _ => run ++ merge_unknown f rest
            end
          else p :: merge_unknown f ps'
      end
  end.

Definition set_license (p : para) (name text : str) : list (str * fval) :=
  map (fun kv => if str_eqb (fst kv) (lit "license") then (fst kv, VLicense name text) else kv) (p_fields p).

Definition fold_pair (p1 p2 : para) : para :=
  let text := join [10] (filter (fun v => nonempty v) (map snd (para_to_dict p2))) in
  let '(f2, e2) := first_last p2 in
  let start := match dict_get (lit "license") (p_lines p1) with Some (s, _) => s | None => f2 end in
  mkPara (p_type p1) (set_license p1 [] text) (p_extra p1) (dict_put (lit "license") (start, e2) (p_lines p1)).

Definition foldable (p1 p2 : para) : bool :=
  (match p_type p1 with PLicense => true | _ => false end) && para_is_empty p1 &&
  is_catchall p2 && is_all_unknown p2.

Fixpoint fold_list (ps : list para) : list para :=
  match ps with
  | p1 :: ((p2 :: rest) as tl1) =>
      if foldable p1 p2 then fold_pair p1 p2 :: fold_list rest else p1 :: fold_list tl1
  | _ => ps
  end.

(* fold_contiguous_empty_license_followed_by_unknown *)
Definition fold_license (ps : list para) : list para :=
  if Nat.leb (length ps) 2 then ps else fold_list ps.

(* DebianCopyright.from_fields_groups + __attrs_post_init__ *)
Definition from_groups (gs : list (list field)) : result (list para) :=
  do ps <- mapM (fun g => from_fields (classify g) g) gs;
  Ok (fold_license (merge_unknown (length ps) ps)).

Definition from_text (t : str) : result (list para) :=
  do gs <- groups t; from_groups gs.

(* DebianCopyright.dumps *)
Definition doc_dumps (ps : list para) : str :=
  join [10; 10] (map para_dumps ps) ++ [10].

(* ---------- validity ---------- *)

Definition mr_prefix1 : str := lit "format: https://www.debian.org/doc/packaging-manuals/copyright-format/1.0".
Definition mr_prefix2 : str := lit "format: http://www.debian.org/doc/packaging-manuals/copyright-format/1.0".

Definition is_machine_readable_copyright (t : str) : bool :=
  let l := lower_name (firstn 100 t) in
  startswith mr_prefix1 l || startswith mr_prefix2 l.

Definition para_is_valid (strict : bool) (p : para) : bool :=
  let no_extra := negb (nonempty (p_extra p)) in
  match p_type p with
  | PCatchAll => if strict then false else negb (is_all_unknown p)
  | PHeader =>
      let v := is_machine_readable_copyright (format_value p) in
      if strict then v && no_extra else v
  | PFiles =>
      let v := (nonempty (files_values p) && nonempty (statements p) && nonempty (lic_name p))
               || nonempty (lic_text p) in
      if strict then v && no_extra else v
  | PLicense =>
      let v := nonempty (lic_name p) in
      if strict then v && no_extra else v
  end.

Definition of_type (t : ptype) (ps : list para) : list para :=
  filter (fun p => match t, p_type p with
                   | PHeader, PHeader | PFiles, PFiles | PLicense, PLicense | PCatchAll, PCatchAll => true
                   | _, _ => false end) ps.

Definition doc_is_valid (strict : bool) (ps : list para) : bool :=
  match ps with
  | [] => false
  | first :: _ =>
      let hs := of_type PHeader ps in
      let fs := of_type PFiles ps in
      let ls := of_type PLicense ps in
      let cs := of_type PCatchAll ps in
      let has_header :=
        match hs with
        | [] => false
        | [h] =>
            if strict then para_is_valid strict h && (match p_type first with PHeader => true | _ => false end)
            else true
        | _ => negb strict
        end in
      let has_files := nonempty fs && forallb (para_is_valid strict) fs in
      let has_license := nonempty ls && forallb (para_is_valid strict) ls in
      let has_unknown := nonempty cs && forallb (para_is_valid strict) cs in
      let valid := (has_header && has_files) || (has_license && has_files) in
      if strict then valid && has_unknown else valid
  end.

(* ---------- from_dict ---------- *)

Definition para_from_dict (t : ptype) (d : pydict str) : para :=
  let step (acc : pydict str * pydict str) (kv : str * str) :=
    let key := replace_char 45 95 (fst kv) in
    match snd kv with
    | [] => acc
    | v =>
        if known_name t key then (dict_put key v (fst acc), snd acc)
        else (fst acc, dict_put key (from_formatted_text v) (snd acc))
    end in
  let '(known, extra) := fold_left step d ([], []) in
  build_para t known extra [].
