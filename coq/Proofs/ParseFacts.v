(* Proofs for C03/C04: the accepted language, the decomposition, the round trip. *)
From Coq Require Import NArith ZArith List Bool Lia.
From DI Require Import Result PyStr PyStrFacts Version Dpkg Policy OrderFacts VersionFacts.
Import ListNotations.
Open Scope N_scope.

(* ---------- small facts ---------- *)

Lemma last_is_app p a b : b <> [] -> last_is p (a ++ b) = last_is p b.
Proof.
  intros Hb. unfold last_is. rewrite rev_app_distr.
  destruct (rev b) as [|c r] eqn:E; [|reflexivity].
  apply (f_equal (@rev char)) in E. rewrite rev_involutive in E. simpl in E. contradiction.
Qed.

Lemma last_is_cons p c s : s <> [] -> last_is p (c :: s) = last_is p s.
Proof. intros H. apply (last_is_app p [c] s H). Qed.

Lemma last_is_single p c : last_is p [c] = p c.
Proof. reflexivity. Qed.

Lemma last_is_nonempty p s : last_is p s = true -> s <> [].
Proof. intros H ->. discriminate. Qed.

Lemma last_is_snoc p s c : last_is p (s ++ [c]) = p c.
Proof. rewrite last_is_app by discriminate. reflexivity. Qed.

Lemma last_is_In p s : last_is p s = true -> exists c, In c s /\ p c = true.
Proof.
  unfold last_is. destruct (rev s) as [|c r] eqn:E; [discriminate|]. intros H. exists c. split; [|exact H].
  apply in_rev. rewrite E. now left.
Qed.

Lemma ends_alnum_last_is s : ends_alnum s = last_is class_B s.
Proof. reflexivity. Qed.

Lemma class_A_C c : class_A c = class_C c || (c =? 45).
Proof.
  unfold class_A, class_C.
  destruct (is_ascii_alnum c), (c =? 46), (c =? 43), (c =? 45), (c =? 126); reflexivity.
Qed.

Lemma class_C_A c : class_C c = true -> class_A c = true.
Proof. intros H. now rewrite class_A_C, H. Qed.

Lemma class_C_not_hyphen c : class_C c = true -> c <> 45.
Proof. intros H ->. discriminate H. Qed.

Lemma class_A_not_hyphen_C c : class_A c = true -> c <> 45 -> class_C c = true.
Proof.
  rewrite class_A_C. intros H Hn. apply orb_true_iff in H as [H|H]; [exact H|].
  apply N.eqb_eq in H. contradiction.
Qed.

Lemma class_A_misc c : class_A c = true -> c <> 58 /\ is_space c = false.
Proof.
  intros H. pose proof (class_A_below c H) as Hb.
  set (P := fun c => implb (class_A c) (negb (c =? 58) && negb (is_space c))).
  assert (G : P c = true) by (apply (all_below_spec 128 P); [vm_compute; reflexivity|exact Hb]).
  unfold P in G. rewrite H in G. cbn [implb] in G. apply andb_true_iff in G as [G1 G2].
  split; [apply N.eqb_neq; now apply negb_true_iff|now apply negb_true_iff].
Qed.

Lemma digit_facts c : is_ascii_digit c = true ->
  class_A c = true /\ class_C c = true /\ class_B c = true /\ c <> 45 /\ c <> 58.
Proof.
  intros H. assert (Hb : c < 128).
  { unfold is_ascii_digit in H. apply andb_true_iff in H as [_ H]. apply N.leb_le in H. lia. }
  set (P := fun c => implb (is_ascii_digit c)
     (class_A c && class_C c && class_B c && negb (c =? 45) && negb (c =? 58))).
  assert (G : P c = true) by (apply (all_below_spec 128 P); [vm_compute; reflexivity|exact Hb]).
  unfold P in G. rewrite H in G. cbn [implb] in G.
  repeat (apply andb_true_iff in G as [G ?]).
  repeat split; try assumption; apply N.eqb_neq; now apply negb_true_iff.
Qed.

Lemma class_B_A c : class_B c = true -> class_A c = true.
Proof. unfold class_A, class_B. intros ->. reflexivity. Qed.

Lemma forallb_In {A} (p : A -> bool) (l : list A) (x : A) : forallb p l = true -> In x l -> p x = true.
Proof. rewrite forallb_forall. auto. Qed.

Lemma forallb_impl {A} (p q : A -> bool) (l : list A) :
  (forall x, p x = true -> q x = true) -> forallb p l = true -> forallb q l = true.
Proof. intros H. rewrite !forallb_forall. auto. Qed.

Lemma not_In_of_forallb (p : char -> bool) c l : forallb p l = true -> p c = false -> ~ In c l.
Proof. intros H Hc Hin. rewrite (forallb_In p l c H Hin) in Hc. discriminate. Qed.

(* the split at the last occurrence is unique *)
Lemma last_split_unique (c : char) (a b a' b' : str) :
  a ++ c :: b = a' ++ c :: b' -> ~ In c b -> ~ In c b' -> a = a' /\ b = b'.
Proof.
  intros E Hb Hb'. pose proof (rpartition_char_app c a b Hb) as H1.
  pose proof (rpartition_char_app c a' b' Hb') as H2. rewrite E in H1. rewrite H1 in H2.
  now inversion H2.
Qed.

(* ---------- what valid_rest says ---------- *)

Lemma class_C_no_hyphen_list l : forallb class_C l = true -> ~ In 45 l.
Proof. intros H. apply (not_In_of_forallb class_C 45 l H). reflexivity. Qed.

Lemma valid_rest_inv rest :
  valid_rest rest = true ->
  exists d t, rest = d :: t /\ is_ascii_digit d = true /\ forallb class_A rest = true /\
    (~ In 45 rest -> last_is class_B rest = true) /\
    (forall u r, rest = u ++ 45 :: r -> ~ In 45 r -> r <> [] /\ forallb class_C r = true).
Proof.
  unfold valid_rest. destruct rest as [|d t]; [discriminate|]. intros H.
  apply andb_true_iff in H as [Hd H]. exists d, t. split; [reflexivity|]. split; [exact Hd|].
  destruct (digit_facts d Hd) as (dA & dC & dB & d45 & d58).
  destruct t as [|c t'].
  - (* a single digit *)
    split; [simpl; now rewrite dA|]. split; [intros _; exact dB|].
    intros u r E Hr. exfalso. destruct u as [|x u]; simpl in E; inversion E; subst; [contradiction|].
    destruct u; discriminate.
  - assert (Hne : c :: t' <> []) by discriminate. remember (c :: t') as t eqn:Et0. clear Et0 c t'.
    apply orb_true_iff in H as [H|H].
    + (* alt1 *)
      unfold alt1 in H. apply andb_true_iff in H as [HA HL].
      assert (Hall : forallb class_A (d :: t) = true) by (simpl; now rewrite dA, HA).
      split; [exact Hall|]. split.
      * intros _. rewrite last_is_cons by exact Hne. exact HL.
      * intros u r E Hr. split.
        -- intros ->.
           assert (HL' : last_is class_B (d :: t) = true) by (rewrite last_is_cons by exact Hne; exact HL).
           rewrite E, last_is_snoc in HL'. discriminate HL'.
        -- apply forallb_forall. intros x Hx. apply class_A_not_hyphen_C.
           ++ apply (forallb_In class_A (d :: t) x Hall). rewrite E. apply in_or_app. right. now right.
           ++ intros ->. contradiction.
    + (* alt2 *)
      unfold alt2 in H. pose proof (partition_char_spec 45 t) as Hp.
      destruct (partition_char 45 t) as [[x f] y]. destruct f; [|discriminate].
      destruct Hp as [Et Hx].
      repeat (apply andb_true_iff in H as [H ?]).
      match goal with h1 : forallb class_C y = true, h2 : last_is class_E y = true |- _ =>
        rename h1 into Cy; rename h2 into Ly end.
      match goal with h1 : forallb class_C x = true |- _ => rename h1 into Cx end.
      assert (Hall : forallb class_A (d :: t) = true).
      { simpl. rewrite dA. rewrite Et, forallb_app. simpl.
        rewrite (forallb_impl class_C class_A x class_C_A Cx), (forallb_impl class_C class_A y class_C_A Cy).
        reflexivity. }
      split; [exact Hall|]. split.
      * intros Hn. exfalso. apply Hn. right. rewrite Et. apply in_or_app. right. now left.
      * intros u r E Hr.
        assert (E' : (d :: x) ++ 45 :: y = u ++ 45 :: r) by (rewrite <- E, Et; reflexivity).
        destruct (last_split_unique 45 (d :: x) y u r E' (class_C_no_hyphen_list y Cy) Hr) as [_ <-].
        split; [now apply (last_is_nonempty class_E)|exact Cy].
Qed.

(* conversely: a digit followed by allowed characters ending in an alphanumeric *)
Lemma valid_rest_intro d t :
  is_ascii_digit d = true -> forallb class_A t = true -> last_is class_B (d :: t) = true ->
  valid_rest (d :: t) = true.
Proof.
  intros Hd HA HL. unfold valid_rest. rewrite Hd. simpl. destruct t as [|c t']; [reflexivity|].
  apply orb_true_iff. left. unfold alt1. rewrite HA. simpl.
  now rewrite last_is_cons in HL by discriminate.
Qed.

(* ---------- decimal printing and reading ---------- *)

Definition dstep (a : N) (c : char) : N := a * 10 + (c - 48).

Lemma dec_to_N_fold s : dec_to_N s = fold_left dstep s 0.
Proof. reflexivity. Qed.

Lemma N_to_dec_fuel_spec fuel : forall n acc,
  (0 < fuel)%nat -> n < 10 ^ N.of_nat fuel ->
  exists ds, N_to_dec_fuel fuel n acc = ds ++ acc /\ ds <> [] /\
             forallb is_ascii_digit ds = true /\
             (forall a, fold_left dstep ds a = a * 10 ^ N.of_nat (length ds) + n) /\
             (n <> 0 -> match ds with c :: _ => c <> 48 | [] => False end).
Proof.
  induction fuel as [|f IH]; intros n acc Hf Hn; [lia|].
  cbn [N_to_dec_fuel]. cbv zeta.
  assert (Hmod : n mod 10 < 10) by (apply N.mod_lt; lia).
  assert (Hdiv : n = 10 * (n / 10) + n mod 10) by (apply N.div_mod'; lia).
  rewrite Nat2N.inj_succ, N.pow_succ_r' in Hn.
  set (m := n mod 10) in *. set (q := n / 10) in *. set (P := 10 ^ N.of_nat f) in *.
  clearbody m q.
  assert (Hd : is_ascii_digit (48 + m) = true).
  { unfold is_ascii_digit. apply andb_true_iff. split; apply N.leb_le; lia. }
  destruct (q =? 0) eqn:Eq.
  - apply N.eqb_eq in Eq. exists [48 + m]. split; [reflexivity|]. split; [discriminate|].
    split; [cbn [forallb]; now rewrite Hd|]. split.
    + intros a. cbn [fold_left length]. unfold dstep. change (N.of_nat 1) with 1. rewrite N.pow_1_r. lia.
    + intros Hn0. lia.
  - apply N.eqb_neq in Eq.
    assert (Hq : q < P) by lia.
    assert (Hf' : (0 < f)%nat).
    { destruct f; [|lia]. subst P. simpl in Hq. lia. }
    destruct (IH q ((48 + m) :: acc) Hf' Hq) as (ds & E & Hne & Hdig & Hfold & Hlead).
    exists (ds ++ [48 + m]). split; [rewrite E, <- app_assoc; reflexivity|].
    split; [intros H; apply app_eq_nil in H as [_ H]; discriminate|].
    split; [rewrite forallb_app, Hdig; cbn [forallb]; now rewrite Hd|]. split.
    + intros a. rewrite fold_left_app, Hfold. cbn [fold_left]. unfold dstep.
      rewrite app_length. cbn [length]. rewrite Nat.add_1_r, Nat2N.inj_succ, N.pow_succ_r'.
      replace (48 + m - 48) with m by lia. set (Q := 10 ^ N.of_nat (length ds)). lia.
    + intros _. specialize (Hlead Eq). destruct ds; [contradiction|exact Hlead].
Qed.

Lemma N_to_dec_spec n :
  N_to_dec n <> [] /\ forallb is_ascii_digit (N_to_dec n) = true /\ dec_to_N (N_to_dec n) = n /\
  (n <> 0 -> match N_to_dec n with c :: _ => c <> 48 | [] => False end).
Proof.
  unfold N_to_dec.
  assert (Hb : n < 10 ^ N.of_nat (S (N.to_nat (N.log2 n)))).
  { rewrite Nat2N.inj_succ, N2Nat.id. destruct (N.eq_dec n 0) as [->|Hn]; [reflexivity|].
    destruct (N.log2_spec n) as [_ H]; [lia|].
    eapply N.lt_le_trans; [exact H|]. apply N.pow_le_mono_l. lia. }
  destruct (N_to_dec_fuel_spec _ n [] (Nat.lt_0_succ _) Hb) as (ds & E & Hne & Hd & Hf & Hl).
  rewrite E, app_nil_r. repeat split; try assumption.
  rewrite dec_to_N_fold, Hf. lia.
Qed.

(* ---------- inversion of from_string ---------- *)

Definition is_nil (s : str) : bool := match s with [] => true | _ => false end.

Definition parsed (t : str) (v : version) : Prop :=
  valid_version t = true /\
  exists rest,
    ((mem_char 58 t = true /\ exists e, t = e ++ 58 :: rest /\ ~ In 58 e /\ e <> [] /\
        forallb is_ascii_digit e = true /\ epoch v = dec_to_N e) \/
     (mem_char 58 t = false /\ rest = t /\ epoch v = 0)) /\
    valid_rest rest = true /\
    ((mem_char 45 rest = true /\ rest = upstream v ++ 45 :: revision v /\ ~ In 45 (revision v)) \/
     (mem_char 45 rest = false /\ upstream v = rest /\ revision v = [48])).

Lemma from_string_inv s v : from_string s = Ok v -> strip s <> [] /\ parsed (strip s) v.
Proof.
  unfold from_string. set (t := strip s). destruct t as [|c0 t0] eqn:Et; [discriminate|].
  rewrite <- Et. clear Et c0 t0. intros H.
  destruct (valid_version t) eqn:Hv; [|discriminate]. cbn [negb] in H.
  assert (Hne : t <> []) by (intros E; rewrite E in Hv; discriminate).
  split; [exact Hne|]. split; [exact Hv|].
  unfold valid_version in Hv.
  destruct (mem_char 58 t) eqn:Hc.
  - pose proof (partition_char_spec 58 t) as Hp. destruct (partition_char 58 t) as [[e f] r].
    destruct f; [|destruct Hp as (_ & _ & Hn); apply mem_char_In in Hc; contradiction].
    destruct Hp as [Et Hn].
    apply andb_true_iff in Hv as [Hv Hr]. apply andb_true_iff in Hv as [He Hd].
    assert (Hene : e <> []) by (destruct e; [discriminate|discriminate]).
    exists r. split; [left; split; [reflexivity|]|split; [exact Hr|]].
    + exists e. repeat split; try assumption.
      destruct (mem_char 45 r); [destruct (rpartition_char 45 r) as [[u g] rv]|]; inversion H; reflexivity.
    + destruct (mem_char 45 r) eqn:Hh.
      * pose proof (rpartition_char_spec 45 r) as Hq. destruct (rpartition_char 45 r) as [[u g] rv].
        destruct g; [|destruct Hq as (_ & _ & Hq); apply mem_char_In in Hh; contradiction].
        destruct Hq as [Er Hnr]. inversion H; subst v. left. repeat split; assumption.
      * inversion H; subst v. right. repeat split.
  - exists t. split; [right; repeat split|split; [exact Hv|]].
    + destruct (mem_char 45 t); [destruct (rpartition_char 45 t) as [[u g] rv]|]; inversion H; reflexivity.
    + destruct (mem_char 45 t) eqn:Hh.
      * pose proof (rpartition_char_spec 45 t) as Hq. destruct (rpartition_char 45 t) as [[u g] rv].
        destruct g; [|destruct Hq as (_ & _ & Hq); apply mem_char_In in Hh; contradiction].
        destruct Hq as [Er Hnr]. inversion H; subst v. left. repeat split; assumption.
      * inversion H; subst v. right. repeat split.
Qed.

(* ---------- consequences ---------- *)

Lemma from_string_ok s :
  strip s <> [] -> valid_version (strip s) = true -> exists v, from_string s = Ok v.
Proof.
  intros Hne Hv. unfold from_string. destruct (strip s) as [|c t] eqn:E; [contradiction|].
  rewrite Hv. cbn [negb].
  destruct (mem_char 58 (c :: t)); [destruct (partition_char 58 (c :: t)) as [[e f] r]|].
  - destruct (mem_char 45 r); [destruct (rpartition_char 45 r) as [[u g] rv]|]; eexists; reflexivity.
  - destruct (mem_char 45 (c :: t)); [destruct (rpartition_char 45 (c :: t)) as [[u g] rv]|]; eexists; reflexivity.
Qed.

Lemma from_string_raise s e : from_string s = Raise e -> e = ValueError.
Proof.
  unfold from_string. destruct (strip s) as [|c t]; [intros H; now inversion H|].
  destruct (valid_version (c :: t)); cbn [negb]; [|intros H; now inversion H].
  destruct (mem_char 58 (c :: t)); [destruct (partition_char 58 (c :: t)) as [[e' f] r]|].
  - destruct (mem_char 45 r); [destruct (rpartition_char 45 r) as [[u g] rv]|]; discriminate.
  - destruct (mem_char 45 (c :: t)); [destruct (rpartition_char 45 (c :: t)) as [[u g] rv]|]; discriminate.
Qed.

Lemma head_of_app (d : char) t u (r : str) x :
  d :: t = u ++ x :: r -> d <> x -> exists u', u = d :: u'.
Proof.
  intros E Hn. destruct u as [|y u']; simpl in E; inversion E; subst; [contradiction|]. now exists u'.
Qed.

Lemma forallb_app_l {A} (p : A -> bool) (a b : list A) : forallb p (a ++ b) = true -> forallb p a = true.
Proof. rewrite forallb_app. intros H. now apply andb_true_iff in H as [H _]. Qed.

Lemma forallb_app_r {A} (p : A -> bool) (a b : list A) : forallb p (a ++ b) = true -> forallb p b = true.
Proof. rewrite forallb_app. intros H. now apply andb_true_iff in H as [_ H]. Qed.

(* the decomposition produced by from_string is dpkg's split, with its side conditions *)
Lemma parsed_split t v :
  parsed t v ->
  exists eo ro,
    policy_split t = (eo, upstream v, ro) /\
    match eo with
    | Some e => e <> [] /\ forallb is_ascii_digit e = true /\ epoch v = dec_to_N e
    | None => epoch v = 0
    end /\
    match ro with
    | Some r => revision v = r /\ r <> [] /\ forallb class_C r = true
    | None => revision v = [48] /\ last_is class_B (upstream v) = true /\ ~ In 45 (upstream v)
    end /\
    (exists d u', upstream v = d :: u' /\ is_ascii_digit d = true) /\
    forallb class_A (upstream v) = true.
Proof.
  intros (Hv & rest & He & Hr & Hrev).
  destruct (valid_rest_inv rest Hr) as (d & t' & Erest & Hd & HA & Hlast & Hsplit).
  destruct (digit_facts d Hd) as (_ & _ & _ & d45 & _).
  assert (Hup : (exists d u', upstream v = d :: u' /\ is_ascii_digit d = true) /\
                forallb class_A (upstream v) = true).
  { destruct Hrev as [(Hh & Er & Hnr)|(Hh & Eu & Erv)].
    - split.
      + rewrite Erest in Er. destruct (head_of_app d t' _ _ 45 Er d45) as (u' & Eu). exists d, u'. split; assumption.
      + rewrite Er in HA. now apply forallb_app_l in HA.
    - split; [exists d, t'; split; [now rewrite Eu|exact Hd]|now rewrite Eu]. }
  assert (Hro : exists ro,
     (if mem_char 45 rest then let '(u, _, r) := rpartition_char 45 rest in (u, Some r) else (rest, None))
       = (upstream v, ro) /\
     match ro with
     | Some r => revision v = r /\ r <> [] /\ forallb class_C r = true
     | None => revision v = [48] /\ last_is class_B (upstream v) = true /\ ~ In 45 (upstream v)
     end).
  { destruct Hrev as [(Hh & Er & Hnr)|(Hh & Eu & Erv)]; rewrite Hh.
    - exists (Some (revision v)). split.
      + rewrite Er at 1. now rewrite (rpartition_char_app 45 _ _ Hnr).
      + destruct (Hsplit _ _ Er Hnr) as [H1 H2]. repeat split; assumption.
    - exists None. split; [now rewrite Eu|].
      rewrite Eu. apply mem_char_false in Hh. repeat split; [exact Erv|now apply Hlast|exact Hh]. }
  destruct Hro as (ro & Ero & Hro).
  destruct He as [(Hc & e & Et & Hn & Hne & Hde & Hep)|(Hc & -> & Hep)].
  - exists (Some e), ro. split.
    + assert (Hpp : partition_char 58 t = (e, true, rest)) by (rewrite Et; now apply partition_char_app).
      unfold policy_split. rewrite Hc, Hpp.
      destruct (mem_char 45 rest); [destruct (rpartition_char 45 rest) as [[u g] r]|];
        inversion Ero; reflexivity.
    + split; [repeat split; assumption|]. split; [exact Hro|exact Hup].
  - exists None, ro. split.
    + unfold policy_split. rewrite Hc.
      destruct (mem_char 45 t); [destruct (rpartition_char 45 t) as [[u g] r]|];
        inversion Ero; reflexivity.
    + split; [exact Hep|]. split; [exact Hro|exact Hup].
Qed.

Theorem accept_only_if_valid s v : from_string s = Ok v -> policy_valid (strip s) = true.
Proof.
  intros H. destruct (from_string_inv s v H) as [_ Hp].
  destruct (parsed_split _ _ Hp) as (eo & ro & Hs & He & Hr & (d & u' & Eu & Hd) & HA).
  unfold policy_valid. rewrite Hs.
  change pol_upstream_char with class_A. change pol_revision_char with class_C.
  rewrite HA. rewrite Eu, Hd.
  assert (H1 : match eo with Some e => nonempty e && forallb is_ascii_digit e | None => true end = true).
  { destruct eo as [e|]; [|reflexivity]. destruct He as (Hne & Hde & _). rewrite Hde.
    destruct e; [contradiction|reflexivity]. }
  assert (H2 : match ro with Some r => nonempty r && forallb class_C r | None => true end = true).
  { destruct ro as [r|]; [|reflexivity]. destruct Hr as (_ & Hne & Hc). rewrite Hc.
    destruct r; [contradiction|reflexivity]. }
  rewrite H1, H2. reflexivity.
Qed.

Theorem decomposition s v :
  from_string s = Ok v -> (epoch v, upstream v, revision v) = policy_triple (strip s).
Proof.
  intros H. destruct (from_string_inv s v H) as [_ Hp].
  destruct (parsed_split _ _ Hp) as (eo & ro & Hs & He & Hr & _).
  unfold policy_triple. rewrite Hs. f_equal; [f_equal|].
  - destruct eo; [now destruct He as (_ & _ & ->)|exact He].
  - destruct ro; [now destruct Hr as (-> & _)|now destruct Hr as (-> & _)].
Qed.

Theorem accept_if_valid s :
  let t := strip s in
  policy_valid t = true ->
  (let '(_, u, r) := policy_split t in
   match r with Some r => ends_alnum r = true | None => ends_alnum u = true end) ->
  exists v, from_string s = Ok v.
Proof.
  cbv zeta. set (t := strip s). intros Hpv Hends.
  assert (Hvalid : valid_version t = true /\ t <> []).
  { unfold policy_valid in Hpv. unfold valid_version.
    change pol_upstream_char with class_A in Hpv. change pol_revision_char with class_C in Hpv.
    unfold policy_split in *.
    assert (Hrest : forall rest,
      (let '(u, r) := if mem_char 45 rest then let '(u, _, r) := rpartition_char 45 rest in (u, Some r)
                      else (rest, None) in
       (match u with [] => false | c :: _ => is_ascii_digit c end) = true /\ forallb class_A u = true /\
       (match r with Some r => nonempty r && forallb class_C r | None => true end) = true /\
       (match r with Some r => ends_alnum r = true | None => ends_alnum u = true end)) ->
      valid_rest rest = true).
    { intros rest. destruct (mem_char 45 rest) eqn:Hh.
      - pose proof (rpartition_char_spec 45 rest) as Hq. destruct (rpartition_char 45 rest) as [[u g] r].
        destruct g; [|destruct Hq as (_ & _ & Hq); apply mem_char_In in Hh; contradiction].
        destruct Hq as [Er Hnr]. intros (Hu & HA & Hr & He).
        destruct u as [|d u']; [discriminate|]. apply andb_true_iff in Hr as [Hne Hc].
        rewrite Er. simpl app. apply valid_rest_intro; [exact Hu| |].
        + simpl in HA. apply andb_true_iff in HA as [_ HA]. rewrite forallb_app, HA. simpl.
          now rewrite (forallb_impl class_C class_A r class_C_A Hc).
        + change (d :: u' ++ 45 :: r) with ((d :: u') ++ 45 :: r).
          rewrite (last_is_app class_B (d :: u') (45 :: r)) by discriminate.
          rewrite last_is_cons by (destruct r; [discriminate Hne|discriminate]). exact He.
      - intros (Hu & HA & _ & He). destruct rest as [|d u']; [discriminate|].
        apply valid_rest_intro; [exact Hu| |exact He]. simpl in HA. now apply andb_true_iff in HA as [_ HA]. }
    destruct (mem_char 58 t) eqn:Hc.
    - pose proof (partition_char_spec 58 t) as Hp. destruct (partition_char 58 t) as [[e f] rest].
      destruct f; [|destruct Hp as (_ & _ & Hn); apply mem_char_In in Hc; contradiction].
      destruct Hp as [Et _].
      specialize (Hrest rest).
      destruct (mem_char 45 rest); [destruct (rpartition_char 45 rest) as [[u g] r]|].
      + repeat (apply andb_true_iff in Hpv as [Hpv ?]).
        split; [|rewrite Et; destruct e; discriminate].
        match goal with h : forallb is_ascii_digit e = true |- _ => rewrite h end.
        rewrite Hrest by (repeat split; assumption). destruct e; [discriminate Hpv|reflexivity].
      + repeat (apply andb_true_iff in Hpv as [Hpv ?]).
        split; [|rewrite Et; destruct e; discriminate].
        match goal with h : forallb is_ascii_digit e = true |- _ => rewrite h end.
        rewrite Hrest by (repeat split; assumption). destruct e; [discriminate Hpv|reflexivity].
    - specialize (Hrest t).
      destruct (mem_char 45 t); [destruct (rpartition_char 45 t) as [[u g] r]|].
      + repeat (apply andb_true_iff in Hpv as [Hpv ?]).
        assert (Hvr : valid_rest t = true) by (apply Hrest; repeat split; assumption).
        split; [exact Hvr|]. intros E. rewrite E in Hvr. discriminate.
      + repeat (apply andb_true_iff in Hpv as [Hpv ?]).
        assert (Hvr : valid_rest t = true) by (apply Hrest; repeat split; assumption).
        split; [exact Hvr|]. intros E. rewrite E in Hvr. discriminate. }
  destruct Hvalid as [Hv Hne]. now apply from_string_ok.
Qed.

(* parsed versions only hold allowed characters *)
Theorem from_string_allowed s v :
  from_string s = Ok v -> allowed (upstream v) /\ allowed (revision v).
Proof.
  intros H. destruct (from_string_inv s v H) as [_ Hp].
  destruct (parsed_split _ _ Hp) as (eo & ro & _ & _ & Hr & _ & HA).
  split; unfold allowed; apply Forall_forall; intros c Hc.
  - exact (forallb_In class_A _ c HA Hc).
  - destruct ro as [r|].
    + destruct Hr as (Er & _ & HC). rewrite Er in Hc. apply class_C_A. exact (forallb_In class_C _ c HC Hc).
    + destruct Hr as (Er & _). rewrite Er in Hc. destruct Hc as [<-|[]]. reflexivity.
Qed.

(* ---------- print / parse round trip ---------- *)

Lemma nospace_strip s : Forall (fun c => is_space c = false) s -> strip s = s.
Proof.
  intros H. destruct s as [|c s]; [reflexivity|].
  apply strip_by_fixed; [now inversion H|].
  destruct (exists_last (l := c :: s)) as (s' & x & E); [discriminate|]. rewrite E in *.
  apply rstrip_by_snoc_keep. apply Forall_app in H as [_ H]. now inversion H.
Qed.

Lemma class_A_nospace s : forallb class_A s = true -> Forall (fun c => is_space c = false) s.
Proof.
  intros H. apply Forall_forall. intros c Hc. apply class_A_misc. exact (forallb_In class_A s c H Hc).
Qed.

Lemma class_A_no_colon s : forallb class_A s = true -> ~ In 58 s.
Proof. intros H. apply (not_In_of_forallb class_A 58 s H). reflexivity. Qed.

Lemma digits_class_A s : forallb is_ascii_digit s = true -> forallb class_A s = true.
Proof. apply forallb_impl. intros c H. now apply digit_facts. Qed.

Definition from_string_body (v : str) : result version :=
  if negb (valid_version v) then Raise ValueError
  else
    let '(ep, v1) :=
      if mem_char 58 v then
        let '(e, _, r) := partition_char 58 v in (dec_to_N e, r)
      else (0, v) in
    if mem_char 45 v1 then
      let '(u, _, r) := rpartition_char 45 v1 in Ok (mkVersion ep u r)
    else Ok (mkVersion ep v1 [48]).

Lemma from_string_eq s : strip s <> [] -> from_string s = from_string_body (strip s).
Proof. unfold from_string. destruct (strip s); [contradiction|reflexivity]. Qed.

(* parsing  [prefix] rest  where rest is a valid remainder *)
Lemma from_string_build ep u rv R :
  valid_rest R = true ->
  (mem_char 45 R = true /\ R = u ++ 45 :: rv /\ ~ In 45 rv \/
   mem_char 45 R = false /\ R = u /\ rv = [48]) ->
  from_string ((if ep =? 0 then [] else N_to_dec ep ++ [58]) ++ R) = Ok (mkVersion ep u rv).
Proof.
  intros HR Hsplit.
  destruct (valid_rest_inv R HR) as (d & t' & ER & Hd & HA & _ & _).
  destruct (N_to_dec_spec ep) as (Hne & Hdig & Hval & _).
  set (P := (if ep =? 0 then [] else N_to_dec ep ++ [58]) ++ R).
  assert (HPA : Forall (fun c => is_space c = false) P).
  { subst P. apply Forall_app. split; [|now apply class_A_nospace].
    destruct (ep =? 0); [constructor|]. apply Forall_app. split.
    - apply class_A_nospace. now apply digits_class_A.
    - repeat constructor. }
  assert (HPne : P <> []).
  { subst P. rewrite ER. intros E. apply app_eq_nil in E as [_ E]. discriminate. }
  rewrite from_string_eq; rewrite (nospace_strip P HPA); [|exact HPne].
  assert (Hsp : (mem_char 45 R = true -> rpartition_char 45 R = (u, true, rv)) ).
  { intros Hm. destruct Hsplit as [(_ & E & Hn)|(Hm' & _)]; [|congruence].
    rewrite E. now apply rpartition_char_app. }
  unfold from_string_body, valid_version. subst P.
  destruct (ep =? 0) eqn:Eep.
  - apply N.eqb_eq in Eep. subst ep. cbn [app].
    assert (Hc : mem_char 58 R = false) by (apply mem_char_false; now apply class_A_no_colon).
    rewrite Hc, HR. cbn [negb].
    destruct Hsplit as [(Hm & E & Hn)|(Hm & E & Erv)]; rewrite Hm.
    + rewrite (Hsp Hm). reflexivity.
    + now rewrite E, Erv.
  - set (e := N_to_dec ep) in *.
    assert (Hn58 : ~ In 58 e) by (apply class_A_no_colon; now apply digits_class_A).
    assert (Hpp : partition_char 58 ((e ++ [58]) ++ R) = (e, true, R)).
    { rewrite <- app_assoc. cbn [app]. now apply partition_char_app. }
    assert (Hc : mem_char 58 ((e ++ [58]) ++ R) = true).
    { apply mem_char_In. apply in_or_app. left. apply in_or_app. right. now left. }
    rewrite Hc, Hpp, Hdig, HR.
    assert (Hen : negb match e with [] => true | _ => false end = true) by (destruct e; [contradiction|reflexivity]).
    rewrite Hen. cbn [andb negb]. rewrite Hval.
    destruct Hsplit as [(Hm & E & Hn)|(Hm & E & Erv)]; rewrite Hm.
    + rewrite (Hsp Hm). reflexivity.
    + now rewrite E, Erv.
Qed.

Lemma str_eqb_zero rv : str_eqb rv [48] = true <-> rv = [48].
Proof. apply str_eqb_eq. Qed.

Lemma to_string_eq ep u rv :
  u <> [] ->
  to_string (mkVersion ep u rv) =
  (if ep =? 0 then [] else N_to_dec ep ++ [58]) ++ u ++
  (if negb (str_eqb rv [48]) then 45 :: rv
   else if mem_char 45 u || negb (last_is is_ascii_alnum u) then [45; 48] else []).
Proof.
  intros Hne. unfold to_string. cbn [epoch upstream revision].
  destruct u as [|c u]; [contradiction|].
  destruct (ep =? 0), (negb (str_eqb rv [48])), (mem_char 45 (c :: u) || negb (last_is is_ascii_alnum (c :: u)));
    cbn [app]; rewrite <- ?app_assoc, ?app_nil_r; reflexivity.
Qed.

Theorem roundtrip s v : from_string s = Ok v -> from_string (to_string v) = Ok v.
Proof.
  intros H. destruct (from_string_inv s v H) as [_ (Hv & rest & He & Hr & Hrev)].
  destruct (valid_rest_inv rest Hr) as (d & t' & Erest & Hd & HA & Hlast & Hsplit).
  destruct (digit_facts d Hd) as (_ & _ & _ & d45 & _).
  destruct v as [ep u rv]. cbn [epoch upstream revision] in *.
  assert (Hu : exists u', u = d :: u').
  { destruct Hrev as [(_ & Er & _)|(_ & Eu & _)].
    - rewrite Erest in Er. exact (head_of_app d t' _ _ 45 Er d45).
    - exists t'. now rewrite Eu. }
  destruct Hu as (u' & Eu).
  rewrite to_string_eq by (rewrite Eu; discriminate).
  destruct (str_eqb rv [48]) eqn:Ez; cbn [negb].
  - apply str_eqb_eq in Ez. subst rv.
    destruct (mem_char 45 u || negb (last_is is_ascii_alnum u)) eqn:Econd.
    + (* "-0" kept: the original text had it *)
      destruct Hrev as [(Hm & Er & Hn)|(Hm & Eu' & _)].
      * apply from_string_build; [rewrite <- Er; exact Hr|]. left. rewrite <- Er. repeat split; assumption.
      * exfalso. rewrite Eu' in *. rewrite Hm in Econd. apply mem_char_false in Hm.
        change is_ascii_alnum with class_B in Econd. rewrite (Hlast Hm) in Econd. discriminate.
    + (* "-0" omitted *)
      apply orb_false_iff in Econd as [Hm Hl]. apply negb_false_iff in Hl. rewrite app_nil_r.
      apply from_string_build.
      * rewrite Eu. apply valid_rest_intro; [exact Hd| |now rewrite <- Eu].
        assert (HAu : forallb class_A u = true).
        { destruct Hrev as [(_ & Er & _)|(_ & Eu' & _)]; [rewrite Er in HA; now apply forallb_app_l in HA|now rewrite Eu']. }
        rewrite Eu in HAu. simpl in HAu. now apply andb_true_iff in HAu as [_ HAu].
      * right. repeat split. exact Hm.
  - (* a revision other than "0" *)
    destruct Hrev as [(Hm & Er & Hn)|(_ & _ & Erv)]; [|rewrite Erv in Ez; discriminate].
    apply from_string_build; [rewrite <- Er; exact Hr|]. left. rewrite <- Er. repeat split; assumption.
Qed.
