(* Proofs for C10: every word of a value of the FINAL copyright object occurs on a source line
   inside the range recorded for its field - through renaming, merged unknown paragraphs and
   licenses folded from free text. *)
From Coq Require Import String.
From Coq Require Import Arith NArith List Bool Lia Sorted Permutation.
From DI Require Import Result PyStr PyStrFacts Codec CodecFacts Deb822 Deb822Facts Debcon Copyright CopyrightFacts
  RangeFacts Grammar822Header Dep5Facts WordFacts ConserveFacts ShiftFacts FromDictFacts RoundTripFacts FixpointFacts RangeFinal.
Import ListNotations.
Open Scope N_scope.

Section Located.

(* the numbered lines the parser made of the text; W n w: the word w stands on line n *)
Variable src : list nline.
Definition W (n : N) (w : str) : Prop := exists l, In l src /\ ln_num l = n /\ In w (cwords (ln_val l)).

Definition in_src (f : field) : Prop := (forall l, In l (f_lines f) -> In l src) /\ StronglySorted N.lt (nums f).

Lemma cwords_nonblank s w : In w (cwords s) -> all_space s = false.
Proof. intros H. destruct (all_space s) eqn:E; [|reflexivity]. rewrite (cwords_blank s E) in H. destruct H. Qed.

(* the words of a field's text stand on lines of its range *)
Lemma field_words_located f w : in_src f -> In w (cwords (field_text f)) ->
  exists n, fst (range_of f) <= n <= snd (range_of f) /\ W n w.
Proof.
  intros [Hsrc Hs] Hw. rewrite field_text_cw in Hw. unfold field_cw in Hw. apply in_flat_map in Hw as (l & Hl & Hw).
  assert (Hne : f_lines f <> []) by (intros E; rewrite E in Hl; destruct Hl).
  destruct (field_range f Hs Hne) as (_ & _ & _ & Hlast & Hfirst).
  exists (ln_num l). unfold range_of. cbn [fst snd]. split.
  - split; [apply Hfirst; [exact Hl|]|now apply Hlast]. unfold is_blank. now apply (cwords_nonblank _ w).
  - exists l. split; [now apply Hsrc|]. now split.
Qed.

(* ---------- the builder: every recorded range belongs to the field stored under the same name ---------- *)

Lemma lookup_app_l k (a b : pydict str) : In k (keys a) -> lookup k (a ++ b) = lookup k a.
Proof.
  induction a as [|[x v] a IH]; [intros []|]. cbn [keys map fst In app]. intros H. rewrite !lookup_cons.
  destruct (str_eqb k x) eqn:E; [reflexivity|]. apply IH. destruct H as [->|H]; [rewrite str_eqb_refl in E; discriminate|exact H].
Qed.

Lemma lookup_app_r k (a b : pydict str) : ~ In k (keys a) -> lookup k (a ++ b) = lookup k b.
Proof.
  induction a as [|[x v] a IH]; [reflexivity|]. cbn [keys map fst In app]. intros H. rewrite lookup_cons.
  destruct (str_eqb k x) eqn:E; [apply str_eqb_eq in E; subst; exfalso; apply H; now left|]. apply IH. intros Hi. apply H. now right.
Qed.

Lemma add_field_full t ae b f : binv t ae b -> sub_seen (b_lines b) (b_seen b) ->
  (field_text f = [] /\ add_field t ae b f = Ok b) \/
  (field_text f <> [] /\ exists name sfx, ~ In name (b_seen b) /\
     add_field t ae b f =
     Ok (if kroute t ae name
         then mkB (b_known b ++ [(name, fvalue f)]) (b_extra b) (b_lines b ++ [(name, range_of f)]) (name :: b_seen b) sfx
         else mkB (b_known b) (b_extra b ++ [(name, fvalue f)]) (b_lines b ++ [(name, range_of f)]) (name :: b_seen b) sfx)).
Proof.
  intros Hinv Hsub. unfold add_field. destruct (field_text f) as [|c0 v0] eqn:Ev; [left; split; reflexivity|]. right. split; [discriminate|].
  rewrite <- Ev. fold (fvalue f). fold (fname f).
  assert (G : forall name sfx, ~ In name (b_seen b) ->
    (let lines := dict_put name (first_content_line f, last_line f) (b_lines b) in
      if negb ae && known_name t name
      then if has_key name (b_known b) then Raise AssertionError
           else Ok (mkB (dict_put name (fvalue f) (b_known b)) (b_extra b) lines (name :: b_seen b) sfx)
      else if has_key name (b_extra b) then Raise AssertionError
           else Ok (mkB (b_known b) (dict_put name (fvalue f) (b_extra b)) lines (name :: b_seen b) sfx)) =
     Ok (if kroute t ae name
         then mkB (b_known b ++ [(name, fvalue f)]) (b_extra b) (b_lines b ++ [(name, range_of f)]) (name :: b_seen b) sfx
         else mkB (b_known b) (b_extra b ++ [(name, fvalue f)]) (b_lines b ++ [(name, range_of f)]) (name :: b_seen b) sfx)).
  { intros name sfx Hn. cbv zeta. fold (kroute t ae name).
    assert (Hk1 : ~ In name (keys (b_known b))) by (intros Hi; apply Hn; now apply (bi_known _ _ _ Hinv)).
    assert (Hk2 : ~ In name (keys (b_extra b))) by (intros Hi; apply Hn; now apply (bi_extra _ _ _ Hinv)).
    assert (Hk3 : ~ In name (keys (b_lines b))) by (intros Hi; apply Hn; now apply Hsub).
    rewrite (has_key_absent _ _ Hk1), (has_key_absent _ _ Hk2).
    rewrite (dict_put_fresh name (fvalue f) (b_known b)), (dict_put_fresh name (fvalue f) (b_extra b)) by (now apply dict_get_absent).
    rewrite (dict_put_fresh name _ (b_lines b)) by (now apply dict_get_absent).
    destruct (kroute t ae name); reflexivity. }
  destruct (mem_str (fname f) (b_seen b)) eqn:Em.
  - destruct (fresh_name (S (length (b_seen b))) (fname f) (b_suffix b) (b_seen b)) as [name sfx] eqn:Ef.
    pose proof (fresh_name_fresh _ _ _ _ _ Ef) as Hfresh.
    assert (Hn : ~ In name (b_seen b)) by (intros Hi; apply mem_str_In in Hi; congruence).
    exists name, sfx. split; [exact Hn|now apply G].
  - assert (Hn : ~ In (fname f) (b_seen b)) by (intros Hi; apply mem_str_In in Hi; congruence).
    exists (fname f), (b_suffix b). split; [exact Hn|now apply G].
Qed.

(* what the builder has stored: under every recorded name, a field of the text with that range
   and that value, in the typed part or in the extra data; and nothing is stored without a range *)
Record winv (t : ptype) (ae : bool) (b : builder) : Prop := {
  wi_binv : binv t ae b;
  wi_sub : sub_seen (b_lines b) (b_seen b);
  wi_entry : forall name r, In (name, r) (b_lines b) ->
     exists f, in_src f /\ r = range_of f /\
       ((In name (keys (b_known b)) /\ lookup name (b_known b) = fvalue f) \/
        (In name (keys (b_extra b)) /\ lookup name (b_extra b) = fvalue f));
  wi_keys : forall k, In k (keys (b_known b)) \/ In k (keys (b_extra b)) -> In k (keys (b_lines b));
}.

Lemma add_field_winv t ae b f b' : winv t ae b -> in_src f -> add_field t ae b f = Ok b' -> winv t ae b'.
Proof.
  intros Hw Hf H. pose proof (wi_binv _ _ _ Hw) as Hinv. pose proof (wi_sub _ _ _ Hw) as Hsub.
  destruct (add_field_inv t ae b f b' Hinv H) as [Hinv' _].
  destruct (add_field_full t ae b f Hinv Hsub) as [[Ev E]|(Ev & name & sfx & Hn & E)]; rewrite E in H; apply Ok_inj in H; subst b'; [exact Hw|].
  assert (Hk1 : ~ In name (keys (b_known b))) by (intros Hi; apply Hn; now apply (bi_known _ _ _ Hinv)).
  assert (Hk2 : ~ In name (keys (b_extra b))) by (intros Hi; apply Hn; now apply (bi_extra _ _ _ Hinv)).
  assert (Hk3 : ~ In name (keys (b_lines b))) by (intros Hi; apply Hn; now apply Hsub).
  destruct (kroute t ae name) eqn:Er; constructor; cbn [b_known b_extra b_lines b_seen]; try exact Hinv'.
  - intros x Hx. rewrite keys_app in Hx. apply in_app_or in Hx as [Hx|[<-|[]]]; [right; now apply Hsub|now left].
  - intros nm r Hin. apply in_app_or in Hin as [Hin|[Heq|[]]].
    + destruct (wi_entry _ _ _ Hw nm r Hin) as (g & Hg & Er' & [[Hk Hv]|[Hk Hv]]); exists g; (split; [exact Hg|split; [exact Er'|]]).
      * left. split; [rewrite keys_app; apply in_or_app; now left|]. now rewrite lookup_app_l.
      * right. now split.
    + inversion Heq; subst nm r. exists f. split; [exact Hf|split; [reflexivity|]]. left. split.
      * rewrite keys_app. apply in_or_app. right. now left.
      * rewrite lookup_app_r by exact Hk1. unfold lookup. cbn [dict_get]. now rewrite str_eqb_refl.
  - intros k Hk. rewrite keys_app. rewrite keys_app in Hk. apply in_or_app.
    destruct Hk as [Hk|Hk]; [apply in_app_or in Hk as [Hk|[<-|[]]]; [left; apply (wi_keys _ _ _ Hw); now left|right; now left]|left; apply (wi_keys _ _ _ Hw); now right].
  - intros x Hx. rewrite keys_app in Hx. apply in_app_or in Hx as [Hx|[<-|[]]]; [right; now apply Hsub|now left].
  - intros nm r Hin. apply in_app_or in Hin as [Hin|[Heq|[]]].
    + destruct (wi_entry _ _ _ Hw nm r Hin) as (g & Hg & Er' & [[Hk Hv]|[Hk Hv]]); exists g; (split; [exact Hg|split; [exact Er'|]]).
      * left. now split.
      * right. split; [rewrite keys_app; apply in_or_app; now left|]. now rewrite lookup_app_l.
    + inversion Heq; subst nm r. exists f. split; [exact Hf|split; [reflexivity|]]. right. split.
      * rewrite keys_app. apply in_or_app. right. now left.
      * rewrite lookup_app_r by exact Hk2. unfold lookup. cbn [dict_get]. now rewrite str_eqb_refl.
  - intros k Hk. rewrite keys_app. rewrite keys_app in Hk. apply in_or_app.
    destruct Hk as [Hk|Hk]; [left; apply (wi_keys _ _ _ Hw); now left|apply in_app_or in Hk as [Hk|[<-|[]]]; [left; apply (wi_keys _ _ _ Hw); now right|right; now left]].
Qed.

Lemma add_fields_winv t ae fs : forall b b', winv t ae b -> Forall in_src fs -> add_fields t ae b fs = Ok b' -> winv t ae b'.
Proof.
  induction fs as [|f fs IH]; intros b b' Hw Hf H; cbn [add_fields] in H.
  - apply Ok_inj in H. now subst.
  - destruct (add_field t ae b f) as [b1|e] eqn:E1; cbn [bind] in H; [|discriminate]. inversion Hf; subst.
    apply (IH b1 b'); [eapply add_field_winv; eassumption|assumption|exact H].
Qed.

(* ---------- one paragraph ---------- *)

Definition Located (p : para) : Prop :=
  forall name r, In (name, r) (p_lines p) -> forall w, In w (cwords (lookup name (para_to_dict p))) ->
  exists n, fst r <= n <= snd r /\ W n w.

(* every word of every value stands inside the span of the paragraph *)
Definition AllLoc (p : para) : Prop :=
  forall v w, In v (pvals p) -> In w (cwords v) ->
  p_lines p <> [] /\ exists n, fst (first_last p) <= n <= snd (first_last p) /\ W n w.

Lemma to_dict_shape_w t K E L : NoDup (keys E) -> (forall k, In k (keys E) -> known_name t k = false) ->
  para_to_dict (build_para t K E L) = KD t K ++ ED E.
Proof.
  intros Hnd Hk. unfold para_to_dict, build_para. cbn [p_extra].
  assert (E1 : known_to_dict {| p_type := t; p_fields := map (fun kf => (fst kf, convert (snd kf) match dict_get (fst kf) K with Some v => v | None => [] end)) (known_fields t); p_extra := E; p_lines := L |} = KD t K).
  { unfold known_to_dict, KD. cbn [p_fields]. rewrite map_map. reflexivity. }
  rewrite E1. assert (E2 : extra_to_dict E = ED E).
  { unfold extra_to_dict, ED. apply map_ext. intros [k v]. cbn [fst snd]. destruct v; reflexivity. }
  rewrite E2. apply fold_put_fresh.
  - unfold ED, keys. rewrite map_map. exact Hnd.
  - intros k Hi. unfold ED, keys in Hi. rewrite map_map in Hi. cbn [fst] in Hi.
    unfold KD, keys. rewrite map_map. cbn [fst]. intros Hin. apply known_name_In in Hin. rewrite (Hk k Hi) in Hin. discriminate.
Qed.

Lemma lookup_ED k E : lookup k (ED E) = enc (lookup k E).
Proof.
  unfold ED. induction E as [|[a v] E IH]; [reflexivity|]. cbn [map fst snd]. rewrite !lookup_cons. destruct (str_eqb k a); [reflexivity|exact IH].
Qed.

Lemma lookup_in_nodup k v (d : pydict str) : NoDup (keys d) -> In (k, v) d -> lookup k d = v.
Proof.
  induction d as [|[a x] d IH]; [intros _ []|]. cbn [keys map fst]. intros Hnd Hin. inversion Hnd as [|? ? Hni Hnd']; subst. rewrite lookup_cons.
  destruct Hin as [Heq|Hin]; [inversion Heq; subst; now rewrite str_eqb_refl|].
  destruct (str_eqb k a) eqn:E; [apply str_eqb_eq in E; subst; exfalso; apply Hni; now apply (in_map fst) in Hin|]. now apply IH.
Qed.

Lemma cwords_enc v : cwords (enc v) = cwords v.
Proof. unfold enc. apply cwords_extra. Qed.

Lemma kroute_false_unknown t k : kroute t (all_extra t) k = false -> known_name t k = false.
Proof. unfold kroute, all_extra. destruct t; cbn [negb andb]; intros H; exact H. Qed.

Theorem built_located t b : winv t (all_extra t) b ->
  let p := build_para t (b_known b) (b_extra b) (b_lines b) in Located p /\ AllLoc p.
Proof.
  intros Hw p. pose proof (wi_binv _ _ _ Hw) as Hinv.
  assert (Hunk : forall k, In k (keys (b_extra b)) -> known_name t k = false).
  { intros k Hk. apply kroute_false_unknown. now apply (bi_extra _ _ _ Hinv). }
  assert (Ed : para_to_dict p = KD t (b_known b) ++ ED (b_extra b)) by (apply to_dict_shape_w; [apply (bi_nd_extra _ _ _ Hinv)|exact Hunk]).
  assert (HL : Located p).
  { intros name r Hin w Hwd. subst p. cbn [p_lines build_para] in Hin. rewrite Ed in Hwd.
    destruct (wi_entry _ _ _ Hw name r Hin) as (f & Hf & -> & [[Hk Hv]|[Hk Hv]]).
    - destruct (bi_known _ _ _ Hinv name Hk) as [_ Hr]. assert (Hkn : known_name t name = true).
      { unfold kroute in Hr. apply andb_true_iff in Hr. apply Hr. }
      apply known_name_In in Hkn. apply in_map_iff in Hkn as ([k c] & Ek & Hkc). cbn [fst] in Ek. subst k.
      rewrite lookup_app_l in Hwd by (rewrite keys_KD; now apply (in_map fst) in Hkc).
      rewrite (lookup_KD t _ name c Hkc), Hv in Hwd. unfold RP in Hwd. rewrite cwords_convert_dumps in Hwd.
      unfold fvalue in Hwd. rewrite cwords_lstrip in Hwd. now apply field_words_located.
    - rewrite lookup_app_r in Hwd.
      + rewrite lookup_ED, Hv, cwords_enc in Hwd. unfold fvalue in Hwd. rewrite cwords_lstrip in Hwd. now apply field_words_located.
      + rewrite keys_KD. intros Hi. apply known_name_In in Hi. rewrite (Hunk name Hk) in Hi. discriminate. }
  split; [exact HL|].
  intros v w Hv Hwd. unfold pvals in Hv. rewrite Ed, map_app in Hv.
  assert (Hent : exists name, In name (keys (b_lines b)) /\ In w (cwords (lookup name (para_to_dict p)))).
  { apply in_app_or in Hv as [Hv|Hv].
    - unfold KD in Hv. rewrite map_map in Hv. apply in_map_iff in Hv as ([k c] & Ev & Hkc). cbn [fst snd] in Ev. subst v.
      assert (Hk : In k (keys (b_known b))).
      { destruct (dict_get k (b_known b)) as [x|] eqn:Eg.
        - unfold keys. clear -Eg. induction (b_known b) as [|[a y] d IH]; [discriminate|]. cbn [dict_get] in Eg. cbn [map fst].
          destruct (str_eqb k a) eqn:E; [apply str_eqb_eq in E; now left|right; now apply IH].
        - exfalso. unfold RP, lookup in Hwd. rewrite Eg, cwords_convert_dumps in Hwd. destruct Hwd. }
      exists k. split; [apply (wi_keys _ _ _ Hw); now left|]. rewrite Ed, lookup_app_l by (rewrite keys_KD; now apply (in_map fst) in Hkc).
      now rewrite (lookup_KD t _ k c Hkc).
    - unfold ED in Hv. rewrite map_map in Hv. apply in_map_iff in Hv as ([k e] & Ev & Hke). cbn [fst snd] in Ev. subst v.
      assert (Hk : In k (keys (b_extra b))) by (now apply (in_map fst) in Hke).
      exists k. split; [apply (wi_keys _ _ _ Hw); now right|]. rewrite Ed, lookup_app_r.
      + rewrite lookup_ED, (lookup_in_nodup k e _ (bi_nd_extra _ _ _ Hinv) Hke). exact Hwd.
      + rewrite keys_KD. intros Hi. apply known_name_In in Hi. rewrite (Hunk k Hk) in Hi. discriminate. }
  destruct Hent as (name & Hname & Hw'). unfold keys in Hname. apply in_map_iff in Hname as ([nm r] & En & Hin). cbn [fst] in En. subst nm.
  assert (Hne : p_lines p <> []) by (subst p; cbn [p_lines build_para]; intros E0; rewrite E0 in Hin; destruct Hin).
  split; [exact Hne|]. destruct (HL name r Hin w Hw') as (n & Hn & HW). exists n. split; [|exact HW].
  destruct (first_last_spans p Hne (name, r) Hin) as [A B]. cbn [snd] in A, B. lia.
Qed.

Lemma winv_init t : winv t (all_extra t) (mkB [] [] [] [] 1).
Proof.
  constructor; cbn [b_known b_extra b_lines b_seen].
  - constructor; cbn; (intros x [] || constructor).
  - intros x [].
  - intros name r [].
  - intros k [[]|[]].
Qed.

Theorem from_fields_located t fs p : Forall in_src fs -> from_fields t fs = Ok p -> Located p /\ AllLoc p.
Proof.
  intros Hf H. unfold from_fields in H. fold (all_extra t) in H. destruct (add_fields t (all_extra t) _ fs) as [b|e] eqn:E; cbn [bind] in H; [|discriminate].
  apply Ok_inj in H. subst p. apply built_located. eapply add_fields_winv; [apply winv_init|exact Hf|exact E].
Qed.

End Located.

(* ---------- through merge and fold ---------- *)

Definition Q (src : list nline) (p : para) : Prop := Located src p /\ AllLoc src p.

Lemma first_last_in_ranges p run : In p run -> p_lines p <> [] -> In (first_last p) (para_ranges run).
Proof.
  intros Hin Hne. unfold para_ranges. apply in_flat_map. exists p. split; [exact Hin|]. destruct (p_lines p); [contradiction|now left].
Qed.

Lemma merge_run_Q src run : Forall (AllLoc src) run -> Q src (merge_run run).
Proof.
  intros Hall.
  assert (Hloc : forall w, In w (cw (pvals (merge_run run))) ->
            exists n, fst (first_last (merge_run run)) <= n <= snd (first_last (merge_run run)) /\ W src n w).
  { intros w Hw. rewrite merge_run_words in Hw. unfold cwp in Hw. apply in_flat_map in Hw as (p & Hp & Hw).
    unfold cw in Hw. apply in_flat_map in Hw as (v & Hv & Hw). rewrite Forall_forall in Hall.
    destruct (Hall p Hp v w Hv Hw) as (Hne & n & Hn & HW). exists n. split; [|exact HW].
    rewrite first_last_merge. pose proof (first_last_in_ranges p run Hp Hne) as Hin.
    destruct (para_ranges run) as [|r0 rs]; [destruct Hin|]. destruct (fold_mm_spec rs r0) as (H1 & _). cbv zeta in H1.
    destruct (H1 _ Hin) as [A B]. lia. }
  assert (Evals : pvals (merge_run run) = [lookup (lit "unknown") (para_to_dict (merge_run run))]).
  { unfold pvals. rewrite merge_run_dict. cbn [map snd]. unfold lookup. cbn [dict_get]. now rewrite str_eqb_refl. }
  split.
  - intros name r Hin w Hw.
    assert (En : name = lit "unknown" /\ r = first_last (merge_run run)).
    { rewrite first_last_merge. unfold merge_run in Hin. cbn [p_lines] in Hin. destruct Hin as [Heq|[]].
      apply pair_equal_spec in Heq as [E1 E2]. split; [now symmetry|]. symmetry. exact E2. }
    destruct En as [-> ->]. apply Hloc. rewrite Evals. unfold cw. cbn [flat_map]. rewrite app_nil_r. exact Hw.
  - intros v w Hv Hw. split; [apply merge_run_has_lines|]. apply Hloc. unfold cw. apply in_flat_map. exists v. now split.
Qed.

Lemma merge_unknown_Q src n : forall ps, Forall (Q src) ps -> Forall (Q src) (merge_unknown n ps).
Proof.
  induction n as [|n IH]; intros ps H; [exact H|]. destruct ps as [|p ps']; [constructor|]. cbn [merge_unknown].
  destruct (is_catchall p).
  - pose proof (ConserveFactsLite_span (p :: ps')) as Esp. destruct (span_catchall (p :: ps')) as [run rest]. cbn [fst snd] in Esp.
    rewrite Esp in H. apply Forall_app in H as [H1 H2]. specialize (IH rest H2).
    assert (Hkeep : Forall (Q src) (run ++ merge_unknown n rest)) by (apply Forall_app; now split).
    destruct run as [|q1 [|q2 run']]; try exact Hkeep. destruct (forallb is_all_unknown (q1 :: q2 :: run')); [|exact Hkeep].
    constructor; [|exact IH]. apply merge_run_Q. eapply Forall_impl; [|exact H1]. now intros q [_ Hq].
  - inversion H; subst. constructor; [assumption|now apply IH].
Qed.

Lemma dict_put_key_range (K : str) (R r : N * N) (d : pydict (N * N)) : NoDup (keys d) -> In (K, r) (dict_put K R d) -> r = R.
Proof.
  induction d as [|[a v] d IH]; cbn [dict_put keys map fst]; intros Hnd Hin.
  - destruct Hin as [Heq|[]]. now inversion Heq.
  - inversion Hnd as [|? ? Hni Hnd']; subst. destruct (str_eqb K a) eqn:E.
    + apply str_eqb_eq in E. subst a. destruct Hin as [Heq|Hin]; [now inversion Heq|]. exfalso. apply Hni. now apply (in_map fst) in Hin.
    + destruct Hin as [Heq|Hin]; [inversion Heq; subst; rewrite str_eqb_refl in E; discriminate|]. now apply IH.
Qed.

Lemma fold_pair_Located src p1 p2 s1 s2 : foldable p1 p2 = true -> PI p1 s1 -> PI p2 s2 -> chain (s1 ++ s2) -> AllLoc src p2 ->
  Located src (fold_pair p1 p2).
Proof.
  intros Hf H1 H2 Hc Hall. unfold foldable in Hf. apply andb_true_iff in Hf as [Hf _]. apply andb_true_iff in Hf as [Hf _].
  apply andb_true_iff in Hf as [Ht He]. destruct (p_type p1) eqn:Etype; try discriminate.
  assert (HFB : FB p1 s1) by (apply (pi_exact _ _ H1); unfold is_catchall; now rewrite Etype).
  destruct (license_fields p1 (fb_shape _ _ HFB) Etype) as (n & tx & c & Ef).
  unfold para_is_empty in He. rewrite Etype in He. apply negb_true_iff in He.
  unfold lic_name, lic_text, comment_text, get_field in He. rewrite Ef in He. cbn [find fst] in He.
  change (str_eqb (lit "license") (lit "license")) with true in He.
  change (str_eqb (lit "comment") (lit "license")) with false in He.
  change (str_eqb (lit "comment") (lit "comment")) with true in He. cbv iota in He. cbn [find fst] in He.
  change (str_eqb (lit "license") (lit "comment")) with false in He.
  change (str_eqb (lit "comment") (lit "comment")) with true in He. cbv iota in He.
  apply orb_false_iff in He as [He H4]. apply orb_false_iff in He as [He H3]. apply orb_false_iff in He as [H1' H2'].
  destruct (p_extra p1) as [|x ex] eqn:Eex; [|discriminate]. destruct c; [|discriminate]. destruct n; [|discriminate]. destruct tx; [|discriminate].
  set (text := join [10] (filter (fun v : str => nonempty v) (pvals p2))).
  assert (Ed : para_to_dict (fold_pair p1 p2) = [(lit "license", lic_dumps [] text); (lit "comment", [])]).
  { unfold fold_pair. destruct (first_last p2) as [f2 e2]. unfold para_to_dict, known_to_dict. cbn [p_fields p_extra].
    unfold set_license. rewrite Ef, Eex. cbn [map fst snd extra_to_dict fold_left].
    change (str_eqb (lit "license") (lit "license")) with true.
    change (str_eqb (lit "comment") (lit "license")) with false. cbv iota. reflexivity. }
  intros name r Hin w Hw. rewrite Ed in Hw. unfold lookup in Hw. cbn [dict_get] in Hw.
  destruct (str_eqb name (lit "license")) eqn:En.
  - apply str_eqb_eq in En. subst name. rewrite fold_range in Hin. apply dict_put_key_range in Hin; [|apply (fb_nodup _ _ HFB)]. subst r.
    rewrite cwords_lic_dumps_text in Hw. unfold text in Hw. rewrite cwords_join in Hw by (discriminate || reflexivity).
    fold (cw (filter (fun v : str => nonempty v) (pvals p2))) in Hw. rewrite cw_filter_nonempty in Hw.
    unfold cw in Hw. apply in_flat_map in Hw as (v & Hv & Hw). destruct (Hall v w Hv Hw) as (Hne & m & Hm & HW).
    exists m. split; [|exact HW]. cbn [fst snd].
    assert (Hs2 : s2 <> []).
    { intros ->. pose proof (pi_empty _ _ H2 eq_refl) as Hemp. rewrite Forall_forall in Hemp. rewrite (Hemp v Hv) in Hw. destruct Hw. }
    destruct (dict_get (lit "license") (p_lines p1)) as [[s e]|] eqn:Eg; [|lia].
    apply dict_get_value in Eg. rewrite (fb_ranges _ _ HFB) in Eg.
    destruct (pi_span _ _ H2 Hs2) as (_ & x & _ & Hx & _ & Hx1 & _).
    apply chain_app_inv in Hc as (Hc1 & _ & H12). pose proof (chain_fst_le _ _ Hc1 Eg) as Hse. pose proof (H12 _ _ Eg Hx) as Hb.
    unfold before in Hb. cbn [fst snd] in *. lia.
  - destruct (str_eqb name (lit "comment")); destruct Hw.
Qed.

Theorem fold_list_Located src n : forall ps segs, (length ps <= n)%nat -> Forall2 PI ps segs -> chain (concat segs) ->
  Forall (Q src) ps -> Forall (Located src) (fold_list ps).
Proof.
  induction n as [|n IH]; intros ps segs Hlen HP Hc HQ.
  - destruct ps; [constructor|cbn in Hlen; lia].
  - destruct ps as [|p1 [|p2 rest]].
    + constructor.
    + inversion HQ as [|? ? [Hl _] _]; subst. constructor; [exact Hl|constructor].
    + inversion HP as [|? s1 ? ? Hp1 HP']; subst. inversion HP' as [|? s2 ? srest Hp2 HP'']; subst.
      inversion HQ as [|? ? [Hl1 _] HQ']; subst. inversion HQ' as [|? ? [Hl2 Ha2] HQ'']; subst.
      change (fold_list (p1 :: p2 :: rest)) with (if foldable p1 p2 then fold_pair p1 p2 :: fold_list rest else p1 :: fold_list (p2 :: rest)).
      cbn [concat] in Hc. destruct (foldable p1 p2) eqn:Ef.
      * rewrite app_assoc in Hc. pose proof (chain_app_inv _ _ Hc) as (Hc12 & Hcr & _). constructor.
        -- now apply (fold_pair_Located src p1 p2 s1 s2).
        -- apply (IH rest srest); [cbn [length] in Hlen; lia|exact HP''|exact Hcr|exact HQ''].
      * pose proof (chain_app_inv _ _ Hc) as (_ & Hcr & _). constructor; [exact Hl1|].
        apply (IH (p2 :: rest) (s2 :: srest)); [cbn [length] in *; lia|exact HP'|exact Hcr|exact HQ'].
Qed.

Lemma ss_concat_in {A} (R : A -> A -> Prop) (ls : list (list A)) l : StronglySorted R (concat ls) -> In l ls -> StronglySorted R l.
Proof.
  induction ls as [|x ls IH]; [intros _ []|]. cbn [concat]. intros H [->|Hin].
  - now apply ss_app_inv in H.
  - apply IH; [|exact Hin]. now apply ss_app_inv in H.
Qed.

(* THE FINAL OBJECT: every word of the value of a field stands on a source line inside the range
   recorded for that field *)
Theorem from_text_words_located t gs ps : groups t = Ok gs -> from_text t = Ok ps ->
  Forall (Located (flat gs)) ps.
Proof.
  intros Eg H. unfold from_text in H. rewrite Eg in H. cbn [bind] in H. unfold from_groups in H.
  destruct (mapM _ gs) as [ps0|e] eqn:E; cbn [bind] in H; [|discriminate]. apply Ok_inj in H.
  destruct (groups_numbers t gs Eg) as [Hs _]. rewrite flat_nums in Hs.
  assert (Hsrc : forall g f, In g gs -> In f g -> in_src (flat gs) f).
  { intros g f Hg Hf. split.
    - intros l Hl. unfold flat. apply in_concat. exists (concat (map f_lines g)). split; [now apply (in_map (fun g0 => concat (map f_lines g0)))|].
      apply in_concat. exists (f_lines f). split; [now apply in_map|exact Hl].
    - apply (ss_concat_in _ _ _ Hs). apply in_map. apply in_concat. exists g. now split. }
  assert (F2 : Forall2 (fun g p => from_fields (classify g) g = Ok p) gs ps0) by (eapply mapM_shape; [|exact E]; auto).
  set (segs0 := map (fun g => map range_of (live g)) gs).
  assert (HF : Forall2 FB ps0 segs0).
  { unfold segs0. clear -F2. induction F2 as [|g p gs ps Hp _ IH]; cbn [map]; constructor; [|exact IH]. eapply from_fields_FB; exact Hp. }
  assert (HQ0 : Forall (Q (flat gs)) ps0).
  { assert (Hall : forall g, In g gs -> Forall (in_src (flat gs)) g) by (intros g Hg; apply Forall_forall; intros f Hf; now apply (Hsrc g)).
    clear Hsrc Hs. revert Hall. generalize (flat gs). intros src Hall. clear -F2 Hall. induction F2 as [|g p gs0 ps Hp _ IH]; [constructor|]. constructor.
    - apply (from_fields_located _ (classify g) g); [apply Hall; now left|exact Hp].
    - apply IH. intros g' Hg'. apply Hall. now right. }
  destruct (text_ranges_chain t gs Eg) as [HG _].
  assert (EG : concat segs0 = map range_of (all_live gs)).
  { unfold segs0, all_live. rewrite flat_map_concat_map, concat_map, map_map. reflexivity. }
  rewrite <- EG in HG.
  destruct (merge_unknown_PI (length ps0) ps0 segs0 HF HG) as (s1 & HP1 & E1). rewrite <- E1 in HG.
  pose proof (merge_unknown_Q (flat gs) (length ps0) ps0 HQ0) as HQ1.
  subst ps. unfold fold_license. destruct (Nat.leb (length (merge_unknown (length ps0) ps0)) 2).
  - eapply Forall_impl; [|exact HQ1]. now intros p [Hl _].
  - now apply (fold_list_Located (flat gs) (length (merge_unknown (length ps0) ps0)) _ s1).
Qed.
