(* Proofs for C12 (and C06): the deb822 grammar extended with blank (empty or
   whitespace-only) lines inside a field that are followed by a continuation line; the
   line-tracking parser reads them as lines of the field.  Replacing " ." markers by such
   lines changes the text of those lines only. *)
From Coq Require Import String.
From Coq Require Import Arith NArith List Bool Lia.
From DI Require Import Result PyStr PyStrFacts Codec Deb822 Deb822Facts BlankFacts Grammar822 Grammar822Facts
  VersionFacts ParseFacts DepsParseFacts WordFacts.
Import ListNotations.
Open Scope N_scope.

(* ---------- the extended grammar ---------- *)

Definition cont_line (c : str) : Prop := is_cont c = true /\ no_eol c.
Definition blank_line (c : str) : Prop := is_blank c = true /\ no_eol c.

Fixpoint conts_ok_b (cs : list str) : Prop :=
  match cs with
  | [] => True
  | c :: rest =>
      (cont_line c \/ (blank_line c /\ match rest with c2 :: _ => is_cont c2 = true | [] => False end)) /\
      conts_ok_b rest
  end.

Definition wf_gfield_b (f : gfield) : Prop :=
  name_ok (gf_name f) /\
  Forall (fun c => is_blank_tab c = true) (gf_gap f) /\
  strip (gf_first f) = gf_first f /\ no_eol (gf_first f) /\
  conts_ok_b (gf_conts f) /\
  (gf_first f <> [] \/ gf_conts f <> []).

Fixpoint wf_doc_b (ps : list (gpara * nat)) : Prop :=
  match ps with
  | [] => True
  | (p, k) :: ps' => p <> [] /\ Forall wf_gfield_b p /\ (ps' <> [] -> (0 < k)%nat) /\ wf_doc_b ps'
  end.

(* continuation lines are recorded without trailing blanks: a blank line as the empty text *)
Definition expected_field_b (n : N) (f : gfield) : field :=
  mkField (expected_name (gf_name f)) (mkLine n (gf_first f) :: number_from (n + 1) (map rstrip (gf_conts f))).

Fixpoint expected_para_b (n : N) (p : gpara) : list field :=
  match p with
  | [] => []
  | f :: p' => expected_field_b n f :: expected_para_b (n + N.of_nat (length (field_src f))) p'
  end.

Fixpoint expected_doc_b (n : N) (ps : list (gpara * nat)) : list (list field) :=
  match ps with
  | [] => []
  | (p, k) :: ps' => expected_para_b n p :: expected_doc_b (n + N.of_nat (para_len p) + N.of_nat k) ps'
  end.

(* the strict grammar is a special case *)
Lemma conts_strict cs : Forall (fun c => is_cont c = true /\ rstrip c = c /\ no_eol c) cs -> conts_ok_b cs /\ map rstrip cs = cs.
Proof.
  induction 1 as [|c cs (H1 & H2 & H3) _ [IH1 IH2]]; [split; [exact I|reflexivity]|]. split.
  - cbn [conts_ok_b]. split; [left; now split|exact IH1].
  - cbn [map]. now rewrite H2, IH2.
Qed.

Lemma wf_strict f : wf_gfield f -> wf_gfield_b f /\ expected_field_b = fun n g => expected_field_b n g.
Proof.
  intros (H1 & H2 & H3 & H4 & H5 & H6). split; [|reflexivity]. repeat split; try assumption. now apply conts_strict.
Qed.

Lemma expected_strict f n : wf_gfield f -> expected_field_b n f = expected_field n f.
Proof. intros (_ & _ & _ & _ & H5 & _). unfold expected_field_b, expected_field. now rewrite (proj2 (conts_strict _ H5)). Qed.

(* ---------- fields ---------- *)

Lemma map_length_rstrip cs : length (map rstrip cs) = length cs.
Proof. apply map_length. Qed.

Lemma blank_absorb_step f fs n c nxt rest : is_blank c = true ->
  is_decl (ln_val nxt) = false -> is_blank (ln_val nxt) = false ->
  groups_loop (mkLine n c :: nxt :: rest) (f :: fs) = groups_loop (nxt :: rest) (add_continuation f (mkLine n c) :: fs).
Proof. intros Hb Hd Hb2. cbn [groups_loop ln_val]. rewrite Hb, Hd, Hb2. reflexivity. Qed.

Lemma conts_step_b cs : forall n f fs rest, conts_ok_b cs ->
  groups_loop (number_from n cs ++ rest) (f :: fs) =
  groups_loop rest (mkField (f_name f) (rev (number_from n (map rstrip cs)) ++ f_lines f) :: fs).
Proof.
  induction cs as [|c cs IH]; intros n f fs rest H; [destruct f; reflexivity|].
  destruct H as [Hc Hcs]. cbn [number_from map app]. destruct Hc as [[Hc _]|[[Hb _] Hnext]].
  - cbn [groups_loop ln_val]. destruct (is_cont_facts c Hc) as [Hbl _]. rewrite Hbl, Hc.
    rewrite IH by exact Hcs. unfold add_continuation. cbn [f_name f_lines ln_num ln_val rev]. now rewrite <- app_assoc.
  - destruct cs as [|c2 cs']; [contradiction|]. destruct (is_cont_facts c2 Hnext) as [Hb2 Hd2].
    change (number_from (n + 1) (c2 :: cs') ++ rest) with (mkLine (n + 1) c2 :: (number_from (n + 1 + 1) cs' ++ rest)).
    rewrite blank_absorb_step by assumption.
    change (mkLine (n + 1) c2 :: (number_from (n + 1 + 1) cs' ++ rest)) with (number_from (n + 1) (c2 :: cs') ++ rest).
    rewrite IH by exact Hcs. unfold add_continuation. cbn [f_name f_lines ln_num ln_val rev]. now rewrite <- app_assoc.
Qed.

Definition rfield (f : field) : field := mkField (f_name f) (rev (f_lines f)).

Lemma field_step_b f n cur rest : wf_gfield_b f ->
  groups_loop (number_from n (field_src f) ++ rest) cur =
  groups_loop rest (rfield (expected_field_b n f) :: cur).
Proof.
  intros (Hn & Hgap & Hfs & _ & Hcs & _). destruct (decl_line_facts_gen f n Hn Hgap Hfs) as (Hd & Hb & Hc & Hf).
  unfold field_src. cbn [number_from app groups_loop ln_val]. rewrite Hb, Hd, Hf.
  assert (G : forall cur', groups_loop (number_from (n + 1) (gf_conts f) ++ rest)
     ({| f_name := expected_name (gf_name f); f_lines := [{| ln_num := n; ln_val := gf_first f |}] |} :: cur') =
     groups_loop rest (rfield (expected_field_b n f) :: cur')).
  { intros cur'. rewrite conts_step_b by exact Hcs. reflexivity. }
  destruct cur as [|g gs]; [apply G|]. rewrite Hc. apply G.
Qed.

Lemma para_step_b p : forall n cur rest, Forall wf_gfield_b p ->
  groups_loop (number_from n (flat_map field_src p) ++ rest) cur =
  groups_loop rest (rev (map rfield (expected_para_b n p)) ++ cur).
Proof.
  induction p as [|f p IH]; intros n cur rest H; [reflexivity|].
  inversion H as [|? ? Hf Hp]; subst. cbn [flat_map expected_para_b map rev].
  rewrite number_from_app, <- app_assoc, field_step_b by exact Hf. rewrite IH by exact Hp.
  now rewrite <- app_assoc.
Qed.

(* the last continuation line of a field is a real continuation line *)
Lemma conts_last_b (c : str) (pre : list str) : conts_ok_b (pre ++ [c]) -> is_cont c = true.
Proof.
  induction pre as [|x pre IH]; cbn [app conts_ok_b].
  - intros [[[H _]|[_ []]] _]. exact H.
  - intros [_ H]. now apply IH.
Qed.

Lemma rstrip_cont c : is_cont c = true -> is_blank (rstrip c) = false.
Proof.
  intros Hc. destruct (is_cont_facts c Hc) as [Hb _]. destruct (is_blank (rstrip c)) eqn:E; [|reflexivity].
  apply blank_rstrip in E. congruence.
Qed.

Lemma finish_rfield_b f n : wf_gfield_b f -> finish_field (rfield (expected_field_b n f)) = expected_field_b n f.
Proof.
  intros (_ & _ & Hs & _ & Hcs & Hne). unfold finish_field, rfield, expected_field_b. cbn [f_name f_lines]. f_equal.
  destruct (gf_conts f) as [|c0 cs0] eqn:Ec.
  - cbn [map number_from rev app drop_while_lines ln_val]. destruct Hne as [Hne|Hne]; [|contradiction].
    now rewrite (first_not_blank _ Hs Hne).
  - destruct (exists_last (l := c0 :: cs0)) as (cs & c & E); [discriminate|]. rewrite E in *.
    pose proof (conts_last_b c cs Hcs) as Hc. rewrite map_app. cbn [map rev].
    rewrite number_from_snoc, rev_app_distr. cbn [rev app drop_while_lines ln_val]. rewrite (rstrip_cont c Hc).
    set (x := {| ln_num := n + 1 + N.of_nat (length (map rstrip cs)); ln_val := rstrip c |}).
    set (y := {| ln_num := n; ln_val := gf_first f |}).
    change (x :: rev (number_from (n + 1) (map rstrip cs)) ++ [y]) with (rev [x] ++ rev (number_from (n + 1) (map rstrip cs)) ++ rev [y]).
    rewrite app_assoc, <- !rev_app_distr, rev_involutive. reflexivity.
Qed.

Lemma finish_para_b p : forall n, Forall wf_gfield_b p ->
  map finish_field (map rfield (expected_para_b n p)) = expected_para_b n p.
Proof.
  induction p as [|f p IH]; intros n H; [reflexivity|]. inversion H; subst.
  cbn [expected_para_b map]. rewrite finish_rfield_b by assumption. f_equal. now apply IH.
Qed.

Lemma flush_para_b p n : p <> [] -> Forall wf_gfield_b p ->
  flush (rev (map rfield (expected_para_b n p)) ++ []) = [expected_para_b n p].
Proof.
  intros Hne H. rewrite app_nil_r. unfold flush.
  destruct (rev (map rfield (expected_para_b n p))) eqn:E.
  - apply (f_equal (@length field)) in E. rewrite rev_length, map_length in E. destruct p; [contradiction|discriminate].
  - rewrite <- E, rev_involutive, finish_para_b by exact H. reflexivity.
Qed.

Lemma doc_next_ok_b ps n : wf_doc_b ps -> next_ok (number_from n (doc_src ps)).
Proof.
  destruct ps as [|[p k] ps]; [constructor|]. intros (Hne & Hf & _). cbn [doc_src].
  destruct p as [|f p]; [contradiction|]. inversion Hf as [|? ? (Hn & Hg & Hs & _) _]; subst.
  cbn [flat_map field_src app number_from next_ok ln_val].
  now destruct (decl_line_facts_gen f n Hn Hg Hs) as (Hd & _).
Qed.

Theorem wf_doc_b_parses ps : forall n, wf_doc_b ps ->
  groups_loop (number_from n (doc_src ps)) [] = Ok (expected_doc_b n ps).
Proof.
  induction ps as [|[p k] ps IH]; intros n Hw; [reflexivity|].
  destruct Hw as (Hne & Hf & Hk & Hw). cbn [doc_src expected_doc_b].
  rewrite number_from_app, para_step_b by exact Hf. fold (para_len p).
  destruct (rev (map rfield (expected_para_b n p)) ++ []) as [|g gs] eqn:E.
  { apply (f_equal (@length field)) in E. rewrite app_nil_r, rev_length, map_length in E. destruct p; [contradiction|discriminate]. }
  destruct (Nat.eq_dec k 0) as [->|Hk0].
  - destruct ps as [|x ps]; [|assert (0 < 0)%nat by (apply Hk; discriminate); lia].
    cbn [repeat app doc_src number_from groups_loop expected_doc_b]. rewrite <- E, flush_para_b by assumption. reflexivity.
  - rewrite number_from_app, blanks_flush; [|lia|apply doc_next_ok_b; exact Hw].
    rewrite repeat_length, IH by exact Hw. cbn [rmap]. rewrite <- E, flush_para_b by assumption. reflexivity.
Qed.

(* ---------- from text ---------- *)

Lemma conts_no_eol_b cs : conts_ok_b cs -> Forall (no_lb is_lf_cr) cs.
Proof.
  induction cs as [|c cs IH]; [constructor|]. intros [Hc Hcs]. constructor; [|now apply IH].
  destruct Hc as [[_ H]|[[_ H] _]]; exact H.
Qed.

Lemma doc_src_no_eol_b ps : wf_doc_b ps -> Forall (no_lb is_lf_cr) (doc_src ps).
Proof.
  induction ps as [|[p k] ps IH]; intros Hw; [constructor|]. destruct Hw as (_ & Hf & _ & Hw).
  cbn [doc_src]. repeat (apply Forall_app; split).
  - clear -Hf. induction Hf as [|f p Hf _ IH]; [constructor|]. cbn [flat_map field_src]. constructor.
    + destruct Hf as (Hn & Hg & _ & Hfirst & _). unfold decl_text, no_lb. repeat (apply Forall_app; split).
      * destruct (gf_name f); [contradiction|]. destruct Hn as [_ Hall]. eapply Forall_impl; [|exact Hall].
        intros x Hx. destruct (alnum_name_char x Hx) as (_ & _ & _ & _ & Hs).
        unfold is_lf_cr. destruct (N.eqb_spec x 10) as [->|]; [discriminate|]. destruct (N.eqb_spec x 13) as [->|]; [discriminate|]. reflexivity.
      * repeat constructor.
      * eapply Forall_impl; [|exact Hg]. intros x Hx. unfold is_blank_tab in Hx.
        apply orb_true_iff in Hx as [Hx|Hx]; apply N.eqb_eq in Hx; subst; reflexivity.
      * exact Hfirst.
    + apply Forall_app; split; [|exact IH]. apply conts_no_eol_b. apply Hf.
  - clear. induction k; constructor; [constructor|assumption].
  - now apply IH.
Qed.

Theorem wf_doc_b_text_parses ps : wf_doc_b ps -> groups (doc_text ps) = Ok (expected_doc_b 1 ps).
Proof.
  intros Hw. unfold groups, groups_from_lines, lines_from_text, doc_text.
  rewrite text_lines_terminated by now apply doc_src_no_eol_b. now apply wf_doc_b_parses.
Qed.
