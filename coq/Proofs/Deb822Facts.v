(* Proofs for C05 (and used by C06, C07, C10, C12): the line-tracking state machine. *)
From Coq Require Import String.
From Coq Require Import Arith NArith List Bool Lia Sorted.
From DI Require Import Result PyStr PyStrFacts Deb822 VersionFacts CodecFacts.
Import ListNotations.
Open Scope N_scope.

(* ---------- declarations always split ---------- *)

Lemma is_name_char_not_colon c : is_name_char c = true -> c <> 58.
Proof. intros H ->. discriminate H. Qed.

Lemma alpha_nospace c : is_ascii_alpha c = true -> is_space c = false.
Proof.
  intros H. assert (Hb : c < 128).
  { unfold is_ascii_alpha, is_ascii_upper, is_ascii_lower in H.
    apply orb_true_iff in H as [H|H]; apply andb_true_iff in H as [_ H]; apply N.leb_le in H; lia. }
  set (P := fun c => implb (is_ascii_alpha c) (negb (is_space c))).
  assert (G : P c = true) by (apply (VersionFacts.all_below_spec 128 P); [vm_compute; reflexivity|exact Hb]).
  unfold P in G. rewrite H in G. now apply negb_true_iff in G.
Qed.

Lemma is_az_ic_nospace c : is_az_ic c = true -> is_space c = false.
Proof.
  unfold is_az_ic. intros H.
  apply orb_true_iff in H as [H|H]; [|apply N.eqb_eq in H; subst; reflexivity].
  apply orb_true_iff in H as [H|H]; [|apply N.eqb_eq in H; subst; reflexivity].
  apply orb_true_iff in H as [H|H]; [|apply N.eqb_eq in H; subst; reflexivity].
  apply orb_true_iff in H as [H|H]; [|apply N.eqb_eq in H; subst; reflexivity].
  now apply alpha_nospace.
Qed.

Lemma lower_name_nonempty s : s <> [] -> lower_name s <> [].
Proof.
  destruct s as [|c s]; [contradiction|]. intros _. cbn [lower_name].
  destruct (c =? 304); [discriminate|]. destruct (c =? 8490); discriminate.
Qed.

Lemma from_line_some l : is_decl (ln_val l) = true -> exists f, from_line l = Some f /\
  f_lines f = [mkLine (ln_num l) (strip (snd (partition_char 58 (ln_val l))))].
Proof.
  intros H. unfold from_line. rewrite H. cbn [negb].
  unfold is_decl in H. destruct (ln_val l) as [|c v] eqn:Ev; [discriminate|].
  apply andb_true_iff in H as [Hc Hd].
  pose proof (partition_char_spec 58 (c :: v)) as Hp.
  destruct (partition_char 58 (c :: v)) as [[name f] value]. cbn [snd].
  assert (Hname : strip name <> []).
  { (* the name starts with the non-space character c *)
    assert (En : exists n', name = c :: n').
    { destruct f.
      - destruct Hp as [E Hn]. destruct name as [|x n']; cbn in E.
        + injection E as Ec _. subst c. discriminate Hc.
        + injection E as Ec _. subst x. now exists n'.
      - destruct Hp as (-> & _ & _). now exists v. }
    destruct En as (n' & ->). pose proof (is_az_ic_nospace c Hc) as Hs.
    unfold strip, strip_by, lstrip_by. cbn [drop_while]. rewrite Hs.
    rewrite rstrip_by_cons_keep by exact Hs. discriminate. }
  pose proof (lower_name_nonempty _ Hname) as Hl.
  destruct (lower_name (strip name)) as [|x n] eqn:El; [contradiction|].
  eexists. split; reflexivity.
Qed.

(* ---------- the parser never raises ---------- *)

Theorem groups_loop_total lines : forall cur, exists gs, groups_loop lines cur = Ok gs.
Proof.
  induction lines as [|l rest IH]; intros cur; [eexists; reflexivity|].
  cbn [groups_loop].
  destruct (is_blank (ln_val l)).
  - destruct cur as [|f fs].
    + apply IH.
    + match goal with |- context [if ?b then _ else _] => destruct b end.
      * apply IH.
      * destruct (IH []) as (gs & ->). eexists. reflexivity.
  - destruct cur as [|f fs].
    + destruct (is_decl (ln_val l)) eqn:Ed.
      * destruct (from_line_some l Ed) as (nf & -> & _). apply IH.
      * destruct (IH []) as (gs & ->). eexists. reflexivity.
    + destruct (is_cont (ln_val l)); [apply IH|].
      destruct (is_decl (ln_val l)) eqn:Ed.
      * destruct (from_line_some l Ed) as (nf & -> & _). apply IH.
      * destruct (IH []) as (gs & ->). eexists. reflexivity.
Qed.

Theorem groups_total t : exists gs, groups t = Ok gs.
Proof. apply groups_loop_total. Qed.

(* ---------- accounting of source lines ---------- *)

(* an output line is the source line with the same number and a value derived from it *)
Definition line_ok (s o : nline) : Prop :=
  ln_num o = ln_num s /\
  (ln_val o = rstrip (ln_val s) \/ ln_val o = ln_val s \/
   (is_decl (ln_val s) = true /\ ln_val o = strip (snd (partition_char 58 (ln_val s))))).

(* a source line that may go unreported: blank, or a declaration without value *)
Definition droppable (s : nline) : Prop :=
  is_blank (ln_val s) = true \/
  (is_decl (ln_val s) = true /\ strip (snd (partition_char 58 (ln_val s))) = []).

(* [acc src out]: out accounts for src, in order, each source line at most once *)
Inductive acc : list nline -> list nline -> Prop :=
| acc_nil : acc [] []
| acc_keep s o src out : line_ok s o -> acc src out -> acc (s :: src) (o :: out)
| acc_drop s src out : droppable s -> acc src out -> acc (s :: src) out.

Lemma acc_app a x b y : acc a x -> acc b y -> acc (a ++ b) (x ++ y).
Proof. induction 1; cbn [app]; intros Hb; [exact Hb|apply acc_keep; auto|apply acc_drop; auto]. Qed.

Lemma blank_rstrip v : is_blank (rstrip v) = true -> is_blank v = true.
Proof.
  unfold is_blank, all_space, rstrip. intros H.
  destruct (forallb is_space v) eqn:E; [reflexivity|]. rewrite (forallb_false_rstrip is_space v E) in H. discriminate.
Qed.

Lemma line_ok_blank_droppable s o : line_ok s o -> is_blank (ln_val o) = true -> droppable s.
Proof.
  intros [_ [E|[E|[Hd E]]]] Hb; rewrite E in Hb.
  - left. now apply blank_rstrip.
  - now left.
  - right. split; [exact Hd|]. now apply CodecFacts.strip_not_blank.
Qed.

(* dropping output lines whose value is blank keeps the accounting *)
Inductive drops : list nline -> list nline -> Prop :=
| drops_nil : drops [] []
| drops_keep o a b : drops a b -> drops (o :: a) (o :: b)
| drops_skip o a b : is_blank (ln_val o) = true -> drops a b -> drops (o :: a) b.

Lemma drops_refl a : drops a a.
Proof. induction a; constructor; assumption. Qed.

Lemma drops_app a b c d : drops a b -> drops c d -> drops (a ++ c) (b ++ d).
Proof. induction 1; cbn [app]; intros H2; [exact H2|apply drops_keep; auto|apply drops_skip; auto]. Qed.

Lemma acc_drops src out : acc src out -> forall out', drops out out' -> acc src out'.
Proof.
  induction 1 as [|s o src out Hok Hacc IH|s src out Hd Hacc IH]; intros out' Hdr.
  - inversion Hdr; subst. constructor.
  - inversion Hdr; subst.
    + apply acc_keep; [exact Hok|now apply IH].
    + apply acc_drop; [eapply line_ok_blank_droppable; eassumption|now apply IH].
  - apply acc_drop; [exact Hd|now apply IH].
Qed.

Lemma drops_rstrip rl : drops (rev rl) (rev (drop_while_lines (fun l => is_blank (ln_val l)) rl)).
Proof.
  induction rl as [|l rl IH]; [constructor|]. cbn [drop_while_lines rev].
  destruct (is_blank (ln_val l)) eqn:E.
  - rewrite <- (app_nil_r (rev (drop_while_lines _ rl))). apply drops_app; [exact IH|].
    apply drops_skip; [exact E|constructor].
  - cbn [rev]. apply drops_refl.
Qed.

(* the lines held by the group being built, and the lines of finished groups, in order *)
Definition held (cur : rgroup) : list nline := concat (map (fun f => rev (f_lines f)) (rev cur)).
Definition flat (gs : list (list field)) : list nline := concat (map (fun g => concat (map f_lines g)) gs).

Lemma flat_app a b : flat (a ++ b) = flat a ++ flat b.
Proof. unfold flat. now rewrite map_app, concat_app. Qed.

Lemma held_cons f cur : held (f :: cur) = held cur ++ rev (f_lines f).
Proof. unfold held. cbn [rev]. rewrite map_app, concat_app. cbn. now rewrite app_nil_r. Qed.

Lemma held_add f l fs : held (add_continuation f l :: fs) = held (f :: fs) ++ [mkLine (ln_num l) (rstrip (ln_val l))].
Proof. rewrite !held_cons. unfold add_continuation. cbn [f_lines rev]. now rewrite app_assoc. Qed.

Lemma flat_flush cur : drops (held cur) (flat (flush cur)).
Proof.
  unfold flush. destruct cur as [|f fs] eqn:E; [constructor|]. rewrite <- E. clear E f fs.
  unfold flat, held. cbn [map concat]. rewrite app_nil_r. rewrite map_map.
  induction (rev cur) as [|f l IH]; [constructor|]. cbn [map concat].
  apply drops_app; [|exact IH]. unfold finish_field. cbn [f_lines]. apply drops_rstrip.
Qed.

Lemma acc_snoc pre out s o : acc pre out -> line_ok s o -> acc (pre ++ [s]) (out ++ [o]).
Proof. intros H Hok. apply acc_app; [exact H|]. apply acc_keep; [exact Hok|constructor]. Qed.

Lemma acc_snoc_drop pre out s : acc pre out -> droppable s -> acc (pre ++ [s]) out.
Proof.
  intros H Hd. rewrite <- (app_nil_r out). apply acc_app; [exact H|]. apply acc_drop; [exact Hd|constructor].
Qed.

Lemma Ok_inj {A} (a b : A) : Ok a = Ok b -> a = b.
Proof. intros H. now inversion H. Qed.

Theorem groups_loop_acc lines : forall pre cur gs,
  acc pre (held cur) -> groups_loop lines cur = Ok gs -> acc (pre ++ lines) (flat gs).
Proof.
  induction lines as [|l rest IH]; intros pre cur gs Hpre H.
  - cbn in H. inversion H; subst. rewrite app_nil_r. eapply acc_drops; [exact Hpre|apply flat_flush].
  - cbn [groups_loop] in H.
    replace (pre ++ l :: rest) with ((pre ++ [l]) ++ rest) by (rewrite <- app_assoc; reflexivity).
    destruct (is_blank (ln_val l)) eqn:Eb.
    + assert (Hdl : droppable l) by (left; exact Eb).
      destruct cur as [|f fs].
      * apply (IH (pre ++ [l]) [] gs); [|exact H]. now apply acc_snoc_drop.
      * match type of H with context [if ?b then _ else _] => destruct b end.
        -- apply (IH (pre ++ [l]) (add_continuation f l :: fs) gs); [|exact H]. rewrite held_add. apply acc_snoc; [exact Hpre|].
           split; [reflexivity|now left].
        -- destruct (groups_loop rest []) as [gs'|e] eqn:Er; [|discriminate]. cbn [rmap] in H. apply Ok_inj in H. subst gs.
           rewrite flat_app. apply acc_app.
           ++ apply acc_snoc_drop; [|exact Hdl]. eapply acc_drops; [exact Hpre|apply flat_flush].
           ++ apply (IH [] [] gs' acc_nil Er).
    + destruct cur as [|f fs].
      * destruct (is_decl (ln_val l)) eqn:Ed.
        -- destruct (from_line_some l Ed) as (nf & Enf & Hl). rewrite Enf in H.
           apply (IH (pre ++ [l]) [nf] gs); [|exact H]. rewrite held_cons, Hl. cbn [rev app].
           apply acc_snoc; [exact Hpre|]. split; [reflexivity|]. right. right. split; [exact Ed|reflexivity].
        -- destruct (groups_loop rest []) as [gs'|e] eqn:Er; [|discriminate]. cbn [rmap] in H. apply Ok_inj in H. subst gs.
           change (unknown_group l :: gs') with ([unknown_group l] ++ gs'). rewrite flat_app. apply acc_app.
           ++ change (flat [unknown_group l]) with ([] ++ [l]). apply acc_snoc; [exact Hpre|].
              split; [reflexivity|right; now left].
           ++ apply (IH [] [] gs' acc_nil Er).
      * destruct (is_cont (ln_val l)).
        -- apply (IH (pre ++ [l]) (add_continuation f l :: fs) gs); [|exact H]. rewrite held_add. apply acc_snoc; [exact Hpre|].
           split; [reflexivity|now left].
        -- destruct (is_decl (ln_val l)) eqn:Ed.
           ++ destruct (from_line_some l Ed) as (nf & Enf & Hl). rewrite Enf in H.
              apply (IH (pre ++ [l]) (nf :: f :: fs) gs); [|exact H]. rewrite (held_cons nf), Hl. cbn [rev app].
              apply acc_snoc; [exact Hpre|]. split; [reflexivity|]. right. right. split; [exact Ed|reflexivity].
           ++ destruct (groups_loop rest []) as [gs'|e] eqn:Er; [|discriminate]. cbn [rmap] in H. apply Ok_inj in H. subst gs.
              change (flush (f :: fs) ++ unknown_group l :: gs') with ((flush (f :: fs) ++ [unknown_group l]) ++ gs').
              rewrite flat_app. apply acc_app.
              ** rewrite flat_app. change (flat [unknown_group l]) with [l]. apply acc_snoc.
                 --- eapply acc_drops; [exact Hpre|apply flat_flush].
                 --- split; [reflexivity|right; now left].
              ** apply (IH [] [] gs' acc_nil Er).
Qed.

Theorem groups_acc t gs : groups t = Ok gs -> acc (lines_from_text t) (flat gs).
Proof. intros H. apply (groups_loop_acc (lines_from_text t) [] [] gs acc_nil H). Qed.

(* ---------- consequences ---------- *)

(* every reported line comes from a source line; every unreported source line is droppable *)
Lemma acc_reported src out : acc src out -> forall o, In o out -> exists s, In s src /\ line_ok s o.
Proof.
  induction 1 as [|s o src out Hok _ IH|s src out _ _ IH]; intros x Hx.
  - destruct Hx.
  - destruct Hx as [<-|Hx]; [exists s; split; [now left|exact Hok]|].
    destruct (IH x Hx) as (s' & Hs & Hl). exists s'. split; [now right|exact Hl].
  - destruct (IH x Hx) as (s' & Hs & Hl). exists s'. split; [now right|exact Hl].
Qed.

Lemma acc_unreported src out : acc src out -> forall s, In s src ->
  (exists o, In o out /\ line_ok s o) \/ droppable s.
Proof.
  induction 1 as [|s o src out Hok _ IH|s src out Hd _ IH]; intros x Hx.
  - destruct Hx.
  - destruct Hx as [<-|Hx]; [left; exists o; split; [now left|exact Hok]|].
    destruct (IH x Hx) as [(o' & Ho & Hl)|Hd]; [left; exists o'; split; [now right|exact Hl]|now right].
  - destruct Hx as [<-|Hx]; [now right|]. destruct (IH x Hx) as [(o' & Ho & Hl)|Hd']; [left; exists o'; auto|now right].
Qed.

(* reported numbers: a subsequence of the source numbers *)
Inductive subseq {A} : list A -> list A -> Prop :=
| sub_nil : subseq [] []
| sub_keep x a b : subseq a b -> subseq (x :: a) (x :: b)
| sub_skip x a b : subseq a b -> subseq a (x :: b).

Lemma acc_numbers src out : acc src out -> subseq (map ln_num out) (map ln_num src).
Proof.
  induction 1 as [|s o src out [E _] _ IH|s src out _ _ IH]; cbn [map]; [constructor| |].
  - rewrite E. now constructor.
  - now constructor.
Qed.

Lemma subseq_In {A} (a b : list A) : subseq a b -> forall x, In x a -> In x b.
Proof. induction 1; intros y Hy; [destruct Hy|destruct Hy as [<-|Hy]; [now left|right; auto]|right; auto]. Qed.

Lemma subseq_sorted (a b : list N) : subseq a b -> StronglySorted N.lt b -> StronglySorted N.lt a.
Proof.
  induction 1 as [|x a b Hs IH|x a b Hs IH]; intros Hb; [constructor| |].
  - inversion Hb as [|? ? Hb' Hf]; subst. constructor; [now apply IH|].
    apply Forall_forall. intros y Hy. rewrite Forall_forall in Hf. apply Hf. eapply subseq_In; eassumption.
  - inversion Hb; subst. now apply IH.
Qed.

Lemma number_from_nums n ls : map ln_num (number_from n ls) = map (fun i => n + N.of_nat i) (seq 0 (length ls)).
Proof.
  revert n; induction ls as [|l ls IH]; intros n; [reflexivity|]. cbn [number_from map length seq].
  rewrite IH. f_equal; [cbn; now rewrite N.add_0_r|]. rewrite <- seq_shift, map_map. apply map_ext. intros i.
  rewrite Nat2N.inj_succ. lia.
Qed.

Lemma number_from_sorted n ls : StronglySorted N.lt (map ln_num (number_from n ls)).
Proof.
  revert n; induction ls as [|l ls IH]; intros n; [constructor|]. cbn [number_from map]. constructor; [apply IH|].
  rewrite number_from_nums. apply Forall_forall. intros x Hx. apply in_map_iff in Hx as (i & <- & _).
  cbn [ln_num]. set (k := N.of_nat i). lia.
Qed.

(* numbers are true (between 1 and the number of source lines) and strictly increasing over
   the whole result, so every source line is reported at most once *)
Theorem groups_numbers t gs : groups t = Ok gs ->
  StronglySorted N.lt (map ln_num (flat gs)) /\
  Forall (fun n => 1 <= n <= N.of_nat (length (text_lines t))) (map ln_num (flat gs)).
Proof.
  intros H. pose proof (acc_numbers _ _ (groups_acc t gs H)) as Hs. unfold lines_from_text in Hs. split.
  - eapply subseq_sorted; [exact Hs|apply number_from_sorted].
  - apply Forall_forall. intros n Hn. apply (subseq_In _ _ Hs) in Hn.
    rewrite number_from_nums in Hn. apply in_map_iff in Hn as (i & <- & Hi). apply in_seq in Hi.
    lia.
Qed.

(* ---------- line numbers are contiguous inside a field ---------- *)

(* on a list of numbers in reverse order *)
Fixpoint rconsec (ns : list N) : Prop :=
  match ns with
  | a :: ((b :: _) as t) => a = b + 1 /\ rconsec t
  | _ => True
  end.

Definition consec (ns : list N) : Prop := rconsec (rev ns).

Lemma rconsec_tail a t : rconsec (a :: t) -> rconsec t.
Proof. destruct t as [|b t]; [intros; exact I|]. now intros [_ H]. Qed.

Lemma rconsec_drop p rl : rconsec (map ln_num rl) -> rconsec (map ln_num (drop_while_lines p rl)).
Proof.
  induction rl as [|l rl IH]; [intros; exact I|]. cbn [drop_while_lines]. intros H.
  destruct (p l); [|exact H]. apply IH. cbn [map] in H. now apply rconsec_tail in H.
Qed.

Definition field_ok (f : field) : Prop := rconsec (map ln_num (f_lines f)).

Lemma finish_consec f : field_ok f -> consec (map ln_num (f_lines (finish_field f))).
Proof.
  intros H. unfold finish_field, consec. cbn [f_lines]. rewrite map_rev, rev_involutive. now apply rconsec_drop.
Qed.

(* the group being built: every field is contiguous and the current field ends just
   before source line number [next] *)
Definition cur_ok (next : N) (cur : rgroup) : Prop :=
  Forall field_ok cur /\
  match cur with
  | f :: _ => match f_lines f with l :: _ => ln_num l + 1 = next | [] => False end
  | [] => True
  end.

Definition group_consec (g : list field) : Prop := Forall (fun f => consec (map ln_num (f_lines f))) g.

Lemma flush_consec next cur : cur_ok next cur -> Forall group_consec (flush cur).
Proof.
  intros [Hf _]. unfold flush. destruct cur as [|f fs] eqn:E; [constructor|]. rewrite <- E in *. clear E.
  constructor; [|constructor]. unfold group_consec. rewrite Forall_map. apply Forall_rev.
  eapply Forall_impl; [|exact Hf]. intros x Hx. now apply finish_consec.
Qed.

Lemma Forall_app_intro {A} (P : A -> Prop) a b : Forall P a -> Forall P b -> Forall P (a ++ b).
Proof. intros. apply Forall_app. now split. Qed.

Theorem groups_loop_consec ls : forall n cur gs,
  cur_ok n cur -> groups_loop (number_from n ls) cur = Ok gs -> Forall group_consec gs.
Proof.
  induction ls as [|v ls IH]; intros n cur gs Hc H.
  - cbn in H. apply Ok_inj in H. subst gs. now apply (flush_consec n).
  - cbn [number_from groups_loop ln_val ln_num] in H.
    assert (Hadd : forall f fs, cur_ok n (f :: fs) -> cur_ok (n + 1) (add_continuation f (mkLine n v) :: fs)).
    { intros f fs [Hf Hl]. inversion Hf as [|? ? Hf1 Hf2]; subst. unfold field_ok in Hf1.
      destruct (f_lines f) as [|l rl] eqn:El; [contradiction|]. cbn iota in Hl. split.
      - constructor; [|exact Hf2]. unfold field_ok, add_continuation. cbn [f_lines map ln_num]. rewrite El.
        cbn [map rconsec]. cbn [map] in Hf1. split; [lia|exact Hf1].
      - cbn [f_lines add_continuation ln_num]. reflexivity. }
    assert (Hnew : forall nf cur0, from_line (mkLine n v) = Some nf -> Forall field_ok cur0 -> cur_ok (n + 1) (nf :: cur0)).
    { intros nf cur0 E Hf. unfold from_line in E. cbn [ln_val ln_num] in E.
      destruct (negb (is_decl v)); [discriminate|]. destruct (partition_char 58 v) as [[a b] c].
      destruct (lower_name (strip a)); [discriminate|]. inversion E; subst. split.
      - constructor; [exact I|exact Hf].
      - reflexivity. }
    destruct (is_blank v).
    + destruct cur as [|f fs].
      * apply (IH (n + 1) [] gs); [split; [constructor|exact I]|exact H].
      * match type of H with context [if ?b then _ else _] => destruct b end.
        -- apply (IH (n + 1) (add_continuation f (mkLine n v) :: fs) gs); [now apply Hadd|exact H].
        -- destruct (groups_loop (number_from (n + 1) ls) []) as [gs'|e] eqn:Er; [|discriminate].
           cbn [rmap] in H. apply Ok_inj in H. subst gs. apply Forall_app_intro; [now apply (flush_consec n)|].
           apply (IH (n + 1) [] gs'); [split; [constructor|exact I]|exact Er].
    + destruct cur as [|f fs].
      * destruct (is_decl v) eqn:Ed.
        -- destruct (from_line (mkLine n v)) as [nf|] eqn:Enf; [|discriminate].
           apply (IH (n + 1) [nf] gs); [apply Hnew; [reflexivity|constructor]|exact H].
        -- destruct (groups_loop (number_from (n + 1) ls) []) as [gs'|e] eqn:Er; [|discriminate].
           cbn [rmap] in H. apply Ok_inj in H. subst gs. constructor.
           ++ repeat constructor.
           ++ apply (IH (n + 1) [] gs'); [split; [constructor|exact I]|exact Er].
      * destruct (is_cont v).
        -- apply (IH (n + 1) (add_continuation f (mkLine n v) :: fs) gs); [now apply Hadd|exact H].
        -- destruct (is_decl v) eqn:Ed.
           ++ destruct (from_line (mkLine n v)) as [nf|] eqn:Enf; [|discriminate].
              apply (IH (n + 1) (nf :: f :: fs) gs); [apply Hnew; [reflexivity|now destruct Hc]|exact H].
           ++ destruct (groups_loop (number_from (n + 1) ls) []) as [gs'|e] eqn:Er; [|discriminate].
              cbn [rmap] in H. apply Ok_inj in H. subst gs. apply Forall_app_intro; [now apply (flush_consec n)|].
              constructor; [repeat constructor|].
              apply (IH (n + 1) [] gs'); [split; [constructor|exact I]|exact Er].
Qed.

Theorem groups_consec t gs : groups t = Ok gs -> Forall group_consec gs.
Proof. intros H. apply (groups_loop_consec (text_lines t) 1 [] gs); [split; [constructor|exact I]|exact H]. Qed.

(* a reported field never ends in a blank line (trailing blank lines are trimmed) *)
Lemma finish_last_nonblank f :
  match rev (f_lines (finish_field f)) with l :: _ => is_blank (ln_val l) = false | [] => True end.
Proof.
  unfold finish_field. cbn [f_lines]. rewrite rev_involutive.
  induction (f_lines f) as [|l rl IH]; [exact I|]. cbn [drop_while_lines].
  destruct (is_blank (ln_val l)) eqn:E; [exact IH|exact E].
Qed.

(* the source lines of a text hold no LF or CR *)
Theorem text_lines_no_terminator t : Forall (no_lb is_lf_cr) (text_lines t).
Proof. apply splitlines_no_lb. Qed.

(* and a text whose lines are joined by LF (no terminator inside, last line not empty) has exactly those lines *)
Theorem text_lines_join ls : Forall (no_lb is_lf_cr) ls -> ls <> [] -> last ls [0] <> [] ->
  text_lines (join [10] ls) = ls.
Proof. intros. now apply splitlines_join. Qed.
