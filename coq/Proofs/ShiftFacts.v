(* Proofs for C10: k blank lines at the top of the text shift every recorded range of the
   copyright object by exactly k and change nothing else (for texts in which every paragraph
   has at least one field with a value). *)
From Coq Require Import String.
From Coq Require Import Arith NArith List Bool Lia.
From DI Require Import Result PyStr PyStrFacts Codec Deb822 Deb822Facts Debcon Copyright CopyrightFacts RangeFacts Dep5Facts.
Import ListNotations.
Open Scope N_scope.

Definition shift_rng (k : N) (r : N * N) : N * N := (fst r + k, snd r + k).
Definition shift_lines (k : N) (d : pydict (N * N)) : pydict (N * N) := map (fun kv => (fst kv, shift_rng k (snd kv))) d.
Definition shift_para (k : N) (p : para) : para := mkPara (p_type p) (p_fields p) (p_extra p) (shift_lines k (p_lines p)).
Definition shift_b (k : N) (b : builder) : builder :=
  mkB (b_known b) (b_extra b) (shift_lines k (b_lines b)) (b_seen b) (b_suffix b).

Lemma dict_put_shift k name r d : dict_put name (shift_rng k r) (shift_lines k d) = shift_lines k (dict_put name r d).
Proof.
  induction d as [|[a v] d IH]; [reflexivity|]. cbn [shift_lines map dict_put fst snd].
  destruct (str_eqb name a); [reflexivity|]. cbn [map fst snd]. f_equal. exact IH.
Qed.

Lemma dict_get_shift k name d : dict_get name (shift_lines k d) = option_map (shift_rng k) (dict_get name d).
Proof.
  induction d as [|[a v] d IH]; [reflexivity|]. cbn [shift_lines map dict_get fst snd]. destruct (str_eqb name a); [reflexivity|exact IH].
Qed.

Lemma field_text_shift k f : field_text (shift_field k f) = field_text f.
Proof. unfold field_text, shift_field. cbn [f_lines]. now rewrite map_map. Qed.

Lemma first_content_shift k f : f_lines f <> [] -> first_content_line (shift_field k f) = first_content_line f + k.
Proof.
  intros Hne. unfold first_content_line, shift_field. cbn [f_lines].
  assert (G : find (fun l => negb (is_blank (ln_val l))) (map (shift_line k) (f_lines f)) =
              option_map (shift_line k) (find (fun l => negb (is_blank (ln_val l))) (f_lines f))).
  { clear Hne. induction (f_lines f) as [|l ls IH]; [reflexivity|]. cbn [map find shift_line ln_val]. destruct (negb (is_blank (ln_val l))); [reflexivity|exact IH]. }
  rewrite G. destruct (find _ (f_lines f)) as [l|]; [reflexivity|]. cbn [option_map].
  destruct (f_lines f) as [|l ls]; [contradiction|reflexivity].
Qed.

Lemma last_line_shift k f : f_lines f <> [] -> last_line (shift_field k f) = last_line f + k.
Proof.
  intros Hne. unfold last_line, shift_field. cbn [f_lines]. rewrite <- map_rev.
  destruct (rev (f_lines f)) as [|l ls] eqn:E; [|reflexivity].
  apply (f_equal (@rev nline)) in E. rewrite rev_involutive in E. contradiction.
Qed.

Lemma add_field_shift t ae k b f :
  add_field t ae (shift_b k b) (shift_field k f) = rmap (shift_b k) (add_field t ae b f).
Proof.
  unfold add_field. rewrite field_text_shift. destruct (field_text f) as [|c0 v0] eqn:Ev; [reflexivity|].
  assert (Hne : f_lines f <> []) by (intros E; unfold field_text in Ev; rewrite E in Ev; discriminate).
  rewrite first_content_shift, last_line_shift by exact Hne. cbn [shift_b b_seen b_suffix b_known b_extra b_lines f_name shift_field].
  destruct (if mem_str _ (b_seen b) then _ else _) as [name sfx].
  change (first_content_line f + k, last_line f + k) with (shift_rng k (first_content_line f, last_line f)). rewrite dict_put_shift.
  destruct (negb ae && known_name t name).
  - destruct (has_key name (b_known b)); reflexivity.
  - destruct (has_key name (b_extra b)); reflexivity.
Qed.

Lemma add_fields_shift t ae k fs : forall b,
  add_fields t ae (shift_b k b) (map (shift_field k) fs) = rmap (shift_b k) (add_fields t ae b fs).
Proof.
  induction fs as [|f fs IH]; intros b; [reflexivity|]. cbn [map add_fields]. rewrite add_field_shift.
  destruct (add_field t ae b f) as [b1|e]; cbn [rmap bind]; [apply IH|reflexivity].
Qed.

Lemma classify_shift k g : classify (map (shift_field k) g) = classify g.
Proof.
  unfold classify. assert (E : forall n, existsb (fun f => str_eqb (f_name f) n) (map (shift_field k) g) = existsb (fun f => str_eqb (f_name f) n) g).
  { intros n. induction g as [|f g IH]; [reflexivity|]. cbn [map existsb shift_field f_name]. now rewrite IH. }
  now rewrite !E.
Qed.

Lemma from_fields_shift t k g : from_fields t (map (shift_field k) g) = rmap (shift_para k) (from_fields t g).
Proof.
  unfold from_fields. change (mkB [] [] [] [] 1) with (shift_b k (mkB [] [] [] [] 1)) at 1. rewrite add_fields_shift.
  destruct (add_fields t _ _ g) as [b|e]; reflexivity.
Qed.

Lemma mapM_shift k gs :
  mapM (fun g => from_fields (classify g) g) (map (map (shift_field k)) gs) =
  rmap (map (shift_para k)) (mapM (fun g => from_fields (classify g) g) gs).
Proof.
  induction gs as [|g gs IH]; [reflexivity|]. cbn [map mapM]. rewrite classify_shift, from_fields_shift.
  destruct (from_fields (classify g) g) as [p|e]; cbn [rmap bind]; [|reflexivity]. rewrite IH.
  destruct (mapM _ gs) as [ps|e]; reflexivity.
Qed.

(* ---------- post-processing ---------- *)

Definition has_lines (p : para) : Prop := p_lines p <> [].

Lemma minmax_shift k (a b : N * N) :
  (N.min (fst (shift_rng k a)) (fst (shift_rng k b)), N.max (snd (shift_rng k a)) (snd (shift_rng k b))) =
  shift_rng k (N.min (fst a) (fst b), N.max (snd a) (snd b)).
Proof. unfold shift_rng. cbn [fst snd]. f_equal; lia. Qed.

Lemma fold_minmax_shift k (rest : pydict (N * N)) : forall acc,
  fold_left (fun (acc0 : N * N) (kv : str * (N * N)) => (N.min (fst acc0) (fst (snd kv)), N.max (snd acc0) (snd (snd kv))))
    (shift_lines k rest) (shift_rng k acc) =
  shift_rng k (fold_left (fun (acc0 : N * N) (kv : str * (N * N)) => (N.min (fst acc0) (fst (snd kv)), N.max (snd acc0) (snd (snd kv)))) rest acc).
Proof.
  induction rest as [|[n r] rest IH]; intros acc; [reflexivity|]. cbn [shift_lines map fold_left fst snd].
  rewrite minmax_shift. apply IH.
Qed.

Lemma fold_minmax_shift' k (rs : list (N * N)) : forall acc,
  fold_left (fun acc x => (N.min (fst acc) (fst x), N.max (snd acc) (snd x))) (map (shift_rng k) rs) (shift_rng k acc) =
  shift_rng k (fold_left (fun acc x => (N.min (fst acc) (fst x), N.max (snd acc) (snd x))) rs acc).
Proof.
  induction rs as [|r rs IH]; intros acc; [reflexivity|]. cbn [map fold_left]. rewrite minmax_shift. apply IH.
Qed.

Lemma first_last_shift k p : has_lines p -> first_last (shift_para k p) = shift_rng k (first_last p).
Proof.
  unfold has_lines, first_last, shift_para. cbn [p_lines]. destruct (p_lines p) as [|[n0 [s e]] rest]; [contradiction|]. intros _.
  cbn [shift_lines map fst snd]. change (fst (s, e) + k, snd (s, e) + k) with (shift_rng k (s, e)).
  apply (fold_minmax_shift k rest (s, e)).
Qed.

Lemma para_to_dict_shift k p : para_to_dict (shift_para k p) = para_to_dict p.
Proof. reflexivity. Qed.

Lemma is_all_unknown_shift k p : is_all_unknown (shift_para k p) = is_all_unknown p.
Proof. reflexivity. Qed.

Lemma span_shift k ps : span_catchall (map (shift_para k) ps) =
  (map (shift_para k) (fst (span_catchall ps)), map (shift_para k) (snd (span_catchall ps))).
Proof.
  induction ps as [|p ps IH]; [reflexivity|]. cbn [map span_catchall]. change (is_catchall (shift_para k p)) with (is_catchall p).
  destruct (is_catchall p); [|reflexivity]. rewrite IH. destruct (span_catchall ps) as [a b]. reflexivity.
Qed.

Lemma merge_run_shift k run : run <> [] -> Forall has_lines run ->
  merge_run (map (shift_para k) run) = shift_para k (merge_run run).
Proof.
  intros Hne Hl. unfold merge_run, shift_para at 3. cbn [p_type p_fields p_extra p_lines shift_lines map fst snd]. f_equal.
  - f_equal. f_equal. f_equal. rewrite flat_map_concat_map, map_map, <- flat_map_concat_map. reflexivity.
  - f_equal. f_equal.
    assert (E : flat_map (fun p => match p_lines p with [] => [] | _ :: _ => [first_last p] end) (map (shift_para k) run) =
                map (shift_rng k) (flat_map (fun p => match p_lines p with [] => [] | _ :: _ => [first_last p] end) run)).
    { clear Hne. induction Hl as [|p run Hp _ IH]; [reflexivity|]. cbn [map flat_map]. rewrite IH, map_app. f_equal.
      rewrite first_last_shift by exact Hp. unfold has_lines in Hp. cbn [shift_para p_lines]. destruct (p_lines p); [contradiction|reflexivity]. }
    rewrite E. destruct run as [|p0 run0]; [contradiction|]. inversion Hl as [|? ? Hp0 _]; subst. cbn [flat_map].
    unfold has_lines in Hp0. destruct (p_lines p0) as [|x xs] eqn:E0; [contradiction|]. cbn [app map].
    apply fold_minmax_shift'.
Qed.

Lemma ConserveFactsLite_span ps : ps = fst (span_catchall ps) ++ snd (span_catchall ps).
Proof.
  induction ps as [|p ps IH]; [reflexivity|]. cbn [span_catchall]. destruct (is_catchall p); [|reflexivity].
  destruct (span_catchall ps) as [a b]. cbn [fst snd app] in *. now rewrite <- IH.
Qed.

Lemma merge_run_has_lines run : has_lines (merge_run run).
Proof. unfold has_lines, merge_run. cbn [p_lines]. discriminate. Qed.

Lemma span_parts ps : Forall has_lines ps -> Forall has_lines (fst (span_catchall ps)) /\ Forall has_lines (snd (span_catchall ps)).
Proof.
  intros H. pose proof (ConserveFactsLite_span ps) as E. rewrite E in H. now apply Forall_app in H.
Qed.

Theorem merge_unknown_shift k n : forall ps, Forall has_lines ps ->
  merge_unknown n (map (shift_para k) ps) = map (shift_para k) (merge_unknown n ps) /\ Forall has_lines (merge_unknown n ps).
Proof.
  induction n as [|n IH]; intros ps Hl; [split; [reflexivity|exact Hl]|].
  destruct ps as [|p ps]; [split; [reflexivity|constructor]|]. cbn [map merge_unknown].
  change (is_catchall (shift_para k p)) with (is_catchall p). destruct (is_catchall p) eqn:Ec.
  - change (shift_para k p :: map (shift_para k) ps) with (map (shift_para k) (p :: ps)). rewrite span_shift.
    destruct (span_parts (p :: ps) Hl) as [Hrun Hrest]. destruct (span_catchall (p :: ps)) as [run rest]. cbn [fst snd] in *.
    destruct (IH rest Hrest) as [IHe IHl].
    assert (Keep : map (shift_para k) run ++ merge_unknown n (map (shift_para k) rest) = map (shift_para k) (run ++ merge_unknown n rest)
                   /\ Forall has_lines (run ++ merge_unknown n rest)).
    { split; [now rewrite IHe, map_app|apply Forall_app; now split]. }
    destruct run as [|r1 [|r2 run']]; try exact Keep.
    cbn [map]. change (shift_para k r1 :: shift_para k r2 :: map (shift_para k) run') with (map (shift_para k) (r1 :: r2 :: run')).
    assert (Eau : forallb is_all_unknown (map (shift_para k) (r1 :: r2 :: run')) = forallb is_all_unknown (r1 :: r2 :: run')).
    { generalize (r1 :: r2 :: run') as L. intros L. induction L as [|x L IHL]; [reflexivity|]. cbn [map forallb]. rewrite IHL. reflexivity. }
    rewrite Eau. destruct (forallb is_all_unknown (r1 :: r2 :: run')); [|exact Keep]. split.
    + rewrite merge_run_shift by (discriminate || exact Hrun). cbn [map]. now rewrite IHe.
    + constructor; [apply merge_run_has_lines|exact IHl].
  - inversion Hl as [|? ? Hp Hps]; subst. destruct (IH ps Hps) as [IHe IHl]. split; [now rewrite IHe|constructor; assumption].
Qed.

Lemma fold_pair_shift k p1 p2 : has_lines p2 -> fold_pair (shift_para k p1) (shift_para k p2) = shift_para k (fold_pair p1 p2).
Proof.
  intros H2. unfold fold_pair. rewrite first_last_shift by exact H2. rewrite para_to_dict_shift.
  destruct (first_last p2) as [f2 e2]. cbn [shift_rng fst snd shift_para p_type p_fields p_extra p_lines].
  rewrite dict_get_shift. unfold set_license. cbn [p_fields]. unfold shift_para. cbn [p_type p_fields p_extra p_lines]. f_equal.
  destruct (dict_get (lit "license") (p_lines p1)) as [[s e]|]; cbn [option_map shift_rng fst snd];
    [change (s + k, e2 + k) with (shift_rng k (s, e2))|change (f2 + k, e2 + k) with (shift_rng k (f2, e2))]; apply dict_put_shift.
Qed.

Lemma foldable_shift k p1 p2 : foldable (shift_para k p1) (shift_para k p2) = foldable p1 p2.
Proof. reflexivity. Qed.

Lemma fold_list_shift k n : forall ps, (length ps <= n)%nat -> Forall has_lines ps ->
  fold_list (map (shift_para k) ps) = map (shift_para k) (fold_list ps).
Proof.
  induction n as [|n IH]; intros ps Hn Hl; [destruct ps; [reflexivity|cbn in Hn; lia]|].
  destruct ps as [|p1 [|p2 rest]]; try reflexivity. cbn [map].
  change (fold_list (shift_para k p1 :: shift_para k p2 :: map (shift_para k) rest))
    with (if foldable (shift_para k p1) (shift_para k p2) then fold_pair (shift_para k p1) (shift_para k p2) :: fold_list (map (shift_para k) rest)
          else shift_para k p1 :: fold_list (map (shift_para k) (p2 :: rest))).
  change (fold_list (p1 :: p2 :: rest)) with (if foldable p1 p2 then fold_pair p1 p2 :: fold_list rest else p1 :: fold_list (p2 :: rest)).
  rewrite foldable_shift. inversion Hl as [|? ? H1 Hl']; subst. inversion Hl' as [|? ? H2 Hl'']; subst.
  destruct (foldable p1 p2).
  - rewrite fold_pair_shift by exact H2. rewrite IH; [reflexivity|cbn in Hn; lia|exact Hl''].
  - rewrite IH; [reflexivity|cbn in Hn |- *; lia|exact Hl'].
Qed.

Lemma fold_license_shift k ps : Forall has_lines ps -> fold_license (map (shift_para k) ps) = map (shift_para k) (fold_license ps).
Proof.
  intros H. unfold fold_license. rewrite map_length. destruct (Nat.leb (length ps) 2); [reflexivity|].
  now apply (fold_list_shift k (length ps)).
Qed.

(* ---------- whole objects ---------- *)

Lemma from_fields_has_lines t g p : from_fields t g = Ok p -> live g <> [] -> has_lines p.
Proof.
  unfold from_fields, has_lines. destruct (add_fields t _ _ g) as [b|e] eqn:E; cbn [bind]; [|discriminate].
  intros H Hl. apply Ok_inj in H. subst p. cbn [build_para p_lines].
  (* every field with a value adds an entry to the line table *)
  assert (G : forall fs b0 b1, add_fields t (match t with PCatchAll => true | _ => false end) b0 fs = Ok b1 ->
              (b_lines b0 <> [] \/ live fs <> []) -> b_lines b1 <> []).
  { clear. induction fs as [|f fs IH]; intros b0 b1 H Hor.
    - cbn in H. apply Ok_inj in H. subst. destruct Hor as [H|H]; [exact H|contradiction].
    - cbn [add_fields] in H. destruct (add_field t _ b0 f) as [b'|e] eqn:E1; cbn [bind] in H; [|discriminate].
      apply (IH b' b1 H). unfold add_field in E1. unfold live in Hor. cbn [filter] in Hor.
      destruct (field_text f) as [|c0 v0] eqn:Ev; cbn [nonempty] in Hor.
      + apply Ok_inj in E1. subst b'. exact Hor.
      + left. destruct (if mem_str _ (b_seen b0) then _ else _) as [name sfx].
        assert (Hput : forall (d : pydict (N * N)) r, dict_put name r d <> []).
        { intros d r. destruct d as [|[a v] d]; cbn [dict_put]; [discriminate|]. destruct (str_eqb name a); discriminate. }
        destruct (negb _ && known_name t name).
        * destruct (has_key name (b_known b0)); [discriminate|]. apply Ok_inj in E1. subst b'. apply Hput.
        * destruct (has_key name (b_extra b0)); [discriminate|]. apply Ok_inj in E1. subst b'. apply Hput. }
  apply (G g _ b E). now right.
Qed.

Theorem from_groups_shift k gs : Forall (fun g => live g <> []) gs ->
  from_groups (map (map (shift_field k)) gs) = rmap (map (shift_para k)) (from_groups gs).
Proof.
  intros Hlive. unfold from_groups. rewrite mapM_shift. destruct (mapM _ gs) as [ps|e] eqn:E; cbn [rmap bind]; [|reflexivity].
  assert (Hl : Forall has_lines ps).
  { assert (F2 : Forall2 (fun g p => from_fields (classify g) g = Ok p) gs ps) by (eapply mapM_shape; [|exact E]; auto).
    clear E. induction F2 as [|g p gs ps Hp _ IH]; [constructor|]. inversion Hlive; subst. constructor; [|now apply IH].
    eapply from_fields_has_lines; eassumption. }
  rewrite map_length. destruct (merge_unknown_shift k (length ps) ps Hl) as [Em Hm]. rewrite Em, fold_license_shift by exact Hm. reflexivity.
Qed.

Lemma live_shift k g : live (map (shift_field k) g) = map (shift_field k) (live g).
Proof.
  unfold live. induction g as [|f g IH]; [reflexivity|]. cbn [map filter]. rewrite field_text_shift.
  destruct (nonempty (field_text f)); [cbn [map]; now rewrite IH|exact IH].
Qed.

(* k blank lines at the top of the text: same paragraphs, types, fields and extra data; every
   recorded range shifted by exactly k *)
Theorem from_text_shift k t gs : groups t = Ok gs -> Forall (fun g => live g <> []) gs ->
  from_text (repeat 10 k ++ t) = rmap (map (shift_para (N.of_nat k))) (from_text t).
Proof.
  intros Eg Hl. unfold from_text. rewrite groups_shift, Eg. cbn [rmap bind]. now apply from_groups_shift.
Qed.

(* ---------- how ranges compose through merge and fold ---------- *)

Definition mm (acc x : N * N) : N * N := (N.min (fst acc) (fst x), N.max (snd acc) (snd x)).

Lemma fold_mm_spec rs : forall acc,
  let r := fold_left mm rs acc in
  (forall x, In x (acc :: rs) -> fst r <= fst x /\ snd x <= snd r) /\
  (exists x, In x (acc :: rs) /\ fst r = fst x) /\ (exists y, In y (acc :: rs) /\ snd r = snd y).
Proof.
  induction rs as [|r0 rs IH]; intros acc; cbv zeta.
  - cbn [fold_left]. split; [intros x [<-|[]]; split; lia|]. split; exists acc; (split; [now left|reflexivity]).
  - cbn [fold_left]. destruct (IH (mm acc r0)) as (H1 & (x & Hx & Ex) & (y & Hy & Ey)). cbv zeta in *.
    set (R := fold_left mm rs (mm acc r0)) in *. split; [|split].
    + intros z [<-|[<-|Hz]].
      * destruct (H1 (mm acc r0) (or_introl eq_refl)) as [A B]. unfold mm in A, B. cbn [fst snd] in A, B. split; lia.
      * destruct (H1 (mm acc r0) (or_introl eq_refl)) as [A B]. unfold mm in A, B. cbn [fst snd] in A, B. split; lia.
      * apply H1. now right.
    + destruct Hx as [<-|Hx].
      * unfold mm in Ex. cbn [fst] in Ex. destruct (N.min_spec (fst acc) (fst r0)) as [[_ E]|[_ E]]; rewrite E in Ex;
          [exists acc; split; [now left|exact Ex]|exists r0; split; [right; now left|exact Ex]].
      * exists x. split; [right; now right|exact Ex].
    + destruct Hy as [<-|Hy].
      * unfold mm in Ey. cbn [snd] in Ey. destruct (N.max_spec (snd acc) (snd r0)) as [[_ E]|[_ E]]; rewrite E in Ey;
          [exists r0; split; [right; now left|exact Ey]|exists acc; split; [now left|exact Ey]].
      * exists y. split; [right; now right|exact Ey].
Qed.

Definition para_ranges (run : list para) : list (N * N) :=
  flat_map (fun p => match p_lines p with [] => [] | _ :: _ => [first_last p] end) run.

(* the merged unknown paragraph spans the merged paragraphs: its start is the smallest of their
   starts, its end the largest of their ends, and both are attained *)
Theorem merge_range_spans run r0 rs : para_ranges run = r0 :: rs ->
  exists r, p_lines (merge_run run) = [(lit "unknown", r)] /\
    (forall x, In x (r0 :: rs) -> fst r <= fst x /\ snd x <= snd r) /\
    (exists x, In x (r0 :: rs) /\ fst r = fst x) /\ (exists y, In y (r0 :: rs) /\ snd r = snd y).
Proof.
  intros E. unfold merge_run. cbn [p_lines]. fold (para_ranges run). rewrite E. eexists. split; [reflexivity|].
  apply (fold_mm_spec rs r0).
Qed.

(* the folded license: it starts where the License field started (or, when that field recorded no
   line, where the unknown paragraph starts) and ends where the unknown paragraph ends *)
Theorem fold_range p1 p2 :
  p_lines (fold_pair p1 p2) =
  dict_put (lit "license")
    (match dict_get (lit "license") (p_lines p1) with Some (s, _) => s | None => fst (first_last p2) end, snd (first_last p2))
    (p_lines p1).
Proof. unfold fold_pair. destruct (first_last p2) as [f2 e2]. reflexivity. Qed.

(* the span of a paragraph covers the ranges of all its fields *)
Theorem first_last_spans p : p_lines p <> [] ->
  forall kv, In kv (p_lines p) -> fst (first_last p) <= fst (snd kv) /\ snd (snd kv) <= snd (first_last p).
Proof.
  unfold first_last. destruct (p_lines p) as [|[n0 [s e]] rest]; [contradiction|]. intros _ kv Hin.
  assert (G : forall l acc, fold_left (fun acc0 (kv0 : str * (N * N)) => (N.min (fst acc0) (fst (snd kv0)), N.max (snd acc0) (snd (snd kv0)))) l acc =
                            fold_left mm (map snd l) acc).
  { induction l as [|x l IHl]; intros acc; [reflexivity|]. cbn [fold_left map]. apply IHl. }
  rewrite G. destruct (fold_mm_spec (map snd rest) (s, e)) as (H1 & _). cbv zeta in H1.
  destruct Hin as [<-|Hin]; [apply (H1 (s, e)); now left|]. apply (H1 (snd kv)). right. now apply in_map.
Qed.
