(* The line-tracking parser carries line numbers, it never reads them: parsing renumbered
   lines gives the renumbered result.  Hence the lines of a text numbered from any k+1 parse
   to the groups of the text, with every number k higher. *)
From Coq Require Import String.
From Coq Require Import NArith List Bool Lia.
From DI Require Import Result PyStr Deb822.
Import ListNotations.
Open Scope N_scope.

Section Renum.
Variable g : N -> N.

Lemma renum_val l : ln_val (renum g l) = ln_val l.
Proof. reflexivity. Qed.

Lemma from_line_renum l :
  from_line (renum g l) = option_map (renum_field g) (from_line l).
Proof.
  unfold from_line. rewrite renum_val.
  destruct (negb (is_decl (ln_val l))); [reflexivity|].
  destruct (partition_char 58 (ln_val l)) as [[name sep] value].
  destruct (lower_name (strip name)) as [|c n]; reflexivity.
Qed.

Lemma add_continuation_renum f l :
  add_continuation (renum_field g f) (renum g l) = renum_field g (add_continuation f l).
Proof. reflexivity. Qed.

Lemma drop_while_lines_renum ls :
  drop_while_lines (fun l => is_blank (ln_val l)) (map (renum g) ls)
  = map (renum g) (drop_while_lines (fun l => is_blank (ln_val l)) ls).
Proof.
  induction ls as [|l ls IH]; [reflexivity|].
  cbn [map drop_while_lines]. rewrite renum_val.
  destruct (is_blank (ln_val l)); [exact IH | reflexivity].
Qed.

Lemma finish_field_renum f :
  finish_field (renum_field g f) = renum_field g (finish_field f).
Proof.
  unfold finish_field, renum_field. cbn [f_name f_lines].
  rewrite drop_while_lines_renum, map_rev. reflexivity.
Qed.

Lemma flush_renum cur :
  flush (map (renum_field g) cur) = renum_groups g (flush cur).
Proof.
  destruct cur as [|f fs]; [reflexivity|].
  unfold flush, renum_groups. cbn [map].
  f_equal.
  change (renum_field g f :: map (renum_field g) fs) with (map (renum_field g) (f :: fs)).
  rewrite <- map_rev, !map_map. apply map_ext. intro x. apply finish_field_renum.
Qed.

Lemma unknown_group_renum l :
  unknown_group (renum g l) = map (renum_field g) (unknown_group l).
Proof. reflexivity. Qed.

Lemma rmap_rmap {A B C} (f : A -> B) (h : B -> C) (r : result A) :
  rmap h (rmap f r) = rmap (fun x => h (f x)) r.
Proof. destruct r; reflexivity. Qed.

Lemma rmap_ext {A B} (f h : A -> B) (r : result A) :
  (forall x, f x = h x) -> rmap f r = rmap h r.
Proof. intro E. destruct r; cbn; [rewrite E|]; reflexivity. Qed.

Theorem groups_loop_renum lines : forall cur,
  groups_loop (map (renum g) lines) (map (renum_field g) cur)
  = rmap (renum_groups g) (groups_loop lines cur).
Proof.
  induction lines as [|l rest IH]; intro cur.
  - cbn [map groups_loop rmap]. rewrite flush_renum. reflexivity.
  - cbn [map groups_loop]. rewrite renum_val.
    assert (Hnil : groups_loop (map (renum g) rest) [] = rmap (renum_groups g) (groups_loop rest []))
      by exact (IH []).
    destruct (is_blank (ln_val l)) eqn:Eb.
    + destruct cur as [|f fs].
      * cbn [map]. exact Hnil.
      * cbn [map].
        destruct rest as [|nxt rest'].
        -- clear Hnil. cbn [map groups_loop rmap].
           change (renum_field g f :: map (renum_field g) fs) with (map (renum_field g) (f :: fs)).
           rewrite flush_renum. unfold renum_groups. rewrite map_app. reflexivity.
        -- cbn [map]. rewrite renum_val.
           destruct (negb (is_decl (ln_val nxt)) && negb (is_blank (ln_val nxt))).
           ++ rewrite add_continuation_renum.
              change (renum_field g (add_continuation f l) :: map (renum_field g) fs)
                with (map (renum_field g) (add_continuation f l :: fs)).
              exact (IH (add_continuation f l :: fs)).
           ++ cbn [map] in Hnil. rewrite Hnil.
              rewrite !rmap_rmap. apply rmap_ext. intro gs.
              change (renum_field g f :: map (renum_field g) fs) with (map (renum_field g) (f :: fs)).
              rewrite flush_renum. unfold renum_groups. rewrite map_app. reflexivity.
    + destruct cur as [|f fs].
      * cbn [map]. destruct (is_decl (ln_val l)).
        -- rewrite from_line_renum. destruct (from_line l) as [nf|]; cbn [option_map]; [|reflexivity].
           exact (IH [nf]).
        -- rewrite Hnil. rewrite !rmap_rmap. apply rmap_ext. intro gs. reflexivity.
      * cbn [map]. destruct (is_cont (ln_val l)).
        -- rewrite add_continuation_renum.
           exact (IH (add_continuation f l :: fs)).
        -- destruct (is_decl (ln_val l)).
           ++ rewrite from_line_renum. destruct (from_line l) as [nf|]; cbn [option_map]; [|reflexivity].
              exact (IH (nf :: f :: fs)).
           ++ rewrite Hnil. rewrite !rmap_rmap. apply rmap_ext. intro gs.
              change (renum_field g f :: map (renum_field g) fs) with (map (renum_field g) (f :: fs)).
              rewrite flush_renum. unfold renum_groups. rewrite map_app. reflexivity.
Qed.

Corollary groups_from_lines_renum lines :
  groups_from_lines (map (renum g) lines) = rmap (renum_groups g) (groups_from_lines lines).
Proof. exact (groups_loop_renum lines []). Qed.

End Renum.

Lemma number_from_shift k ls : forall n,
  number_from (n + k) ls = map (renum (fun m => m + k)) (number_from n ls).
Proof.
  induction ls as [|l ls IH]; intro n; [reflexivity|].
  cbn [number_from map]. unfold renum at 1. cbn [ln_num ln_val].
  f_equal. replace (n + k + 1) with (n + 1 + k) by lia. apply IH.
Qed.

Lemma renum_renum g h l : renum g (renum h l) = renum (fun n => g (h n)) l.
Proof. reflexivity. Qed.

Lemma renum_id_ext g l : (forall n, g n = n) -> renum g l = l.
Proof. intro E. destruct l as [n v]. unfold renum. cbn. rewrite E. reflexivity. Qed.

Lemma renum_groups_compose g h gs :
  renum_groups g (renum_groups h gs) = renum_groups (fun n => g (h n)) gs.
Proof.
  unfold renum_groups. rewrite map_map. apply map_ext. intro grp.
  rewrite map_map. apply map_ext. intro f.
  unfold renum_field. cbn [f_name f_lines]. rewrite map_map. reflexivity.
Qed.

Lemma renum_groups_id g gs : (forall n, g n = n) -> renum_groups g gs = gs.
Proof.
  intro E. unfold renum_groups.
  rewrite <- (map_id gs) at 2. apply map_ext. intro grp.
  rewrite <- (map_id grp) at 2. apply map_ext. intro f.
  destruct f as [nm ls]. unfold renum_field. cbn [f_name f_lines]. f_equal.
  rewrite <- (map_id ls) at 2. apply map_ext. intro l. apply renum_id_ext, E.
Qed.

(* the lines of a text numbered from k+1 parse to the groups of the text, every number k higher *)
Theorem groups_shifted t k :
  groups_from_lines (number_from (1 + k) (text_lines t))
  = rmap (renum_groups (fun n => n + k)) (groups t).
Proof.
  unfold groups, lines_from_text.
  rewrite number_from_shift. apply groups_from_lines_renum.
Qed.

Theorem groups_offset_groups t k : groups_offset t k = groups t.
Proof.
  unfold groups_offset. rewrite groups_shifted, rmap_rmap.
  destruct (groups t) as [gs|e]; cbn [rmap]; [|reflexivity].
  f_equal. rewrite renum_groups_compose. apply renum_groups_id. intro n. lia.
Qed.
