(* Proofs for C20: the continuation-line codec. *)
From Coq Require Import NArith List Bool Lia.
From DI Require Import PyStr PyStrFacts Codec.
Import ListNotations.
Open Scope N_scope.

Definition nolb := no_lb is_linebreak.

(* a line that is blank, or starts with U+0020, or starts with a non-space
   character other than a full stop *)
Definition plain_start (l : str) : Prop :=
  all_space l = true \/
  match l with
  | [] => True
  | c :: _ => c = 32 \/ (is_space c = false /\ c <> 46)
  end.

Definition fmt0 (l : str) : str := if all_space l then [] else l.
Definition fmt1 (l : str) : str := if all_space l then [DOT] else l.

Lemma fmt_rest_map ls : fmt_rest ls = map fmt1 ls.
Proof. induction ls as [|l ls IH]; simpl; [reflexivity|]. now rewrite IH. Qed.

Lemma as_formatted_lines_cons l0 rest :
  as_formatted_lines (l0 :: rest) = join [LF] (fmt0 l0 :: map (fun l => SP :: fmt1 l) rest).
Proof.
  unfold as_formatted_lines, fmt_lines. rewrite fmt_rest_map. fold (fmt0 l0).
  unfold nl_sp, LF, SP. rewrite join_nl_sp. now rewrite map_map.
Qed.

Lemma nolb_fmt1 l : nolb l -> nolb (fmt1 l).
Proof. intros H. unfold fmt1. destruct (all_space l); [repeat constructor|assumption]. Qed.

Lemma fmt1_not_blank l : all_space (fmt1 l) = false.
Proof. unfold fmt1. destruct (all_space l) eqn:E; [reflexivity|assumption]. Qed.

(* ---------- safety ---------- *)

Lemma safe_lines l0 rest :
  Forall nolb (l0 :: rest) ->
  exists hd conts,
    as_formatted_lines (l0 :: rest) = join [LF] (hd :: map (fun l => SP :: l) conts) /\
    nolb hd /\ Forall (fun l => nolb l /\ all_space l = false) conts.
Proof.
  intros H. inversion H as [|? ? H0 Hr]; subst.
  exists (fmt0 l0), (map fmt1 rest). split; [|split].
  - rewrite as_formatted_lines_cons. now rewrite map_map.
  - unfold fmt0. destruct (all_space l0); [constructor|assumption].
  - rewrite Forall_map. eapply Forall_impl; [|exact Hr]. intros l Hl. split;
      [now apply nolb_fmt1|apply fmt1_not_blank].
Qed.

Lemma safe_text t :
  exists hd conts,
    as_formatted_text t = join [LF] (hd :: map (fun l => SP :: l) conts) /\
    nolb hd /\ Forall (fun l => nolb l /\ all_space l = false) conts.
Proof.
  unfold as_formatted_text. pose proof (splitlines_no_lb is_linebreak t) as H.
  fold splitlines in H. destruct (splitlines t) as [|l0 rest].
  - exists [], []. split; [reflexivity|split; constructor].
  - now apply safe_lines.
Qed.

(* ---------- decoding one encoded continuation line ---------- *)

Lemma is_space_32 : is_space 32 = true. Proof. reflexivity. Qed.
Lemma is_space_46 : is_space 46 = false. Proof. reflexivity. Qed.

Lemma all_space_cons_space c l : is_space c = true -> all_space (c :: l) = false -> all_space l = false.
Proof. unfold all_space. simpl. intros -> H. exact H. Qed.

Lemma decode_cont l : plain_start l -> decode_line (SP :: fmt1 l) = rstrip l.
Proof.
  intros Hp. unfold fmt1, decode_line, SP, DOT.
  destruct (all_space l) eqn:Hb.
  - (* blank: the marker *)
    change (rstrip [32; 46]) with [32; 46]. simpl.
    symmetry. apply rstrip_by_all. exact Hb.
  - destruct Hp as [Hp|Hp]; [congruence|].
    destruct l as [|c l']; [discriminate|].
    unfold rstrip. rewrite rstrip_by_cons by exact Hb.
    destruct Hp as [->|[Hs Hd]].
    + (* verbatim *)
      pose proof (all_space_cons_space 32 l' is_space_32 Hb) as Hb'.
      rewrite rstrip_by_cons by exact Hb'. reflexivity.
    + rewrite (rstrip_by_cons_keep is_space c l' Hs).
      assert (H32 : (32 =? c) = false).
      { apply N.eqb_neq. intros <-. rewrite is_space_32 in Hs. discriminate. }
      assert (H46 : (46 =? c) = false) by (apply N.eqb_neq; congruence).
      cbn [startswith]. rewrite N.eqb_refl, H32. cbn [andb].
      assert (E : str_eqb (32 :: c :: rstrip_by is_space l') [32; 46] = false).
      { simpl. rewrite N.eqb_sym in H46. rewrite H46. reflexivity. }
      match goal with |- context [str_eqb ?a ?b] => replace (str_eqb a b) with false by (symmetry; exact E) end.
      rewrite H46. cbn [andb].
      unfold strip, strip_by, lstrip_by. cbn [drop_while]. rewrite is_space_32, Hs.
      rewrite <- (rstrip_by_cons_keep is_space c l' Hs). apply rstrip_by_idem.
Qed.

Lemma strip_fmt0 l : strip (fmt0 l) = strip l.
Proof.
  unfold fmt0. destruct (all_space l) eqn:E; [|reflexivity].
  symmetry. apply strip_by_all. exact E.
Qed.

(* ---------- decode after encode ---------- *)

Lemma nolb_sp_fmt1 l : nolb l -> nolb (SP :: fmt1 l).
Proof. intros H. constructor; [reflexivity|now apply nolb_fmt1]. Qed.

Lemma last_map_cons {A} (f : A -> str) (l : list A) d :
  l <> [] -> (forall x, f x <> []) -> last (map f l) d <> [].
Proof.
  induction l as [|x l IH]; [contradiction|]. intros _ Hf. simpl.
  destruct l as [|y l]; [apply Hf|]. apply IH; [discriminate|assumption].
Qed.

Lemma decode_encode_lines l0 rest :
  Forall nolb (l0 :: rest) -> Forall plain_start rest ->
  from_formatted_text (as_formatted_lines (l0 :: rest)) = join [LF] (strip l0 :: map rstrip rest).
Proof.
  intros Hn Hp. inversion Hn as [|? ? H0 Hr]; subst.
  rewrite as_formatted_lines_cons. unfold from_formatted_text, line_separated, splitlines.
  destruct rest as [|l1 rest'].
  - simpl map. cbn [join]. unfold fmt0. destruct (all_space l0) eqn:E.
    + simpl. symmetry. apply strip_by_all. exact E.
    + assert (Hne : l0 <> []) by (intros ->; discriminate).
      assert (Es : splitlines_by is_linebreak l0 = [l0]).
      { apply (splitlines_join is_linebreak [l0]);
          [reflexivity|repeat constructor; assumption|discriminate|exact Hne]. }
      rewrite Es. reflexivity.
  - rewrite splitlines_join.
    + cbn [from_formatted_lines]. rewrite strip_fmt0. f_equal. f_equal.
      rewrite map_map. apply map_ext_Forall.
      eapply Forall_impl; [|exact Hp]. intros l Hl. now apply decode_cont.
    + reflexivity.
    + constructor.
      * unfold fmt0. destruct (all_space l0); [constructor|assumption].
      * rewrite Forall_map. eapply Forall_impl; [|exact Hr]. intros l Hl. now apply nolb_sp_fmt1.
    + discriminate.
    + change (last (fmt0 l0 :: map (fun l => SP :: fmt1 l) (l1 :: rest')) [0])
        with (last (map (fun l => SP :: fmt1 l) (l1 :: rest')) [0]).
      apply last_map_cons; [discriminate|]. intros x. discriminate.
Qed.

Lemma decode_encode_text t l0 rest :
  splitlines t = l0 :: rest -> Forall plain_start rest ->
  from_formatted_text (as_formatted_text t) = join [LF] (strip l0 :: map rstrip rest).
Proof.
  intros E Hp. unfold as_formatted_text. rewrite E. apply decode_encode_lines; [|assumption].
  rewrite <- E. apply splitlines_no_lb.
Qed.

Lemma decode_encode_empty : from_formatted_text (as_formatted_text []) = [].
Proof. reflexivity. Qed.

(* ---------- one-pass fixpoint ---------- *)

(* lines already in decoded normal form *)
Definition normal_lines (ls : list str) : Prop :=
  match ls with
  | [] => False
  | l0 :: rest =>
      Forall nolb ls /\ strip l0 = l0 /\
      Forall (fun l => rstrip l = l /\ plain_start l) rest /\ last ls [0] <> []
  end.

Lemma map_id_Forall {A} (f : A -> A) l : Forall (fun x => f x = x) l -> map f l = l.
Proof. induction 1 as [|x l Hx _ IH]; simpl; [reflexivity|]. now rewrite Hx, IH. Qed.

Lemma normal_fix ls :
  normal_lines ls ->
  let X := join [LF] ls in
  as_formatted_text X = as_formatted_lines ls /\ from_formatted_text (as_formatted_text X) = X.
Proof.
  destruct ls as [|l0 rest]; [contradiction|]. intros (Hn & H0 & Hr & Hl) X.
  assert (E : splitlines X = l0 :: rest).
  { apply splitlines_join; [reflexivity|exact Hn|discriminate|exact Hl]. }
  unfold as_formatted_text. rewrite E. split; [reflexivity|].
  rewrite decode_encode_lines; [|exact Hn|eapply Forall_impl; [|exact Hr]; now intros l [_ H]].
  rewrite H0. rewrite map_id_Forall; [reflexivity|].
  eapply Forall_impl; [|exact Hr]. now intros l [H _].
Qed.

(* a policy-conformant continuation line: the marker " ." or a space followed by
   a non-blank body that starts with a space or with a non-space character other
   than a full stop *)
Definition policy_cont (c : str) : Prop :=
  c = [SP; DOT] \/
  exists body, c = SP :: body /\ nolb body /\ all_space body = false /\ plain_start body.

Definition policy_value (v : str) : Prop :=
  v = [] \/
  exists f0 conts,
    v = join [LF] (f0 :: conts) /\ nolb f0 /\ Forall policy_cont conts /\
    last (f0 :: conts) [0] <> [] /\ last (f0 :: conts) [0] <> [SP; DOT].

Lemma plain_start_nonblank_head l :
  all_space l = false -> plain_start l ->
  exists c l', l = c :: l' /\ (c = 32 /\ all_space l' = false \/ is_space c = false /\ c <> 46).
Proof.
  intros Hb [Hp|Hp]; [congruence|]. destruct l as [|c l']; [discriminate|].
  exists c, l'. split; [reflexivity|]. destruct Hp as [->|H]; [left|right; exact H].
  split; [reflexivity|]. eapply all_space_cons_space; [exact is_space_32|exact Hb].
Qed.

Lemma decode_policy_cont c :
  policy_cont c ->
  let d := decode_line c in
  nolb d /\ rstrip d = d /\ plain_start d /\ (d = [] -> c = [SP; DOT]).
Proof.
  intros [->|(body & -> & Hn & Hb & Hp)].
  - assert (E : decode_line [SP; DOT] = []) by reflexivity. cbv zeta. rewrite E.
    split; [constructor|split; [reflexivity|split; [left; reflexivity|reflexivity]]].
  - assert (E : decode_line (SP :: body) = rstrip body).
    { rewrite <- (decode_cont body Hp). unfold fmt1. now rewrite Hb. }
    cbv zeta. rewrite E. split; [|split; [|split]].
    + apply Forall_rstrip_by. exact Hn.
    + apply rstrip_by_idem.
    + right. destruct (plain_start_nonblank_head body Hb Hp) as (c & l' & -> & [[-> Hl']|[Hs Hd]]).
      * unfold rstrip. rewrite rstrip_by_cons by exact Hl'. now left.
      * unfold rstrip. rewrite rstrip_by_cons_keep by exact Hs. right. now split.
    + intros H. apply rstrip_by_nil_all in H. unfold all_space in Hb. congruence.
Qed.

Lemma policy_cont_nolb c : policy_cont c -> nolb c /\ c <> [].
Proof.
  intros [->|(body & -> & Hn & _)]; split; try discriminate.
  - repeat constructor.
  - constructor; [reflexivity|assumption].
Qed.

Lemma last_map_decode conts d :
  conts <> [] -> last (map decode_line conts) d = decode_line (last conts d).
Proof.
  induction conts as [|c conts IH]; [contradiction|]. intros _.
  destruct conts as [|c2 conts]; [reflexivity|].
  change (last (map decode_line (c :: c2 :: conts)) d) with (last (map decode_line (c2 :: conts)) d).
  rewrite IH by discriminate. reflexivity.
Qed.

Lemma encode_decode_fixpoint v :
  policy_value v ->
  let v' := as_formatted_text (from_formatted_text v) in
  as_formatted_text (from_formatted_text v') = v'.
Proof.
  intros [->|(f0 & conts & -> & Hf0 & Hc & Hl1 & Hl2)]; [reflexivity|].
  cbv zeta.
  assert (Hsplit : splitlines (join [LF] (f0 :: conts)) = f0 :: conts).
  { apply splitlines_join; [reflexivity| |discriminate|exact Hl1].
    constructor; [exact Hf0|]. eapply Forall_impl; [|exact Hc]. intros c H. now apply policy_cont_nolb. }
  assert (Hdec : from_formatted_text (join [LF] (f0 :: conts)) = join [LF] (strip f0 :: map decode_line conts)).
  { unfold from_formatted_text, line_separated. rewrite Hsplit. reflexivity. }
  rewrite Hdec. clear Hdec Hsplit.
  set (Ls := strip f0 :: map decode_line conts).
  destruct conts as [|c1 conts'].
  - (* a single line *)
    subst Ls. simpl map. cbn [join]. simpl in Hl1.
    destruct (strip f0) as [|x s] eqn:Es; [reflexivity|].
    assert (Hn : normal_lines [x :: s]).
    { unfold normal_lines. split; [|split; [|split]].
      - constructor; [|constructor]. rewrite <- Es. apply Forall_strip_by. exact Hf0.
      - rewrite <- Es. apply strip_by_idem.
      - constructor.
      - simpl. discriminate. }
    destruct (normal_fix _ Hn) as [_ H2]. cbn [join] in H2. now rewrite H2.
  - assert (Hn : normal_lines Ls).
    { subst Ls. cbn [normal_lines]. split; [|split; [|split]].
      - constructor; [apply Forall_strip_by; exact Hf0|].
        rewrite Forall_map. eapply Forall_impl; [|exact Hc]. intros c H. now apply decode_policy_cont.
      - apply strip_by_idem.
      - rewrite Forall_map. eapply Forall_impl; [|exact Hc]. intros c H.
        destruct (decode_policy_cont c H) as (_ & H2 & H3 & _). now split.
      - change (last (strip f0 :: map decode_line (c1 :: conts')) [0])
          with (last (map decode_line (c1 :: conts')) [0]).
        rewrite last_map_decode by discriminate.
        change (last (f0 :: c1 :: conts') [0]) with (last (c1 :: conts') [0]) in Hl2.
        assert (Hin : policy_cont (last (c1 :: conts') [0])).
        { rewrite Forall_forall in Hc. apply Hc.
          destruct (exists_last (l := c1 :: conts')) as (l' & a & E); [discriminate|].
          rewrite E. rewrite last_last. apply in_or_app. right. now left. }
        destruct (decode_policy_cont _ Hin) as (_ & _ & _ & H4). intros H. apply Hl2. now apply H4. }
    destruct (normal_fix _ Hn) as [_ H2]. now rewrite H2.
Qed.

(* ---------- first line of Description / License ---------- *)

Lemma strip_not_blank l : all_space (strip l) = true -> strip l = [].
Proof.
  unfold strip, strip_by, lstrip_by. destruct (drop_while is_space l) as [|c r] eqn:E; [reflexivity|].
  pose proof (drop_while_head _ _ _ _ E) as Hc.
  rewrite rstrip_by_cons_keep by exact Hc. unfold all_space. simpl. rewrite Hc. discriminate.
Qed.

Lemma fmt0_strip l : fmt0 (strip l) = strip l.
Proof. unfold fmt0. destruct (all_space (strip l)) eqn:E; [|reflexivity]. symmetry. now apply strip_not_blank. Qed.

Lemma join_first x xs : exists tail, join [LF] (x :: xs) = x ++ tail /\ (tail = [] \/ exists t, tail = LF :: t).
Proof.
  destruct xs as [|y ys].
  - exists []. split; [symmetry; apply app_nil_r|now left].
  - exists ([LF] ++ join [LF] (y :: ys)). split; [reflexivity|right]. eexists. reflexivity.
Qed.

Lemma desc_first_line v :
  let '(syn, text) := desc_from_value v in
  nolb syn /\
  exists tail, desc_dumps syn text = syn ++ tail /\ (tail = [] \/ exists t, tail = LF :: t).
Proof.
  unfold desc_from_value, line_separated.
  pose proof (splitlines_no_lb is_linebreak v) as Hn. fold splitlines in Hn.
  destruct (splitlines v) as [|l0 ls].
  - split; [constructor|]. exists []. split; [reflexivity|now left].
  - inversion Hn as [|? ? H0 _]; subst. split; [apply Forall_strip_by; exact H0|].
    unfold desc_dumps, strip. rewrite strip_by_idem. fold strip.
    destruct (from_formatted_lines ls) as [|c t'].
    + rewrite as_formatted_lines_cons, fmt0_strip. apply join_first.
    + rewrite as_formatted_lines_cons, fmt0_strip. apply join_first.
Qed.

Lemma lic_first_line v :
  let '(name, text) := lic_from_value v in
  name <> [] ->
  exists tail, lic_dumps name text = name ++ tail /\ (tail = [] \/ exists t, tail = LF :: t).
Proof.
  unfold lic_from_value, desc_from_value, line_separated.
  destruct (splitlines v) as [|l0 ls]; [intros H; contradiction|].
  intros Hne. unfold lic_dumps, desc_dumps. cbv zeta.
  assert (Hid : strip (strip l0) = strip l0) by apply strip_by_idem.
  rewrite !Hid. clear Hid.
  set (name := strip l0) in *.
  assert (Hshape : forall R, exists tail, strip (as_formatted_lines (name :: R)) = name ++ tail /\
                                      (tail = [] \/ exists t, tail = LF :: t)).
  { intros R. rewrite as_formatted_lines_cons. subst name. rewrite fmt0_strip.
    destruct (join_first (strip l0) (map (fun l => SP :: fmt1 l) R)) as (tail & -> & Ht).
    unfold strip at 1. unfold strip_by, lstrip_by.
    destruct (strip l0) as [|c r] eqn:Es; [contradiction|].
    assert (Hc : is_space c = false).
    { unfold strip, strip_by, lstrip_by in Es.
      destruct (drop_while is_space l0) as [|c' r'] eqn:Ed; [discriminate|].
      pose proof (drop_while_head _ _ _ _ Ed) as Hc'.
      rewrite rstrip_by_cons_keep in Es by exact Hc'. now inversion Es; subst. }
    simpl app. rewrite drop_while_nohead by exact Hc.
    change (c :: r ++ tail) with ((c :: r) ++ tail).
    assert (Hr : rstrip_by is_space (c :: r) = c :: r).
    { rewrite <- Es. unfold strip, strip_by. apply rstrip_by_idem. }
    destruct (forallb is_space tail) eqn:Et.
    - rewrite rstrip_by_app_all by exact Et. rewrite Hr. exists []. split; [now rewrite app_nil_r|now left].
    - rewrite rstrip_by_app_keep by exact Et. exists (rstrip_by is_space tail). split; [reflexivity|].
      destruct Ht as [->|(t & ->)]; [discriminate|]. right.
      assert (Ht' : forallb is_space t = false) by (simpl in Et; exact Et).
      rewrite rstrip_by_cons by exact Ht'. eexists. reflexivity. }
  destruct (lstrip (from_formatted_lines ls)) as [|c t']; apply Hshape.
Qed.
