(* Proofs for C06 (header-style parser): a well-formed document is cut into its paragraphs
   and every paragraph is read as exactly its fields. *)
From Coq Require Import String.
From Coq Require Import Arith NArith List Bool Lia.
From DI Require Import Result PyStr PyStrFacts Deb822 Deb822Facts BlankFacts Email Debcon DebconFacts
  Grammar822 Grammar822Facts VersionFacts ParseFacts DepsParseFacts.
Import ListNotations.
Open Scope N_scope.

(* ---------- lines with their terminators ---------- *)

(* every line LF-terminated, the last one terminated by [e] *)
Fixpoint tlines (ls : list str) (e : str) : list str :=
  match ls with
  | [] => []
  | [l] => [l ++ e]
  | l :: ls' => (l ++ [10]) :: tlines ls' e
  end.

Lemma tlines_cons l l2 ls e : tlines (l :: l2 :: ls) e = (l ++ [10]) :: tlines (l2 :: ls) e.
Proof. reflexivity. Qed.

Lemma tlines_app a b e : b <> [] -> tlines (a ++ b) e = tlines a [10] ++ tlines b e.
Proof.
  intros Hb. induction a as [|x a IH]; [reflexivity|]. cbn [app].
  destruct a as [|y a].
  - cbn [app]. destruct b as [|z b]; [contradiction|]. reflexivity.
  - cbn [app] in *. rewrite !tlines_cons. cbn [app]. f_equal. exact IH.
Qed.

Lemma concat_tlines ls e : ls <> [] -> concat (tlines ls e) = join [10] ls ++ e.
Proof.
  intros Hne. induction ls as [|l ls IH]; [contradiction|]. destruct ls as [|l2 ls].
  - cbn [tlines concat join]. now rewrite app_nil_r.
  - rewrite tlines_cons, join_cons. cbn [concat]. rewrite IH by discriminate. now rewrite <- !app_assoc.
Qed.

Lemma keep_run cur l s : no_lb is_lf_cr l ->
  splitlines_keep_aux is_lf_cr cur (l ++ s) = splitlines_keep_aux is_lf_cr (rev l ++ cur) s.
Proof.
  revert cur; induction l as [|c l IH]; intros cur H; [reflexivity|]. inversion H as [|? ? Hc Hl]; subst.
  cbn [app splitlines_keep_aux]. rewrite Hc. rewrite IH by exact Hl. cbn [rev]. now rewrite <- app_assoc.
Qed.

Lemma crack_join ls e : ls <> [] -> Forall (no_lb is_lf_cr) ls -> Forall (fun l : str => l <> []) ls -> (e = [] \/ e = [10]) ->
  crack (join [10] ls ++ e) = tlines ls e.
Proof.
  unfold crack, splitlines_keep_by. intros Hnn Hf Hne He. induction ls as [|l ls IH].
  - contradiction.
  - inversion Hf as [|? ? Hl Hf']; inversion Hne as [|? ? Hl' Hne']; subst. destruct ls as [|l2 ls].
    + cbn [join tlines]. rewrite keep_run by exact Hl. rewrite app_nil_r.
      destruct He as [->| ->]; cbn [splitlines_keep_aux].
      * destruct (rev l) eqn:E; [apply (f_equal (@rev char)) in E; rewrite rev_involutive in E; contradiction|].
        rewrite <- E, rev_involutive, app_nil_r. reflexivity.
      * change (is_lf_cr 10) with true. cbv iota. cbn [rev]. now rewrite rev_involutive.
    + rewrite join_cons, tlines_cons, <- !app_assoc, keep_run by exact Hl. rewrite app_nil_r.
      cbn [app splitlines_keep_aux]. change (is_lf_cr 10) with true. cbv iota. cbn [rev]. rewrite rev_involutive.
      f_equal. apply IH; [discriminate|assumption|assumption].
Qed.

(* ---------- header lines ---------- *)

Definition starts_blank (l : str) : Prop := match l with c :: _ => is_blank_tab c = true | [] => False end.

Lemma alnum_ftext c : is_ascii_alnum c = true \/ c = 45 -> is_ftext c = true /\ is_blank_tab c = false /\ c <> 32.
Proof.
  intros H. assert (Hb : c < 128).
  { destruct H as [H| ->]; [|lia]. unfold is_ascii_alnum, is_ascii_alpha, is_ascii_upper, is_ascii_lower, is_ascii_digit in H.
    repeat (apply orb_true_iff in H; destruct H as [H|H]); apply andb_true_iff in H as [_ H]; apply N.leb_le in H; lia. }
  set (P := fun c => implb (is_ascii_alnum c || (c =? 45)) (is_ftext c && negb (is_blank_tab c) && negb (c =? 32))).
  assert (G : P c = true) by (apply (all_below_spec 128 P); [vm_compute; reflexivity|exact Hb]).
  unfold P in G. assert (E : is_ascii_alnum c || (c =? 45) = true).
  { destruct H as [->| ->]; [reflexivity|apply orb_true_r]. }
  rewrite E in G. cbn [implb] in G. apply andb_true_iff in G as [G G3]. apply andb_true_iff in G as [G1 G2].
  repeat split; try assumption.
  - now apply negb_true_iff.
  - apply N.eqb_neq. now apply negb_true_iff.
Qed.

Definition hname_ok (n : str) : Prop := n <> [] /\ Forall (fun x => is_ascii_alnum x = true \/ x = 45) n.

Lemma name_ok_hname n : name_ok n -> hname_ok n.
Proof. destruct n; [contradiction|]. intros [_ H]. split; [discriminate|exact H]. Qed.

Lemma header_re_decl n r : hname_ok n -> header_re (n ++ 58 :: r) = true.
Proof.
  intros [_ H]. unfold header_re.
  assert (E : drop_while is_ftext (n ++ 58 :: r) = 58 :: r).
  { apply (take_drop_app is_ftext n (58 :: r)); [|reflexivity]. eapply Forall_impl; [|exact H]. intros x Hx. now apply alnum_ftext. }
  rewrite E. now rewrite orb_true_r.
Qed.

Lemma header_re_cont l : starts_blank l -> header_re l = true.
Proof. destruct l as [|c l]; [contradiction|]. intros H. unfold header_re. rewrite H. now rewrite !orb_true_r. Qed.

Lemma split_headers_all ls : Forall (fun l => header_re l = true) ls -> split_headers ls = (ls, [], false).
Proof. induction 1 as [|l ls Hl _ IH]; [reflexivity|]. cbn [split_headers]. now rewrite Hl, IH. Qed.

(* a declaration line never starts with "From " *)
Lemma not_from n r : hname_ok n -> startswith (lit "From ") (n ++ 58 :: r) = false.
Proof.
  intros [_ H]. assert (Hc : forall x, In x n -> x <> 32).
  { intros x Hx. rewrite Forall_forall in H. now apply alnum_ftext, H. }
  assert (S : forall a b, a <> b -> (a =? b) = false) by (intros a b; apply N.eqb_neq).
  destruct n as [|a [|b [|c [|d [|e n]]]]]; cbn [app]; change (lit "From ") with [70; 114; 111; 109; 32]; cbn [startswith].
  - reflexivity.
  - change (114 =? 58) with false. now rewrite andb_false_r.
  - change (111 =? 58) with false. now rewrite !andb_false_r.
  - change (109 =? 58) with false. now rewrite !andb_false_r.
  - change (32 =? 58) with false. now rewrite !andb_false_r.
  - rewrite (N.eqb_sym 32 e), (S e 32) by (apply Hc; cbn; tauto). now rewrite !andb_false_r.
Qed.

Definition with_last (st : hstate) (l : option (str * list str)) : hstate :=
  mkH (h_items st) l (h_defect st) (h_unixfrom st) (h_pushback st).

Lemma conts_hstep cs : forall st k n rl rest, Forall starts_blank cs -> h_last st = Some (n, rl) ->
  parse_headers_loop st k (cs ++ rest) =
  parse_headers_loop (with_last st (Some (n, rev cs ++ rl))) (k + length cs) rest.
Proof.
  induction cs as [|c cs IH]; intros st k n rl rest H Hl.
  - cbn [app rev length]. rewrite Nat.add_0_r. destruct st; cbn in Hl; subst; reflexivity.
  - inversion H as [|? ? Hc Hcs]; subst. cbn [app parse_headers_loop].
    assert (E : forall b, header_step st k b c = with_last st (Some (n, c :: rl))).
    { intros b. unfold header_step. destruct c as [|x c']; [contradiction|]. cbn in Hc. rewrite Hc, Hl. reflexivity. }
    rewrite E. rewrite (IH (with_last st (Some (n, c :: rl))) (S k) n (c :: rl) rest Hcs eq_refl).
    unfold with_last. cbn [h_items h_defect h_unixfrom h_pushback rev length]. rewrite <- app_assoc, Nat.add_succ_r. reflexivity.
Qed.

Lemma decl_hstep st k b n r : hname_ok n ->
  header_step st k b (n ++ 58 :: r) = with_last (flush_last st) (Some (n, [n ++ 58 :: r])).
Proof.
  intros Hn. pose proof (not_from n r Hn) as Hfrom. destruct Hn as [Hne H].
  assert (Hno : ~ In 58 n).
  { intros Hi. rewrite Forall_forall in H. destruct (alnum_name_char 58 (H _ Hi)) as (_ & G & _). now apply G. }
  unfold header_step. destruct n as [|x n']; [contradiction|]. cbn [app]. 
  assert (Hx : is_blank_tab x = false) by (apply alnum_ftext; inversion H; assumption).
  rewrite Hx. change (x :: n' ++ 58 :: r) with ((x :: n') ++ 58 :: r). rewrite Hfrom.
  rewrite partition_char_app by exact Hno. reflexivity.
Qed.

Lemma flush_with_last st l : flush_last (with_last st l) =
  match l with Some (n, rl) => mkH (close_header n rl :: h_items st) None (h_defect st) (h_unixfrom st) (h_pushback st)
             | None => with_last st None end.
Proof. destruct l as [[n rl]|]; reflexivity. Qed.

(* ---------- one field, one paragraph ---------- *)

Definition tv (f : gfield) (e : str) : str :=
  gf_gap f ++ gf_first f ++ (match gf_conts f with [] => e | _ => [10] end).
Definition tcs (f : gfield) (e : str) : list str := tlines (gf_conts f) e.
Definition hraw (f : gfield) (e : str) : str :=
  rstrip_by is_lf_cr (lstrip_by is_blank_tab (tv f e) ++ concat (tcs f e)).
Definition hitem (f : gfield) (e : str) : str * str := (gf_name f, hraw f e).

Lemma tfield_shape f e : tlines (field_src f) e = (gf_name f ++ 58 :: tv f e) :: tcs f e.
Proof.
  unfold field_src, decl_text, tv, tcs. destruct (gf_conts f) as [|c cs].
  - cbn [tlines]. now rewrite <- !app_assoc.
  - rewrite tlines_cons. now rewrite <- !app_assoc.
Qed.

Lemma tlines_blank cs e : Forall (fun c => is_cont c = true) cs -> Forall starts_blank (tlines cs e).
Proof.
  induction 1 as [|c cs Hc _ IH]; [constructor|].
  assert (Hs : forall x, starts_blank (c ++ x)).
  { intros x. destruct c as [|a c']; [discriminate|]. unfold is_cont in Hc. apply andb_true_iff in Hc as [Hc _]. exact Hc. }
  destruct cs as [|c2 cs]; [constructor; [apply Hs|constructor]|]. rewrite tlines_cons. constructor; [apply Hs|exact IH].
Qed.

Lemma close_field n v cs : ~ In 58 n ->
  close_header n (rev cs ++ [n ++ 58 :: v]) = (n, rstrip_by is_lf_cr (lstrip_by is_blank_tab v ++ concat cs)).
Proof.
  intros Hno. unfold close_header. rewrite rev_app_distr, rev_involutive. cbn [rev app].
  now rewrite partition_char_app by exact Hno.
Qed.

Lemma hname_no_colon n : hname_ok n -> ~ In 58 n.
Proof. intros [_ H] Hi. rewrite Forall_forall in H. destruct (alnum_name_char 58 (H _ Hi)) as (_ & G & _). now apply G. Qed.

Lemma field_hstep f e st k rest : wf_gfield f ->
  parse_headers_loop st k (tlines (field_src f) e ++ rest) =
  parse_headers_loop (with_last (flush_last st) (Some (gf_name f, rev (tcs f e) ++ [gf_name f ++ 58 :: tv f e])))
    (S k + length (tcs f e)) rest.
Proof.
  intros Hw. assert (Hn : hname_ok (gf_name f)) by (apply name_ok_hname, Hw).
  assert (Hcs : Forall starts_blank (tcs f e)).
  { apply tlines_blank. destruct Hw as (_ & _ & _ & _ & H & _). eapply Forall_impl; [|exact H]. now intros c (Hc & _). }
  rewrite tfield_shape. cbn [app parse_headers_loop]. rewrite decl_hstep by exact Hn.
  rewrite (conts_hstep (tcs f e) (with_last (flush_last st) (Some (gf_name f, [gf_name f ++ 58 :: tv f e]))) (S k) (gf_name f) [gf_name f ++ 58 :: tv f e] rest Hcs eq_refl).
  reflexivity.
Qed.

Fixpoint items_of (p : gpara) (e : str) : list (str * str) :=
  match p with
  | [] => []
  | [f] => [hitem f e]
  | f :: p' => hitem f [10] :: items_of p' e
  end.

Lemma flush_flags st : h_defect (flush_last st) = h_defect st /\ h_unixfrom (flush_last st) = h_unixfrom st /\
  h_pushback (flush_last st) = h_pushback st.
Proof. unfold flush_last. destruct (h_last st) as [[n rl]|]; repeat split. Qed.

Lemma para_src_ne p : p <> [] -> flat_map field_src p <> [].
Proof. destruct p; [contradiction|discriminate]. Qed.

Lemma para_hloop e p : forall st k, p <> [] -> Forall wf_gfield p ->
  flush_last (parse_headers_loop st k (tlines (flat_map field_src p) e)) =
  mkH (rev (items_of p e) ++ h_items (flush_last st)) None (h_defect st) (h_unixfrom st) (h_pushback st).
Proof.
  induction p as [|f p IH]; intros st k Hne Hf; [contradiction|]. inversion Hf as [|? ? Hw Hp]; subst.
  assert (Hno : ~ In 58 (gf_name f)) by (apply hname_no_colon, name_ok_hname, Hw).
  destruct (flush_flags st) as (Fd & Fu & Fp).
  destruct p as [|g p].
  - cbn [flat_map]. rewrite app_nil_r. rewrite <- (app_nil_r (tlines (field_src f) e)), field_hstep by exact Hw.
    cbn [parse_headers_loop]. rewrite flush_with_last, close_field by exact Hno.
    cbn [items_of rev app]. unfold hitem, hraw. now rewrite Fd, Fu, Fp.
  - change (flat_map field_src (f :: g :: p)) with (field_src f ++ flat_map field_src (g :: p)).
    rewrite tlines_app by (apply para_src_ne; discriminate). rewrite field_hstep by exact Hw.
    rewrite IH; [|discriminate|exact Hp]. rewrite flush_with_last, close_field by exact Hno.
    cbn [h_items h_defect h_unixfrom h_pushback with_last]. rewrite Fd, Fu, Fp.
    change (items_of (f :: g :: p) e) with (hitem f [10] :: items_of (g :: p) e). cbn [rev]. rewrite <- app_assoc. reflexivity.
Qed.

Lemma para_lines_header p e : Forall wf_gfield p -> Forall (fun l => header_re l = true) (tlines (flat_map field_src p) e).
Proof.
  intros Hf. induction p as [|f p IH]; [constructor|]. inversion Hf as [|? ? Hw Hp]; subst.
  assert (G : forall e', Forall (fun l => header_re l = true) (tlines (field_src f) e')).
  { intros e'. rewrite tfield_shape. constructor; [apply header_re_decl, name_ok_hname, Hw|].
    assert (Hcs : Forall starts_blank (tcs f e')).
    { apply tlines_blank. destruct Hw as (_ & _ & _ & _ & H & _). eapply Forall_impl; [|exact H]. now intros c (Hc & _). }
    eapply Forall_impl; [|exact Hcs]. apply header_re_cont. }
  destruct p as [|g p].
  - cbn [flat_map]. rewrite app_nil_r. apply G.
  - change (flat_map field_src (f :: g :: p)) with (field_src f ++ flat_map field_src (g :: p)).
    rewrite tlines_app by (apply para_src_ne; discriminate). apply Forall_app; split; [apply G|now apply IH].
Qed.

Definition para_text (p : gpara) (e : str) : str := join [10] (flat_map field_src p) ++ e.

Lemma para_lines_no_eol p : Forall wf_gfield p -> Forall (no_lb is_lf_cr) (flat_map field_src p).
Proof.
  induction 1 as [|f p Hf _ IH]; [constructor|]. cbn [flat_map field_src]. constructor; [now apply decl_no_eol|].
  apply Forall_app; split; [|exact IH]. destruct Hf as (_ & _ & _ & _ & Hcs & _).
  eapply Forall_impl; [|exact Hcs]. intros c (_ & _ & Hc). exact Hc.
Qed.

Lemma parse_para_message p e : p <> [] -> Forall wf_gfield p -> (e = [] \/ e = [10]) ->
  parse_message (para_text p e) = mkMsg (items_of p e) false false (is_container (items_of p e)) [].
Proof.
  intros Hne Hf He. unfold parse_message, para_text.
  rewrite crack_join; [|now apply para_src_ne|now apply para_lines_no_eol|now apply para_lines_nonempty|exact He].
  rewrite split_headers_all by now apply para_lines_header.
  unfold parse_headers. rewrite para_hloop by assumption. cbn [flush_last h_last h_items h_defect h_unixfrom h_pushback].
  rewrite app_nil_r, rev_involutive. reflexivity.
Qed.

(* ---------- values ---------- *)

Lemma strip_by_head p s c r : strip_by p s = c :: r -> p c = false.
Proof.
  unfold strip_by, lstrip_by. destruct (drop_while p s) as [|x t] eqn:E; [discriminate|].
  pose proof (drop_while_head _ _ _ _ E) as Hx. rewrite rstrip_by_cons_keep by exact Hx. intros H. inversion H; subst. exact Hx.
Qed.

Lemma strip_by_app_all p a b : forallb p b = true -> strip_by p (a ++ b) = strip_by p a.
Proof.
  intros Hb. unfold strip_by, lstrip_by. destruct (forallb p a) eqn:Ea.
  - rewrite drop_while_app_all by exact Ea. rewrite (drop_while_all p b Hb), (drop_while_all p a Ea). reflexivity.
  - rewrite drop_while_app_not_all by exact Ea. now apply rstrip_by_app_all.
Qed.

Lemma strip_rstrip_sub (q : char -> bool) s : (forall c, q c = true -> is_space c = true) ->
  strip (rstrip_by q s) = strip s.
Proof.
  intros Hq. destruct (rstrip_by_prefix q s) as (r & E & Hr). rewrite E at 2. unfold strip. symmetry. apply strip_by_app_all.
  apply forallb_forall. intros c Hc. rewrite forallb_forall in Hr. now apply Hq, Hr.
Qed.

Lemma lf_cr_space c : is_lf_cr c = true -> is_space c = true.
Proof. unfold is_lf_cr. intros H. apply orb_true_iff in H as [H|H]; apply N.eqb_eq in H; subst; reflexivity. Qed.

Definition hvalue (f : gfield) : str := strip (join [10] (gf_first f :: gf_conts f)).

Lemma hraw_value f e : wf_gfield f -> (e = [] \/ e = [10]) -> strip (hraw f e) = hvalue f.
Proof.
  intros (_ & Hgap & Hs & _ & _ & Hne) He. unfold hraw, hvalue, tcs.
  pose (x := match gf_conts f with [] => e | _ :: _ => [10] end).
  change (tv f e) with (gf_gap f ++ gf_first f ++ x).
  assert (E1 : lstrip_by is_blank_tab (gf_gap f ++ gf_first f ++ x) = gf_first f ++ x).
  { unfold lstrip_by. rewrite drop_while_app_all by (apply forallb_forall; intros c Hc; rewrite Forall_forall in Hgap; now apply Hgap).
    destruct (gf_first f) as [|c r] eqn:Ef.
    - cbn [app]. subst x. destruct (gf_conts f); [destruct Hne as [Hne|Hne]; contradiction|]. reflexivity.
    - cbn [app]. apply drop_while_nohead. unfold strip in Hs. apply strip_by_head in Hs.
      destruct (is_blank_tab c) eqn:Eb; [|reflexivity]. apply blank_tab_space in Eb. congruence. }
  rewrite E1.
  assert (E2 : (gf_first f ++ x) ++ concat (tlines (gf_conts f) e) = join [10] (gf_first f :: gf_conts f) ++ e).
  { subst x. destruct (gf_conts f) as [|c cs].
    - cbn [tlines concat join]. now rewrite app_nil_r.
    - rewrite concat_tlines by discriminate. rewrite join_cons. now rewrite <- !app_assoc. }
  rewrite E2. rewrite strip_rstrip_sub by exact lf_cr_space. unfold strip. apply strip_by_app_all.
  destruct He as [->| ->]; reflexivity.
Qed.

(* ---------- merging items with distinct names ---------- *)

Definition item_key (kv : str * str) : str := strip (lower_ascii (fst kv)).
Definition item_out (kv : str * str) : str * str := (item_key kv, strip (snd kv)).

Lemma dict_get_app_none {V} k (d : pydict V) k' v : dict_get k d = None -> k <> k' -> dict_get k (d ++ [(k', v)]) = None.
Proof.
  induction d as [|[a b] d IH]; cbn [app dict_get]; intros H Hn.
  - destruct (str_eqb k k') eqn:E; [apply str_eqb_eq in E; contradiction|reflexivity].
  - destruct (str_eqb k a); [discriminate|]. now apply IH.
Qed.

Lemma dict_put_fresh {V} k (v : V) d : dict_get k d = None -> dict_put k v d = d ++ [(k, v)].
Proof.
  induction d as [|[a b] d IH]; cbn [app dict_get dict_put]; intros H; [reflexivity|].
  destruct (str_eqb k a); [discriminate|]. now rewrite IH.
Qed.

Lemma merge_distinct items : forall data, NoDup (map item_key items) ->
  (forall i, In i items -> dict_get (item_key i) data = None) ->
  merge_items items data = data ++ map item_out items.
Proof.
  induction items as [|[n v] items IH]; intros data Hnd Hfresh; [now rewrite app_nil_r|].
  rewrite merge_step. cbn zeta. inversion Hnd as [|? ? Hni Hnd']; subst.
  assert (Hk : dict_get (strip (lower_ascii n)) data = None) by (apply (Hfresh (n, v)); now left).
  rewrite Hk, dict_put_fresh by exact Hk. rewrite IH; [now rewrite <- app_assoc|exact Hnd'|].
  intros i Hi. apply dict_get_app_none; [apply Hfresh; now right|].
  intros E. apply Hni. change (item_key (n, v)) with (strip (lower_ascii n)). rewrite <- E. now apply in_map.
Qed.

Lemma lower_alnum n : Forall (fun x => is_ascii_alnum x = true \/ x = 45) n ->
  Forall (fun x => is_ascii_alnum x = true \/ x = 45) (lower_ascii n).
Proof.
  induction 1 as [|c n Hc _ IH]; [constructor|]. cbn [lower_ascii map]. constructor; [|exact IH].
  assert (Hb : c < 128).
  { destruct Hc as [H| ->]; [|lia]. unfold is_ascii_alnum, is_ascii_alpha, is_ascii_upper, is_ascii_lower, is_ascii_digit in H.
    repeat (apply orb_true_iff in H; destruct H as [H|H]); apply andb_true_iff in H as [_ H]; apply N.leb_le in H; lia. }
  set (P := fun c => implb (is_ascii_alnum c || (c =? 45)) (is_ascii_alnum (lower_ascii_char c) || (lower_ascii_char c =? 45))).
  assert (G : P c = true) by (apply (all_below_spec 128 P); [vm_compute; reflexivity|exact Hb]).
  unfold P in G. assert (E : is_ascii_alnum c || (c =? 45) = true).
  { destruct Hc as [->| ->]; [reflexivity|apply orb_true_r]. }
  rewrite E in G. cbn [implb] in G. apply orb_true_iff in G as [G|G]; [now left|right; now apply N.eqb_eq].
Qed.

Lemma hkey n : hname_ok n -> strip (lower_ascii n) = lower_ascii n.
Proof.
  intros [_ H]. apply nospace_strip. eapply Forall_impl; [|apply lower_alnum, H]. intros x Hx. now apply alnum_name_char.
Qed.

(* ---------- one paragraph ---------- *)

Definition hfield (f : gfield) : str * str := (lower_ascii (gf_name f), hvalue f).

Definition names_ok (p : gpara) : Prop :=
  NoDup (map (fun f => lower_ascii (gf_name f)) p) /\
  Forall (fun f => lower_ascii (gf_name f) <> lit "content-type") p.

Lemma items_out p e : Forall wf_gfield p -> (e = [] \/ e = [10]) ->
  map item_out (items_of p e) = map hfield p /\ map item_key (items_of p e) = map (fun f => lower_ascii (gf_name f)) p /\
  map (fun kv => lower_ascii (fst kv)) (items_of p e) = map (fun f => lower_ascii (gf_name f)) p.
Proof.
  intros Hf He. induction p as [|f p IH]; [repeat split|]. inversion Hf as [|? ? Hw Hp]; subst.
  assert (G : forall e', (e' = [] \/ e' = [10]) -> item_out (hitem f e') = hfield f /\ item_key (hitem f e') = lower_ascii (gf_name f)).
  { intros e' He'. unfold item_out, item_key, hitem, hfield. cbn [fst snd].
    rewrite hkey by (apply name_ok_hname, Hw). now rewrite hraw_value. }
  destruct p as [|g p].
  - cbn [items_of map]. destruct (G e He) as [-> ->]. repeat split.
  - change (items_of (f :: g :: p) e) with (hitem f [10] :: items_of (g :: p) e). cbn [map].
    destruct (IH Hp) as (-> & -> & ->). destruct (G [10] (or_intror eq_refl)) as [-> ->]. repeat split.
Qed.

Lemma not_container items : Forall (fun kv => lower_ascii (fst kv) <> lit "content-type") items -> is_container items = false.
Proof.
  intros H. unfold is_container.
  assert (E : find (fun kv : str * str => str_eqb (lower_ascii (fst kv)) (lit "content-type")) items = None).
  { induction H as [|kv items Hk _ IH]; [reflexivity|]. cbn [find]. apply str_eqb_neq in Hk. now rewrite Hk. }
  now rewrite E.
Qed.

Theorem header_parser_paragraph p e : p <> [] -> Forall wf_gfield p -> names_ok p -> (e = [] \/ e = [10]) ->
  get_paragraph_data (para_text p e) = map hfield p.
Proof.
  intros Hne Hf [Hnd Hct] He. destruct (items_out p e Hf He) as (Eo & Ek & El).
  unfold get_paragraph_data. rewrite parse_para_message by assumption. cbn [m_items m_defects m_unixfrom m_container m_payload].
  assert (Hnc : is_container (items_of p e) = false).
  { apply not_container. rewrite Forall_forall. intros kv Hkv.
    assert (Hin : In (lower_ascii (fst kv)) (map (fun kv => lower_ascii (fst kv)) (items_of p e))) by (apply (in_map (fun kv : str * str => lower_ascii (fst kv))), Hkv).
    rewrite El in Hin. apply in_map_iff in Hin as (f & Ef & Hin). rewrite <- Ef. rewrite Forall_forall in Hct. now apply Hct. }
  rewrite Hnc. cbn [orb].
  assert (Hi : items_of p e <> []) by (destruct p as [|f [|g p]]; [contradiction|discriminate|discriminate]).
  destruct (para_text p e) as [|c t] eqn:Et.
  { exfalso. unfold para_text in Et. apply app_eq_nil in Et as [Et _].
    destruct p as [|f p]; [contradiction|]. inversion Hf as [|? ? Hw _]; subst. cbn [flat_map field_src app] in Et.
    destruct Hw as (Hn & _). unfold decl_text in Et. destruct (gf_name f) as [|a n]; [contradiction|].
    destruct (gf_conts f ++ flat_map field_src p); discriminate. }
  destruct (items_of p e) as [|i is_] eqn:Ei; [contradiction|].
  rewrite merge_distinct; [exact Eo|now rewrite Ek|reflexivity].
Qed.

(* ---------- cutting the document into paragraphs ---------- *)

Definition no10 (l : str) : Prop := Forall (fun c => c <> 10) l.

Lemma line_tail l : forall cur s, no10 l ->
  split_paras_aux cur false false [] (l ++ 10 :: s) = split_paras_aux (10 :: rev l ++ cur) true false [] s.
Proof.
  induction l as [|c l IH]; intros cur s H; [reflexivity|]. inversion H as [|? ? Hc Hl]; subst.
  cbn [app split_paras_aux]. apply N.eqb_neq in Hc. rewrite Hc. cbn [andb]. rewrite IH by exact Hl.
  cbn [rev]. now rewrite <- app_assoc.
Qed.

Lemma line_nonsep c l cur pn s : no10 (c :: l) ->
  split_paras_aux cur pn false [] ((c :: l) ++ 10 :: s) = split_paras_aux (10 :: rev (c :: l) ++ cur) true false [] s.
Proof.
  intros H. inversion H as [|? ? Hc Hl]; subst. cbn [app split_paras_aux]. apply N.eqb_neq in Hc. rewrite Hc. cbn [andb].
  rewrite line_tail by exact Hl. cbn [rev]. now rewrite <- app_assoc.
Qed.

Lemma line_from_sep c l x s : no10 (c :: l) -> is_blank_tab c = false ->
  split_paras_aux x false true [] ((c :: l) ++ 10 :: s) = split_paras_aux (10 :: rev (c :: l)) true false [] s.
Proof.
  intros H Hb. inversion H as [|? ? Hc Hl]; subst. cbn [app split_paras_aux]. apply N.eqb_neq in Hc. rewrite Hc, Hb.
  rewrite line_tail by exact Hl. reflexivity.
Qed.

Definition lf_lines (ls : list str) : str := flat_map (fun l => l ++ [10]) ls.

Lemma lines_nonsep ls : forall l cur pn s, Forall (fun l => l <> [] /\ no10 l) (l :: ls) ->
  split_paras_aux cur pn false [] (lf_lines (l :: ls) ++ s) =
  split_paras_aux (rev (lf_lines (l :: ls)) ++ cur) true false [] s.
Proof.
  induction ls as [|l2 ls IH]; intros l cur pn s H; inversion H as [|? ? [Hne Hl] Hls]; subst;
    (destruct l as [|c l]; [contradiction|]).
  - replace (lf_lines [c :: l]) with ((c :: l) ++ [10]) by (unfold lf_lines; cbn [flat_map]; now rewrite app_nil_r).
    rewrite <- app_assoc. change ([10] ++ s) with (10 :: s). rewrite line_nonsep by exact Hl.
    rewrite rev_app_distr. reflexivity.
  - change (lf_lines ((c :: l) :: l2 :: ls)) with (((c :: l) ++ [10]) ++ lf_lines (l2 :: ls)).
    rewrite <- !app_assoc. change ([10] ++ lf_lines (l2 :: ls) ++ s) with (10 :: lf_lines (l2 :: ls) ++ s).
    rewrite line_nonsep by exact Hl. rewrite IH by exact Hls.
    rewrite (app_assoc (c :: l) [10]), (rev_app_distr ((c :: l) ++ [10])), rev_app_distr.
    change (rev [10]) with [10]. now rewrite <- !app_assoc.
Qed.

Lemma para_start b c l ls s : Forall (fun l => l <> [] /\ no10 l) ((c :: l) :: ls) -> is_blank_tab c = false ->
  split_paras_aux [] false b [] (lf_lines ((c :: l) :: ls) ++ s) =
  split_paras_aux (rev (lf_lines ((c :: l) :: ls))) true false [] s.
Proof.
  intros H Hb. destruct b.
  - inversion H as [|? ? [_ Hl] Hls]; subst. change (lf_lines ((c :: l) :: ls)) with (((c :: l) ++ [10]) ++ lf_lines ls).
    rewrite <- !app_assoc. change ([10] ++ lf_lines ls ++ s) with (10 :: lf_lines ls ++ s). rewrite line_from_sep by assumption.
    destruct ls as [|l2 ls].
    + change (lf_lines [] ++ s) with s. change ([10] ++ lf_lines []) with [10]. rewrite rev_app_distr. reflexivity.
    + rewrite lines_nonsep by exact Hls. rewrite !rev_app_distr. change (rev [10]) with [10]. rewrite <- app_assoc. reflexivity.
  - rewrite lines_nonsep by exact H. now rewrite app_nil_r.
Qed.

Lemma blank_run k cur0 s : (0 < k)%nat -> cur0 <> [] ->
  split_paras_aux (10 :: cur0) true false [] (repeat 10 k ++ s) = rev cur0 :: split_paras_aux [] false true [] s.
Proof.
  intros Hk Hc. destruct k as [|k]; [lia|]. cbn [repeat app split_paras_aux tl]. change (10 =? 10) with true. cbn [andb].
  destruct cur0 as [|x cur0]; [contradiction|]. f_equal. clear. induction k as [|k IH]; [reflexivity|].
  cbn [repeat app split_paras_aux]. change (10 =? 10) with true. cbv iota. exact IH.
Qed.

Lemma lf_lines_join ls : ls <> [] -> lf_lines ls = join [10] ls ++ [10].
Proof.
  intros Hne. induction ls as [|l ls IH]; [contradiction|]. destruct ls as [|l2 ls].
  - unfold lf_lines. cbn [flat_map join]. now rewrite app_nil_r.
  - change (lf_lines (l :: l2 :: ls)) with ((l ++ [10]) ++ lf_lines (l2 :: ls)). rewrite IH by discriminate.
    rewrite join_cons. now rewrite <- !app_assoc.
Qed.

Lemma lf_lines_app a b : lf_lines (a ++ b) = lf_lines a ++ lf_lines b.
Proof. unfold lf_lines. now rewrite flat_map_app. Qed.

Lemma lf_lines_blank k : lf_lines (repeat [] k) = repeat 10 k.
Proof. induction k as [|k IH]; [reflexivity|]. cbn [repeat]. unfold lf_lines in *. cbn [flat_map app]. now rewrite IH. Qed.

Fixpoint pieces (ps : list (gpara * nat)) : list str :=
  match ps with
  | [] => []
  | (p, k) :: ps' => para_text p (match k with O => [10] | _ => [] end) :: pieces ps'
  end.

Lemma no_eol_no10 l : no_lb is_lf_cr l -> no10 l.
Proof. unfold no_lb, no10. apply Forall_impl. intros c Hc ->. discriminate. Qed.

Lemma para_lines_ok p : Forall wf_gfield p -> Forall (fun l : str => l <> [] /\ no10 l) (flat_map field_src p).
Proof.
  intros Hf. pose proof (para_lines_nonempty p Hf) as H1. pose proof (para_lines_no_eol p Hf) as H2.
  rewrite Forall_forall in *. intros l Hl. split; [now apply H1|now apply no_eol_no10, H2].
Qed.

Theorem split_wf_doc ps : forall b, wf_doc ps -> split_paras_aux [] false b [] (doc_text ps) = pieces ps.
Proof.
  induction ps as [|[p k] ps IH]; intros b Hw; [destruct b; reflexivity|].
  destruct Hw as (Hne & Hf & Hk & Hw). unfold doc_text. fold (lf_lines (doc_src ((p, k) :: ps))). cbn [doc_src pieces].
  rewrite !lf_lines_app, lf_lines_blank. fold (doc_text ps) in *.
  pose proof (para_lines_ok p Hf) as Hok.
  destruct p as [|f p]; [contradiction|]. inversion Hf as [|? ? Hwf _]; subst.
  assert (Hhead : exists c l, decl_text f = c :: l /\ is_blank_tab c = false).
  { destruct Hwf as (Hn & _). unfold decl_text. destruct (gf_name f) as [|c n]; [contradiction|]. exists c, (n ++ [58] ++ gf_gap f ++ gf_first f).
    split; [reflexivity|]. destruct Hn as [Hc _]. destruct (is_blank_tab c) eqn:E; [|reflexivity].
    apply blank_tab_space in E. rewrite (alpha_nospace c Hc) in E. discriminate. }
  destruct Hhead as (c & l & Ed & Hb).
  set (L := flat_map field_src (f :: p)) in *.
  assert (EL : L = (c :: l) :: (gf_conts f ++ flat_map field_src p)) by (subst L; cbn [flat_map field_src app]; now rewrite Ed).
  assert (HLne : L <> []) by (rewrite EL; discriminate).
  rewrite EL in Hok |- *. rewrite para_start by assumption. rewrite <- EL in *.
  rewrite (lf_lines_join L HLne), rev_app_distr. cbn [rev app].
  assert (Hj : join [10] L <> []).
  { rewrite EL. destruct (gf_conts f ++ flat_map field_src p); [discriminate|]. rewrite join_cons. discriminate. }
  destruct k as [|k].
  - destruct ps as [|x ps]; [|assert (0 < 0)%nat by (apply Hk; discriminate); lia].
    cbn [repeat app doc_text doc_src flat_map pieces split_paras_aux]. unfold para_text.
    change ([rev (10 :: rev (join [10] L))] = [join [10] L ++ [10]]). cbn [rev]. now rewrite rev_involutive.
  - rewrite blank_run; [|lia|intros E; apply (f_equal (@rev char)) in E; rewrite rev_involutive in E; contradiction].
    rewrite rev_involutive, IH by exact Hw. unfold para_text. now rewrite app_nil_r.
Qed.

(* ---------- the whole document ---------- *)

Definition hdoc (ps : list (gpara * nat)) : list (pydict str) := map (fun pk => map hfield (fst pk)) ps.

Fixpoint doc_names_ok (ps : list (gpara * nat)) : Prop :=
  match ps with [] => True | (p, _) :: ps' => names_ok p /\ doc_names_ok ps' end.

Theorem header_parser_doc ps : wf_doc ps -> doc_names_ok ps -> get_paragraphs_data (doc_text ps) = hdoc ps.
Proof.
  intros Hw Hn. unfold get_paragraphs_data, split_in_paragraphs. rewrite split_wf_doc by exact Hw.
  induction ps as [|[p k] ps IH]; [reflexivity|]. destruct Hw as (Hne & Hf & _ & Hw). destruct Hn as [Hn Hns].
  cbn [pieces map hdoc fst]. rewrite header_parser_paragraph; [|assumption|assumption|assumption|destruct k; [now right|now left]].
  f_equal. now apply IH.
Qed.
