(* Proofs for C10: the ranges of the FINAL copyright object.  For every text, the ranges recorded
   for fields with a non-empty value - through renaming of duplicates, merging of unknown
   paragraphs and folding of free text into an empty license - lie within 1..#lines, have
   start <= end, and are disjoint and increasing in source order within and across paragraphs. *)
From Coq Require Import String.
From Coq Require Import Arith NArith List Bool Lia Sorted.
From DI Require Import Result PyStr PyStrFacts Codec Deb822 Deb822Facts Debcon Copyright CopyrightFacts
  RangeFacts Grammar822Header Dep5Facts ConserveFacts ShiftFacts.
Import ListNotations.
Open Scope N_scope.

Notation rng := (N * N)%type (only parsing).
Definition before (a b : rng) : Prop := snd a < fst b.
Definition chain (rs : list rng) : Prop := StronglySorted before rs /\ Forall (fun r : rng => fst r <= snd r) rs.

(* r starts where a range of seg starts and ends where a range of seg ends *)
Definition within (r : rng) (seg : list rng) : Prop :=
  fst r <= snd r /\ exists x y, In x seg /\ In y seg /\ fst x = fst r /\ snd r = snd y.

(* the ranges recorded for fields whose value in the dictionary form is not empty *)
Definition valued (p : para) (name : str) : bool := nonempty (lookup name (para_to_dict p)).
Definition vr (p : para) : list rng :=
  flat_map (fun kv : str * rng => if valued p (fst kv) then [snd kv] else []) (p_lines p).

(* ---------- lists ---------- *)

Lemma ss_app_inv {A} (R : A -> A -> Prop) (a b : list A) : StronglySorted R (a ++ b) ->
  StronglySorted R a /\ StronglySorted R b /\ (forall x y, In x a -> In y b -> R x y).
Proof.
  induction a as [|x a IH]; cbn [app]; intros H.
  - split; [constructor|]. split; [exact H|]. intros x y [].
  - inversion H as [|? ? Hs Hf]; subst. destruct (IH Hs) as (Ha & Hb & Hab). split; [|split; [exact Hb|]].
    + constructor; [exact Ha|]. rewrite Forall_forall in *. intros z Hz. apply Hf. apply in_or_app. now left.
    + intros z y [<-|Hz] Hy; [|now apply Hab]. rewrite Forall_forall in Hf. apply Hf. apply in_or_app. now right.
Qed.

Lemma ss_app {A} (R : A -> A -> Prop) (a b : list A) :
  StronglySorted R a -> StronglySorted R b -> (forall x y, In x a -> In y b -> R x y) -> StronglySorted R (a ++ b).
Proof.
  induction a as [|x a IH]; cbn [app]; intros Ha Hb Hab; [exact Hb|].
  inversion Ha as [|? ? Hs Hf]; subst. constructor.
  - apply IH; [exact Hs|exact Hb|]. intros z y Hz Hy. apply Hab; [now right|exact Hy].
  - rewrite Forall_forall in *. intros z Hz. apply in_app_or in Hz as [Hz|Hz]; [now apply Hf|]. apply Hab; [now left|exact Hz].
Qed.

Lemma chain_app_inv a b : chain (a ++ b) -> chain a /\ chain b /\ (forall x y, In x a -> In y b -> before x y).
Proof.
  intros [Hs Hf]. destruct (ss_app_inv _ _ _ Hs) as (Ha & Hb & Hab). apply Forall_app in Hf as [Fa Fb].
  split; [split; assumption|]. split; [split; assumption|exact Hab].
Qed.

Lemma chain_app a b : chain a -> chain b -> (forall x y, In x a -> In y b -> before x y) -> chain (a ++ b).
Proof.
  intros [Ha Fa] [Hb Fb] Hab. split; [now apply ss_app|]. apply Forall_app. now split.
Qed.

Lemma chain_nil : chain [].
Proof. split; constructor. Qed.

Lemma chain_one r : fst r <= snd r -> chain [r].
Proof. intros H. split; [constructor; constructor|constructor; [exact H|constructor]]. Qed.

(* a sub-list picked by a test keeps the order *)
Lemma chain_pick {A} (f : A -> rng) (pick : A -> bool) (l : list A) :
  chain (map f l) -> chain (flat_map (fun x => if pick x then [f x] else []) l).
Proof.
  induction l as [|x l IH]; cbn [map flat_map]; intros H; [exact chain_nil|].
  change (f x :: map f l) with ([f x] ++ map f l) in H. apply chain_app_inv in H as (H1 & H2 & H12).
  destruct (pick x); cbn [app]; [|now apply IH].
  change (chain ([f x] ++ flat_map (fun x0 => if pick x0 then [f x0] else []) l)). apply chain_app; [exact H1|now apply IH|].
  intros a b Ha Hb. apply H12; [exact Ha|]. apply in_flat_map in Hb as (z & Hz & Hb). apply in_map_iff. exists z.
  destruct (pick z); [destruct Hb as [<-|[]]; now split|contradiction].
Qed.

Lemma pick_In {A} (f : A -> rng) (pick : A -> bool) (l : list A) r :
  In r (flat_map (fun x => if pick x then [f x] else []) l) -> In r (map f l).
Proof.
  intros H. apply in_flat_map in H as (z & Hz & Hb). apply in_map_iff. exists z.
  destruct (pick z); [destruct Hb as [<-|[]]; now split|contradiction].
Qed.

Lemma within_mono r a b : within r b -> within r (a ++ b).
Proof. intros (H & x & y & Hx & Hy & H1 & H2). split; [exact H|]. exists x, y. repeat split; try assumption; apply in_or_app; now right. Qed.

Lemma within_mono_l r a b : within r a -> within r (a ++ b).
Proof. intros (H & x & y & Hx & Hy & H1 & H2). split; [exact H|]. exists x, y. repeat split; try assumption; apply in_or_app; now left. Qed.

Lemma within_self r seg : fst r <= snd r -> In r seg -> within r seg.
Proof. intros H Hin. split; [exact H|]. exists r, r. repeat split; try assumption; lia. Qed.

(* blocks: ranges inside consecutive segments of a chain form a chain *)
Lemma chain_blocks (rss segs : list (list rng)) :
  Forall2 (fun rs seg => chain rs /\ Forall (fun r => within r seg) rs) rss segs ->
  chain (concat segs) -> chain (concat rss).
Proof.
  induction 1 as [|rs seg rss segs [Hc Hw] HF IH]; cbn [concat]; intros HG; [exact chain_nil|].
  apply chain_app_inv in HG as (_ & HG2 & H12). apply chain_app; [exact Hc|now apply IH|].
  intros a b Ha Hb. rewrite Forall_forall in Hw. destruct (Hw a Ha) as (_ & _ & ya & _ & Hya & _ & Hay).
  apply in_concat in Hb as (rs' & Hrs' & Hb).
  assert (Hb' : exists seg', In seg' segs /\ within b seg').
  { clear -HF Hrs' Hb. induction HF as [|rs0 seg0 rss segs [_ Hw0] _ IH0]; [contradiction|].
    destruct Hrs' as [->|Hin].
    - exists seg0. split; [now left|]. rewrite Forall_forall in Hw0. now apply Hw0.
    - destruct (IH0 Hin) as (s & Hs & Hws). exists s. split; [now right|exact Hws]. }
  destruct Hb' as (seg' & Hseg' & (_ & xb & _ & Hxb & _ & Hxb1 & _)).
  assert (Hlt : before ya xb). { apply H12; [exact Hya|]. apply in_concat. exists seg'. now split. }
  unfold before in *. lia.
Qed.

(* ---------- the fields of a text give a chain of ranges ---------- *)

Lemma field_text_nil f : f_lines f = [] -> field_text f = [].
Proof. unfold field_text. now intros ->. Qed.

Lemma ranges_chain (pick : field -> bool) (fs : list field) :
  (forall f, pick f = true -> f_lines f <> []) ->
  StronglySorted N.lt (concat (map nums fs)) ->
  chain (map range_of (filter pick fs)) /\
  (forall f, In f (filter pick fs) -> In (fst (range_of f)) (concat (map nums fs)) /\ In (snd (range_of f)) (concat (map nums fs))).
Proof.
  intros Hp. induction fs as [|f fs IH]; cbn [map concat filter]; intros Hs; [split; [exact chain_nil|intros f []]|].
  apply ss_app_inv in Hs as (Hf & Hfs & Hlt). destruct (IH Hfs) as [IHc IHin].
  destruct (pick f) eqn:E.
  - destruct (field_range f Hf (Hp f E)) as (H1 & H2 & H3 & _). cbn [map]. split.
    + change (chain ([range_of f] ++ map range_of (filter pick fs))). apply chain_app; [now apply chain_one|exact IHc|].
      intros a b [<-|[]] Hb. apply in_map_iff in Hb as (g & <- & Hg). unfold before, range_of. cbn [fst snd].
      apply Hlt; [exact H2|]. now apply IHin.
    + intros g [<-|Hg]; [split; apply in_or_app; left; assumption|]. destruct (IHin g Hg). split; apply in_or_app; now right.
  - split; [exact IHc|]. intros g Hg. destruct (IHin g Hg). split; apply in_or_app; now right.
Qed.

Lemma flat_nums gs : map ln_num (flat gs) = concat (map nums (concat gs)).
Proof.
  unfold flat. induction gs as [|g gs IH]; [reflexivity|]. cbn [map concat]. rewrite map_app, IH, map_app, concat_app. f_equal.
  clear. induction g as [|f g IHg]; [reflexivity|]. cbn [map concat]. rewrite map_app, IHg. reflexivity.
Qed.

Definition all_live (gs : list (list field)) : list field := flat_map live gs.

Lemma all_live_filter gs : all_live gs = filter (fun f => nonempty (field_text f)) (concat gs).
Proof.
  unfold all_live, live. induction gs as [|g gs IH]; [reflexivity|]. cbn [flat_map concat]. rewrite IH. symmetry. apply filter_app.
Qed.

Definition bounded (L : N) (r : rng) : Prop := 1 <= fst r /\ snd r <= L.

Theorem text_ranges_chain t gs : groups t = Ok gs ->
  chain (map range_of (all_live gs)) /\ Forall (bounded (N.of_nat (length (text_lines t)))) (map range_of (all_live gs)).
Proof.
  intros H. destruct (groups_numbers t gs H) as [Hs Hb]. rewrite flat_nums in Hs, Hb. rewrite all_live_filter.
  assert (Hp : forall f, nonempty (field_text f) = true -> f_lines f <> []).
  { intros f Hf Hn. rewrite (field_text_nil f Hn) in Hf. discriminate. }
  destruct (ranges_chain _ (concat gs) Hp Hs) as [Hc Hin]. split; [exact Hc|].
  apply Forall_forall. intros r Hr. apply in_map_iff in Hr as (f & <- & Hf). destruct (Hin f Hf) as [H1 H2].
  rewrite Forall_forall in Hb. split; [apply (Hb _ H1)|apply (Hb _ H2)].
Qed.

(* ---------- what from_fields records ---------- *)

Lemma add_field_lines t ae b f b' : sub_seen (b_lines b) (b_seen b) -> NoDup (keys (b_lines b)) ->
  add_field t ae b f = Ok b' ->
  sub_seen (b_lines b') (b_seen b') /\ NoDup (keys (b_lines b')) /\
  map snd (b_lines b') = map snd (b_lines b) ++ map range_of (live [f]).
Proof.
  intros Hsub Hnd. unfold add_field, live. cbn [filter]. destruct (field_text f) as [|c0 v0] eqn:Ev; cbn [nonempty map].
  - intros H. apply Ok_inj in H. subst b'. rewrite app_nil_r. now repeat split.
  - assert (G : forall name, ~ In name (b_seen b) ->
      let lines := dict_put name (first_content_line f, last_line f) (b_lines b) in
      sub_seen lines (name :: b_seen b) /\ NoDup (keys lines) /\ map snd lines = map snd (b_lines b) ++ [range_of f]).
    { intros name Hn lines. assert (Hk : ~ In name (keys (b_lines b))) by (intros Hi; apply Hn; now apply Hsub).
      unfold lines. rewrite (dict_put_fresh name _ (b_lines b)) by (now apply dict_get_absent). split; [|split].
      - intros x Hx. rewrite keys_app in Hx. apply in_app_or in Hx as [Hx|[<-|[]]]; [right; now apply Hsub|now left].
      - rewrite keys_app. now apply NoDup_snoc.
      - rewrite map_app. reflexivity. }
    destruct (if mem_str _ (b_seen b) then _ else _) as [name sfx] eqn:En.
    assert (Hn : ~ In name (b_seen b)).
    { destruct (mem_str (replace_char 45 95 (f_name f)) (b_seen b)) eqn:Em.
      - pose proof (fresh_name_fresh _ _ _ _ _ En) as Hfr. intros Hi. apply mem_str_In in Hi. congruence.
      - inversion En; subst. intros Hi. apply mem_str_In in Hi. congruence. }
    specialize (G name Hn). cbv zeta in G. intros H.
    destruct (negb ae && known_name t name).
    + destruct (has_key name (b_known b)); [discriminate|]. apply Ok_inj in H. subst b'. exact G.
    + destruct (has_key name (b_extra b)); [discriminate|]. apply Ok_inj in H. subst b'. exact G.
Qed.

Lemma live_cons f fs : live (f :: fs) = live [f] ++ live fs.
Proof. unfold live. cbn [filter]. destruct (nonempty (field_text f)); reflexivity. Qed.

Lemma add_fields_lines t ae fs : forall b b', sub_seen (b_lines b) (b_seen b) -> NoDup (keys (b_lines b)) ->
  add_fields t ae b fs = Ok b' ->
  NoDup (keys (b_lines b')) /\ map snd (b_lines b') = map snd (b_lines b) ++ map range_of (live fs).
Proof.
  induction fs as [|f fs IH]; intros b b' Hsub Hnd H; cbn [add_fields] in H.
  - apply Ok_inj in H. subst. cbn. rewrite app_nil_r. now split.
  - destruct (add_field t ae b f) as [b1|e] eqn:E1; cbn [bind] in H; [|discriminate].
    destruct (add_field_lines _ _ _ _ _ Hsub Hnd E1) as (Hsub1 & Hnd1 & E).
    destruct (IH b1 b' Hsub1 Hnd1 H) as [Hnd' E']. split; [exact Hnd'|].
    rewrite E', E, (live_cons f fs), map_app, app_assoc. reflexivity.
Qed.

Lemma add_fields_nolive t ae fs : forall b, live fs = [] -> add_fields t ae b fs = Ok b.
Proof.
  induction fs as [|f fs IH]; intros b Hl; [reflexivity|]. rewrite live_cons in Hl. apply app_eq_nil in Hl as [H1 H2].
  cbn [add_fields]. unfold add_field. unfold live in H1. cbn [filter] in H1.
  destruct (field_text f); [cbn [bind]; now apply IH|discriminate].
Qed.

(* a paragraph as built from a group: recorded ranges are exactly those of its live fields in
   order, under pairwise different names; nothing is stored when no field has a value *)
Record FB (p : para) (seg : list rng) : Prop := {
  fb_ranges : map snd (p_lines p) = seg;
  fb_nodup : NoDup (keys (p_lines p));
  fb_fields : map fst (p_fields p) = map fst (known_fields (p_type p));
  fb_none : seg = [] -> p = build_para (p_type p) [] [] [];
  fb_shape : wfp p;
}.

Lemma from_fields_FB t fs p : from_fields t fs = Ok p -> FB p (map range_of (live fs)).
Proof.
  intros H. pose proof (from_fields_shape _ _ _ H) as [Ht Hk]. unfold from_fields in H.
  destruct (add_fields t _ (mkB [] [] [] [] 1) fs) as [b|e] eqn:E; cbn [bind] in H; [|discriminate].
  apply Ok_inj in H.
  assert (Hsub : sub_seen (b_lines (mkB [] [] [] [] 1)) (b_seen (mkB [] [] [] [] 1))) by (intros x []).
  destruct (add_fields_lines _ _ _ _ _ Hsub (NoDup_nil _) E) as [Hnd El]. cbn [b_lines map app] in El.
  constructor.
  - subst p. exact El.
  - subst p. exact Hnd.
  - rewrite Ht. exact Hk.
  - intros Hnil. apply map_eq_nil in Hnil. rewrite (add_fields_nolive _ _ _ _ Hnil) in E. apply Ok_inj in E. subst b p. reflexivity.
  - exists (b_known b). subst p. reflexivity.
Qed.

(* ---------- values of an empty build ---------- *)

Lemma empty_build_vals t : Forall (fun v : str => v = []) (pvals (build_para t [] [] [])).
Proof. destruct t; vm_compute; repeat constructor. Qed.

Lemma empty_catchall_vals : pvals (build_para PCatchAll [] [] []) = [].
Proof. reflexivity. Qed.

(* ---------- paragraphs on their way through merge and fold ---------- *)

Definition Out (p : para) (seg : list rng) : Prop := chain (vr p) /\ Forall (fun r => within r seg) (vr p).

Record PI (p : para) (seg : list rng) : Prop := {
  pi_out : Out p seg;
  pi_span : seg <> [] -> within (first_last p) seg;
  pi_lines : seg <> [] -> p_lines p <> [];
  pi_empty : seg = [] -> Forall (fun v : str => v = []) (pvals p);
  pi_exact : is_catchall p = false -> FB p seg;
}.

Lemma span_within (rs : list rng) (r0 : rng) seg :
  (forall x, In x (r0 :: rs) -> within x seg) -> within (fold_left mm rs r0) seg.
Proof.
  intros Hw. destruct (fold_mm_spec rs r0) as (H1 & (x & Hx & Ex) & (y & Hy & Ey)). cbv zeta in *.
  set (r := fold_left mm rs r0) in *.
  destruct (Hw r0 (or_introl eq_refl)) as (H0 & _). destruct (H1 r0 (or_introl eq_refl)) as [A B].
  destruct (Hw x Hx) as (_ & a & _ & Ha & _ & Ha1 & _). destruct (Hw y Hy) as (_ & _ & b & _ & Hb & _ & Hb1).
  split; [lia|]. exists a, b. repeat split; try assumption; lia.
Qed.

Lemma first_last_mm p n0 r0 rest : p_lines p = (n0, r0) :: rest -> first_last p = fold_left mm (map snd rest) r0.
Proof.
  intros E. unfold first_last. rewrite E. destruct r0 as [s e]. generalize (s, e). clear.
  induction rest as [|x l IH]; intros acc; [reflexivity|]. cbn [fold_left map]. apply IH.
Qed.

Lemma chain_fst_le seg r : chain seg -> In r seg -> fst r <= snd r.
Proof. intros [_ H] Hin. rewrite Forall_forall in H. now apply H. Qed.

Lemma FB_PI p seg : chain seg -> FB p seg -> PI p seg.
Proof.
  intros Hc HF. constructor.
  - split.
    + unfold vr. apply (chain_pick snd (fun kv => valued p (fst kv))). now rewrite (fb_ranges _ _ HF).
    + apply Forall_forall. intros r Hr. unfold vr in Hr. apply (pick_In snd) in Hr. rewrite (fb_ranges _ _ HF) in Hr.
      apply within_self; [now apply (chain_fst_le seg)|exact Hr].
  - intros Hne. pose proof (fb_ranges _ _ HF) as E. destruct (p_lines p) as [|[n0 r0] rest] eqn:El; [cbn in E; congruence|].
    rewrite (first_last_mm p n0 r0 rest El). apply span_within. intros x Hx.
    assert (Hin : In x seg) by (rewrite <- E; exact Hx).
    apply within_self; [now apply (chain_fst_le seg)|exact Hin].
  - intros Hne El. apply Hne. rewrite <- (fb_ranges _ _ HF), El. reflexivity.
  - intros Hnil. rewrite (fb_none _ _ HF Hnil). apply empty_build_vals.
  - intros _. exact HF.
Qed.

Lemma chain_concat_in segs seg : chain (concat segs) -> In seg segs -> chain seg.
Proof.
  induction segs as [|s segs IH]; [intros _ []|]. cbn [concat]. intros H [->|Hin].
  - now apply chain_app_inv in H.
  - apply IH; [|exact Hin]. now apply chain_app_inv in H.
Qed.

Lemma within_concat r seg segs : In seg segs -> within r seg -> within r (concat segs).
Proof.
  intros Hin (H & x & y & Hx & Hy & H1 & H2). split; [exact H|]. exists x, y.
  repeat split; try assumption; apply in_concat; exists seg; now split.
Qed.

Lemma FB_all_PI ps segs : Forall2 FB ps segs -> chain (concat segs) -> Forall2 PI ps segs.
Proof.
  intros HF Hc. assert (Hall : forall seg, In seg segs -> chain seg) by (intros seg; now apply chain_concat_in).
  clear Hc. induction HF as [|p seg ps segs Hp _ IH]; [constructor|]. constructor.
  - apply FB_PI; [apply Hall; now left|exact Hp].
  - apply IH. intros s Hs. apply Hall. now right.
Qed.

(* ---------- merging a run of unknown paragraphs ---------- *)

Lemma merge_run_dict run :
  para_to_dict (merge_run run) =
  [(lit "unknown", match from_formatted_lines (flat_map pvals run) with [] => [] | v => as_formatted_text v end)].
Proof. unfold merge_run, para_to_dict, known_to_dict, extra_to_dict. cbn [p_fields p_extra map fold_left fst snd]. reflexivity. Qed.

Lemma first_last_merge run :
  first_last (merge_run run) = match para_ranges run with [] => (1, 1) | r :: rs => fold_left mm rs r end.
Proof.
  unfold first_last, merge_run. cbn [p_lines]. fold (para_ranges run).
  destruct (match para_ranges run with [] => (1, 1) | r :: rs => _ end) as [s e]. reflexivity.
Qed.

Lemma vr_merge run :
  vr (merge_run run) =
  if nonempty (match from_formatted_lines (flat_map pvals run) with [] => [] | v => as_formatted_text v end)
  then [first_last (merge_run run)] else [].
Proof.
  unfold vr, valued. rewrite merge_run_dict. unfold first_last. unfold merge_run. cbn [p_lines flat_map fst snd app].
  unfold lookup. cbn [dict_get]. rewrite str_eqb_refl.
  destruct (nonempty _); [|reflexivity]. cbn [app].
  match goal with |- [?r] = _ => destruct r as [s e] end. reflexivity.
Qed.

Lemma FB_nil_lines p seg : FB p seg -> p_lines p = [] <-> seg = [].
Proof.
  intros HF. rewrite <- (fb_ranges _ _ HF). split; [intros ->; reflexivity|apply map_eq_nil].
Qed.

Lemma para_ranges_within run segs : Forall2 FB run segs -> chain (concat segs) ->
  forall x, In x (para_ranges run) -> within x (concat segs).
Proof.
  induction 1 as [|p seg run segs Hp _ IH]; cbn [concat]; intros Hc x Hx; [destruct Hx|].
  apply chain_app_inv in Hc as (Hc1 & Hc2 & _). unfold para_ranges in Hx. cbn [flat_map] in Hx. apply in_app_or in Hx as [Hx|Hx].
  - apply within_mono_l. destruct (p_lines p) as [|kv l] eqn:El; [contradiction|]. destruct Hx as [<-|[]].
    apply (pi_span _ _ (FB_PI _ _ Hc1 Hp)). intros Hnil. apply (FB_nil_lines _ _ Hp) in Hnil. congruence.
  - apply within_mono. now apply IH.
Qed.

Lemma para_ranges_nonempty run segs : Forall2 FB run segs -> concat segs <> [] -> para_ranges run <> [].
Proof.
  induction 1 as [|p seg run segs Hp _ IH]; cbn [concat]; intros Hne; [contradiction|].
  unfold para_ranges. cbn [flat_map]. destruct (p_lines p) as [|kv l] eqn:El; [|discriminate].
  cbn [app]. apply IH. apply (FB_nil_lines _ _ Hp) in El. subst seg. exact Hne.
Qed.

Lemma run_without_content run segs : Forall2 FB run segs -> Forall (fun p => is_catchall p = true) run ->
  concat segs = [] -> flat_map pvals run = [] /\ para_ranges run = [].
Proof.
  induction 1 as [|p seg run segs Hp _ IH]; cbn [concat]; intros Hcat Hnil; [split; reflexivity|].
  apply app_eq_nil in Hnil as [H1 H2]. inversion Hcat as [|? ? Hp1 Hcat']; subst.
  destruct (IH Hcat' H2) as [IH1 IH2]. unfold para_ranges in *. cbn [flat_map]. rewrite IH1, IH2.
  pose proof (proj2 (FB_nil_lines _ _ Hp) eq_refl) as El. rewrite El.
  pose proof (fb_none _ _ Hp eq_refl) as Ep. unfold is_catchall in Hp1. destruct (p_type p); try discriminate.
  rewrite Ep. split; reflexivity.
Qed.

Lemma merge_run_PI run segs : Forall2 FB run segs -> Forall (fun p => is_catchall p = true) run ->
  chain (concat segs) -> PI (merge_run run) (concat segs).
Proof.
  intros HF Hcat Hc.
  assert (Hd : concat segs = [] \/ concat segs <> []) by (destruct (concat segs); [now left|right; discriminate]).
  destruct Hd as [Hnil|Hne].
  - destruct (run_without_content _ _ HF Hcat Hnil) as [Ev Er]. constructor.
    + unfold Out. rewrite vr_merge, Ev. cbn [from_formatted_lines nonempty]. split; [exact chain_nil|constructor].
    + intros H. contradiction.
    + intros H. contradiction.
    + intros _. unfold pvals. rewrite merge_run_dict, Ev. cbn [from_formatted_lines map snd]. repeat constructor.
    + intros H. discriminate H.
  - assert (Hw : within (first_last (merge_run run)) (concat segs)).
    { rewrite first_last_merge. pose proof (para_ranges_nonempty _ _ HF Hne) as Hr.
      pose proof (para_ranges_within _ _ HF Hc) as Hin. destruct (para_ranges run) as [|r0 rs]; [contradiction|].
      now apply span_within. }
    constructor.
    + unfold Out. rewrite vr_merge. destruct (nonempty _).
      * split; [apply chain_one; apply Hw|constructor; [exact Hw|constructor]].
      * split; [exact chain_nil|constructor].
    + intros _. exact Hw.
    + intros _. apply merge_run_has_lines.
    + intros H. contradiction.
    + intros H. discriminate H.
Qed.

Lemma span_catchall_cat ps : Forall (fun p => is_catchall p = true) (fst (span_catchall ps)).
Proof.
  induction ps as [|p ps IH]; [constructor|]. cbn [span_catchall]. destruct (is_catchall p) eqn:E; [|constructor].
  destruct (span_catchall ps) as [a b]. cbn [fst] in *. now constructor.
Qed.

Theorem merge_unknown_PI n : forall ps segs, Forall2 FB ps segs -> chain (concat segs) ->
  exists segs', Forall2 PI (merge_unknown n ps) segs' /\ concat segs' = concat segs.
Proof.
  induction n as [|n IH]; intros ps segs HF Hc.
  - exists segs. split; [now apply FB_all_PI|reflexivity].
  - destruct ps as [|p ps']; [inversion HF; subst; exists []; split; [constructor|reflexivity]|].
    cbn [merge_unknown]. destruct (is_catchall p) eqn:Ecat.
    + pose proof (ConserveFactsLite_span (p :: ps')) as Esp. pose proof (span_catchall_cat (p :: ps')) as Hcat.
      destruct (span_catchall (p :: ps')) as [run rest]. cbn [fst snd] in Esp, Hcat. rewrite Esp in HF.
      apply Forall2_app_inv_l in HF as (s1 & s2 & HF1 & HF2 & ->). rewrite concat_app in Hc.
      pose proof (chain_app_inv _ _ Hc) as (Hc1 & Hc2 & _).
      destruct (IH rest s2 HF2 Hc2) as (s2' & HP2 & E2).
      assert (Hkeep : exists segs', Forall2 PI (run ++ merge_unknown n rest) segs' /\ concat segs' = concat (s1 ++ s2)).
      { exists (s1 ++ s2'). split; [apply Forall2_app; [now apply FB_all_PI|exact HP2]|]. now rewrite !concat_app, E2. }
      destruct run as [|q1 [|q2 run']]; try exact Hkeep.
      destruct (forallb is_all_unknown (q1 :: q2 :: run')); [|exact Hkeep].
      exists (concat s1 :: s2'). split; [constructor; [now apply merge_run_PI|exact HP2]|]. cbn [concat]. now rewrite concat_app, E2.
    + inversion HF as [|? seg ? segs0 Hp HF' ]; subst. cbn [concat] in Hc. pose proof (chain_app_inv _ _ Hc) as (Hc1 & Hc2 & _).
      destruct (IH ps' segs0 HF' Hc2) as (s' & HP & E). exists (seg :: s'). split; [constructor; [now apply FB_PI|exact HP]|].
      cbn [concat]. now rewrite E.
Qed.

(* ---------- folding free text into an empty license ---------- *)

Lemma PI_Out p seg : PI p seg -> Out p seg.
Proof. apply pi_out. Qed.

Lemma dict_get_value {V} k (d : pydict V) v : dict_get k d = Some v -> In v (map snd d).
Proof.
  induction d as [|[a b] d IH]; cbn [dict_get map snd]; [discriminate|].
  destruct (str_eqb k a); [intros H; inversion H; now left|intros H; right; now apply IH].
Qed.

Lemma pick_absent (K : str) (b : bool) (d : pydict (N * N)) : ~ In K (keys d) ->
  flat_map (fun kv : str * (N * N) => if str_eqb (fst kv) K && b then [snd kv] else []) d = [].
Proof.
  induction d as [|[a v] d IH]; [reflexivity|]. cbn [keys map fst In flat_map]. intros H.
  destruct (str_eqb a K) eqn:E; [apply str_eqb_eq in E; subst; exfalso; apply H; now left|]. cbn [andb app].
  apply IH. intros Hi. apply H. now right.
Qed.

Lemma pick_key_put (K : str) (b : bool) (R : N * N) (d : pydict (N * N)) : NoDup (keys d) ->
  flat_map (fun kv : str * (N * N) => if str_eqb (fst kv) K && b then [snd kv] else []) (dict_put K R d) = if b then [R] else [].
Proof.
  induction d as [|[a v] d IH]; cbn [dict_put keys map fst]; intros Hnd.
  - cbn [flat_map fst snd]. rewrite str_eqb_refl. destruct b; reflexivity.
  - inversion Hnd as [|? ? Hni Hnd']; subst. destruct (str_eqb K a) eqn:E.
    + apply str_eqb_eq in E. subst a. cbn [flat_map fst snd]. rewrite str_eqb_refl, (pick_absent K b d Hni).
      destruct b; reflexivity.
    + cbn [flat_map fst snd]. assert (E' : str_eqb a K = false).
      { apply str_eqb_neq. apply str_eqb_neq in E. congruence. }
      rewrite E'. cbn [andb app]. now apply IH.
Qed.

Lemma fold_pair_Out p1 p2 s1 s2 : foldable p1 p2 = true -> PI p1 s1 -> PI p2 s2 -> chain (s1 ++ s2) ->
  Out (fold_pair p1 p2) (s1 ++ s2).
Proof.
  intros Hf H1 H2 Hc. unfold foldable in Hf. apply andb_true_iff in Hf as [Hf _]. apply andb_true_iff in Hf as [Hf _].
  apply andb_true_iff in Hf as [Ht He]. destruct (p_type p1) eqn:Etype; try discriminate.
  assert (HFB : FB p1 s1) by (apply (pi_exact _ _ H1); unfold is_catchall; now rewrite Etype).
  destruct (license_fields p1 (fb_shape _ _ HFB) Etype) as (n & tx & c & Ef).
  unfold para_is_empty in He. rewrite Etype in He. apply negb_true_iff in He.
  unfold lic_name, lic_text, comment_text, get_field in He. rewrite Ef in He. cbn [find fst] in He.
  change (str_eqb (lit "license") (lit "license")) with true in He.
  change (str_eqb (lit "comment") (lit "license")) with false in He.
  change (str_eqb (lit "comment") (lit "comment")) with true in He. cbv iota in He. cbn [find fst] in He.
  change (str_eqb (lit "license") (lit "comment")) with false in He.
  change (str_eqb (lit "comment") (lit "comment")) with true in He. cbv iota in He.
  apply orb_false_iff in He as [He H4]. apply orb_false_iff in He as [He H3]. apply orb_false_iff in He as [H1' H2'].
  destruct (p_extra p1) as [|x ex] eqn:Eex; [|discriminate]. destruct c; [|discriminate]. destruct n; [|discriminate]. destruct tx; [|discriminate].
  set (text := join [10] (filter (fun v : str => nonempty v) (pvals p2))).
  assert (Ed : para_to_dict (fold_pair p1 p2) = [(lit "license", lic_dumps [] text); (lit "comment", [])]).
  { unfold fold_pair. destruct (first_last p2) as [f2 e2]. unfold para_to_dict, known_to_dict. cbn [p_fields p_extra].
    unfold set_license. rewrite Ef, Eex. cbn [map fst snd extra_to_dict fold_left].
    change (str_eqb (lit "license") (lit "license")) with true.
    change (str_eqb (lit "comment") (lit "license")) with false. cbv iota. reflexivity. }
  assert (Ev : forall name, valued (fold_pair p1 p2) name = str_eqb name (lit "license") && nonempty (lic_dumps [] text)).
  { intros name. unfold valued, lookup. rewrite Ed. cbn [dict_get]. destruct (str_eqb name (lit "license")); [reflexivity|].
    destruct (str_eqb name (lit "comment")); reflexivity. }
  assert (Evr : vr (fold_pair p1 p2) =
                if nonempty (lic_dumps [] text)
                then [(match dict_get (lit "license") (p_lines p1) with Some (s, _) => s | None => fst (first_last p2) end, snd (first_last p2))]
                else []).
  { unfold vr. rewrite fold_range.
    rewrite (flat_map_ext _ (fun kv : str * (N * N) => if str_eqb (fst kv) (lit "license") && nonempty (lic_dumps [] text) then [snd kv] else [])).
    - apply pick_key_put. apply (fb_nodup _ _ HFB).
    - intros kv. now rewrite Ev. }
  unfold Out. rewrite Evr. destruct (nonempty (lic_dumps [] text)) eqn:Env; [|split; [exact chain_nil|constructor]].
  (* the folded text is not empty: the unknown paragraph has content, hence true line numbers *)
  assert (Hs2 : s2 <> []).
  { intros ->. pose proof (pi_empty _ _ H2 eq_refl) as Hall. assert (Et : text = []).
    { unfold text. clear -Hall. induction Hall as [|v l Hv _ IH]; [reflexivity|]. subst v. cbn [filter nonempty]. exact IH. }
    rewrite Et in Env. vm_compute in Env. discriminate. }
  destruct (pi_span _ _ H2 Hs2) as (Hle & x & y & Hx & Hy & Hx1 & Hy1).
  assert (Hw : within (match dict_get (lit "license") (p_lines p1) with Some (s, _) => s | None => fst (first_last p2) end, snd (first_last p2)) (s1 ++ s2)).
  { destruct (dict_get (lit "license") (p_lines p1)) as [[s e]|] eqn:Eg.
    - apply dict_get_value in Eg. rewrite (fb_ranges _ _ HFB) in Eg.
      apply chain_app_inv in Hc as (Hc1 & _ & H12). pose proof (chain_fst_le _ _ Hc1 Eg) as Hse. pose proof (H12 _ _ Eg Hx) as Hb.
      unfold before in Hb. unfold within. cbn [fst snd] in *. split; [lia|]. exists (s, e), y. cbn [fst snd].
      repeat split; try lia; apply in_or_app; [now left|now right].
    - apply within_mono. split; [exact Hle|]. exists x, y. now repeat split. }
  split; [apply chain_one; apply Hw|constructor; [exact Hw|constructor]].
Qed.

Theorem fold_list_Out n : forall ps segs, (length ps <= n)%nat -> Forall2 PI ps segs -> chain (concat segs) ->
  exists segs', Forall2 Out (fold_list ps) segs' /\ concat segs' = concat segs.
Proof.
  induction n as [|n IH]; intros ps segs Hlen HP Hc.
  - destruct ps; [|cbn in Hlen; lia]. inversion HP; subst. exists []. split; [constructor|reflexivity].
  - destruct ps as [|p1 [|p2 rest]].
    + inversion HP; subst. exists []. split; [constructor|reflexivity].
    + inversion HP as [|? s1 ? ? Hp1 HP']; subst. inversion HP'; subst. exists [s1]. split; [constructor; [now apply PI_Out|constructor]|reflexivity].
    + inversion HP as [|? s1 ? ? Hp1 HP']; subst. inversion HP' as [|? s2 ? srest Hp2 HP'']; subst.
      change (fold_list (p1 :: p2 :: rest)) with (if foldable p1 p2 then fold_pair p1 p2 :: fold_list rest else p1 :: fold_list (p2 :: rest)).
      cbn [concat] in Hc. destruct (foldable p1 p2) eqn:Ef.
      * rewrite app_assoc in Hc. pose proof (chain_app_inv _ _ Hc) as (Hc12 & Hcr & _).
        destruct (IH rest srest) as (s' & HO & E); [cbn [length] in Hlen; lia|exact HP''|exact Hcr|].
        exists ((s1 ++ s2) :: s'). split; [constructor; [now apply fold_pair_Out|exact HO]|]. cbn [concat]. now rewrite E, app_assoc.
      * pose proof (chain_app_inv _ _ Hc) as (_ & Hcr & _).
        destruct (IH (p2 :: rest) (s2 :: srest)) as (s' & HO & E); [cbn [length] in *; lia|exact HP'|exact Hcr|].
        exists (s1 :: s'). split; [constructor; [now apply PI_Out|exact HO]|]. cbn [concat]. now rewrite E.
Qed.

Lemma fold_license_Out ps segs : Forall2 PI ps segs -> chain (concat segs) ->
  exists segs', Forall2 Out (fold_license ps) segs' /\ concat segs' = concat segs.
Proof.
  intros HP Hc. unfold fold_license. destruct (Nat.leb (length ps) 2).
  - exists segs. split; [|reflexivity]. clear Hc. induction HP; constructor; [now apply PI_Out|assumption].
  - now apply (fold_list_Out (length ps)).
Qed.

(* ---------- the final object ---------- *)

Definition final_ranges (ps : list para) : list (N * N) := flat_map vr ps.

Theorem from_groups_ranges gs ps : from_groups gs = Ok ps -> chain (map range_of (all_live gs)) ->
  chain (final_ranges ps) /\
  forall r, In r (final_ranges ps) -> within r (map range_of (all_live gs)).
Proof.
  unfold from_groups. destruct (mapM _ gs) as [ps0|e] eqn:E; cbn [bind]; [|discriminate]. intros H HG. apply Ok_inj in H.
  set (segs0 := map (fun g => map range_of (live g)) gs).
  assert (HF : Forall2 FB ps0 segs0).
  { assert (F2 : Forall2 (fun g p => from_fields (classify g) g = Ok p) gs ps0) by (eapply mapM_shape; [|exact E]; auto).
    unfold segs0. clear -F2. induction F2 as [|g p gs ps Hp _ IH]; cbn [map]; constructor; [|exact IH].
    eapply from_fields_FB; exact Hp. }
  assert (EG : concat segs0 = map range_of (all_live gs)).
  { unfold segs0, all_live. rewrite flat_map_concat_map, concat_map, map_map. reflexivity. }
  rewrite <- EG in HG |- *.
  destruct (merge_unknown_PI (length ps0) ps0 segs0 HF HG) as (s1 & HP1 & E1).
  rewrite <- E1 in HG. destruct (fold_license_Out _ _ HP1 HG) as (s2 & HO & E2). rewrite H in HO.
  rewrite <- E1, <- E2. rewrite <- E2 in HG. clear -HO HG. unfold final_ranges. rewrite flat_map_concat_map. split.
  - apply (chain_blocks (map vr ps) s2); [|exact HG]. clear HG. induction HO as [|p seg ps segs Hp _ IH]; cbn [map]; constructor; [exact Hp|exact IH].
  - intros r Hr. apply in_concat in Hr as (rs & Hrs & Hr). clear HG. induction HO as [|p seg ps segs [_ Hw] _ IH]; [destruct Hrs|].
    cbn [map concat] in *. destruct Hrs as [<-|Hrs].
    + apply within_mono_l. rewrite Forall_forall in Hw. now apply Hw.
    + apply within_mono. now apply IH.
Qed.

Theorem from_text_ranges t ps : from_text t = Ok ps ->
  chain (final_ranges ps) /\ Forall (bounded (N.of_nat (length (text_lines t)))) (final_ranges ps).
Proof.
  unfold from_text. destruct (groups t) as [gs|e] eqn:Eg; cbn [bind]; [|discriminate]. intros H.
  destruct (text_ranges_chain t gs Eg) as [HG HB]. destruct (from_groups_ranges gs ps H HG) as [Hc Hw]. split; [exact Hc|].
  apply Forall_forall. intros r Hr. destruct (Hw r Hr) as (Hle & x & y & Hx & Hy & Hx1 & Hy1).
  rewrite Forall_forall in HB. destruct (HB x Hx) as [Bx _]. destruct (HB y Hy) as [_ By]. unfold bounded. split; lia.
Qed.

(* the statement spelled out: increasing and disjoint, inside the text, and each range starts on
   the first content line of a field with a value and ends on the last line of such a field *)
Theorem from_text_final t ps : from_text t = Ok ps ->
  StronglySorted (fun a b : N * N => snd a < fst b) (final_ranges ps) /\
  Forall (fun r : N * N => 1 <= fst r /\ fst r <= snd r /\ snd r <= N.of_nat (length (text_lines t))) (final_ranges ps) /\
  exists gs, groups t = Ok gs /\
    forall r, In r (final_ranges ps) ->
      exists f g, In f (all_live gs) /\ In g (all_live gs) /\ fst r = first_content_line f /\ snd r = last_line g.
Proof.
  intros H. destruct (from_text_ranges t ps H) as [[Hs Hf] Hb]. split; [exact Hs|]. split.
  - apply Forall_forall. intros r Hr. rewrite Forall_forall in Hf, Hb. destruct (Hb r Hr) as [B1 B2]. pose proof (Hf r Hr). repeat split; assumption.
  - unfold from_text in H. destruct (groups t) as [gs|e] eqn:Eg; cbn [bind] in H; [|discriminate]. exists gs. split; [reflexivity|].
    destruct (text_ranges_chain t gs Eg) as [HG _]. destruct (from_groups_ranges gs ps H HG) as [_ Hw].
    intros r Hr. destruct (Hw r Hr) as (_ & x & y & Hx & Hy & Hx1 & Hy1).
    apply in_map_iff in Hx as (f & <- & Hf'). apply in_map_iff in Hy as (g & <- & Hg'). exists f, g. now repeat split.
Qed.
