(* Proofs for C13: the values the typed fields render are renderable (a trimmed non-empty first
   line, then indented non-blank continuation lines without trailing blanks) and stable under
   parse-after-render, class by class, for the values of the DEP-5 grammar. *)
From Coq Require Import String.
From Coq Require Import Arith NArith List Bool Lia.
From DI Require Import Result PyStr PyStrFacts Codec CodecFacts Deb822 Deb822Facts Debcon DebconFacts Copyright CopyrightFacts
  Grammar822 Grammar822Facts Grammar822Header DepsParseFacts Dep5Facts WordFacts ConserveFacts RenderFacts FromDictFacts RoundTripFacts.
Import ListNotations.
Open Scope N_scope.

(* ---------- a value given by its lines ---------- *)

Lemma drop_while_sub (p : char -> bool) s x : In x (drop_while p s) -> In x s.
Proof. induction s as [|c s IH]; [intros []|]. cbn [drop_while]. destruct (p c); [intros H; right; now apply IH|intros H; exact H]. Qed.

Lemma strip_sub s x : In x (strip s) -> In x s.
Proof.
  unfold strip, strip_by, rstrip_by, lstrip_by. intros H. apply in_rev in H. apply drop_while_sub in H. apply in_rev in H. now apply drop_while_sub in H.
Qed.

Lemma vlines_of_join h cs : Forall (fun l => ~ In 10 l) (h :: cs) -> vlines (join [10] (h :: cs)) = h :: cs.
Proof. intros H. unfold vlines. apply split_char_join; [discriminate|exact H]. Qed.

Lemma in_join_lines x (ls : list str) : In x (join [10] ls) -> x = 10 \/ exists l, In l ls /\ In x l.
Proof.
  induction ls as [|l ls IH]; [intros []|]. destruct ls as [|l2 ls'].
  - cbn [join]. intros H. right. exists l. split; [now left|exact H].
  - rewrite join_cons. intros H. apply in_app_or in H as [H|H]; [right; exists l; split; [now left|exact H]|].
    cbn [app] in H. destruct H as [<-|H]; [now left|]. destruct (IH H) as [E|(l0 & Hl0 & Hx)]; [now left|right; exists l0; split; [now right|exact Hx]].
Qed.

Lemma renderable_join h cs :
  h <> [] -> strip h = h -> Forall (fun l => ~ In 10 l /\ ~ In 13 l) (h :: cs) ->
  Forall (fun c => is_cont c = true /\ rstrip c = c) cs -> renderable (join [10] (h :: cs)).
Proof.
  intros Hne Hs Hl Hc. unfold renderable, vfirst, vconts.
  rewrite vlines_of_join by (eapply Forall_impl; [|exact Hl]; now intros l [A _]). cbn [hd tl].
  split; [exact Hne|]. split; [exact Hs|]. split; [|exact Hc].
  intros H13. apply in_join_lines in H13 as [E|(l & Hin & Hx)]; [discriminate|]. rewrite Forall_forall in Hl. now apply (Hl l Hin).
Qed.

(* a word after one space is a continuation line *)
Lemma word_cont w : word w -> is_cont (32 :: w) = true /\ rstrip (32 :: w) = 32 :: w /\ ~ In 10 w /\ ~ In 13 w.
Proof.
  intros [Hne Hns]. destruct w as [|c w']; [contradiction|]. unfold nospace in Hns. pose proof Hns as Hall. rewrite Forall_forall in Hall.
  assert (Hc : is_space c = false) by (apply Hall; now left).
  split; [|split; [|split]].
  - unfold is_cont. cbn [is_blank_tab drop_while]. change (is_blank_tab 32) with true. cbn [andb].
    assert (Hb : is_blank_tab c = false).
    { unfold is_blank_tab. destruct (N.eqb_spec c 32) as [->|_]; [discriminate|]. destruct (N.eqb_spec c 9) as [->|_]; [discriminate|reflexivity]. }
    cbn [drop_while]. change (is_blank_tab 32) with true. cbn [drop_while]. rewrite Hb. now rewrite Hc.
  - destruct (exists_last (l := c :: w')) as (a & x & E); [discriminate|]. rewrite E.
    change (32 :: a ++ [x]) with ((32 :: a) ++ [x]). unfold rstrip. apply rstrip_by_snoc_keep. apply Hall. rewrite E. apply in_or_app. right. now left.
  - intros Hin. specialize (Hall 10 Hin). discriminate.
  - intros Hin. specialize (Hall 13 Hin). discriminate.
Qed.

Lemma word_strip w : word w -> strip w = w.
Proof.
  intros [Hne Hns]. destruct w as [|c w']; [contradiction|]. unfold nospace in Hns. pose proof Hns as Hall. rewrite Forall_forall in Hall.
  unfold strip. apply strip_by_fixed; [apply Hall; now left|].
  destruct (exists_last (l := c :: w')) as (a & x & E); [discriminate|]. rewrite E. apply rstrip_by_snoc_keep. apply Hall. rewrite E. apply in_or_app. right. now left.
Qed.

(* ---------- white-space separated lists (Files, Files-Excluded) ---------- *)

Theorem ws_renderable raw : split_ws raw <> [] -> renderable (RP FWS raw).
Proof.
  intros Hne. unfold RP. cbn [convert fval_dumps]. pose proof (split_ws_words raw) as Hw.
  destruct (split_ws raw) as [|w ws]; [contradiction|]. inversion Hw as [|? ? Hw0 Hws]; subst.
  change nl_sp with [10; 32]. rewrite join_nl_sp. apply renderable_join.
  - apply Hw0.
  - now apply word_strip.
  - constructor; [destruct (word_cont w Hw0) as (_ & _ & A & B); now split|]. rewrite Forall_map. eapply Forall_impl; [|exact Hws].
    intros x Hx. destruct (word_cont x Hx) as (_ & _ & A & B). split; intros [E|Hin]; try discriminate; contradiction.
  - rewrite Forall_map. eapply Forall_impl; [|exact Hws]. intros x Hx. destruct (word_cont x Hx) as (A & B & _). now split.
Qed.

Theorem ws_rp_stable raw : RP FWS (RP FWS raw) = RP FWS raw.
Proof. unfold RP. now rewrite ws_list_stable. Qed.

(* ---------- single-line values (Format, Upstream-Name) ---------- *)

Theorem single_renderable raw : strip raw <> [] -> ~ In 10 raw -> ~ In 13 raw -> renderable (RP FSingle raw).
Proof.
  intros Hne H10 H13. unfold RP. cbn [convert fval_dumps].
  pose proof (strip_sub raw) as Hsub.
  change (strip raw) with (join [10] [strip raw]). apply renderable_join.
  - exact Hne.
  - unfold strip. apply strip_by_idem.
  - constructor; [|constructor]. split; intros Hin; [apply H10|apply H13]; now apply Hsub.
  - constructor.
Qed.

Theorem single_rp_stable raw : RP FSingle (RP FSingle raw) = RP FSingle raw.
Proof. unfold RP. now rewrite single_stable. Qed.

(* ---------- a stripped non-empty line after one space is a continuation line ---------- *)

Lemma stripped_cont s : strip s <> [] ->
  is_cont (32 :: strip s) = true /\ rstrip (32 :: strip s) = 32 :: strip s.
Proof.
  intros Hne. destruct (strip s) as [|c r] eqn:E; [contradiction|].
  assert (Hc : is_space c = false) by (unfold strip in E; now apply strip_by_head in E).
  assert (Hr : rstrip (c :: r) = c :: r).
  { apply strip_fixed_rstrip. rewrite <- E. unfold strip. apply strip_by_idem. }
  split.
  - unfold is_cont. change (is_blank_tab 32) with true. cbn [andb drop_while]. change (is_blank_tab 32) with true. cbn [drop_while].
    assert (Hb : is_blank_tab c = false).
    { unfold is_blank_tab. destruct (N.eqb_spec c 32) as [->|_]; [discriminate|]. destruct (N.eqb_spec c 9) as [->|_]; [discriminate|reflexivity]. }
    rewrite Hb. now rewrite Hc.
  - unfold rstrip in *. rewrite rstrip_by_cons; [now rewrite Hr|]. cbn [forallb]. now rewrite Hc.
Qed.

Lemma nolb_no_eol l : nolb l -> ~ In 10 l /\ ~ In 13 l.
Proof.
  intros H. unfold nolb, no_lb in H. rewrite Forall_forall in H. split; intros Hin; specialize (H _ Hin); discriminate.
Qed.

Lemma strip_nolb l : nolb l -> ~ In 10 (strip l) /\ ~ In 13 (strip l).
Proof. intros H. destruct (nolb_no_eol l H) as [A B]. split; intros Hin; apply strip_sub in Hin; contradiction. Qed.

Lemma words_strip_nonempty l : words l <> [] -> strip l <> [].
Proof.
  intros H E. apply H. rewrite <- words_strip. rewrite E. reflexivity.
Qed.

(* the lines of a value of the grammar: no line break character inside a line, the last line not empty *)
Definition glines (ls : list str) : Prop := ls <> [] /\ Forall nolb ls /\ last ls [0] <> [].

Lemma glines_splitlines ls : glines ls -> splitlines (join [10] ls) = ls.
Proof. intros (Hne & Hnl & Hl). apply splitlines_join_lines; assumption. Qed.

(* ---------- line lists (Upstream-Contact) ---------- *)

Theorem linesep_renderable ls : glines ls -> Forall (fun l => words l <> []) ls -> renderable (RP FLineSep (join [10] ls)).
Proof.
  intros Hg Hw. unfold RP. cbn [convert fval_dumps]. unfold line_separated. rewrite (glines_splitlines ls Hg).
  destruct Hg as (Hne & Hnl & _). destruct ls as [|l0 rest]; [contradiction|]. cbn [map].
  change nl_sp with [10; 32]. rewrite join_nl_sp. inversion Hw as [|? ? Hw0 Hwr]; subst. inversion Hnl as [|? ? Hn0 Hnr]; subst.
  apply renderable_join.
  - now apply words_strip_nonempty.
  - unfold strip. apply strip_by_idem.
  - constructor; [now apply strip_nolb|]. rewrite map_map, Forall_map. rewrite Forall_forall in *. intros l Hl.
    destruct (strip_nolb l (Hnr l Hl)) as [A B]. split; intros [E|Hin]; try discriminate; contradiction.
  - rewrite map_map, Forall_map. rewrite Forall_forall in *. intros l Hl. apply stripped_cont. apply words_strip_nonempty. now apply Hwr.
Qed.

Theorem linesep_rp_stable raw : (match splitlines raw with l0 :: _ => strip l0 <> [] | [] => True end) ->
  RP FLineSep (RP FLineSep raw) = RP FLineSep raw.
Proof. intros H. unfold RP. now rewrite line_list_stable. Qed.

(* ---------- copyright fields: one statement per line ---------- *)

Definition NW (l : str) : str := join [32] (words l).

Lemma NW_facts l : words l <> [] ->
  (exists c r, NW l = c :: r /\ is_space c = false) /\ (exists a x, NW l = a ++ [x] /\ is_space x = false) /\ no_lb is_linebreak (NW l).
Proof.
  intros Hl. pose proof (split_ws_words l) as Hws. fold (words l) in Hws. unfold NW. repeat split.
  - now apply join_words_head.
  - now apply join_words_last.
  - now apply words_nolb.
Qed.

Lemma copyright_dumps_shape raw l0 ls : splitlines raw = l0 :: ls -> Forall (fun l => words l <> []) (l0 :: ls) ->
  RP FCopyright raw = join [10] (NW l0 :: map (fun y => PAD ++ y) (map NW ls)).
Proof.
  intros Es Hw. unfold RP. cbn [convert fval_dumps]. unfold line_separated. rewrite map_map, sep_pad.
  rewrite (map_ext _ NW) by (intros l; apply statement_dumps_norm). rewrite Es. cbn [map]. rewrite join_pad.
  set (L := NW l0 :: map (fun y => PAD ++ y) (map NW ls)). inversion Hw as [|? ? H0 Hrest]; subst.
  assert (Hhead : exists c r, join [10] L = c :: r /\ is_space c = false).
  { destruct (NW_facts l0 H0) as ((c & r & E & Hc) & _). subst L. destruct (map (fun y => PAD ++ y) (map NW ls)) as [|y ys].
    - cbn [join]. now exists c, r.
    - rewrite join_cons, E. eexists c, _. split; [reflexivity|exact Hc]. }
  assert (Hlast : exists a x, join [10] L = a ++ [x] /\ is_space x = false).
  { assert (G : exists a x, last L [] = a ++ [x] /\ is_space x = false).
    { subst L. destruct ls as [|l1 ls'].
      - cbn [map last]. apply (NW_facts l0 H0).
      - change (last (NW l0 :: map (fun y => PAD ++ y) (map NW (l1 :: ls'))) []) with (last (map (fun y => PAD ++ y) (map NW (l1 :: ls'))) []).
        rewrite map_map. destruct (exists_last (l := l1 :: ls')) as (pre & lz & E); [discriminate|]. rewrite E, map_app. cbn [map].
        rewrite last_last. assert (Hz : words lz <> []). { rewrite E in Hrest. apply Forall_app in Hrest as [_ Hz]. now inversion Hz. }
        destruct (NW_facts lz Hz) as (_ & (a & x & Ea & Hx) & _). rewrite Ea. exists (PAD ++ a), x. split; [now rewrite <- app_assoc|exact Hx]. }
    destruct G as (a & x & Ea & Hx). destruct (join_last_char [10] L a x ltac:(subst L; discriminate) Ea) as (a' & E').
    now exists a', x. }
  destruct Hhead as (c & r & E & Hc). destruct Hlast as (a & x & E2 & Hx). unfold strip. apply strip_by_fixed; [rewrite E; exact Hc|].
  rewrite E2. now apply rstrip_by_snoc_keep.
Qed.

Lemma nolb_ne l : no_lb is_linebreak l -> ~ In 10 l /\ ~ In 13 l.
Proof. apply nolb_no_eol. Qed.

Lemma drop_blank_repeat n rest : drop_while is_blank_tab (repeat 32 n ++ rest) = drop_while is_blank_tab rest.
Proof. induction n as [|n IH]; [reflexivity|]. cbn [repeat app drop_while]. change (is_blank_tab 32) with true. cbn iota. exact IH. Qed.

Lemma PAD_repeat : PAD = repeat 32 11.
Proof. reflexivity. Qed.

Lemma pad_cont d : (exists c r, d = c :: r /\ is_space c = false) -> (exists a x, d = a ++ [x] /\ is_space x = false) ->
  is_cont (PAD ++ d) = true /\ rstrip (PAD ++ d) = PAD ++ d.
Proof.
  intros (c & r & -> & Hc) (a & x & E & Hx). split.
  - assert (Hb : is_blank_tab c = false).
    { unfold is_blank_tab. destruct (N.eqb_spec c 32) as [->|_]; [discriminate|]. destruct (N.eqb_spec c 9) as [->|_]; [discriminate|reflexivity]. }
    rewrite PAD_repeat. unfold is_cont. change (repeat 32 11 ++ c :: r) with (32 :: (repeat 32 10 ++ c :: r)).
    change (is_blank_tab 32) with true. cbn [andb]. change (32 :: (repeat 32 10 ++ c :: r)) with (repeat 32 11 ++ c :: r).
    rewrite drop_blank_repeat. cbn [drop_while]. rewrite Hb. now rewrite Hc.
  - rewrite E, app_assoc. unfold rstrip. now apply rstrip_by_snoc_keep.
Qed.

Theorem copyright_renderable raw : splitlines raw <> [] -> Forall (fun l => words l <> []) (splitlines raw) -> renderable (RP FCopyright raw).
Proof.
  intros Hne Hw. destruct (splitlines raw) as [|l0 ls] eqn:Es; [contradiction|]. rewrite (copyright_dumps_shape raw l0 ls Es Hw).
  inversion Hw as [|? ? H0 Hrest]; subst. destruct (NW_facts l0 H0) as ((c & r & Ec & Hc) & (a & x & Ea & Hx) & Hnl0).
  apply renderable_join.
  - rewrite Ec. discriminate.
  - unfold strip. apply strip_by_fixed; [rewrite Ec; exact Hc|]. rewrite Ea. now apply rstrip_by_snoc_keep.
  - constructor; [now apply nolb_ne|]. rewrite map_map, Forall_map. eapply Forall_impl; [|exact Hrest]. intros l Hl.
    destruct (NW_facts l Hl) as (_ & _ & Hn). destruct (nolb_ne _ Hn) as [A B].
    split; intros Hin; apply in_app_or in Hin as [Hin|Hin]; try contradiction; unfold PAD in Hin; vm_compute in Hin;
      repeat (destruct Hin as [Hin|Hin]; [discriminate Hin|]); exact Hin.
  - rewrite map_map, Forall_map. eapply Forall_impl; [|exact Hrest]. intros l Hl. destruct (NW_facts l Hl) as (A & B & _). now apply pad_cont.
Qed.

Theorem copyright_rp_stable raw : Forall (fun l => words l <> []) (splitlines raw) -> RP FCopyright (RP FCopyright raw) = RP FCopyright raw.
Proof. intros H. unfold RP. now rewrite copyright_stable. Qed.

(* ---------- formatted text (Comment, Source, Disclaimer) and the License field ---------- *)

(* a continuation line of the grammar: the marker " ." or a space followed by a non-blank body
   without trailing blanks that starts with a space (verbatim) or with a character that is neither
   white space nor a full stop *)
Definition gcont (c : str) : Prop :=
  c = [SP; DOT] \/
  exists body, c = SP :: body /\ nolb body /\ all_space body = false /\ plain_start body /\ rstrip body = body.

Lemma gcont_policy c : gcont c -> policy_cont c.
Proof. intros [->|(b & -> & H1 & H2 & H3 & _)]; [now left|right; now exists b]. Qed.

Lemma gcont_fix c : gcont c -> SP :: fmt1 (decode_line c) = c.
Proof.
  intros [->|(body & -> & Hn & Hb & Hp & Hr)]; [reflexivity|].
  assert (E : decode_line (SP :: body) = rstrip body).
  { rewrite <- (decode_cont body Hp). unfold fmt1. now rewrite Hb. }
  rewrite E, Hr. unfold fmt1. now rewrite Hb.
Qed.

Lemma stripped_nonblank s : strip s = s -> s <> [] -> all_space s = false.
Proof.
  intros Hs Hne. destruct s as [|c r]; [contradiction|]. unfold strip in Hs. apply strip_by_head in Hs. unfold all_space. cbn [forallb]. now rewrite Hs.
Qed.

Lemma gvalue_normal f0 conts : strip f0 = f0 -> nolb f0 -> Forall gcont conts ->
  last (f0 :: conts) [0] <> [] -> last (f0 :: conts) [0] <> [SP; DOT] ->
  normal_lines (f0 :: map decode_line conts).
Proof.
  intros Hs Hn Hc Hl1 Hl2. cbn [normal_lines]. split; [|split; [|split]].
  - constructor; [exact Hn|]. rewrite Forall_map. eapply Forall_impl; [|exact Hc]. intros c H. now apply decode_policy_cont, gcont_policy.
  - exact Hs.
  - rewrite Forall_map. eapply Forall_impl; [|exact Hc]. intros c H.
    destruct (decode_policy_cont c (gcont_policy c H)) as (_ & H2 & H3 & _). now split.
  - destruct conts as [|c1 conts']; [exact Hl1|].
    change (last (f0 :: map decode_line (c1 :: conts')) [0]) with (last (map decode_line (c1 :: conts')) [0]).
    rewrite last_map_decode by discriminate.
    change (last (f0 :: c1 :: conts') [0]) with (last (c1 :: conts') [0]) in Hl2.
    assert (Hin : policy_cont (last (c1 :: conts') [0])).
    { apply gcont_policy. rewrite Forall_forall in Hc. apply Hc.
      destruct (exists_last (l := c1 :: conts')) as (l' & a & E); [discriminate|].
      rewrite E. rewrite last_last. apply in_or_app. right. now left. }
    destruct (decode_policy_cont _ Hin) as (_ & _ & _ & H4). intros H. apply Hl2. now apply H4.
Qed.

Theorem formatted_identity f0 conts : strip f0 = f0 -> f0 <> [] -> nolb f0 -> Forall gcont conts ->
  last (f0 :: conts) [0] <> [SP; DOT] ->
  RP FFormatted (join [LF] (f0 :: conts)) = join [LF] (f0 :: conts).
Proof.
  intros Hs Hne Hn Hc Hl2.
  assert (Hl1 : last (f0 :: conts) [0] <> []).
  { destruct conts as [|c1 cs]; [exact Hne|]. change (last (f0 :: c1 :: cs) [0]) with (last (c1 :: cs) [0]).
    destruct (exists_last (l := c1 :: cs)) as (l' & a & E); [discriminate|]. rewrite E, last_last.
    rewrite Forall_forall in Hc. assert (Ha : gcont a) by (apply Hc; rewrite E; apply in_or_app; right; now left).
    apply (policy_cont_nolb a (gcont_policy a Ha)). }
  assert (Hsplit : splitlines (join [LF] (f0 :: conts)) = f0 :: conts).
  { apply splitlines_join; [reflexivity| |discriminate|exact Hl1].
    constructor; [exact Hn|]. eapply Forall_impl; [|exact Hc]. intros c H. now apply policy_cont_nolb, gcont_policy. }
  pose proof (gvalue_normal f0 conts Hs Hn Hc Hl1 Hl2) as Hnorm.
  unfold RP. cbn [convert fval_dumps]. unfold from_formatted_text, ftf_dumps, line_separated. rewrite Hsplit. cbn [from_formatted_lines]. rewrite Hs.
  assert (E : splitlines (join [LF] (f0 :: map decode_line conts)) = f0 :: map decode_line conts).
  { destruct Hnorm as (Hn' & _ & _ & Hl'). apply splitlines_join; [reflexivity|exact Hn'|discriminate|exact Hl']. }
  change [10] with [LF]. rewrite E, as_formatted_lines_cons. f_equal.
  unfold fmt0. rewrite (stripped_nonblank f0 Hs Hne). f_equal. rewrite map_map.
  rewrite (map_ext_Forall _ (fun c => c)); [apply map_id|]. eapply Forall_impl; [|exact Hc]. intros c H. now apply gcont_fix.
Qed.

(* the rendering of a License field whose name and text are in decoded normal form *)
Lemma lic_dumps_shape n t0 trest : n <> [] -> strip n = n -> nolb n ->
  normal_lines (t0 :: trest) -> t0 <> [] ->
  lic_dumps n (join [LF] (t0 :: trest)) = join [LF] (n :: map (fun l => SP :: fmt1 l) (t0 :: trest)).
Proof.
  intros Hn Hsn Hnl (Hnolb & Hs0 & Hrest & Hlast) Ht0.
  assert (Hheadn : match n with c :: _ => is_space c = false | [] => True end).
  { destruct n as [|c r] eqn:E; [exact I|]. unfold strip in Hsn. now apply strip_by_head in Hsn. }
  set (t := join [LF] (t0 :: trest)).
  assert (Et : exists c r, t = c :: r /\ is_space c = false).
  { subst t. destruct t0 as [|c r0] eqn:E0; [contradiction|]. assert (Hc : is_space c = false) by (unfold strip in Hs0; now apply strip_by_head in Hs0).
    destruct trest; [exists c, r0|rewrite join_cons; exists c, (r0 ++ [LF] ++ join [LF] (s :: trest))]; split; auto. }
  destruct Et as (c & r & Etc & Hc).
  assert (Esplit : splitlines t = t0 :: trest) by (subst t; apply splitlines_join; [reflexivity|exact Hnolb|discriminate|exact Hlast]).
  unfold lic_dumps, desc_dumps. cbv zeta. rewrite Hsn, Etc. assert (E32 : (c =? 32) = false) by (destruct (N.eqb_spec c 32) as [->|]; [discriminate|reflexivity]).
  rewrite E32, <- Etc, Esplit, as_formatted_lines_cons.
  assert (Ef0 : fmt0 n = n). { unfold fmt0. destruct (all_space n) eqn:E; [|reflexivity]. destruct n as [|x n']; [contradiction|]. unfold all_space in E. cbn [forallb] in E. rewrite Hheadn in E. discriminate. }
  rewrite Ef0. unfold strip. apply strip_by_fixed.
  - cbn [map]. rewrite join_cons. destruct n; [contradiction|exact Hheadn].
  - destruct (exists_last (l := t0 :: trest)) as (pre & lz & El); [discriminate|]. rewrite El in *. rewrite last_last in Hlast.
    assert (Hz : rstrip lz = lz).
    { destruct pre as [|p0 pre']; cbn [app] in El.
      - inversion El; subst. now apply strip_fixed_rstrip.
      - inversion El; subst. apply Forall_app in Hrest as [_ Hz]. inversion Hz as [|? ? [Hz1 _] _]; subst. exact Hz1. }
    assert (Hfz : fmt1 lz = lz).
    { unfold fmt1. destruct (all_space lz) eqn:E; [|reflexivity]. exfalso. unfold rstrip in Hz. rewrite rstrip_by_all in Hz by exact E. now subst. }
    destruct (rstrip_by_last is_space lz) as [E0|(a & x & Ea & Hx)]; [unfold rstrip in Hz; rewrite Hz in E0; contradiction|].
    unfold rstrip in Hz. rewrite Hz in Ea.
    assert (Ej : exists pre', join [LF] (n :: map (fun l => SP :: fmt1 l) (pre ++ [lz])) = pre' ++ [x]).
    { rewrite map_app. cbn [map]. rewrite Hfz, Ea.
      change (n :: map (fun l => SP :: fmt1 l) pre ++ [SP :: a ++ [x]]) with ((n :: map (fun l => SP :: fmt1 l) pre) ++ [(SP :: a) ++ [x]]).
      apply (join_last_char [LF] _ (SP :: a) x); [destruct (map _ pre); discriminate|now rewrite last_last]. }
    destruct Ej as (pre' & Ej). rewrite Ej. now apply rstrip_by_snoc_keep.
Qed.

(* the License field of the grammar: a short name, then - optionally - a text whose first line is an
   ordinary line (one space, then a trimmed line) followed by continuation lines of the grammar *)
Theorem license_identity n b0 rest : n <> [] -> strip n = n -> nolb n ->
  b0 <> [] -> strip b0 = b0 -> nolb b0 -> Forall gcont rest -> last (b0 :: rest) [0] <> [SP; DOT] ->
  RP FLicense (join [LF] (n :: (SP :: b0) :: rest)) = join [LF] (n :: (SP :: b0) :: rest).
Proof.
  intros Hn Hsn Hnl Hb0 Hsb Hnb Hc Hl2.
  assert (Hl1 : last (b0 :: rest) [0] <> []).
  { destruct rest as [|c1 cs]; [exact Hb0|]. change (last (b0 :: c1 :: cs) [0]) with (last (c1 :: cs) [0]).
    destruct (exists_last (l := c1 :: cs)) as (l' & a & E); [discriminate|]. rewrite E, last_last.
    rewrite Forall_forall in Hc. assert (Ha : gcont a) by (apply Hc; rewrite E; apply in_or_app; right; now left).
    apply (policy_cont_nolb a (gcont_policy a Ha)). }
  pose proof (gvalue_normal b0 rest Hsb Hnb Hc Hl1 Hl2) as Hnorm.
  assert (Hsplit : splitlines (join [LF] (n :: (SP :: b0) :: rest)) = n :: (SP :: b0) :: rest).
  { apply splitlines_join; [reflexivity| |discriminate|].
    - constructor; [exact Hnl|]. constructor; [constructor; [reflexivity|exact Hnb]|]. eapply Forall_impl; [|exact Hc]. intros c H. now apply policy_cont_nolb, gcont_policy.
    - change (last (n :: (SP :: b0) :: rest) [0]) with (last ((SP :: b0) :: rest) [0]). destruct rest as [|c1 cs]; [discriminate|].
      change (last ((SP :: b0) :: c1 :: cs) [0]) with (last (b0 :: c1 :: cs) [0]). exact Hl1. }
  assert (E0 : strip (SP :: b0) = b0).
  { unfold strip at 1. unfold strip_by, lstrip_by. cbn [drop_while]. change (is_space SP) with true. cbv iota.
    fold (lstrip_by is_space b0). fold (strip_by is_space b0). exact Hsb. }
  assert (Hhead : exists c r, join [LF] (b0 :: map decode_line rest) = c :: r /\ is_space c = false).
  { destruct b0 as [|c r0] eqn:Eb; [contradiction|]. assert (Hc0 : is_space c = false) by (unfold strip in Hsb; now apply strip_by_head in Hsb).
    destruct (map decode_line rest) as [|d ds]; [exists c, r0|rewrite join_cons; exists c, (r0 ++ [LF] ++ join [LF] (d :: ds))]; split; auto. }
  assert (Efrom : lic_from_value (join [LF] (n :: (SP :: b0) :: rest)) = (n, join [LF] (b0 :: map decode_line rest))).
  { unfold lic_from_value, desc_from_value, line_separated. rewrite Hsplit, Hsn. cbn [from_formatted_lines]. rewrite E0. f_equal.
    destruct Hhead as (c & r & E & Hc0). unfold lstrip, lstrip_by. etransitivity; [apply (f_equal (drop_while is_space)); exact E|]. cbn [drop_while]. rewrite Hc0. symmetry. exact E. }
  unfold RP. cbn [convert]. rewrite Efrom. cbn [fval_dumps]. change [10] with [LF]. rewrite lic_dumps_shape by assumption. f_equal. cbn [map]. f_equal. f_equal.
  - unfold fmt1. now rewrite (stripped_nonblank b0 Hsb Hb0).
  - rewrite map_map. rewrite (map_ext_Forall _ (fun c => c)); [apply map_id|]. eapply Forall_impl; [|exact Hc]. intros c H. now apply gcont_fix.
Qed.

Theorem license_name_only n : n <> [] -> strip n = n -> nolb n -> RP FLicense n = n.
Proof.
  intros Hn Hsn Hnl.
  assert (Hsplit : splitlines n = [n]).
  { change n with (join [LF] [n]) at 1. apply splitlines_join; [reflexivity|now constructor|discriminate|exact Hn]. }
  unfold RP. cbn [convert fval_dumps]. unfold lic_from_value, desc_from_value, line_separated. rewrite Hsplit, Hsn. cbn [from_formatted_lines lstrip].
  change (lstrip []) with (@nil char). cbn [fval_dumps]. unfold lic_dumps, desc_dumps. cbv zeta. rewrite Hsn. rewrite as_formatted_lines_cons. cbn [map join].
  unfold fmt0. rewrite (stripped_nonblank n Hsn Hn). exact Hsn.
Qed.
