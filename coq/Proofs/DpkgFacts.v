(* dpkg's verrevcmp (transcribed in Spec/Dpkg.v) computes the key order, for all
   strings. *)
From Coq Require Import NArith ZArith List Bool Lia.
From DI Require Import PyStr PyStrFacts Dpkg OrderFacts VersionFacts ParseFacts.
Import ListNotations.

(* ---------- ranks and order() ---------- *)

Lemma alpha_ge c : is_ascii_alpha c = true -> (65 <= c)%N.
Proof.
  unfold is_ascii_alpha, is_ascii_upper, is_ascii_lower. intros H.
  apply orb_true_iff in H as [H|H]; apply andb_true_iff in H as [H _]; apply N.leb_le in H; lia.
Qed.

Lemma cmp_N_Z a b : (a ?= b)%N = (Z.of_N a ?= Z.of_N b)%Z.
Proof. symmetry. apply N2Z.inj_compare. Qed.

Lemma Zcompare_eq_of (x y x' y' : Z) :
  ((x < y)%Z <-> (x' < y')%Z) -> ((x = y) <-> (x' = y')) -> (x ?= y)%Z = (x' ?= y')%Z.
Proof.
  intros H1 H2. destruct (Z.compare_spec x y), (Z.compare_spec x' y'); try reflexivity; lia.
Qed.

Definition ordc (c : char) : Z := order (Some c).

Lemma ordc_cases c : is_ascii_digit c = false ->
  (is_ascii_alpha c = true /\ ordc c = Z.of_N c /\ krank c = (c + 2)%N /\ (65 <= c)%N) \/
  (is_ascii_alpha c = false /\ c = 126%N /\ ordc c = (-1)%Z /\ krank c = 0%N) \/
  (is_ascii_alpha c = false /\ c <> 126%N /\ ordc c = (Z.of_N c + 256)%Z /\ krank c = (c + 258)%N).
Proof.
  intros Hd. unfold ordc, order, krank. rewrite Hd.
  destruct (is_ascii_alpha c) eqn:Ea.
  - left. pose proof (alpha_ge c Ea) as Hge.
    assert (E : (c =? 126)%N = false).
    { apply N.eqb_neq. intros ->. discriminate Ea. }
    rewrite E. repeat split; assumption.
  - destruct (c =? 126)%N eqn:E.
    + apply N.eqb_eq in E. right. left. repeat split; assumption.
    + apply N.eqb_neq in E. right. right. repeat split; assumption.
Qed.

Lemma ordc_nonzero c : is_ascii_digit c = false -> ordc c <> 0%Z.
Proof. intros H. destruct (ordc_cases c H) as [(_ & -> & _ & Hg)|[(_ & _ & -> & _)|(_ & _ & -> & _)]]; lia. Qed.

Lemma krank_ordc c1 c2 : is_ascii_digit c1 = false -> is_ascii_digit c2 = false ->
  (krank c1 ?= krank c2)%N = (ordc c1 ?= ordc c2)%Z.
Proof.
  intros H1 H2. rewrite cmp_N_Z.
  destruct (ordc_cases c1 H1) as [(_ & -> & -> & G1)|[(_ & _ & -> & ->)|(_ & _ & -> & ->)]];
  destruct (ordc_cases c2 H2) as [(_ & -> & -> & G2)|[(_ & _ & -> & ->)|(_ & _ & -> & ->)]];
  apply Zcompare_eq_of; lia.
Qed.

Lemma krank_fill_ordc c : is_ascii_digit c = false ->
  (krank c ?= kfill)%N = (ordc c ?= 0)%Z /\ (kfill ?= krank c)%N = (0 ?= ordc c)%Z.
Proof.
  intros H. rewrite !cmp_N_Z. unfold kfill.
  destruct (ordc_cases c H) as [(_ & -> & -> & G1)|[(_ & _ & -> & ->)|(_ & _ & -> & ->)]];
    split; apply Zcompare_eq_of; lia.
Qed.

(* ---------- the non-digit loop ---------- *)

Lemma nd_step a b :
  nondigit_loop a b =
  if starts_nondigit a || starts_nondigit b then
    let d := (order (hd_opt a) - order (hd_opt b))%Z in
    if (d =? 0)%Z then nondigit_loop (tl a) (tl b) else inl d
  else inr (a, b).
Proof.
  destruct a as [|ca a'].
  - destruct b as [|cb b']; [reflexivity|]. cbn [nondigit_loop starts_nondigit orb hd_opt tl].
    destruct (is_ascii_digit cb); reflexivity.
  - reflexivity.
Qed.

(* head rank of the non-digit run, the filler when the run is empty *)
Definition hrank (s : str) : N :=
  match s with c :: _ => if is_ascii_digit c then kfill else krank c | [] => kfill end.

Lemma span_nondigit_step s :
  span_nondigit s =
  if starts_nondigit s then
    (hd 0%N s :: fst (span_nondigit (tl s)), snd (span_nondigit (tl s)))
  else ([], s).
Proof.
  destruct s as [|c s]; [reflexivity|]. cbn [span_nondigit starts_nondigit hd tl].
  destruct (is_ascii_digit c); cbn [negb]; [reflexivity|]. now destruct (span_nondigit s).
Qed.

Lemma order_hd s : order (hd_opt s) = if starts_nondigit s then ordc (hd 0%N s) else 0%Z.
Proof.
  destruct s as [|c s]; [reflexivity|]. cbn [hd_opt starts_nondigit hd]. unfold ordc, order.
  destruct (is_ascii_digit c); reflexivity.
Qed.

Lemma nondigit_phase n : forall x y, (length x <= n)%nat -> (length y <= n)%nat ->
  match cmp_ranklist (map krank (fst (span_nondigit x))) (map krank (fst (span_nondigit y))) with
  | Eq => nondigit_loop x y = inr (snd (span_nondigit x), snd (span_nondigit y))
  | Lt => exists d, nondigit_loop x y = inl d /\ (d < 0)%Z
  | Gt => exists d, nondigit_loop x y = inl d /\ (d > 0)%Z
  end.
Proof.
  induction n as [|n IH]; intros x y Hx Hy.
  - destruct x, y; simpl in Hx, Hy; try lia. reflexivity.
  - rewrite nd_step. rewrite (span_nondigit_step x), (span_nondigit_step y). rewrite !order_hd.
    destruct (starts_nondigit x) eqn:Sx, (starts_nondigit y) eqn:Sy; cbn [orb fst snd map].
    + (* both heads are non-digits *)
      destruct x as [|cx x']; [discriminate|]. destruct y as [|cy y']; [discriminate|].
      cbn [starts_nondigit] in Sx, Sy. apply negb_true_iff in Sx, Sy. cbn [hd tl].
      unfold cmp_ranklist. cbn [plex]. rewrite (krank_ordc cx cy Sx Sy). cbv zeta.
      destruct (Z.compare_spec (ordc cx) (ordc cy)) as [E|E|E].
      * rewrite E, Z.sub_diag. cbn [Z.eqb]. apply IH; simpl in Hx, Hy; lia.
      * assert (Hd : (ordc cx - ordc cy =? 0)%Z = false) by (apply Z.eqb_neq; lia). rewrite Hd.
        eexists. split; [reflexivity|lia].
      * assert (Hd : (ordc cx - ordc cy =? 0)%Z = false) by (apply Z.eqb_neq; lia). rewrite Hd.
        eexists. split; [reflexivity|lia].
    + (* x non-digit, y at a digit or at its end *)
      destruct x as [|cx x']; [discriminate|]. cbn [starts_nondigit] in Sx. apply negb_true_iff in Sx. cbn [hd tl].
      unfold cmp_ranklist. cbn [plex]. destruct (krank_fill_ordc cx Sx) as [F _]. rewrite F. cbv zeta.
      pose proof (ordc_nonzero cx Sx) as Hnz.
      assert (Hd : (ordc cx - 0 =? 0)%Z = false) by (apply Z.eqb_neq; lia). rewrite Hd.
      destruct (Z.compare_spec (ordc cx) 0) as [E|E|E]; [contradiction| |]; eexists; (split; [reflexivity|lia]).
    + destruct y as [|cy y']; [discriminate|]. cbn [starts_nondigit] in Sy. apply negb_true_iff in Sy. cbn [hd tl].
      unfold cmp_ranklist.
      assert (Hp : plex N.compare kfill [] (krank cy :: map krank (fst (span_nondigit y'))) =
                   match (kfill ?= krank cy)%N with
                   | Eq => plex N.compare kfill [] (map krank (fst (span_nondigit y')))
                   | c => c end) by reflexivity.
      rewrite Hp. destruct (krank_fill_ordc cy Sy) as [_ F]. rewrite F. cbv zeta.
      pose proof (ordc_nonzero cy Sy) as Hnz.
      assert (Hd : (0 - ordc cy =? 0)%Z = false) by (apply Z.eqb_neq; lia). rewrite Hd.
      destruct (Z.compare_spec 0 (ordc cy)) as [E|E|E]; [symmetry in E; contradiction| |]; eexists; (split; [reflexivity|lia]).
    + reflexivity.
Qed.

(* ---------- decimal values ---------- *)
Open Scope N_scope.

Definition digits (m : str) : Prop := Forall (fun c => is_ascii_digit c = true) m.
Definition val (m : str) : N := fold_left dstep m 0.

Lemma digit_range c : is_ascii_digit c = true -> 48 <= c <= 57.
Proof.
  unfold is_ascii_digit. intros H. apply andb_true_iff in H as [H1 H2].
  apply N.leb_le in H1, H2. lia.
Qed.

Lemma pow10_pos k : 0 < 10 ^ k.
Proof. apply N.neq_0_lt_0. apply N.pow_nonzero. lia. Qed.

Lemma val_from m : forall a, digits m -> fold_left dstep m a = a * 10 ^ N.of_nat (length m) + val m.
Proof.
  induction m as [|c m IH]; intros a Hm.
  - cbn [fold_left length]. change (N.of_nat 0) with 0. rewrite N.pow_0_r. unfold val. simpl. lia.
  - inversion Hm as [|? ? Hc Hm']; subst. unfold val. cbn [fold_left length].
    rewrite (IH (dstep a c) Hm'), (IH (dstep 0 c) Hm'). rewrite Nat2N.inj_succ, N.pow_succ_r'.
    unfold dstep. set (P := 10 ^ N.of_nat (length m)). set (dc := c - 48). lia.
Qed.

Lemma val_cons c m : digits (c :: m) -> val (c :: m) = (c - 48) * 10 ^ N.of_nat (length m) + val m.
Proof.
  intros H. inversion H as [|? ? Hc Hm]; subst. unfold val at 1. cbn [fold_left].
  rewrite (val_from m _ Hm). unfold dstep. lia.
Qed.

Lemma val_bound m : digits m -> val m < 10 ^ N.of_nat (length m).
Proof.
  induction m as [|c m IH]; intros Hm; [reflexivity|].
  rewrite (val_cons c m Hm). inversion Hm as [|? ? Hc Hm']; subst. specialize (IH Hm').
  pose proof (digit_range c Hc) as Hr. cbn [length]. rewrite Nat2N.inj_succ, N.pow_succ_r'.
  set (P := 10 ^ N.of_nat (length m)) in *. set (dc := c - 48). assert (dc <= 9) by (unfold dc; lia). nia.
Qed.

Lemma val_lower c m : digits (c :: m) -> c <> 48 -> 10 ^ N.of_nat (length m) <= val (c :: m).
Proof.
  intros H Hc. rewrite (val_cons c m H). inversion H as [|? ? Hd _]; subst.
  pose proof (digit_range c Hd) as Hr. set (P := 10 ^ N.of_nat (length m)). set (dc := c - 48).
  assert (1 <= dc) by (unfold dc; lia). nia.
Qed.

(* digits of equal length compare by their first difference *)
Fixpoint firstdiff (m1 m2 : str) : Z :=
  match m1, m2 with
  | c1 :: m1', c2 :: m2' =>
      let d := (Z.of_N c1 - Z.of_N c2)%Z in if (d =? 0)%Z then firstdiff m1' m2' else d
  | _, _ => 0%Z
  end.

Lemma firstdiff_val m1 : forall m2, digits m1 -> digits m2 -> length m1 = length m2 ->
  Z_of_cmp (val m1 ?= val m2) = Z.sgn (firstdiff m1 m2).
Proof.
  induction m1 as [|c1 m1 IH]; intros [|c2 m2] H1 H2 Hl; simpl in Hl; try discriminate; [reflexivity|].
  injection Hl as Hl. rewrite (val_cons c1 m1 H1), (val_cons c2 m2 H2). rewrite Hl.
  inversion H1 as [|? ? Hc1 H1']; inversion H2 as [|? ? Hc2 H2']; subst.
  pose proof (digit_range c1 Hc1) as R1. pose proof (digit_range c2 Hc2) as R2.
  pose proof (val_bound m1 H1') as B1. pose proof (val_bound m2 H2') as B2. rewrite Hl in B1.
  cbn [firstdiff]. cbv zeta.
  set (P := 10 ^ N.of_nat (length m2)) in *.
  destruct (Z.eqb_spec (Z.of_N c1 - Z.of_N c2) 0) as [E|E].
  - assert (c1 = c2) by lia. subst c2. rewrite <- (IH m2 H1' H2' Hl).
    f_equal. destruct (N.compare_spec (val m1) (val m2)), (N.compare_spec ((c1 - 48) * P + val m1) ((c1 - 48) * P + val m2));
      try reflexivity; lia.
  - destruct (Z.lt_total (Z.of_N c1) (Z.of_N c2)) as [Hlt|[Heq|Hgt]]; [|lia|].
    + assert (Hc : ((c1 - 48) * P + val m1 ?= (c2 - 48) * P + val m2) = Lt).
      { apply N.compare_lt_iff. assert (c1 - 48 + 1 <= c2 - 48) by lia. nia. }
      rewrite Hc. destruct (Z.of_N c1 - Z.of_N c2)%Z eqn:Ed; try lia. reflexivity.
    + assert (Hc : ((c1 - 48) * P + val m1 ?= (c2 - 48) * P + val m2) = Gt).
      { apply N.compare_gt_iff. assert (c2 - 48 + 1 <= c1 - 48) by lia. nia. }
      rewrite Hc. destruct (Z.of_N c1 - Z.of_N c2)%Z eqn:Ed; try lia. reflexivity.
Qed.

(* a longer digit string without leading zero is the larger number *)
Lemma longer_is_larger m1 m2 :
  digits m1 -> digits m2 -> (length m2 < length m1)%nat ->
  (match m1 with c :: _ => c <> 48 | [] => True end) -> val m2 < val m1.
Proof.
  intros H1 H2 Hl Hh. destruct m1 as [|c m1]; [simpl in Hl; lia|].
  pose proof (val_lower c m1 H1 Hh) as L. pose proof (val_bound m2 H2) as B.
  eapply N.lt_le_trans; [exact B|]. eapply N.le_trans; [|exact L].
  apply N.pow_le_mono_r; [lia|]. simpl in Hl. lia.
Qed.

(* ---------- digit runs ---------- *)

Definition dg (s : str) : str := take_while is_ascii_digit s.
Definition ad (s : str) : str := drop_while is_ascii_digit s.
Definition is0 (c : char) : bool := c =? 48.

Lemma dg_digits s : digits (dg s).
Proof. apply take_while_all. Qed.

Lemma span_digits_eq s : forall acc, span_digits acc s = (fold_left dstep (dg s) acc, ad s).
Proof.
  induction s as [|c s IH]; intros acc; [reflexivity|]. unfold dg, ad. cbn [span_digits take_while drop_while].
  destruct (is_ascii_digit c) eqn:D; [|reflexivity]. rewrite IH. reflexivity.
Qed.

Lemma starts_digit_ad s : starts_digit (ad s) = false.
Proof.
  unfold ad. destruct (drop_while is_ascii_digit s) as [|c r] eqn:E; [reflexivity|].
  exact (drop_while_head _ _ _ _ E).
Qed.

Lemma is0_digit c : is0 c = true -> is_ascii_digit c = true.
Proof. unfold is0. intros H. apply N.eqb_eq in H. now subst. Qed.

Lemma skip_zeros_facts s :
  val (dg s) = val (dg (skip_zeros s)) /\ ad s = ad (skip_zeros s) /\
  (match dg (skip_zeros s) with c :: _ => c <> 48 | [] => True end) /\
  (length (skip_zeros s) <= length s)%nat.
Proof.
  unfold skip_zeros. induction s as [|c s IH]; [repeat split; simpl; lia|].
  cbn [drop_while]. fold (is0 c). destruct (is0 c) eqn:E0.
  - pose proof (is0_digit c E0) as Hd. destruct IH as (IH1 & IH2 & IH3 & IH4).
    unfold dg, ad in *. cbn [take_while drop_while]. rewrite Hd. repeat split; try assumption; [|simpl; lia].
    unfold val in *. cbn [fold_left]. apply N.eqb_eq in E0. subst c. exact IH1.
  - repeat split; [|lia]. unfold dg. cbn [take_while]. destruct (is_ascii_digit c); [|exact I].
    apply N.eqb_neq. exact E0.
Qed.

Lemma length_dg_cons c s : is_ascii_digit c = true -> dg (c :: s) = c :: dg s.
Proof. intros H. unfold dg. cbn [take_while]. now rewrite H. Qed.
Lemma dg_nondigit c s : is_ascii_digit c = false -> dg (c :: s) = [] /\ ad (c :: s) = c :: s.
Proof. intros H. unfold dg, ad. cbn [take_while drop_while]. now rewrite H. Qed.
Lemma ad_cons c s : is_ascii_digit c = true -> ad (c :: s) = ad s.
Proof. intros H. unfold ad. cbn [drop_while]. now rewrite H. Qed.

Lemma digit_loop_eq a : forall b fd, length (dg a) = length (dg b) ->
  digit_loop fd a b = ((if (fd =? 0)%Z then firstdiff (dg a) (dg b) else fd), ad a, ad b).
Proof.
  induction a as [|ca a IH]; intros b fd Hl.
  - destruct b as [|cb b]; [cbn; (destruct (Z.eqb_spec fd 0); subst; reflexivity)|].
    destruct (is_ascii_digit cb) eqn:Db; [rewrite (length_dg_cons cb b Db) in Hl; discriminate|].
    destruct (dg_nondigit cb b Db) as [E1 E2]. rewrite E1, E2. cbn. (destruct (Z.eqb_spec fd 0); subst; reflexivity).
  - destruct (is_ascii_digit ca) eqn:Da.
    + rewrite (length_dg_cons ca a Da) in *. destruct b as [|cb b]; [discriminate|].
      destruct (is_ascii_digit cb) eqn:Db.
      * rewrite (length_dg_cons cb b Db) in *. cbn [digit_loop]. rewrite Da, Db. cbn [andb].
        rewrite IH by (simpl in Hl; lia). rewrite (ad_cons ca a Da), (ad_cons cb b Db).
        cbn [firstdiff]. cbv zeta. f_equal. f_equal.
        destruct (fd =? 0)%Z eqn:Ef; [reflexivity|now rewrite Ef].
      * destruct (dg_nondigit cb b Db) as [E1 _]. rewrite E1 in Hl. discriminate.
    + destruct (dg_nondigit ca a Da) as [E1 E2]. rewrite E1, E2 in *.
      destruct b as [|cb b]; [cbn; (destruct (Z.eqb_spec fd 0); subst; reflexivity)|].
      destruct (is_ascii_digit cb) eqn:Db; [rewrite (length_dg_cons cb b Db) in Hl; discriminate|].
      destruct (dg_nondigit cb b Db) as [F1 F2]. rewrite F1, F2. cbn [digit_loop]. rewrite Da. cbn [andb firstdiff].
      (destruct (Z.eqb_spec fd 0); subst; reflexivity).
Qed.

Lemma digit_loop_gt a : forall b fd, (length (dg b) < length (dg a))%nat ->
  starts_digit (snd (fst (digit_loop fd a b))) = true.
Proof.
  induction a as [|ca a IH]; intros b fd Hl; [simpl in Hl; lia|].
  destruct (is_ascii_digit ca) eqn:Da; [|destruct (dg_nondigit ca a Da) as [E1 _]; rewrite E1 in Hl; simpl in Hl; lia].
  rewrite (length_dg_cons ca a Da) in Hl.
  destruct b as [|cb b]; [cbn; exact Da|].
  destruct (is_ascii_digit cb) eqn:Db.
  - rewrite (length_dg_cons cb b Db) in Hl. cbn [digit_loop]. rewrite Da, Db. cbn [andb].
    apply IH. simpl in Hl. lia.
  - cbn [digit_loop]. rewrite Da, Db. cbn. exact Da.
Qed.

Lemma digit_loop_lt a : forall b fd, (length (dg a) < length (dg b))%nat ->
  starts_digit (snd (fst (digit_loop fd a b))) = false /\ starts_digit (snd (digit_loop fd a b)) = true.
Proof.
  induction a as [|ca a IH]; intros b fd Hl.
  - destruct b as [|cb b]; [simpl in Hl; lia|].
    destruct (is_ascii_digit cb) eqn:Db; [|destruct (dg_nondigit cb b Db) as [E1 _]; rewrite E1 in Hl; simpl in Hl; lia].
    cbn. split; [reflexivity|exact Db].
  - destruct b as [|cb b]; [simpl in Hl; lia|].
    destruct (is_ascii_digit cb) eqn:Db; [|destruct (dg_nondigit cb b Db) as [E1 _]; rewrite E1 in Hl; simpl in Hl; lia].
    rewrite (length_dg_cons cb b Db) in Hl.
    destruct (is_ascii_digit ca) eqn:Da.
    + rewrite (length_dg_cons ca a Da) in Hl. cbn [digit_loop]. rewrite Da, Db. cbn [andb].
      apply IH. simpl in Hl. lia.
    + cbn [digit_loop]. rewrite Da. cbn. split; [exact Da|exact Db].
Qed.

(* ---------- verrevcmp is the key order ---------- *)

Lemma verrevcmp_step f x y : (x <> [] \/ y <> []) ->
  verrevcmp_fuel (S f) x y =
  match nondigit_loop x y with
  | inl d => d
  | inr (a1, b1) =>
      let '(first_diff, a3, b3) := digit_loop 0 (skip_zeros a1) (skip_zeros b1) in
      if starts_digit a3 then 1%Z
      else if starts_digit b3 then (-1)%Z
      else if negb (first_diff =? 0)%Z then first_diff
      else verrevcmp_fuel f a3 b3
  end.
Proof. intros H. destruct x, y; try reflexivity. destruct H; contradiction. Qed.

Lemma blk_rest_eq s :
  blk_rest s =
  ((map krank (fst (span_nondigit s)), val (dg (skip_zeros (snd (span_nondigit s))))),
   ad (skip_zeros (snd (span_nondigit s)))).
Proof.
  unfold blk_rest. destruct (span_nondigit s) as [p r]. cbn [fst snd].
  rewrite span_digits_eq. destruct (skip_zeros_facts r) as (E1 & E2 & _). fold (val (dg r)). now rewrite E1, E2.
Qed.

Theorem verrevcmp_fuel_key n : forall x y, (length x + length y <= n)%nat ->
  Z.sgn (verrevcmp_fuel n x y) = Z_of_cmp (cmp_key (key x) (key y)).
Proof.
  induction n as [|n IH]; intros x y Hl.
  - destruct x, y; simpl in Hl; try lia. reflexivity.
  - assert (Hcase : (x = [] /\ y = []) \/ (x <> [] \/ y <> [])).
    { destruct x; [|right; left; discriminate]. destruct y; [left; split; reflexivity|right; right; discriminate]. }
    destruct Hcase as [[-> ->]|Hne]; [reflexivity|].
    rewrite verrevcmp_step by exact Hne. rewrite cmp_key_step.
    pose proof (blk_rest_length x) as [Lx Lx']. pose proof (blk_rest_length y) as [Ly Ly'].
    rewrite (blk_rest_eq x), (blk_rest_eq y) in *. cbn [fst snd] in *. unfold cmp_block. cbn [fst snd].
    pose proof (nondigit_phase (max (length x) (length y)) x y (Nat.le_max_l _ _) (Nat.le_max_r _ _)) as Hnd.
    destruct (cmp_ranklist (map krank (fst (span_nondigit x))) (map krank (fst (span_nondigit y)))).
    + rewrite Hnd. clear Hnd.
      set (a0 := skip_zeros (snd (span_nondigit x))) in *. set (b0 := skip_zeros (snd (span_nondigit y))) in *.
      destruct (skip_zeros_facts (snd (span_nondigit x))) as (_ & _ & Ha0 & _).
      destruct (skip_zeros_facts (snd (span_nondigit y))) as (_ & _ & Hb0 & _).
      fold a0 in Ha0. fold b0 in Hb0.
      destruct (lt_eq_lt_dec (length (dg a0)) (length (dg b0))) as [[Hlt|Heq]|Hgt].
      * destruct (digit_loop_lt a0 b0 0%Z Hlt) as [H1 H2].
        destruct (digit_loop 0 a0 b0) as [[fd a3] b3]. cbn [fst snd] in *. rewrite H1, H2.
        pose proof (longer_is_larger (dg b0) (dg a0) (dg_digits b0) (dg_digits a0) Hlt Hb0) as Hv.
        apply N.compare_lt_iff in Hv. now rewrite Hv.
      * rewrite (digit_loop_eq a0 b0 0%Z Heq). cbn [Z.eqb]. rewrite !starts_digit_ad.
        pose proof (firstdiff_val (dg a0) (dg b0) (dg_digits a0) (dg_digits b0) Heq) as Hfd.
        destruct (firstdiff (dg a0) (dg b0) =? 0)%Z eqn:Ez; cbn [negb].
        -- apply Z.eqb_eq in Ez. rewrite Ez in Hfd. cbn in Hfd.
           destruct (val (dg a0) ?= val (dg b0)); try discriminate.
           apply IH. destruct Hne as [Hx|Hy]; [specialize (Lx' Hx)|specialize (Ly' Hy)]; lia.
        -- rewrite <- Hfd. apply Z.eqb_neq in Ez.
           destruct (val (dg a0) ?= val (dg b0)) eqn:Ec; try reflexivity.
           exfalso. apply Ez, Z.sgn_null_iff. symmetry. exact Hfd.
      * pose proof (digit_loop_gt a0 b0 0%Z Hgt) as H1.
        destruct (digit_loop 0 a0 b0) as [[fd a3] b3]. cbn [fst snd] in *. rewrite H1.
        pose proof (longer_is_larger (dg a0) (dg b0) (dg_digits a0) (dg_digits b0) Hgt Ha0) as Hv.
        apply N.compare_gt_iff in Hv. now rewrite Hv.
    + destruct Hnd as (d & -> & Hd). destruct d; try lia. reflexivity.
    + destruct Hnd as (d & -> & Hd). destruct d; try lia. reflexivity.
Qed.

Theorem verrevcmp_key x y : Z.sgn (verrevcmp x y) = Z_of_cmp (cmp_key (key x) (key y)).
Proof. unfold verrevcmp. apply verrevcmp_fuel_key. lia. Qed.
