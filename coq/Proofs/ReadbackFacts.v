(* Proofs for C19: rendering a paragraph of uniquely named single-line fields and reading the
   rendering back gives the same mapping (corollary of the C06 grammar theorem). *)
From Coq Require Import String.
From Coq Require Import Arith NArith List Bool Lia.
From DI Require Import Result PyStr PyStrFacts Codec Deb822 Deb822Facts Debcon Email Copyright Unsign UnsignFacts Mapping MappingFacts
  VersionFacts Grammar822 Grammar822Facts Grammar822Header.
Import ListNotations.
Open Scope N_scope.

(* keys as the mapping stores them: [a-z][a-z0-9-]* *)
Definition key_char (c : char) : bool := is_ascii_lower c || is_ascii_digit c || (c =? 45).
Definition key_word (w : str) : Prop := Forall (fun x => key_char x = true) w.
Definition rb_key (k : str) : Prop :=
  match k with c :: _ => is_ascii_lower c = true /\ key_word k | [] => False end.
(* single-line trimmed non-empty values *)
Definition rb_value (v : str) : Prop := v <> [] /\ strip v = v /\ no_eol v.

Lemma split_char_aux_ne c s : forall cur, split_char_aux c cur s <> [].
Proof. induction s as [|x s IH]; intros cur; cbn [split_char_aux]; [discriminate|]. destruct (x =? c); [discriminate|apply IH]. Qed.

Lemma join_split_char_aux c s : forall cur, join [c] (split_char_aux c cur s) = rev cur ++ s.
Proof.
  induction s as [|x s IH]; intros cur; cbn [split_char_aux].
  - cbn [join]. now rewrite app_nil_r.
  - destruct (N.eqb_spec x c) as [->|Hx].
    + pose proof (IH []) as E. cbn [rev app] in E.
      destruct (split_char_aux c [] s) as [|w ws] eqn:Es; [exfalso; exact (split_char_aux_ne c s [] Es)|].
      rewrite join_cons, E. reflexivity.
    + rewrite IH. cbn [rev]. now rewrite <- app_assoc.
Qed.

Lemma join_split_char c s : join [c] (split_char c s) = s.
Proof. apply (join_split_char_aux c s []). Qed.

Lemma split_char_aux_first c s : forall cur, exists w ws, split_char_aux c cur s = (rev cur ++ w) :: ws.
Proof.
  induction s as [|x s IH]; intros cur; cbn [split_char_aux].
  - exists [], []. now rewrite app_nil_r.
  - destruct (x =? c); [exists [], (split_char_aux c [] s); now rewrite app_nil_r|].
    destruct (IH (x :: cur)) as (w & ws & E). exists (x :: w), ws. rewrite E. cbn [rev]. now rewrite <- app_assoc.
Qed.

Lemma map_join (f : char -> char) sep ls : map f (join sep ls) = join (map f sep) (map (map f) ls).
Proof.
  induction ls as [|l ls IH]; [reflexivity|]. destruct ls as [|l2 ls]; [reflexivity|].
  cbn [map]. rewrite !join_cons. rewrite !map_app. cbn [map] in IH. now rewrite IH.
Qed.

(* ---------- names ---------- *)

Lemma key_char_facts c : key_char c = true ->
  c <? 128 = true /\ lower_ascii_char c = c /\ (is_ascii_alnum c = true \/ c = 45) /\
  (is_ascii_alnum (upper_ascii_char c) = true \/ upper_ascii_char c = 45) /\
  (is_ascii_lower c = true -> is_ascii_alpha (upper_ascii_char c) = true).
Proof.
  intros H. assert (Hb : c < 128).
  { unfold key_char, is_ascii_lower, is_ascii_digit in H. apply orb_true_iff in H as [H|H]; [apply orb_true_iff in H as [H|H]|].
    - apply andb_true_iff in H as [_ H]. apply N.leb_le in H. lia.
    - apply andb_true_iff in H as [_ H]. apply N.leb_le in H. lia.
    - apply N.eqb_eq in H. lia. }
  set (P := fun c => implb (key_char c)
     ((c <? 128) && (lower_ascii_char c =? c) && (is_ascii_alnum c || (c =? 45)) &&
      (is_ascii_alnum (upper_ascii_char c) || (upper_ascii_char c =? 45)) &&
      implb (is_ascii_lower c) (is_ascii_alpha (upper_ascii_char c)))).
  assert (G : P c = true) by (apply (all_below_spec 128 P); [vm_compute; reflexivity|exact Hb]).
  unfold P in G. rewrite H in G. cbn [implb] in G.
  apply andb_true_iff in G as [G G5]. apply andb_true_iff in G as [G G4]. apply andb_true_iff in G as [G G3]. apply andb_true_iff in G as [G1 G2].
  split; [exact G1|]. split; [now apply N.eqb_eq|]. split; [|split].
  - apply orb_true_iff in G3 as [G3|G3]; [now left|right; now apply N.eqb_eq].
  - apply orb_true_iff in G4 as [G4|G4]; [now left|right; now apply N.eqb_eq].
  - intros Hl. rewrite Hl in G5. exact G5.
Qed.

Lemma key_word_lower w : key_word w -> lower_ascii w = w.
Proof. induction 1 as [|c w Hc _ IH]; [reflexivity|]. cbn [lower_ascii map]. fold (lower_ascii w). rewrite IH. f_equal. now apply key_char_facts. Qed.

Lemma key_word_ascii w : key_word w -> ascii_name w.
Proof. apply Forall_impl. intros c Hc. now apply key_char_facts. Qed.

Definition alnum_hyphen (w : str) : Prop := Forall (fun x => is_ascii_alnum x = true \/ x = 45) w.

Lemma not_special_chars c : key_char c = true -> (c =? 305) = false /\ (c =? 383) = false.
Proof. intros H. destruct (key_char_facts c H) as (Hb & _). apply N.ltb_lt in Hb. split; apply N.eqb_neq; lia. Qed.

Lemma normalize_word_key w : key_word w ->
  lower_ascii (normalize_word w) = w /\ alnum_hyphen (normalize_word w) /\
  (match w with c :: _ => is_ascii_lower c = true | [] => False end ->
   match normalize_word w with c :: _ => is_ascii_alpha c = true | [] => False end).
Proof.
  intros Hk. pose proof (key_word_lower w Hk) as Hl. unfold normalize_word. cbv zeta. rewrite Hl.
  destruct (str_eqb w (lit "md5sum")) eqn:E1.
  { apply str_eqb_eq in E1. subst w. split; [reflexivity|]. split; [repeat constructor|intros _; reflexivity]. }
  destruct (str_eqb w (lit "sha1")) eqn:E2.
  { apply str_eqb_eq in E2. subst w. split; [reflexivity|]. split; [repeat constructor|intros _; reflexivity]. }
  destruct (str_eqb w (lit "sha256")) eqn:E3.
  { apply str_eqb_eq in E3. subst w. split; [reflexivity|]. split; [repeat constructor|intros _; reflexivity]. }
  destruct (capitalize_facts w (key_word_ascii w Hk)) as (F1 & _). split; [now rewrite F1|]. split.
  - destruct w as [|c w']; [constructor|]. inversion Hk as [|? ? Hc Hw]; subst. cbn [capitalize].
    destruct (key_char_facts c Hc) as (_ & _ & _ & Hu & _). destruct (not_special_chars c Hc) as [E305 E383].
    rewrite E305, E383. constructor; [exact Hu|]. unfold alnum_hyphen. rewrite Forall_map. eapply Forall_impl; [|exact Hw].
    intros x Hx. destruct (key_char_facts x Hx) as (_ & El & Ha & _). now rewrite El.
  - destruct w as [|c w']; [contradiction|]. intros Hc. cbn [capitalize]. inversion Hk as [|? ? Hkc _]; subst.
    destruct (not_special_chars c Hkc) as [E305 E383]. rewrite E305, E383. now apply key_char_facts.
Qed.

Lemma split_key_words k : key_word k -> Forall key_word (split_char 45 k).
Proof.
  intros H. unfold split_char. assert (G : forall cur, key_word cur -> Forall key_word (split_char_aux 45 cur k)).
  { induction H as [|c k Hc _ IH]; intros cur Hcur; cbn [split_char_aux].
    - constructor; [apply Forall_rev; exact Hcur|constructor].
    - destruct (c =? 45); [constructor; [apply Forall_rev; exact Hcur|apply IH; constructor]|apply IH; constructor; assumption]. }
  apply G. constructor.
Qed.

Lemma alnum_hyphen_join ws : Forall alnum_hyphen ws -> alnum_hyphen (join [45] ws).
Proof.
  induction 1 as [|w ws Hw _ IH]; [constructor|]. destruct ws as [|w2 ws]; [exact Hw|]. rewrite join_cons.
  apply Forall_app. split; [exact Hw|]. constructor; [now right|exact IH].
Qed.

Theorem normalize_key k : rb_key k ->
  lower_ascii (normalize_control_field_name k) = k /\ name_ok (normalize_control_field_name k).
Proof.
  intros Hk. destruct k as [|c0 k0] eqn:Ek; [contradiction|]. destruct Hk as [Hc0 Hall]. rewrite <- Ek in *.
  pose proof (split_key_words k Hall) as Hws. unfold normalize_control_field_name. split.
  - unfold lower_ascii. rewrite map_join. cbn [map]. change (lower_ascii_char 45) with 45. rewrite map_map.
    rewrite (map_ext_Forall _ (fun w => w)); [rewrite map_id; apply join_split_char|].
    eapply Forall_impl; [|exact Hws]. intros w Hw. now apply normalize_word_key.
  - assert (E45 : (c0 =? 45) = false).
    { unfold is_ascii_lower in Hc0. apply andb_true_iff in Hc0 as [H1 _]. apply N.leb_le in H1. apply N.eqb_neq. lia. }
    assert (Hfirst : exists w ws, split_char 45 k = (c0 :: w) :: ws).
    { rewrite Ek. unfold split_char. cbn [split_char_aux]. rewrite E45. destruct (split_char_aux_first 45 k0 [c0]) as (w & ws & E).
      exists w, ws. exact E. }
    destruct Hfirst as (w & ws & Es). rewrite Es in *. inversion Hws as [|? ? Hw1 Hwrest]; subst.
    destruct (normalize_word_key (c0 :: w) Hw1) as (_ & Ha1 & Hf1). specialize (Hf1 Hc0).
    assert (Hall' : alnum_hyphen (join [45] (map normalize_word ((c0 :: w) :: ws)))).
    { apply alnum_hyphen_join. rewrite Forall_map. constructor; [exact Ha1|]. eapply Forall_impl; [|exact Hwrest]. intros x Hx. now apply normalize_word_key. }
    cbn [map] in *. destruct (normalize_word (c0 :: w)) as [|y nw] eqn:En; [contradiction|].
    destruct (map normalize_word ws) as [|m ms]; cbn [join] in *.
    + split; [exact Hf1|exact Hall'].
    + cbn [app] in *. split; [exact Hf1|exact Hall'].
Qed.

(* ---------- rendering and reading back ---------- *)

Definition field_of (kv : str * str) : gfield := mkGField (normalize_control_field_name (fst kv)) [32] (snd kv) [].

Lemma dumps_is_para_text d : d <> [] -> dumps822 d = para_text (map field_of d) [10].
Proof.
  intros _. unfold dumps822, para_text. f_equal. f_equal. induction d as [|kv d IH]; [reflexivity|].
  cbn [map flat_map field_src field_of gf_conts app]. rewrite <- IH. f_equal.
Qed.

Definition rb_entry (kv : str * str) : Prop := rb_key (fst kv) /\ rb_value (snd kv).

Lemma field_of_wf kv : rb_entry kv -> wf_gfield (field_of kv).
Proof.
  intros [Hk (Hne & Hs & Hn)]. destruct (normalize_key _ Hk) as [_ Hname]. unfold wf_gfield, field_of. cbn [gf_name gf_gap gf_first gf_conts].
  repeat split; try assumption; [repeat constructor|constructor|now left].
Qed.

Lemma hfield_of kv : rb_entry kv -> hfield (field_of kv) = kv.
Proof.
  intros [Hk (Hne & Hs & Hn)]. destruct (normalize_key _ Hk) as [Hl _]. unfold hfield, hvalue, field_of. cbn [gf_name gf_first gf_conts join].
  rewrite Hl, Hs. now destruct kv.
Qed.

Theorem dumps_readback d : d <> [] -> Forall rb_entry d -> NoDup (map fst d) ->
  Forall (fun kv => fst kv <> lit "content-type") d -> is_signed (dumps822 d) = false ->
  from_text822 (dumps822 d) = d.
Proof.
  intros Hne Hd Hnd Hct Hsig. unfold from_text822, get_paragraph_data_unsigned.
  assert (Ht : dumps822 d <> []) by (unfold dumps822; intros E; apply app_eq_nil in E as [_ E]; discriminate).
  destruct (dumps822 d) as [|c t] eqn:Ed; [contradiction|]. rewrite <- Ed in *.
  rewrite (no_envelope_identity _ Hsig). rewrite dumps_is_para_text by exact Hne.
  assert (Hnames : map (fun f => lower_ascii (gf_name f)) (map field_of d) = map fst d).
  { rewrite map_map. apply map_ext_Forall. eapply Forall_impl; [|exact Hd]. intros kv [Hk _]. unfold field_of. cbn [gf_name]. now apply normalize_key. }
  rewrite header_parser_paragraph.
  - rewrite map_map. rewrite (map_ext_Forall _ (fun kv => kv)); [apply map_id|]. eapply Forall_impl; [|exact Hd]. intros kv H. now apply hfield_of.
  - destruct d; [contradiction|discriminate].
  - rewrite Forall_map. eapply Forall_impl; [|exact Hd]. intros kv H. now apply field_of_wf.
  - split; [now rewrite Hnames|]. rewrite Forall_map. rewrite Forall_forall in *. intros kv Hin.
    specialize (Hd kv Hin). destruct Hd as [Hk _]. unfold field_of. cbn [gf_name]. destruct (normalize_key _ Hk) as [-> _]. now apply Hct.
  - now right.
Qed.

(* ---------- maintainer values  phrase <address> ---------- *)

Lemma simple_phrase_facts n : simple_phrase n = true ->
  n <> [] /\ ~ In 60 n /\ (match n with c :: _ => is_space c = false | [] => True end).
Proof.
  unfold simple_phrase. intros H. apply andb_true_iff in H as [H1 H2]. destruct n as [|c n']; [discriminate|]. split; [discriminate|].
  rewrite forallb_forall in H2.
  assert (Hw : forall w, In w (split_char 32 (c :: n')) -> w <> [] /\ forallb is_atext w = true).
  { intros w Hw. specialize (H2 w Hw). apply andb_true_iff in H2 as [Ha Hb]. split; [now destruct w|exact Hb]. }
  assert (Hchars : forall x, In x (c :: n') -> x = 32 \/ is_atext x = true).
  { intros x Hx. rewrite <- (join_split_char 32 (c :: n')) in Hx. revert Hx. generalize (split_char 32 (c :: n')) Hw. intros ws.
    induction ws as [|w ws IHws]; intros Hws Hx; [contradiction|]. destruct ws as [|w2 ws'].
    - cbn [join] in Hx. right. destruct (Hws w (or_introl eq_refl)) as [_ Hf]. rewrite forallb_forall in Hf. now apply Hf.
    - rewrite join_cons in Hx. apply in_app_or in Hx as [Hx|Hx].
      + right. destruct (Hws w (or_introl eq_refl)) as [_ Hf]. rewrite forallb_forall in Hf. now apply Hf.
      + cbn [app] in Hx. destruct Hx as [<-|Hx]; [now left|]. apply IHws; [|exact Hx]. intros w' Hw'. apply Hws. now right. }
  split.
  - intros Hi. destruct (Hchars 60 Hi) as [E|E]; discriminate.
  - (* the first character belongs to the first word, which is not empty *)
    destruct (N.eqb_spec c 32) as [->|Hc].
    + exfalso. unfold split_char in Hw. cbn [split_char_aux] in Hw. change (32 =? 32) with true in Hw. cbv iota in Hw.
      destruct (Hw [] (or_introl eq_refl)) as [Hbad _]. now apply Hbad.
    + destruct (Hchars c (or_introl eq_refl)) as [E|E]; [contradiction|].
      destruct (is_space c) eqn:Es; [|reflexivity]. exfalso.
      assert (Hb : c < 128).
      { unfold is_space in Es. unfold is_atext, is_ascii_alnum, is_ascii_alpha, is_ascii_upper, is_ascii_lower, is_ascii_digit in E.
        apply orb_true_iff in E as [E|E].
        - repeat (apply orb_true_iff in E; destruct E as [E|E]); apply andb_true_iff in E as [_ E]; apply N.leb_le in E; lia.
        - apply existsb_exists in E as (y & Hy & Ey). apply N.eqb_eq in Ey. subst y. cbn in Hy. lia. }
      set (P := fun c => negb (is_atext c && is_space c)).
      assert (G : P c = true) by (apply (all_below_spec 128 P); [vm_compute; reflexivity|exact Hb]).
      unfold P in G. rewrite E, Es in G. discriminate.
Qed.

Theorem maintainer_roundtrip n a : simple_phrase n = true -> simple_addr a = true ->
  maintainer_from_value (n ++ [32; 60] ++ a ++ [62]) = Some (n, a) /\
  maintainer_dumps (n, a) = n ++ [32; 60] ++ a ++ [62].
Proof.
  intros Hn Ha. destruct (simple_phrase_facts n Hn) as (Hne & H60 & Hhead).
  assert (Hstrip : strip (n ++ [32; 60] ++ a ++ [62]) = n ++ [32; 60] ++ a ++ [62]).
  { unfold strip. apply strip_by_fixed.
    - destruct n; [contradiction|exact Hhead].
    - rewrite !app_assoc. apply rstrip_by_snoc_keep. reflexivity. }
  split.
  - unfold maintainer_from_value. rewrite Hstrip.
    change (n ++ [32; 60] ++ a ++ [62]) with (n ++ [32; 60] ++ (a ++ [62])).
    rewrite partition_str_first.
    + rewrite rev_app_distr. cbn [rev app]. rewrite rev_involutive, Hn, Ha. reflexivity.
    + discriminate.
    + intros a1 a2 E Hne2. destruct a2 as [|d a2]; [contradiction|]. cbn [app startswith].
      destruct (N.eqb_spec 32 d) as [<-|]; [|reflexivity]. cbn [andb].
      destruct a2 as [|d2 a2']; cbn [app startswith].
      * (* the space is the last character of the name: the next is the space of the separator, not "<" *)
        change (60 =? 32) with false. reflexivity.
      * destruct (N.eqb_spec 60 d2) as [<-|]; [|reflexivity]. exfalso. apply H60. rewrite E. apply in_or_app. right. right. now left.
  - unfold maintainer_dumps. cbn [fst snd]. exact Hstrip.
Qed.
