(* Proofs for C12: replacing " ." markers that are followed by a continuation line with blank
   lines changes only the text of the replaced lines, at the level of the parser and of the
   copyright object. *)
From Coq Require Import String.
From Coq Require Import Arith NArith List Bool Lia.
From DI Require Import Result PyStr PyStrFacts Codec Deb822 Deb822Facts BlankFacts Debcon Copyright CopyrightFacts
  Grammar822 Grammar822Facts Grammar822Blank Dep5Facts WordFacts ConserveFacts.
Import ListNotations.
Open Scope N_scope.

(* ---------- related documents ---------- *)

Definition MARK : str := [32; 46].

(* same line, or a marker on the left and a blank line on the right *)
Definition Rc (c c' : str) : Prop := c = c' \/ (rstrip c = MARK /\ is_blank c' = true).
Definition Rf (f f' : gfield) : Prop :=
  gf_name f = gf_name f' /\ gf_gap f = gf_gap f' /\ gf_first f = gf_first f' /\ Forall2 Rc (gf_conts f) (gf_conts f').
Definition Rdoc (ps ps' : list (gpara * nat)) : Prop :=
  Forall2 (fun pk pk' => snd pk = snd pk' /\ Forall2 Rf (fst pk) (fst pk')) ps ps'.

(* what the parser returns: same numbers, same text except (" .", "") at replaced lines *)
Definition Rl (l l' : nline) : Prop :=
  ln_num l = ln_num l' /\ (ln_val l = ln_val l' \/ (ln_val l = MARK /\ ln_val l' = [])).
(* the first line (the declaration) is never a replaced one *)
Definition Rfield (e e' : field) : Prop :=
  f_name e = f_name e' /\ exists l ls ls', f_lines e = l :: ls /\ f_lines e' = l :: ls' /\ Forall2 Rl ls ls'.

Lemma Rc_lines cs cs' : Forall2 Rc cs cs' -> forall n, Forall2 Rl (number_from n (map rstrip cs)) (number_from n (map rstrip cs')).
Proof.
  induction 1 as [|c c' cs cs' Hc _ IH]; intros n; [constructor|]. cbn [map number_from]. constructor; [|apply IH].
  split; [reflexivity|]. cbn [ln_val]. destruct Hc as [->|[Hm Hb]]; [now left|]. right. split; [exact Hm|now apply rstrip_blank].
Qed.

Lemma Forall2_len {A B} (R : A -> B -> Prop) l l' : Forall2 R l l' -> length l = length l'.
Proof. induction 1; [reflexivity|]. cbn [length]. now f_equal. Qed.

Lemma Rf_src_length f f' : Rf f f' -> length (field_src f) = length (field_src f').
Proof. intros (_ & _ & _ & H). unfold field_src. cbn [length]. f_equal. now apply Forall2_len in H. Qed.

Lemma Rf_expected f f' n : Rf f f' -> Rfield (expected_field_b n f) (expected_field_b n f').
Proof.
  intros (Hn & _ & Hfirst & Hc). unfold Rfield, expected_field_b. cbn [f_name f_lines]. rewrite Hn, Hfirst. split; [reflexivity|].
  eexists _, _, _. split; [reflexivity|]. split; [reflexivity|]. now apply Rc_lines.
Qed.

Lemma Rpara_expected p p' : Forall2 Rf p p' -> forall n, Forall2 Rfield (expected_para_b n p) (expected_para_b n p').
Proof.
  induction 1 as [|f f' p p' Hf _ IH]; intros n; [constructor|]. cbn [expected_para_b]. constructor; [now apply Rf_expected|].
  rewrite (Rf_src_length f f' Hf). apply IH.
Qed.

Lemma Rpara_len p p' : Forall2 Rf p p' -> para_len p = para_len p'.
Proof.
  unfold para_len. induction 1 as [|f f' p p' Hf _ IH]; [reflexivity|]. cbn [flat_map]. rewrite !app_length, IH. f_equal.
  now apply Rf_src_length.
Qed.

Lemma Rdoc_expected ps ps' : Rdoc ps ps' -> forall n, Forall2 (Forall2 Rfield) (expected_doc_b n ps) (expected_doc_b n ps').
Proof.
  induction 1 as [|[p k] [p' k'] ps ps' [Hk Hp] _ IH]; intros n; [constructor|]. cbn [fst snd] in *. subst k'.
  cbn [expected_doc_b]. constructor; [now apply Rpara_expected|]. rewrite (Rpara_len p p' Hp). apply IH.
Qed.

(* ---------- the parser ---------- *)

Theorem markers_replaced_parser ps ps' : wf_doc_b ps -> wf_doc_b ps' -> Rdoc ps ps' ->
  exists E E', groups (doc_text ps) = Ok E /\ groups (doc_text ps') = Ok E' /\ Forall2 (Forall2 Rfield) E E'.
Proof.
  intros Hw Hw' HR. exists (expected_doc_b 1 ps), (expected_doc_b 1 ps').
  split; [now apply wf_doc_b_text_parses|]. split; [now apply wf_doc_b_text_parses|]. now apply Rdoc_expected.
Qed.

(* same paragraphs, same fields, same line numbers *)
Lemma Rfield_shape e e' : Rfield e e' -> f_name e = f_name e' /\ map ln_num (f_lines e) = map ln_num (f_lines e').
Proof.
  intros [Hn (l0 & ls0 & ls0' & -> & -> & Hl)]. split; [exact Hn|]. cbn [map]. f_equal.
  induction Hl as [|l l' ls ls' [H _] _ IH]; [reflexivity|]. cbn [map]. now rewrite H, IH.
Qed.

(* ... and the same words in each field *)
Lemma cwords_mark : cwords MARK = []. Proof. reflexivity. Qed.

Lemma Rfield_words e e' : Rfield e e' -> cwords (field_text e) = cwords (field_text e').
Proof.
  intros [_ (l0 & ls0 & ls0' & E & E' & Hl)]. rewrite !field_text_cw. unfold field_cw. rewrite E, E'. cbn [flat_map]. f_equal. clear E E'.
  induction Hl as [|l l' ls ls' [_ H] _ IH]; [reflexivity|].
  cbn [flat_map]. rewrite IH. f_equal. destruct H as [->|[-> ->]]; reflexivity.
Qed.

(* a field has an empty text on one side iff on the other *)
Lemma Rfield_live e e' : Rfield e e' -> nonempty (field_text e) = nonempty (field_text e').
Proof.
  intros [_ (l0 & ls0 & ls0' & E & E' & Hl)]. unfold field_text. rewrite E, E'. cbn [map].
  destruct Hl as [|l2 l2' ls ls' _ _]; [reflexivity|]. cbn [map]. rewrite !join_cons. destruct (ln_val l0); reflexivity.
Qed.

(* ---------- the copyright object ---------- *)

Lemma Rgroup_classify g g' : Forall2 Rfield g g' -> classify g = classify g'.
Proof.
  intros H. unfold classify.
  assert (E : forall n, existsb (fun f => str_eqb (f_name f) n) g = existsb (fun f => str_eqb (f_name f) n) g').
  { intros n. induction H as [|e e' g g' [Hn _] _ IH]; [reflexivity|]. cbn [existsb]. now rewrite Hn, IH. }
  now rewrite !E.
Qed.

Lemma Rgroup_live g g' : Forall2 Rfield g g' -> Forall2 Rfield (live g) (live g').
Proof.
  unfold live. induction 1 as [|e e' g g' He _ IH]; [constructor|]. cbn [filter]. rewrite (Rfield_live e e' He).
  destruct (nonempty (field_text e')); [now constructor|exact IH].
Qed.

Lemma Rgroup_names g g' : Forall2 Rfield g g' -> map fname g = map fname g'.
Proof. induction 1 as [|e e' g g' [Hn _] _ IH]; [reflexivity|]. cbn [map]. unfold fname at 1 3. now rewrite Hn, IH. Qed.

(* related key/value lists: same keys, values with the same words *)
Definition Rkv (kv kv' : str * str) : Prop := fst kv = fst kv' /\ cwords (snd kv) = cwords (snd kv').

Lemma Rgroup_filter (q : field -> bool) g g' : (forall e e', Rfield e e' -> q e = q e') ->
  Forall2 Rfield g g' -> Forall2 Rfield (filter q g) (filter q g').
Proof.
  intros Hq. induction 1 as [|e e' g g' He _ IH]; [constructor|]. cbn [filter]. rewrite (Hq e e' He).
  destruct (q e'); [now constructor|exact IH].
Qed.

Lemma Rgroup_kv g g' : Forall2 Rfield g g' ->
  Forall2 Rkv (map (fun f => (fname f, fvalue f)) g) (map (fun f => (fname f, fvalue f)) g').
Proof.
  induction 1 as [|e e' g g' He _ IH]; [constructor|]. cbn [map]. constructor; [|exact IH]. split; cbn [fst snd].
  - unfold fname. now rewrite (proj1 He).
  - unfold fvalue. rewrite !cwords_lstrip. now apply Rfield_words.
Qed.

Lemma Rkv_lookup d d' k : Forall2 Rkv d d' -> cwords (lookup k d) = cwords (lookup k d').
Proof.
  unfold lookup. induction 1 as [|[a v] [a' v'] d d' [Hk Hv] _ IH]; [reflexivity|]. cbn [fst snd] in *. subst a'. cbn [dict_get].
  destruct (str_eqb k a); [exact Hv|exact IH].
Qed.

(* paragraphs without repeated names: same type, same typed fields and extra data with the
   same words in each *)
Theorem markers_replaced_paragraph t g g' p p' : Forall2 Rfield g g' -> NoDup (map fname (live g)) ->
  from_fields t g = Ok p -> from_fields t g' = Ok p' ->
  p_type p = p_type p' /\
  Forall2 (fun kv kv' => fst kv = fst kv' /\ cwords (fval_dumps (snd kv)) = cwords (fval_dumps (snd kv'))) (p_fields p) (p_fields p') /\
  Forall2 Rkv (p_extra p) (p_extra p').
Proof.
  intros HR Hnd Hp Hp'. pose proof (Rgroup_live g g' HR) as HL.
  assert (Hnd' : NoDup (map fname (live g'))) by (rewrite <- (Rgroup_names _ _ HL); exact Hnd).
  rewrite from_fields_distinct in Hp by exact Hnd. rewrite from_fields_distinct in Hp' by exact Hnd'.
  apply Ok_inj in Hp. apply Ok_inj in Hp'. subst p p'. unfold build_para. cbn [p_type p_fields p_extra].
  assert (Hroute : forall e e', Rfield e e' -> route t (all_extra t) e = route t (all_extra t) e').
  { intros e e' [Hn _]. unfold route, fname. now rewrite Hn. }
  split; [reflexivity|]. split.
  - assert (HK : Forall2 Rkv (map (fun f => (fname f, fvalue f)) (filter (route t (all_extra t)) (live g)))
                            (map (fun f => (fname f, fvalue f)) (filter (route t (all_extra t)) (live g')))).
    { apply Rgroup_kv, Rgroup_filter; assumption. }
    induction (known_fields t) as [|kf kfs IH]; [constructor|]. cbn [map]. constructor; [|exact IH]. cbn [fst snd]. split; [reflexivity|].
    rewrite !cwords_convert_dumps. apply (Rkv_lookup _ _ (fst kf) HK).
  - apply Rgroup_kv, Rgroup_filter; [|assumption]. intros e e' He. now rewrite (Hroute e e' He).
Qed.

(* ---------- whole copyright objects ---------- *)

Definition Rpara (p p' : para) : Prop :=
  p_type p = p_type p' /\
  Forall2 (fun kv kv' => fst kv = fst kv' /\ cwords (fval_dumps (snd kv)) = cwords (fval_dumps (snd kv'))) (p_fields p) (p_fields p') /\
  Forall2 Rkv (p_extra p) (p_extra p').

Theorem markers_replaced_object ps ps' : wf_doc_b ps -> wf_doc_b ps' -> Rdoc ps ps' ->
  Forall (fun g => classify g <> PCatchAll /\ NoDup (map fname (live g))) (expected_doc_b 1 ps) ->
  exists paras paras', from_text (doc_text ps) = Ok paras /\ from_text (doc_text ps') = Ok paras' /\ Forall2 Rpara paras paras'.
Proof.
  intros Hw Hw' HR Hg. pose proof (Rdoc_expected ps ps' HR 1) as HE.
  destruct (from_text_total (doc_text ps)) as (paras & E). destruct (from_text_total (doc_text ps')) as (paras' & E').
  exists paras, paras'. split; [exact E|]. split; [exact E'|].
  unfold from_text in E, E'. rewrite wf_doc_b_text_parses in E by exact Hw. rewrite wf_doc_b_text_parses in E' by exact Hw'. cbn [bind] in E, E'.
  assert (Hc : Forall (fun g => classify g <> PCatchAll) (expected_doc_b 1 ps)) by (eapply Forall_impl; [|exact Hg]; now intros g [H _]).
  assert (Hc' : Forall (fun g => classify g <> PCatchAll) (expected_doc_b 1 ps')).
  { clear -HE Hc. induction HE as [|g g' gs gs' Hgg _ IH]; [constructor|]. inversion Hc; subst. constructor; [|now apply IH].
    now rewrite <- (Rgroup_classify g g' Hgg). }
  pose proof (paragraph_per_group _ _ E Hc) as F. pose proof (paragraph_per_group _ _ E' Hc') as F'.
  clear E E' Hc Hc'. revert paras paras' F F' Hg. induction HE as [|g g' gs gs' Hgg _ IH]; intros paras paras' F F' Hg.
  - inversion F; inversion F'; subst. constructor.
  - inversion F as [|? p ? prest [Hp _] Frest]; inversion F' as [|? p' ? prest' [Hp' _] Frest']; subst.
    inversion Hg as [|? ? [_ Hnd] Hg']; subst. constructor; [|now apply IH].
    rewrite <- (Rgroup_classify g g' Hgg) in Hp'. exact (markers_replaced_paragraph _ g g' p p' Hgg Hnd Hp Hp').
Qed.
