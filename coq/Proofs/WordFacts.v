(* Word-level conservation lemmas (C11): the words of a string (str.split()), lone full stops
   excluded, survive every decoder, encoder and field converter. *)
From Coq Require Import String.
From Coq Require Import Arith NArith List Bool Lia ZifyBool ZifyN.
From DI Require Import Result PyStr PyStrFacts Codec CodecFacts Deb822 Debcon Copyright ParseFacts DepsParseFacts Dep5Facts.
Import ListNotations.
Open Scope N_scope.

Definition words (s : str) : list str := split_ws s.
Definition is_dot (w : str) : bool := str_eqb w [46].
Definition cwords (s : str) : list str := filter (fun w => negb (is_dot w)) (words s).

Lemma linebreak_space c : is_linebreak c = true -> is_space c = true.
Proof. unfold is_linebreak, is_space. lia. Qed.

(* ---------- split_ws and concatenation ---------- *)

Lemma split_ws_aux_all_space r : forallb is_space r = true -> forall cur,
  split_ws_aux cur r = match cur with [] => [] | _ => [rev cur] end.
Proof.
  induction r as [|c r IH]; intros H cur; [reflexivity|]. cbn [forallb] in H. apply andb_true_iff in H as [Hc Hr].
  cbn [split_ws_aux]. rewrite Hc. rewrite (IH Hr []). destruct cur; reflexivity.
Qed.

Lemma split_ws_aux_app_space a c b : is_space c = true -> forall cur,
  split_ws_aux cur (a ++ c :: b) = split_ws_aux cur a ++ split_ws_aux [] b.
Proof.
  intros Hc. induction a as [|x a IH]; intros cur; cbn [app split_ws_aux].
  - rewrite Hc. destruct cur; reflexivity.
  - destruct (is_space x).
    + destruct cur; [apply IH|]. cbn [app]. f_equal. apply IH.
    + apply IH.
Qed.

Lemma words_lead_space r b : forallb is_space r = true -> words (r ++ b) = words b.
Proof.
  unfold words, split_ws. induction r as [|c r IH]; intros H; [reflexivity|]. cbn [forallb] in H. apply andb_true_iff in H as [Hc Hr].
  cbn [app split_ws_aux]. rewrite Hc. now apply IH.
Qed.

Lemma words_app_sep a sep b : sep <> [] -> forallb is_space sep = true -> words (a ++ sep ++ b) = words a ++ words b.
Proof.
  intros Hne Hs. destruct sep as [|c sep]; [contradiction|]. cbn [forallb] in Hs. apply andb_true_iff in Hs as [Hc Hs].
  unfold words, split_ws. cbn [app]. rewrite split_ws_aux_app_space by exact Hc. f_equal. now apply words_lead_space.
Qed.

Lemma words_trail_space a r : forallb is_space r = true -> words (a ++ r) = words a.
Proof.
  intros H. destruct r as [|c r]; [now rewrite app_nil_r|]. cbn [forallb] in H. apply andb_true_iff in H as [Hc Hr].
  unfold words, split_ws. rewrite split_ws_aux_app_space by exact Hc. rewrite (split_ws_aux_all_space r Hr []). now rewrite app_nil_r.
Qed.

Lemma words_all_space r : forallb is_space r = true -> words r = [].
Proof. intros H. apply (split_ws_aux_all_space r H []). Qed.

Lemma words_lstrip s : words (lstrip s) = words s.
Proof.
  unfold lstrip, lstrip_by. destruct (drop_while_suffix is_space s) as (a & E & Ha). rewrite E at 2. now rewrite words_lead_space.
Qed.

Lemma words_rstrip s : words (rstrip s) = words s.
Proof.
  unfold rstrip. destruct (rstrip_by_prefix is_space s) as (r & E & Hr). rewrite E at 2. now rewrite words_trail_space.
Qed.

Lemma words_strip s : words (strip s) = words s.
Proof. unfold strip, strip_by. fold (rstrip (lstrip_by is_space s)). rewrite words_rstrip. apply words_lstrip. Qed.

Lemma words_tl_space c l : is_space c = true -> words l = words (c :: l).
Proof. intros H. unfold words, split_ws. cbn [split_ws_aux]. now rewrite H. Qed.

Lemma words_join sep ls : sep <> [] -> forallb is_space sep = true -> words (join sep ls) = flat_map words ls.
Proof.
  intros Hne Hs. induction ls as [|l ls IH]; [reflexivity|]. destruct ls as [|l2 ls].
  - cbn [join flat_map]. now rewrite app_nil_r.
  - rewrite join_cons, words_app_sep by assumption. cbn [flat_map] in *. now rewrite IH.
Qed.

Lemma words_word w : word w -> words w = [w].
Proof. intros [Hne Hn]. now apply split_ws_word_end. Qed.

Lemma words_of_words s : flat_map words (words s) = words s.
Proof.
  pose proof (split_ws_words s) as H. unfold words at 2 3. induction H as [|w ws Hw _ IH]; [reflexivity|].
  cbn [flat_map]. rewrite words_word by exact Hw. now rewrite IH.
Qed.

(* cutting at line boundaries loses no word *)
Lemma words_splitlines_aux lb (Hlb : forall c, lb c = true -> is_space c = true) s : forall skip cur,
  (skip = true -> cur = []) ->
  flat_map words (splitlines_aux lb skip cur s) = words (rev cur ++ s).
Proof.
  induction s as [|c s IH]; intros skip cur Hsk.
  - cbn [splitlines_aux]. rewrite app_nil_r. destruct cur as [|x cur]; [reflexivity|]. cbn [flat_map]. now rewrite app_nil_r.
  - cbn [splitlines_aux]. destruct (skip && (c =? 10)) eqn:Esk.
    + apply andb_true_iff in Esk as [E1 E10]. apply N.eqb_eq in E10. subst c. rewrite (Hsk E1). cbn [rev app].
      rewrite IH by (intros; reflexivity). cbn [rev app]. now apply words_tl_space.
    + destruct (lb c) eqn:El.
      * cbn [flat_map]. rewrite IH by (intros; reflexivity). cbn [rev app].
        change (rev cur ++ c :: s) with (rev cur ++ [c] ++ s). rewrite words_app_sep; [reflexivity|discriminate|].
        cbn [forallb]. now rewrite (Hlb c El).
      * rewrite IH by (intros; discriminate). cbn [rev]. now rewrite <- app_assoc.
Qed.

Lemma words_splitlines s : flat_map words (splitlines s) = words s.
Proof. unfold splitlines, splitlines_by. rewrite words_splitlines_aux; [reflexivity|exact linebreak_space|discriminate]. Qed.

(* ---------- the same without lone full stops ---------- *)

Lemma filter_flat_map {A B} (q : B -> bool) (f : A -> list B) l :
  filter q (flat_map f l) = flat_map (fun x => filter q (f x)) l.
Proof. induction l as [|x l IH]; [reflexivity|]. cbn [flat_map]. now rewrite filter_app, IH. Qed.

Lemma cwords_of (a b : str) : words a = words b -> cwords a = cwords b.
Proof. unfold cwords. now intros ->. Qed.

Lemma cwords_join sep ls : sep <> [] -> forallb is_space sep = true -> cwords (join sep ls) = flat_map cwords ls.
Proof. intros H1 H2. unfold cwords. rewrite words_join by assumption. apply filter_flat_map. Qed.

Lemma cwords_splitlines s : flat_map cwords (splitlines s) = cwords s.
Proof. unfold cwords. rewrite <- filter_flat_map. now rewrite words_splitlines. Qed.

Lemma cwords_strip s : cwords (strip s) = cwords s. Proof. apply cwords_of, words_strip. Qed.
Lemma cwords_lstrip s : cwords (lstrip s) = cwords s. Proof. apply cwords_of, words_lstrip. Qed.
Lemma cwords_rstrip s : cwords (rstrip s) = cwords s. Proof. apply cwords_of, words_rstrip. Qed.

Lemma cwords_blank s : all_space s = true -> cwords s = [].
Proof. intros H. unfold cwords. now rewrite words_all_space. Qed.

(* ---------- continuation-line decoder and encoder ---------- *)

Lemma startswith_cons_true c p s : startswith (c :: p) s = true -> exists s', s = c :: s'.
Proof. destruct s as [|x s]; [discriminate|]. cbn [startswith]. intros H. apply andb_true_iff in H as [H _]. apply N.eqb_eq in H. subst. now eexists. Qed.

Theorem cwords_decode_line l : cwords (decode_line l) = cwords l.
Proof.
  unfold decode_line. rewrite <- (cwords_rstrip l). set (r := rstrip l).
  destruct (startswith [32; 32] r) eqn:E1.
  - apply startswith_cons_true in E1 as (s' & ->). cbn [tl]. apply cwords_of. now apply words_tl_space.
  - destruct (str_eqb r [32; 46]) eqn:E2.
    + apply str_eqb_eq in E2. rewrite E2. reflexivity.
    + destruct (startswith [32; 46] r) eqn:E3.
      * apply startswith_cons_true in E3 as (s' & ->). cbn [tl]. apply cwords_of. now apply words_tl_space.
      * apply cwords_strip.
Qed.

Theorem cwords_from_formatted_lines ls : cwords (from_formatted_lines ls) = flat_map cwords ls.
Proof.
  destruct ls as [|l0 ls]; [reflexivity|]. unfold from_formatted_lines. rewrite cwords_join by (discriminate || reflexivity).
  cbn [flat_map]. rewrite cwords_strip. f_equal. induction ls as [|l ls IH]; [reflexivity|]. cbn [map flat_map].
  now rewrite cwords_decode_line, IH.
Qed.

Theorem cwords_from_formatted_text t : cwords (from_formatted_text t) = cwords t.
Proof. unfold from_formatted_text, line_separated. rewrite cwords_from_formatted_lines. apply cwords_splitlines. Qed.

Theorem cwords_as_formatted_lines ls : cwords (as_formatted_lines ls) = flat_map cwords ls.
Proof.
  unfold as_formatted_lines. rewrite cwords_join by (discriminate || reflexivity). destruct ls as [|l0 ls]; [reflexivity|].
  cbn [fmt_lines flat_map]. f_equal.
  - destruct (all_space l0) eqn:E; [now rewrite (cwords_blank l0 E)|reflexivity].
  - induction ls as [|l ls IH]; [reflexivity|]. cbn [fmt_rest flat_map]. rewrite IH. f_equal.
    destruct (all_space l) eqn:E; [now rewrite (cwords_blank l E)|reflexivity].
Qed.

Theorem cwords_as_formatted_text t : cwords (as_formatted_text t) = cwords t.
Proof. unfold as_formatted_text. rewrite cwords_as_formatted_lines. apply cwords_splitlines. Qed.

(* ---------- the field converters ---------- *)

Lemma cwords_words_join sep ws : sep <> [] -> forallb is_space sep = true -> Forall word ws ->
  words (join sep ws) = ws.
Proof.
  intros H1 H2 H. rewrite words_join by assumption. induction H as [|w ws Hw _ IH]; [reflexivity|].
  cbn [flat_map]. rewrite words_word by exact Hw. now rewrite IH.
Qed.

Lemma words_statement v : words (statement_dumps (statement_from_value v)) = words v.
Proof.
  rewrite statement_spec. pose proof (split_ws_words v) as H. fold (words v) in *. destruct (words v) as [|w rest] eqn:E.
  - reflexivity.
  - inversion H as [|? ? Hw Hr]; subst. destruct (is_year_range w) eqn:Ey.
    + unfold statement_dumps. destruct w as [|c w']; [destruct Hw; contradiction|]. rewrite words_strip.
      rewrite words_app_sep by (discriminate || reflexivity). rewrite words_word by exact Hw.
      now rewrite cwords_words_join by (discriminate || reflexivity || assumption).
    + unfold statement_dumps. rewrite words_strip. now rewrite cwords_words_join by (discriminate || reflexivity || assumption).
Qed.

Lemma lit_sep_space : forallb is_space (lit (String (Ascii.ascii_of_nat 10) "           ")) = true.
Proof. vm_compute. reflexivity. Qed.

Theorem cwords_convert_dumps c raw : cwords (fval_dumps (convert c raw)) = cwords raw.
Proof.
  destruct c; cbn [convert fval_dumps].
  - apply cwords_strip.
  - rewrite cwords_join by (discriminate || reflexivity). rewrite <- (cwords_splitlines raw). unfold line_separated.
    induction (splitlines raw) as [|l ls IH]; [reflexivity|]. cbn [map flat_map]. now rewrite cwords_strip, IH.
  - apply cwords_of. rewrite words_join by (discriminate || reflexivity). apply words_of_words.
  - unfold ftf_dumps, line_separated. rewrite cwords_as_formatted_lines, cwords_splitlines. apply cwords_from_formatted_text.
  - rewrite cwords_strip. rewrite cwords_join; [|discriminate|exact lit_sep_space].
    rewrite <- (cwords_splitlines raw). unfold line_separated.
    induction (splitlines raw) as [|l ls IH]; [reflexivity|]. cbn [map flat_map]. rewrite IH. f_equal.
    apply cwords_of, words_statement.
  - unfold lic_from_value, desc_from_value, line_separated. rewrite <- (cwords_splitlines raw).
    destruct (splitlines raw) as [|l0 ls]; [reflexivity|]. cbn [fval_dumps]. unfold lic_dumps. rewrite cwords_strip.
    unfold desc_dumps. cbv zeta. assert (Hid : strip (strip l0) = strip l0) by apply strip_by_idem. rewrite !Hid. clear Hid.
    destruct (lstrip (from_formatted_lines ls)) as [|x t'] eqn:Et.
    + rewrite cwords_as_formatted_lines. cbn [flat_map]. rewrite app_nil_r, cwords_strip.
      assert (G : cwords (from_formatted_lines ls) = []) by (rewrite <- cwords_lstrip, Et; reflexivity).
      rewrite cwords_from_formatted_lines in G. now rewrite G, app_nil_r.
    + assert (Hx : is_space x = false).
      { unfold lstrip, lstrip_by in Et. now apply drop_while_head in Et. }
      assert (Ex : (x =? 32) = false) by (destruct (N.eqb_spec x 32) as [->|]; [discriminate|reflexivity]).
      rewrite Ex. rewrite cwords_as_formatted_lines. cbn [flat_map]. rewrite cwords_strip, cwords_splitlines.
      rewrite <- Et, cwords_lstrip, cwords_from_formatted_lines. reflexivity.
Qed.
