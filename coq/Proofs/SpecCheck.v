(* C13: the hypothesis of the document theorem as a computable test.  spec_goodb decides spec_good;
   specs_of_text extracts, from a text, the paragraphs as the builder made them.  For every text
   on which the test answers true, the whole render / parse / render statement follows.  The test
   itself is run by the extracted model on every generated document (harness/props/C13.py). *)
From Coq Require Import String.
From Coq Require Import Arith NArith List Bool Lia.
From DI Require Import Result PyStr PyStrFacts Codec CodecFacts Deb822 Deb822Facts Debcon Copyright CopyrightFacts
  Grammar822 Grammar822Facts Grammar822Header Dep5Facts WordFacts ConserveFacts RenderFacts FromDictFacts RoundTripFacts FixpointFacts.
Import ListNotations.
Open Scope N_scope.

Definition name_okb (n : str) : bool :=
  match n with
  | c :: _ => is_ascii_alpha c && forallb (fun x => is_ascii_alnum x || (x =? 45)) n
  | [] => false
  end.

Lemma name_okb_ok n : name_okb n = true -> name_ok n.
Proof.
  unfold name_okb, name_ok. destruct n as [|c r]; [discriminate|]. intros H. apply andb_true_iff in H as [H1 H2]. split; [exact H1|].
  apply Forall_forall. intros x Hx. rewrite forallb_forall in H2. specialize (H2 x Hx). apply orb_true_iff in H2 as [H|H]; [now left|right; now apply N.eqb_eq].
Qed.

Definition renderableb (v : str) : bool :=
  nonempty (vfirst v) && str_eqb (strip (vfirst v)) (vfirst v) && negb (existsb (N.eqb 13) v) &&
  forallb (fun c => is_cont c && str_eqb (rstrip c) c) (vconts v).

Lemma renderableb_ok v : renderableb v = true -> renderable v.
Proof.
  unfold renderableb, renderable. intros H. apply andb_true_iff in H as [H H4]. apply andb_true_iff in H as [H H3]. apply andb_true_iff in H as [H1 H2].
  split; [destruct (vfirst v); [discriminate|discriminate]|]. split; [now apply str_eqb_eq|]. split.
  - intros Hin. apply negb_true_iff in H3. assert (existsb (N.eqb 13) v = true) by (apply existsb_exists; exists 13; split; [exact Hin|reflexivity]). congruence.
  - apply Forall_forall. intros c Hc. rewrite forallb_forall in H4. specialize (H4 c Hc). apply andb_true_iff in H4 as [A B]. split; [exact A|now apply str_eqb_eq].
Qed.

Fixpoint nodupb (l : list str) : bool :=
  match l with
  | [] => true
  | x :: r => negb (mem_str x r) && nodupb r
  end.

Lemma nodupb_ok l : nodupb l = true -> NoDup l.
Proof.
  induction l as [|x r IH]; [constructor|]. cbn [nodupb]. intros H. apply andb_true_iff in H as [H1 H2]. constructor; [|now apply IH].
  intros Hin. apply mem_str_In in Hin. rewrite Hin in H1. discriminate.
Qed.

Definition extra_keys_okb (t : ptype) (E : pydict str) : bool :=
  nodupb (keys E) && forallb (fun k => negb (known_name t k) && negb (existsb (N.eqb 45) k)) (keys E).

Lemma extra_keys_okb_ok t E : extra_keys_okb t E = true -> extra_keys_ok t E.
Proof.
  unfold extra_keys_okb, extra_keys_ok. intros H. apply andb_true_iff in H as [H1 H2]. split; [now apply nodupb_ok|].
  intros k Hk. rewrite forallb_forall in H2. specialize (H2 k Hk). apply andb_true_iff in H2 as [A B]. split; [now apply negb_true_iff|].
  intros Hin. apply negb_true_iff in B. assert (existsb (N.eqb 45) k = true) by (apply existsb_exists; exists 45; split; [exact Hin|reflexivity]). congruence.
Qed.

Definition para_okb (t : ptype) (K E : pydict str) : bool :=
  extra_keys_okb t E &&
  forallb (fun kv => negb (all_space (snd kv))) E &&
  forallb (fun kv => negb (all_space (snd kv)) || negb (nonempty (snd kv))) (KD t K) &&
  forallb (fun kv => renderableb (snd kv) && name_okb (rname (fst kv)) && str_eqb (fname_of (rname (fst kv))) (fst kv)) (live_items t K E) &&
  nonempty (live_items t K E) &&
  forallb (fun kf => str_eqb (RP (snd kf) (RP (snd kf) (lookup (fst kf) K))) (RP (snd kf) (lookup (fst kf) K))) (known_fields t).

Lemma para_okb_ok t K E : para_okb t K E = true -> para_ok t K E.
Proof.
  unfold para_okb. intros H.
  apply andb_true_iff in H as [H H6]. apply andb_true_iff in H as [H H5]. apply andb_true_iff in H as [H H4].
  apply andb_true_iff in H as [H H3]. apply andb_true_iff in H as [H1 H2]. constructor.
  - now apply extra_keys_okb_ok.
  - apply Forall_forall. intros kv Hkv. rewrite forallb_forall in H2. specialize (H2 kv Hkv). now apply negb_true_iff.
  - apply Forall_forall. intros kv Hkv Hs. rewrite forallb_forall in H3. specialize (H3 kv Hkv). rewrite Hs in H3. cbn [negb orb] in H3.
    destruct (snd kv); [reflexivity|discriminate].
  - apply Forall_forall. intros kv Hkv. rewrite forallb_forall in H4. specialize (H4 kv Hkv). apply andb_true_iff in H4 as [H4 C]. apply andb_true_iff in H4 as [A B].
    split; [now apply renderableb_ok|]. split; [now apply name_okb_ok|now apply str_eqb_eq].
  - destruct (live_items t K E); [discriminate|discriminate].
  - apply Forall_forall. intros kf Hkf. rewrite forallb_forall in H6. specialize (H6 kf Hkf). now apply str_eqb_eq.
Qed.

Definition ptype_eqb (a b : ptype) : bool :=
  match a, b with
  | PHeader, PHeader | PFiles, PFiles | PLicense, PLicense | PCatchAll, PCatchAll => true
  | _, _ => false
  end.

Lemma ptype_eqb_eq a b : ptype_eqb a b = true -> a = b.
Proof. destruct a, b; (reflexivity || discriminate). Qed.

(* the paragraph type read off the names only: independent of the line numbers *)
Lemma classify_names fs fs' : map f_name fs = map f_name fs' -> classify fs = classify fs'.
Proof.
  intros E. unfold classify.
  assert (G : forall n, existsb (fun f => str_eqb (f_name f) n) fs = existsb (fun f => str_eqb (f_name f) n) fs').
  { intros n. revert fs' E. induction fs as [|f fs IH]; intros [|f' fs'] E; try discriminate; [reflexivity|]. cbn [map] in E. inversion E as [[E1 E2]].
    cbn [existsb]. rewrite E1. f_equal. now apply IH. }
  now rewrite !G.
Qed.

Lemma expected_para_names G : forall n m, map f_name (expected_para n G) = map f_name (expected_para m G).
Proof. induction G as [|g G IH]; intros n m; [reflexivity|]. cbn [expected_para map expected_field f_name]. f_equal. apply IH. Qed.

Definition spec_goodb (s : spec) : bool :=
  para_okb (s_type s) (s_known s) (s_extra s) &&
  negb (ptype_eqb (s_type s) PCatchAll) &&
  ptype_eqb (classify (expected_para 1 (srendered s))) (s_type s).

Theorem spec_goodb_ok s : spec_goodb s = true -> spec_good s.
Proof.
  unfold spec_goodb, spec_good. intros H. apply andb_true_iff in H as [H H3]. apply andb_true_iff in H as [H1 H2].
  split; [now apply para_okb_ok|]. split.
  - intros E. rewrite E in H2. discriminate.
  - intros n. rewrite (classify_names _ _ (expected_para_names (srendered s) n 1)). now apply ptype_eqb_eq.
Qed.

(* ---------- the paragraphs of a text as the builder made them ---------- *)

Definition spec_of_group (g : list field) : result spec :=
  let t := classify g in
  do b <- add_fields t (all_extra t) (mkB [] [] [] [] 1) g;
  Ok (mkSpec t (b_known b) (b_extra b) (b_lines b)).

Definition specs_of_text (t : str) : result (list spec) :=
  do gs <- groups t; mapM spec_of_group gs.

Lemma spec_of_group_builds g s : spec_of_group g = Ok s -> from_fields (classify g) g = Ok (build s) /\ s_type s = classify g.
Proof.
  unfold spec_of_group, from_fields. fold (all_extra (classify g)). destruct (add_fields _ _ _ g) as [b|e]; cbn [bind]; [|discriminate].
  intros H. apply Ok_inj in H. subst s. split; reflexivity.
Qed.

Theorem from_text_specs t specs : specs_of_text t = Ok specs -> Forall (fun s => s_type s <> PCatchAll) specs ->
  from_text t = Ok (map build specs).
Proof.
  unfold specs_of_text, from_text. destruct (groups t) as [gs|e]; cbn [bind]; [|discriminate]. intros H Hnc.
  assert (F : Forall2 (fun g s => spec_of_group g = Ok s) gs specs) by (eapply mapM_shape; [|exact H]; auto).
  assert (F1 : Forall2 (fun g p => from_fields (classify g) g = Ok p) gs (map build specs)).
  { clear -F. induction F as [|g s gs specs Hs _ IH]; cbn [map]; constructor; [now apply spec_of_group_builds|exact IH]. }
  unfold from_groups. rewrite (mapM_Forall2 _ _ _ F1). cbn [bind].
  assert (Hc : Forall (fun p => is_catchall p = false) (map build specs)).
  { rewrite Forall_map. eapply Forall_impl; [|exact Hnc]. intros s Hs. unfold is_catchall, build, build_para. cbn [p_type]. destruct (s_type s) eqn:Et; try reflexivity. exfalso. now apply Hs. }
  rewrite merge_unknown_id by exact Hc. unfold fold_license. rewrite fold_list_id by exact Hc. now destruct (Nat.leb _ 2).
Qed.

(* for every text on which the test answers true: the object, its rendering, the object parsed
   back from the rendering (same types, same dictionary forms) and the same text rendered again *)
Theorem text_render_fixpoint t specs : specs_of_text t = Ok specs -> specs <> [] -> forallb spec_goodb specs = true ->
  from_text t = Ok (map build specs) /\
  exists ps', from_text (doc_dumps (map build specs)) = Ok ps' /\
    Forall2 (fun p p' => p_type p' = p_type p /\ para_to_dict p' = para_to_dict p) (map build specs) ps' /\
    doc_dumps ps' = doc_dumps (map build specs).
Proof.
  intros Hs Hne Hb.
  assert (Hg : Forall spec_good specs).
  { apply Forall_forall. intros s Hin. rewrite forallb_forall in Hb. apply spec_goodb_ok. now apply Hb. }
  split.
  - apply from_text_specs; [exact Hs|]. eapply Forall_impl; [|exact Hg]. now intros s (_ & H & _).
  - now apply doc_roundtrip_fixpoint.
Qed.

(* what the harness asks the model: does the test hold on this text? *)
Definition c13_test (t : str) : result bool :=
  do specs <- specs_of_text t; Ok (nonempty specs && forallb spec_goodb specs).
