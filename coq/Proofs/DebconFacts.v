(* Proofs for C08 (and C06): the header-style parser keeps the text; merging of repeated names. *)
From Coq Require Import String.
From Coq Require Import Arith NArith List Bool Lia.
From DI Require Import Result PyStr PyStrFacts Email Debcon CopyrightFacts.
Import ListNotations.
Open Scope N_scope.

(* ---------- nothing is lost when the text is cut into lines ---------- *)

Lemma splitlines_keep_concat_n lb n : forall s, (length s <= n)%nat ->
  forall cur, concat (splitlines_keep_aux lb cur s) = rev cur ++ s.
Proof.
  induction n as [|n IH]; intros s Hl cur.
  - destruct s; [|simpl in Hl; lia]. cbn [splitlines_keep_aux]. destruct cur as [|x cur]; [reflexivity|].
    cbn [concat]. now rewrite !app_nil_r.
  - destruct s as [|c s]; cbn [splitlines_keep_aux].
    + destruct cur as [|x cur]; [reflexivity|]. cbn [concat]. now rewrite !app_nil_r.
    + simpl in Hl. destruct (lb c).
      * assert (Hgen : concat (rev (c :: cur) :: splitlines_keep_aux lb [] s) = rev cur ++ c :: s).
        { cbn [concat]. rewrite (IH s ltac:(lia) []). cbn [rev app]. now rewrite <- app_assoc. }
        destruct (N.eqb_spec c 13) as [->|Hc].
        -- destruct s as [|d s']; [exact Hgen|].
           destruct (N.eqb_spec d 10) as [->|Hd].
           ++ cbn [concat]. rewrite (IH s' ltac:(simpl in Hl; lia) []). cbn [rev app]. now rewrite <- !app_assoc.
           ++ destruct d as [|p]; [exact Hgen|]. repeat (destruct p as [p|p|]; try exact Hgen). contradiction.
        -- destruct c as [|p]; [exact Hgen|]. repeat (destruct p as [p|p|]; try exact Hgen). contradiction.
      * rewrite (IH s ltac:(lia) (c :: cur)). cbn [rev]. now rewrite <- app_assoc.
Qed.

Lemma splitlines_keep_concat lb s cur : concat (splitlines_keep_aux lb cur s) = rev cur ++ s.
Proof. apply (splitlines_keep_concat_n lb (length s)). lia. Qed.

Theorem crack_concat t : concat (crack t) = t.
Proof. apply (splitlines_keep_concat is_lf_cr t []). Qed.

(* header lines, the dropped separator line and the body make up the text *)
Lemma split_headers_concat ls :
  let '(h, b, d) := split_headers ls in
  exists sep, concat ls = concat h ++ sep ++ concat b /\ (sep = [] \/ starts_nl sep = true).
Proof.
  induction ls as [|l rest IH]; cbn [split_headers].
  - exists []. split; [reflexivity|now left].
  - destruct (header_re l).
    + destruct (split_headers rest) as [[h b] d]. destruct IH as (sep & E & Hs). exists sep. split; [|exact Hs].
      cbn [concat]. rewrite E. now rewrite <- app_assoc.
    + destruct (starts_nl l) eqn:En.
      * exists l. split; [reflexivity|now right].
      * exists []. split; [reflexivity|now left].
Qed.

(* ---------- the "unknown" paths keep the whole text ---------- *)

Theorem unknown_keeps_text t :
  t <> [] ->
  (m_items (parse_message t) = [] \/ m_defects (parse_message t) = true \/
   m_unixfrom (parse_message t) = true \/ m_container (parse_message t) = true) ->
  get_paragraph_data t = [(unknown_key, t)].
Proof.
  intros Hne H. unfold get_paragraph_data. destruct t as [|c t']; [contradiction|]. set (t := c :: t') in *.
  destruct (m_items (parse_message t)) as [|i is_] eqn:Ei; [reflexivity|].
  destruct H as [H|[H|[H|H]]]; [discriminate| | |]; rewrite H; rewrite ?orb_true_r; reflexivity.
Qed.

Theorem empty_text : get_paragraph_data [] = [(unknown_key, [])].
Proof. reflexivity. Qed.

(* ---------- merging of repeated names ---------- *)

Definition single_line (v : str) : Prop := Forall (fun c => is_linebreak c = false) v /\ strip v = v /\ v <> [].

(* the merged value of a key: its distinct values joined by LF, in order of first appearance *)
Fixpoint dedup (l : list str) : list str :=
  match l with
  | [] => []
  | x :: l' => x :: filter (fun y => negb (str_eqb x y)) (dedup l')
  end.

Lemma splitlines_single v : single_line v -> splitlines v = [v].
Proof.
  intros (Hn & _ & Hne). apply (splitlines_join is_linebreak [v]); [reflexivity|repeat constructor; assumption|discriminate|exact Hne].
Qed.

Lemma dict_get_put_eq {V} k (v : V) d : dict_get k (dict_put k v d) = Some v.
Proof.
  induction d as [|[k' v'] d IH]; cbn; [now rewrite str_eqb_refl|].
  destruct (str_eqb k k') eqn:E; cbn; rewrite E; [reflexivity|exact IH].
Qed.

Lemma dict_get_put_neq {V} k k' (v : V) d : str_eqb k' k = false -> dict_get k' (dict_put k v d) = dict_get k' d.
Proof.
  intros H. induction d as [|[k2 v2] d IH]; cbn; [now rewrite H|].
  destruct (str_eqb k k2) eqn:E; cbn.
  - apply str_eqb_eq in E. subst k2. now rewrite H.
  - destruct (str_eqb k' k2); [reflexivity|exact IH].
Qed.

(* the values already merged under a key, as a list *)
Definition merged (k : str) (data : pydict str) : list str :=
  match dict_get k data with Some v => splitlines v | None => [] end.

(* one more item: a value already present is skipped, a new one is appended *)
Theorem merge_step name value rest data :
  let k := strip (lower_ascii name) in
  let v := strip value in
  merge_items ((name, value) :: rest) data =
  match dict_get k data with
  | Some existing =>
      if mem_str v (splitlines existing) then merge_items rest data
      else merge_items rest (dict_put k (join [10] (splitlines existing ++ [v])) data)
  | None => merge_items rest (dict_put k v data)
  end.
Proof. reflexivity. Qed.

Lemma splitlines_join_lines ls : Forall (fun v => Forall (fun c => is_linebreak c = false) v) ls ->
  ls <> [] -> last ls [0] <> [] -> splitlines (join [10] ls) = ls.
Proof. intros. now apply (splitlines_join is_linebreak). Qed.

(* the invariant: what is stored under a key is the LF-join of distinct single-line values *)
Definition key_ok (data : pydict str) (k : str) (vs : list str) : Prop :=
  (vs = [] /\ dict_get k data = None) \/
  (vs <> [] /\ dict_get k data = Some (join [10] vs) /\ Forall single_line vs).

Lemma key_ok_merged data k vs : key_ok data k vs -> merged k data = vs.
Proof.
  intros [[-> H]|(Hne & H & Hs)]; unfold merged; rewrite H; [reflexivity|].
  apply splitlines_join_lines.
  - eapply Forall_impl; [|exact Hs]. now intros v (Hv & _).
  - exact Hne.
  - destruct (exists_last Hne) as (l' & x & ->). rewrite last_last.
    apply Forall_app in Hs as [_ Hx]. inversion Hx as [|? ? (_ & _ & Hxne) _]; subst. exact Hxne.
Qed.

(* adding one single-line value under key k *)
Theorem merge_one data k vs v :
  key_ok data k vs -> single_line v ->
  let data' := match dict_get k data with
               | Some existing =>
                   if mem_str v (splitlines existing) then data
                   else dict_put k (join [10] (splitlines existing ++ [v])) data
               | None => dict_put k v data
               end in
  key_ok data' k (if mem_str v vs then vs else vs ++ [v]).
Proof.
  intros Hk Hv. pose proof (key_ok_merged data k vs Hk) as Hm. unfold merged in Hm.
  destruct Hk as [[-> H]|(Hne & H & Hs)]; rewrite H in *; cbv zeta.
  - cbn [mem_str app]. right. split; [discriminate|]. split; [apply dict_get_put_eq|constructor; [exact Hv|constructor]].
  - rewrite Hm. destruct (mem_str v vs) eqn:Em.
    + right. repeat split; assumption.
    + right. split; [intros E; apply app_eq_nil in E as [_ E]; discriminate|].
      split; [apply dict_get_put_eq|]. apply Forall_app. split; [exact Hs|constructor; [exact Hv|constructor]].
Qed.
